(** C17 specification (definitions only; proofs in SliceProofs.v / ViewProofs.v).

    SLICES.  Every dimension of the array has coordinates  x_0, x_1, ...  (the doubles the library's
    own descriptor yields: sampled  fl(fl(i*interval) + offset);  range  the ticks;  set / data frame
    the index itself), as many as the descriptor defines ([dim_n]; see AxisSpec.v).  A request gives,
    for the first k dimensions, a start and an end position and optionally a unit.  Converted into the
    dimension's unit (multiplication by the unit factor) they denote the REGION

        { i | x_i exists,  start <= x_i <= end }      inclusive
        { i | x_i exists,  start <= x_i <  end }      exclusive

    A request with start = end is a point request and denotes the closed point interval in both
    modes (pinned by the repository's testDataSlice; the same convention as a tag without extent).
    Dimensions beyond k are unspecified: the region is the whole dimension, 0 .. shape_d - 1.
    The slice is the product of the regions.  It is an error when start > end, when the units are
    of different base, when a region is empty, and when a region contains an index outside the
    data ([0, shape_d)).  Nothing else is an error.

    [spec_slice] is the brute-force evaluator (it scans the indices 0 .. shape_d of every dimension)
    that the model driver prints as the oracle's answer; SliceProofs.v proves it equal to the Prop-level
    reading ([region]) on monotone axes and proves the repaired model equal to it.

    VIEWS.  A view is (origin, window).  A request (count, offset) - an empty count means the whole
    window, an empty offset means zeros - is inside when  offset_d + count_d <= window_d  for every d
    OVER THE INTEGERS.  Inside: a read returns the array's cells at origin + offset + r for r in the
    count box, row-major; a write stores the buffer there and changes nothing else.  Not inside:
    OutOfBounds, nothing transferred. *)
From Coq Require Import ZArith Bool String List.
From Flocq Require Import Core BinarySingleNaN.
Require Import NixV.Base.Prelude NixV.Base.F64 NixV.Gen.GenDimensions NixV.Gen.GenTables
               NixV.Axis.AxisSpec NixV.Data.NDIndex NixV.Data.NDArr
               NixV.Access.SliceSwitches NixV.Access.View NixV.Access.Slice.
Import ListNotations.
Local Open Scope string_scope.
Local Open Scope list_scope.
Local Open Scope bool_scope.
Local Open Scope Z_scope.

(** * Coordinates of a dimension *)

Definition dim_x (d : dim) : Z -> F64 :=
  match d with
  | DSampled dt off _ => x_sampled dt (off_or0 off)
  | DRange ticks _ => x_ticks ticks
  | DSet _ => x_int
  | DFrame _ => x_int
  end.

Definition dim_n (d : dim) : option Z :=
  match d with
  | DSampled _ _ _ => Some (AXIS_MAX + 1)
  | DRange ticks _ => Some (zlen ticks)
  | DSet labels => n_count (zlen labels)
  | DFrame rows => n_count rows
  end.

(** * Requests *)

Inductive req :=
| RFull                                   (* unspecified dimension *)
| RInt (s e : F64) (incl : bool).         (* positions in the dimension's unit *)

(** index [i] belongs to the region of request [r] in a dimension of [n] elements *)
Definition in_req (d : dim) (n : Z) (r : req) (i : Z) : bool :=
  match r with
  | RFull => (0 <=? i) && (i <? n)
  | RInt s e incl =>
      inaxb (dim_n d) i && fle s (dim_x d i) && (if incl then fle (dim_x d i) e else flt (dim_x d i) e)
  end.

Definition region (d : dim) (n : Z) (r : req) (i : Z) : Prop := in_req d n r i = true.

(** the unit factor: prefix factors of the generated table, 1.0 without prefix *)
Definition factor (p : string) : F64 :=
  if is_empty p then f64_one else match prefix_value p with Ok f => f | _ => f64_nan end.

(** [Some f]: positions are multiplied by [f];  [None]: the dimension has no unit concept (set, data frame)
    and positions are taken as given.  A unit on a dimension without unit is ignored, as the code does. *)
Definition spec_factor (u : unit_t) (d : dim) : res (option F64) :=
  match d with
  | DSet _ => Ok None
  | DFrame _ => Ok None
  | _ =>
      match u, dim_unit d with
      | Some a, Some b =>
          if String.eqb (snd a) (snd b) then Ok (Some (fdiv (factor (fst a)) (factor (fst b))))
          else Err "units of different base unit"
      | _, _ => Ok (Some f64_one)
      end
  end.

Definition scaled (f : option F64) (x : F64) : F64 := match f with Some f => fmul x f | None => x end.

Definition is_incl (rm : RangeMatch) : bool := RangeMatch_beq rm RangeMatch_Inclusive.

(** the request of one specified dimension *)
Definition spec_req (d : dim) (s e : F64) (u : unit_t) (rm : RangeMatch) : res req :=
  if fgt s e then Err "start > end"
  else bind (spec_factor u d) (fun f => Ok (RInt (scaled f s) (scaled f e) (is_incl rm || feq s e))).

(** * The brute-force evaluator *)

Definition zseq (a n : Z) : list Z := map (fun k => a + Z.of_nat k) (seq 0 (Z.to_nat n)).

(** scan 0 .. n-1 for the members; index n (the first one outside the data) tells whether the region
    leaves the data (on a monotone axis a non-empty region that leaves the data contains n) *)
Definition spec_dim (d : dim) (n : Z) (r : req) : res (list Z) :=
  match r with
  | RFull => Ok (zseq 0 n)
  | RInt _ _ _ =>
      match filter (in_req d n r) (zseq 0 n) with
      | [] => Err "no coordinate of the data lies in the interval"
      | sel => if in_req d n r n then Err "the region leaves the data" else Ok sel
      end
  end.

Definition spec_slice_dim (dims : list dim) (shape : list Z) (start end_ : list F64) (units : list unit_t)
                          (rm : RangeMatch) (i : nat) : res (list Z) :=
  match nth_error dims i, nth_error shape i with
  | Some d, Some n =>
      match nth_error start i, nth_error end_ i with
      | Some s, Some e => bind (spec_req d s e (nth i units None) rm) (spec_dim d n)
      | None, None => Ok (zseq 0 n)
      | _, _ => Err "half-specified dimension"
      end
  | _, _ => Err "descriptors do not match the data"
  end.

(** per dimension the selected indices, ascending *)
Definition spec_slice (dims : list dim) (shape : list Z) (start end_ : list F64) (units : list unit_t)
                      (rm : RangeMatch) : res (list (list Z)) :=
  if (List.length dims <? List.length start)%nat || (List.length dims <? List.length end_)%nat
     || (List.length dims <? List.length units)%nat
  then Err "more entries than dimensions"
  else mapM (spec_slice_dim dims shape start end_ units rm) (seq 0 (List.length dims)).

(** the requests the specification judges: as many start as end positions, units only for given
    positions, one descriptor per data dimension, 1 <= shape_d <= 2^53 *)
Definition spec_domain (dims : list dim) (shape : list Z) (start end_ : list F64) (units : list unit_t) : bool :=
  Nat.eqb (List.length dims) (List.length shape) && Nat.eqb (List.length start) (List.length end_)
  && (List.length units <=? List.length start)%nat
  && forallb (fun n => (1 <=? n) && (n <=? AXIS_MAX)) shape.

(** the product of the per-dimension index lists, row-major (first dimension slowest), as flat element ids *)
Fixpoint cart (ls : list (list Z)) : list (list Z) :=
  match ls with
  | [] => [[]]
  | l :: r => flat_map (fun x => map (cons x) (cart r)) l
  end.

Definition spec_ids (shape : list Z) (ls : list (list Z)) : list Z := map (ravel shape) (cart ls).

(** the box (offset, count) as per-dimension index lists *)
Definition box_lists (off cnt : list Z) : list (list Z) := map2 zseq off cnt.

(** * positionAndExtentInData: the non-empty box [pos, pos + cnt) lies in the data (over the integers) *)
Definition spec_in_data (extent pos cnt : list Z) : bool :=
  fits extent pos cnt && forallb (fun c => 1 <=? c) cnt.

(** * Views *)

Definition real_offset (v : view) (off : list Z) : list Z :=
  match off with [] => repeat 0 (List.length (v_count v)) | _ :: _ => off end.

(** the request lies inside the window: offset_d + count_d <= window_d, over the integers *)
Definition inside_window (v : view) (cnt off : list Z) : bool :=
  fits (v_count v) (real_offset v off) (real_count v cnt).

Definition spec_mk_view (extent cnt off : list Z) : res view :=
  if fits extent off cnt then Ok (mkView off cnt) else Err oob.

Definition spec_view_read (v : view) (a : arr) (cnt off : list Z) : res (list V) :=
  if inside_window v cnt off
  then Ok (tab (real_count v cnt) (fun r => get a (vadd (vadd (v_offset v) (real_offset v off)) r)))
  else Err oob.

Definition spec_view_write (v : view) (a : arr) (cnt off : list Z) (gen : nat -> V) : res arr :=
  if inside_window v cnt off
  then
    let base := vadd (v_offset v) (real_offset v off) in
    let rc := real_count v cnt in
    Ok (with_data a (a_shape a)
          (tab (a_shape a) (fun i => if in_slab base rc i then gen (Z.to_nat (ravel rc (vsub i base))) else get a i)))
  else Err oob.

(** * Value transfers through a view (the templates getData(value, offset) / setData(value, offset))

    A scalar value ([vshape] = []) stands for exactly ONE element: a count of ones.  With an empty offset that is the
    element at the window origin.  A vector value of n elements is the count [n].  The outcome is the one of the
    corresponding (count, offset) request: the elements or OutOfBounds - never an access outside the value. *)
Definition spec_value_count (v : view) (vshape : list Z) : list Z :=
  match vshape with [] => repeat 1 (List.length (v_count v)) | _ :: _ => vshape end.

Definition spec_get_value (v : view) (a : arr) (vshape off : list Z) : res (list V) :=
  spec_view_read v a (spec_value_count v vshape) off.

Definition spec_set_value (v : view) (a : arr) (vshape off : list Z) (gen : nat -> V) : res arr :=
  spec_view_write v a (spec_value_count v vshape) off gen.

(** * The typed template routes through a view (every Hydra container kind)

    getData(value): the value is resized to the window by its container's rule and receives the window;
    getData(value, count, offset): the value is resized to [count] and receives the (count, offset) request, an empty
    count being ONE element (a value of rank 0 holds one);  in both cases exactly as many elements as the value holds
    after the resize are transferred, or the call throws.  setData(value): a view cannot be resized - refused. *)
Definition spec_tgetall (v : view) (a : arr) (r : route) : res (list Z * list V) :=
  bind (route_resize r (v_count v)) (fun ext =>
  bind (spec_view_read v a (route_shape r ext) []) (fun vals => Ok (ext, vals))).

Definition spec_tget3 (v : view) (a : arr) (r : route) (cnt off : list Z) : res (list Z * list V) :=
  bind (route_resize r cnt) (fun ext =>
  bind (spec_view_read v a (match cnt with [] => repeat 1 (List.length (v_count v)) | _ :: _ => cnt end) off) (fun vals =>
  Ok (ext, vals))).

(** util::positionInData: the one-element box at [pos] lies in the data *)
Definition spec_pos_in_data (extent pos : list Z) : bool := fits extent pos (repeat 1 (List.length pos)).
