(** C05 / C06 — the decidable domain check [dim_dom] of RetrievalSpec.v yields the facts the proofs use
    about an axis ([axis_ok]): finite, non-decreasing coordinates, strictly increasing on the stored part,
    and a conversion that meets the rule specification of C07.  The sampled conversion is the theorem
    [sampled_index_spec] of Axis/SampledProofs.v; for the other three kinds the statements of exactly
    that shape are the premise [conversions_meet_spec]. *)
From Coq Require Import ZArith Bool String List Reals Lia Lra.
From Flocq Require Import Core BinarySingleNaN.
Require Import NixV.Base.Prelude NixV.Base.F64 NixV.Base.F64Facts NixV.Gen.GenDimensions.
Require Import NixV.Axis.RangeModel NixV.Axis.AxisSpec NixV.Axis.SampledHand NixV.Axis.SampledProofs.
Require Import NixV.Access.Retrieval NixV.Access.RetrievalSpec NixV.Access.RetrievalFacts NixV.Access.RetrievalAxis.
Import ListNotations.
Local Open Scope list_scope.
Local Open Scope Z_scope.

(** the three conversion theorems of C07 that this development takes as premises (same shape as
    [sampled_index_spec]) *)
Definition set_conversion_meets_spec : Prop :=
  forall p labels m, finite p -> (B2R p < IZR P52)%R -> zlen labels <= AXIS_MAX ->
  exists r, getSetIndex p labels m = Ok r /\ rule_spec x_int (n_count (zlen labels)) m p r.
Definition frame_conversion_meets_spec : Prop :=
  forall p k m, finite p -> (B2R p < IZR P52)%R -> 0 <= k <= AXIS_MAX ->
  exists r, getDataFrameIndex p k m = Ok r /\ rule_spec x_int (n_count k) m p r.
Definition range_conversion_meets_spec : Prop :=
  forall ticks p m, finite p ->
  (forall i, 0 <= i < zlen ticks -> finite (tick_at ticks i)) ->
  (forall i j, 0 <= i < j -> j < zlen ticks -> (B2R (tick_at ticks i) < B2R (tick_at ticks j))%R) ->
  exists r, getIndex p ticks m = Ok r /\ rule_spec (x_ticks ticks) (Some (zlen ticks)) m p r.
Definition conversions_meet_spec : Prop :=
  set_conversion_meets_spec /\ frame_conversion_meets_spec /\ range_conversion_meets_spec.

(* ------------------------------------------------------------------------------------------ *)
(** * ascending lists *)

Lemma ascending_adjacent : forall l k, ascending l = true -> (S k < List.length l)%nat ->
  flt (nth k l f64_nan) (nth (S k) l f64_nan) = true.
Proof.
  induction l as [|a l IH]; intros k H Hk; [cbn in Hk; lia|].
  destruct l as [|b l]; [cbn in Hk; lia|].
  cbn [ascending] in H. apply andb_true_iff in H. destruct H as [Hab Hr].
  destruct k as [|k]; [exact Hab|].
  change (nth (S k) (a :: b :: l) f64_nan) with (nth k (b :: l) f64_nan).
  change (nth (S (S k)) (a :: b :: l) f64_nan) with (nth (S k) (b :: l) f64_nan).
  apply IH; [exact Hr|cbn in *; lia].
Qed.

Lemma ascending_strict l : ascending l = true ->
  (forall k, (k < List.length l)%nat -> finite (nth k l f64_nan)) ->
  forall i j, (i < j)%nat -> (j < List.length l)%nat -> (B2R (nth i l f64_nan) < B2R (nth j l f64_nan))%R.
Proof.
  intros H F i j Hij Hj. induction j as [|j IH]; [lia|].
  assert (St : (B2R (nth j l f64_nan) < B2R (nth (S j) l f64_nan))%R).
  { apply (flt_true _ _ (F j ltac:(lia)) (F (S j) Hj)). apply ascending_adjacent; assumption. }
  destruct (Nat.eq_dec i j) as [->|Hne]; [exact St|].
  specialize (IH ltac:(lia) ltac:(lia)). lra.
Qed.

Lemma forallb_nth {A} (f : A -> bool) l d : forallb f l = true -> forall k, (k < List.length l)%nat -> f (nth k l d) = true.
Proof. intros H k Hk. rewrite forallb_forall in H. apply H. apply nth_In. exact Hk. Qed.

(* ------------------------------------------------------------------------------------------ *)
(** * powers of two as doubles *)

Lemma ofME_pow2 (e : Z) : 0 <= e < 1024 -> B2R (ofME 1 e) = bpow radix2 e /\ finite (ofME 1 e).
Proof.
  intro He. unfold ofME, finite.
  pose proof (binary_normalize_correct prec emax Hprec Hmax mode_NE 1 e false) as H. cbv zeta in H.
  assert (E : F2R (Float radix2 1 e) = bpow radix2 e) by (unfold F2R; simpl; lra).
  rewrite E in H.
  assert (G : generic_format radix2 fexp (bpow radix2 e)).
  { apply generic_format_bpow. unfold fexp, FLT_exp, emin, emax, prec. lia. }
  change (SpecFloat.fexp prec emax) with fexp in H.
  rewrite (round_generic radix2 fexp _ _ G) in H.
  rewrite Rlt_bool_true in H.
  - destruct H as (H1 & H2 & _). split; assumption.
  - rewrite Rabs_pos_eq by (apply bpow_ge_0). apply bpow_lt. unfold emax. lia.
Qed.

(* ------------------------------------------------------------------------------------------ *)
(** * integer axes *)

Lemma x_int_R i : 0 <= i <= AXIS_MAX -> B2R (x_int i) = IZR i /\ finite (x_int i).
Proof. intro H. apply ofZ_exact. unfold AXIS_MAX in H. lia. Qed.

Lemma zlen_labels_of n : 0 <= n -> zlen (labels_of n) = n.
Proof. intro H. unfold labels_of, zrepeat, zlen. rewrite repeat_length. lia. Qed.

Lemma P52_R : IZR P52 = bpow radix2 52.
Proof. unfold P52. change 4503599627370496 with (Zpower radix2 52). rewrite IZR_Zpower by lia. reflexivity. Qed.

(* ------------------------------------------------------------------------------------------ *)
(** * dim_dom -> axis_ok *)

(** the facts, with the conversion part under a guard [G] so that the same proof also yields the purely
    arithmetical part (G := False) without any premise about the conversions *)
Definition axis_facts (G : Prop) (d : dimd) (sh : Z) : Prop :=
  1 <= sh <= alen d /\ alen d <= AXIS_MAX + 1 /\
  (forall i, 0 <= i < alen d -> finite (coord d i)) /\
  (forall i j, 0 <= i <= j -> j < alen d -> (B2R (coord d i) <= B2R (coord d j))%R) /\
  (forall i j, 0 <= i < j -> j <= sh -> j < alen d -> (B2R (coord d i) < B2R (coord d j))%R) /\
  (G -> forall p m, finite p -> conv_dom d p ->
        exists r, indexOf_scalar d p m = Ok r /\ rule_spec (coord d) (Some (alen d)) m p r).

Lemma dim_dom_axis_facts (G : Prop) d sh : (G -> conversions_meet_spec) -> dim_dom d sh = true -> axis_facts G d sh.
Proof.
  intros HC H. unfold dim_dom in H.
  repeat (apply andb_true_iff in H; destruct H as [H ?]).
  apply Z.leb_le in H. rename H into Hsh1. rename H2 into Hsh52. rename H3 into Hsha. rename H0 into Hd. clear H1.
  apply Z.leb_le in Hsha, Hsh52.
  destruct d as [dt off u|ticks u|n|n].
  - (* sampled *)
    repeat (apply andb_true_iff in Hd; destruct Hd as [Hd ?]).
    rename Hd into Fdt. rename H into Hasc. rename H0 into Hoff. rename H1 into Hdt900. rename H2 into Foff. rename H3 into Hpos.
    set (o := offset_or_zero off) in *.
    change (fis_finite dt = true) with (finite dt) in Fdt. change (fis_finite o = true) with (finite o) in Foff.
    destruct fzero_R as [Z0 FZ0].
    assert (Pdt : (0 < B2R dt)%R) by (apply (flt_true _ _ FZ0 Fdt) in Hpos; rewrite Z0 in Hpos; exact Hpos).
    destruct (ofME_pow2 900 ltac:(lia)) as [E900 F900]. destruct (ofME_pow2 1000 ltac:(lia)) as [E999 F999].
    assert (Hfin : axis_finite dt o).
    { apply axis_finite_small; try assumption.
      - rewrite Rabs_pos_eq by lra. apply (fle_true _ _ Fdt F900) in Hdt900. rewrite E900 in Hdt900. exact Hdt900.
      - assert (Fa : finite (fabs o)) by (unfold finite, fabs; rewrite is_finite_Babs; exact Foff).
        apply (fle_true _ _ Fa F999) in Hoff. rewrite E999 in Hoff. unfold fabs in Hoff. rewrite B2R_Babs in Hoff.
        exact Hoff. }
    assert (Fc : forall i, 0 <= i < AXIS_MAX + 1 -> finite (x_sampled dt o i)).
    { intros i Hi. apply Hfin. unfold MAXI, AXIS_MAX in *. lia. }
    unfold axis_facts; cbn [alen coord]; fold o; (split; [|split; [|split; [|split; [|split]]]]).
    + cbn [alen] in Hsha. lia.
    + lia.
    + exact Fc.
    + intros i j Hij Hj. apply (x_sampled_mono dt o Fdt Foff ltac:(lra) Hfin); unfold MAXI, AXIS_MAX in *; lia.
    + intros i j Hij Hj Hja.
      set (cs := map (coord (DSampled dt off u)) (ziota (sh + 1))) in *.
      assert (L : List.length cs = Z.to_nat (sh + 1)) by (unfold cs; rewrite map_length, ziota_length; reflexivity).
      assert (Nth : forall k, (k < Z.to_nat (sh + 1))%nat -> nth k cs f64_nan = x_sampled dt o (Z.of_nat k)).
      { intros k Hk. unfold cs. rewrite (nth_indep _ f64_nan (coord (DSampled dt off u) 0)) by (rewrite map_length, ziota_length; exact Hk).
        rewrite map_nth. rewrite nth_ziota by exact Hk. reflexivity. }
      assert (Fk : forall k, (k < List.length cs)%nat -> finite (nth k cs f64_nan)).
      { intros k Hk. rewrite L in Hk. rewrite Nth by exact Hk. apply Fc. unfold P52, AXIS_MAX in *. lia. }
      pose proof (ascending_strict cs Hasc Fk (Z.to_nat i) (Z.to_nat j) ltac:(lia) ltac:(rewrite L; lia)) as St.
      rewrite !Nth in St by lia. replace (Z.of_nat (Z.to_nat i)) with i in St by lia.
      replace (Z.of_nat (Z.to_nat j)) with j in St by lia. exact St.
    + intros _ p m Fp _. cbn [indexOf_scalar]. fold o.
      apply (sampled_index_spec p o dt m Fp Foff Fdt Pdt Hfin).
  - (* range *)
    repeat (apply andb_true_iff in Hd; destruct Hd as [Hd ?]).
    rename Hd into Hfin. rename H into Hlen. rename H0 into Hasc. apply Z.leb_le in Hlen.
    cbn [alen] in *.
    assert (Ft : forall i, 0 <= i < zlen ticks -> finite (tick_at ticks i)).
    { intros i Hi. unfold tick_at. apply (forallb_nth fis_finite ticks f64_nan Hfin). unfold zlen in Hi. lia. }
    assert (St : forall i j, 0 <= i < j -> j < zlen ticks -> (B2R (tick_at ticks i) < B2R (tick_at ticks j))%R).
    { intros i j Hij Hj. unfold tick_at. apply (ascending_strict ticks Hasc).
      - intros k Hk. apply (forallb_nth fis_finite ticks f64_nan Hfin). exact Hk.
      - lia.
      - unfold zlen in Hj. lia. }
    unfold axis_facts; cbn [alen coord]; (split; [|split; [|split; [|split; [|split]]]]).
    + lia.
    + exact Hlen.
    + exact Ft.
    + intros i j Hij Hj. destruct (Z.eq_dec i j) as [->|Hne]; [lra|]. apply Rlt_le. apply St; lia.
    + intros i j Hij _ Hj. apply St; lia.
    + intros HG p m Fp _. destruct (HC HG) as (HSet & HFrame & HRange). cbn [indexOf_scalar]. apply (HRange ticks p m Fp Ft St).
  - (* set *)
    apply andb_true_iff in Hd. destruct Hd as [Hn0 HnM]. apply Z.leb_le in Hn0, HnM.
    cbn [alen] in *.
    assert (Hal : (if n =? 0 then AXIS_MAX + 1 else n) <= AXIS_MAX + 1) by (destruct (n =? 0); lia).
    unfold axis_facts; cbn [alen coord]; (split; [|split; [|split; [|split; [|split]]]]).
    + lia.
    + exact Hal.
    + intros i Hi. apply x_int_R. lia.
    + intros i j Hij Hj. destruct (x_int_R i ltac:(lia)) as [-> _]. destruct (x_int_R j ltac:(lia)) as [-> _]. apply IZR_le. lia.
    + intros i j Hij _ Hj. destruct (x_int_R i ltac:(lia)) as [-> _]. destruct (x_int_R j ltac:(lia)) as [-> _]. apply IZR_lt. lia.
    + intros HG p m Fp Dp. destruct (HC HG) as (HSet & HFrame & HRange). cbn [indexOf_scalar conv_dom] in *.
      destruct (HSet p (labels_of n) m Fp Dp ltac:(rewrite zlen_labels_of by lia; lia)) as (r & E & S).
      exists r. split; [exact E|]. rewrite zlen_labels_of in S by lia. unfold n_count in S. destruct (n =? 0); exact S.
  - (* data frame *)
    apply andb_true_iff in Hd. destruct Hd as [Hn0 HnM]. apply Z.leb_le in Hn0, HnM.
    cbn [alen] in *.
    assert (Hal : (if n =? 0 then AXIS_MAX + 1 else n) <= AXIS_MAX + 1) by (destruct (n =? 0); lia).
    unfold axis_facts; cbn [alen coord]; (split; [|split; [|split; [|split; [|split]]]]).
    + lia.
    + exact Hal.
    + intros i Hi. apply x_int_R. lia.
    + intros i j Hij Hj. destruct (x_int_R i ltac:(lia)) as [-> _]. destruct (x_int_R j ltac:(lia)) as [-> _]. apply IZR_le. lia.
    + intros i j Hij _ Hj. destruct (x_int_R i ltac:(lia)) as [-> _]. destruct (x_int_R j ltac:(lia)) as [-> _]. apply IZR_lt. lia.
    + intros HG p m Fp Dp. destruct (HC HG) as (HSet & HFrame & HRange). cbn [indexOf_scalar conv_dom] in *.
      destruct (HFrame p n m Fp Dp ltac:(lia)) as (r & E & S).
      exists r. split; [exact E|]. unfold n_count in S. destruct (n =? 0); exact S.
Qed.

Theorem dim_dom_axis_ok d sh : conversions_meet_spec -> dim_dom d sh = true -> axis_ok d sh.
Proof.
  intros HC H. destruct (dim_dom_axis_facts True d sh (fun _ => HC) H) as (H1 & H2 & H3 & H4 & H5 & H6).
  constructor; try assumption. exact (H6 I).
Qed.

(** the arithmetical part alone: finite, non-decreasing coordinates *)
Lemma dim_dom_fin_mono d sh : dim_dom d sh = true ->
  1 <= sh /\ (forall i, 0 <= i < alen d -> finite (coord d i)) /\
  (forall i j, 0 <= i <= j -> j < alen d -> (B2R (coord d i) <= B2R (coord d j))%R).
Proof.
  intro H. destruct (dim_dom_axis_facts False d sh (fun f => match f with end) H) as (H1 & _ & H3 & H4 & _).
  split; [lia|]. split; assumption.
Qed.
