(** The slice model's start/end pair conversion (Access/Slice.v [dim_pair], property C17) is the code regenerated
    from src/Dimensions.cpp ([NixV.Gen.GenPairs]). *)
From Coq Require Import ZArith Bool String List.
Require Import NixV.Base.Prelude NixV.Base.F64 NixV.Gen.GenDimensions NixV.Axis.RangeModel NixV.Gen.GenPairs NixV.Axis.PairBridge.
Require NixV.Access.Slice.
Local Open Scope Z_scope.

Theorem slice_pair_is_generated : forall d s e rm,
  Slice.dim_pair d s e rm =
  match d with
  | Slice.DSampled dt off _ => sampled_pair s e dt (Slice.off_or0 off) rm
  | Slice.DRange ticks _ => pair_rule (fun p r => getIndex p ticks r) true rm s e
  | Slice.DSet labels => pair_rule (fun p r => getSetIndex p labels r) false rm s e
  | Slice.DFrame rows => df_pair s e rows rm
  end.
Proof.
  intros d s e rm. destruct d as [dt off u|ticks u|labels|rows].
  - rewrite sampled_pair_generated. unfold Slice.dim_pair, pair_rule, Slice.dim_index, Slice.end_rule, end_match.
    destruct (fgt s e); [reflexivity|]. cbn [andb].
    destruct (getSampledIndex s (Slice.off_or0 off) dt PositionMatch_GreaterOrEqual) as [[a|]| |]; reflexivity.
  - unfold Slice.dim_pair, pair_rule, Slice.dim_index, Slice.end_rule, end_match.
    destruct (fgt s e); [reflexivity|].
    destruct (getIndex s ticks PositionMatch_GreaterOrEqual) as [[a|]| |]; cbn [bind andb negb opt_is_some]; reflexivity.
  - unfold Slice.dim_pair, pair_rule, Slice.dim_index, Slice.end_rule, end_match.
    destruct (fgt s e); [reflexivity|]. cbn [andb].
    destruct (getSetIndex s labels PositionMatch_GreaterOrEqual) as [[a|]| |]; reflexivity.
  - rewrite df_pair_generated. unfold Slice.dim_pair, pair_rule, Slice.dim_index, Slice.end_rule, end_match.
    destruct (fgt s e); [reflexivity|]. cbn [andb].
    destruct (getDataFrameIndex s rows PositionMatch_GreaterOrEqual) as [[a|]| |]; reflexivity.
Qed.
