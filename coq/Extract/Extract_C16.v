From Coq Require Import Extraction ExtrOcamlBasic.
Require Import NixV.Base.Prelude NixV.Base.NDSizeOps NixV.Gen.GenNDSize.
Extraction Language OCaml.
Extraction "model_C16.ml" nd_eq nd_ne nd_lt nd_le nd_gt nd_ge nd_add nd_get.
