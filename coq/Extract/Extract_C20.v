From Coq Require Import Extraction ExtrOcamlBasic.
Require Import NixV.Base.Prelude NixV.Store.Search NixV.Store.SearchState.
Extraction Language OCaml.
Extraction "model_C20.ml"
  size_max tid label kids
  Section_findSections Source_findSources File_findSections Block_findSources
  Section_findRelated Section_inheritedProperties
  Section_referringDataArrays Section_referringTags Section_referringMultiTags Section_referringBlocks Section_referringSources
  Source_referringDataArrays Source_referringTags Source_referringMultiTags Source_parentSource
  spec_section_find spec_source_find spec_file_find spec_block_find spec_section_all spec_source_all
  related_spec spec_ref_ents spec_ref_blocks spec_ref_sources spec_src_ents spec_parent spec_inherited
  all_nodes descendants
  apply_filter empty_file new_node add_section add_prop set_link add_block add_source add_array add_tag add_mtag
  set_meta add_src delete_section delete_source locate_section locate_source block_by_id entity_by_id.
