From Coq Require Import Extraction ExtrOcamlBasic.
Require Import NixV.Base.Prelude NixV.Base.F64 NixV.Valid.Validator NixV.Valid.ValidSpec.
Extraction Language OCaml.
Extraction "model_C19.ml" validate validate_current tagUnits_variant propUnit_variant
  conforms conforms_ent entities ent_id verdicts judge breach soft any_breach ofZ
  validate_ent validate_dimension validate_file has_errors has_warnings result_ok.
