From Coq Require Import Extraction ExtrOcamlBasic.
Require Import NixV.Base.Prelude NixV.Base.F64 NixV.Data.Prop NixV.Data.Frame.
Extraction Language OCaml.
Extraction "model_C15.ml" fstep sstep dfresh sfresh.
