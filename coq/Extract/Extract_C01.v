From Coq Require Import Extraction ExtrOcamlBasic.
Require Import NixV.Base.Prelude NixV.Base.F64 NixV.Data.NDIndex NixV.Data.NDArr NixV.Data.NDSpec.
Extraction Language OCaml.
Extraction "model_C01.ml" start step spec_start spec_step nan_cast_why route_op s_shape create_fill create_fill_rolls_back spec_create_fill nd_index string_to_dtype_name apply_poly.
