From Coq Require Import Extraction ExtrOcamlBasic.
Require Import NixV.Base.Prelude NixV.Gen.GenTables NixV.Units.UnitsModel NixV.Store.Db NixV.Store.DbOps NixV.Store.DbObserve NixV.Store.DbSession NixV.Store.DbRoutes.
Extraction Language OCaml.
Extraction "model_C03.ml" step sstep init_sess handle_valid observe empty_db current_behaviour repaired code_today
  children find_ent alive looksLikeUUID e_oid e_idx e_kind e_parent e_name get_l
  list_filtered members_filtered dims_filtered has_positions position_count col_indices col_names
  unitSanitizer isSIUnit.
