From Coq Require Import Extraction ExtrOcamlBasic.
Require Import NixV.Base.Prelude NixV.Base.F64 NixV.Gen.GenDimensions NixV.Data.NDIndex NixV.Data.NDArr
               NixV.Access.SliceSwitches NixV.Access.View NixV.Access.Slice NixV.Access.SliceSpec.
Extraction Language OCaml.
Extraction "model_C17.ml" current_behaviour code_today repaired repaired_except_pinned
  data_slice slice_read position_and_extent_in_data mk_view view_read view_write view_extent id_array gen_from
  spec_slice spec_domain spec_ids spec_req spec_in_data spec_mk_view spec_view_read spec_view_write inside_window
  real_count real_offset fis_finite fmul prod a_cells a_shape
  repo_e3eed7c view_get_value view_set_value arr_get_value arr_set_value spec_get_value spec_set_value spec_value_count
  repo_dc7d826 view_tgetall view_tget3 view_tgetat view_tsetall view_tset view_set_extent route_resize route_shape route_buf
  spec_tgetall spec_tget3 spec_pos_in_data position_in_data position_to_index_pairs position_to_index_scalar data_slice3 dim_unit.
