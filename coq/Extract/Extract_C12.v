From Coq Require Import Extraction ExtrOcamlBasic.
Require Import NixV.Base.Prelude NixV.FileIO.Ids.
Extraction Language OCaml.
Extraction "model_C12.ml" new_file step observe spec_observe procs_common fork_common toy_gen current_behaviour id_of
  uuid_wellformedb looksLikeUUID code_today repaired.
