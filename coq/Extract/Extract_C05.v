From Coq Require Import Extraction ExtrOcamlBasic.
Require NixV.Units.UnitsModel.
Require Import NixV.Base.Prelude NixV.Base.F64 NixV.Gen.GenDimensions NixV.Access.Retrieval NixV.Access.RetrievalSpec.
Extraction Language OCaml.
Extraction "model_C05.ml" current_behaviour code_today repaired_except_pinned repaired
  getOffsetAndCount_tag taggedData_tag taggedData_tag_ref featureData_tag
  getOffsetAndCount_mtag getOffsetAndCount_mtag1 taggedData_mtag_ref taggedData_mtag1_ref featureData_mtag featureData_mtag1
  default_match_retrieval default_match_offcnt default_match_deprecated frame_dim_unit getDimensionUnit positionInData positionAndExtentInData
  positionToIndex_one positionToIndex_vec UnitsModel.unitSanitizer view_ids
  spec_tag_view spec_mtag_view spec_tag_feature spec_mtag_feature spec_mtag_views spec_mtag_offcnts spec_mtag_features answers mtag_npos
  fis_finite ofZ.
