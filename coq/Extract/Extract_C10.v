From Coq Require Import Extraction ExtrOcamlBasic.
Require Import NixV.Base.Prelude NixV.Gen.GenVersion NixV.Gen.GenTables NixV.FileIO.Version.
Extraction Language OCaml.
Extraction "model_C10.ml" FormatVersion_of_vector FormatVersion_op_eq FormatVersion_op_lt FormatVersion_op_ne FormatVersion_op_gt
  FormatVersion_op_le FormatVersion_op_ge FormatVersion_canRead FormatVersion_canWrite FormatVersion_op_index
  open_file good_header my_version lexltb FILE_FORMAT eq_specb canRead_specb gate_specb.
