From Coq Require Import Extraction ExtrOcamlBasic.
Require Import NixV.Base.Prelude NixV.Base.F64 NixV.Data.Prop.
Extraction Language OCaml.
Extraction "model_C14.ml" step spec_step pinned repaired fresh afresh DEFAULT_PROPERTY_SIZE.
