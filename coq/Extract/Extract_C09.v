From Coq Require Import Extraction ExtrOcamlBasic.
Require Import NixV.Base.Prelude NixV.FileIO.Version NixV.FileIO.Modes NixV.FileIO.Close NixV.FileIO.Tree NixV.FileIO.Script.
Extraction Language OCaml.
Extraction "model_C09.ml" sstep2 init2 unlink_only_names unlink_loop_names.
