From Coq Require Import Extraction ExtrOcamlBasic.
Require Import NixV.Base.Prelude NixV.Base.F64 NixV.Gen.GenDimensions NixV.Axis.AxisSpec NixV.Axis.RangeModel NixV.Access.Retrieval NixV.Gen.GenPairs NixV.Axis.Wrappers.
Extraction Language OCaml.
Extraction "model_C07.ml" getSampledIndex getSetIndex getDataFrameIndex getIndex pair_of
  index_ok spec_equal x_sampled x_int x_ticks n_count fgt flt fle feq ofZ fis_finite fis_nan
  positionToIndex_vec positionToIndex_one scaling_or_incompatible is_none_unit fmul fone
  sampled_pair set_pair range_pair df_pair sampled_index1 sampled_pair2 vec_overload range_index_le range_pair2 keep_valid
  position_in_range range_pair2_checks_order_now or_oob.
