From Coq Require Import Extraction ExtrOcamlBasic.
Require Import NixV.Base.Prelude NixV.Gen.GenTables NixV.Units.UnitsModel NixV.Base.F64 NixV.Units.UnitsRoutes.
Extraction Language OCaml.
Extraction "model_C18.ml" splitUnit isSIUnit isAtomicSIUnit isCompoundSIUnit isScalable getSIScaling
  deblankString unitSanitizer stoi print_unit power_text power_val parts_ok spec_parse spec_atomic spec_issi split_seps
  spec_scaling spec_scalable spec_scaling_raw spec_scalable_raw PREFIXES UNITS POWER_SUFFIXES
  isScalableVec isSetAtSamePos spec_set_same splitCompoundUnit spec_split_compound convertToSeconds_d convertToSeconds_i
  convertToKelvin_d convertToKelvin_i nameCheck nameSanitizer checkEntityName checkEntityType checkEmptyString
  checkEntityNameAndType.
