From Coq Require Import Extraction ExtrOcamlBasic.
Require Import NixV.Base.Prelude NixV.Base.F64 NixV.Store.Dims.
Extraction Language OCaml.
Extraction "model_C13.ml" current_behaviour code_today repaired dinit dstep sinit sp_step abs forget dobserve dims_ok.
