(** The boolean judge [index_ok] implies the rule specification on every monotone axis of finite
    coordinates; [spec_equal] derives the Equal rule from the LessOrEqual answer. *)
From Coq Require Import ZArith Bool List Reals Lia Lra.
From Flocq Require Import Core BinarySingleNaN.
Require Import NixV.Base.Prelude NixV.Base.F64 NixV.Base.F64Facts NixV.Gen.GenDimensions NixV.Axis.AxisSpec.
Local Open Scope Z_scope.

Section Judge.
  Variable x : Z -> F64.
  Variable N : Z.
  Let n := Some N.
  Variable p : F64.
  Hypothesis Fp : finite p.
  Hypothesis Fx : forall i, 0 <= i < N -> finite (x i).
  Hypothesis Hmono : forall i j, 0 <= i <= j -> j < N -> (B2R (x i) <= B2R (x j))%R.

  Lemma inax_N i : inax n i <-> 0 <= i < N.
  Proof. unfold inax, inaxb, n. rewrite andb_true_iff, Z.leb_le, Z.ltb_lt. tauto. Qed.
  Lemma inaxb_false i : inaxb n i = false <-> ~ (0 <= i < N).
  Proof. rewrite <- inax_N. unfold inax. destruct (inaxb n i); split; intro H; try easy; try (exfalso; apply H; reflexivity). Qed.

  (** L / LE are closed downwards along the axis, GE / G upwards *)
  Lemma holds_down m i j : (m = PositionMatch_Less \/ m = PositionMatch_LessOrEqual) ->
    0 <= i <= j -> j < N -> holds m p (x j) = true -> holds m p (x i) = true.
  Proof.
    intros Hm Hij Hj H. pose proof (Hmono i j Hij Hj) as M.
    assert (Fi : finite (x i)) by (apply Fx; lia). assert (Fj : finite (x j)) by (apply Fx; lia).
    destruct Hm as [-> | ->]; cbn [holds] in *.
    - apply (flt_true _ _ Fj Fp) in H. apply (flt_true _ _ Fi Fp). lra.
    - apply (fle_true _ _ Fj Fp) in H. apply (fle_true _ _ Fi Fp). lra.
  Qed.
  Lemma holds_up m i j : (m = PositionMatch_GreaterOrEqual \/ m = PositionMatch_Greater) ->
    0 <= i <= j -> j < N -> holds m p (x i) = true -> holds m p (x j) = true.
  Proof.
    intros Hm Hij Hj H. pose proof (Hmono i j Hij Hj) as M.
    assert (Fi : finite (x i)) by (apply Fx; lia). assert (Fj : finite (x j)) by (apply Fx; lia).
    destruct Hm as [-> | ->]; cbn [holds] in *.
    - apply (fle_true _ _ Fp Fi) in H. apply (fle_true _ _ Fp Fj). lra.
    - apply (flt_true _ _ Fp Fi) in H. apply (flt_true _ _ Fp Fj). lra.
  Qed.

  Lemma ok_last m r : (m = PositionMatch_Less \/ m = PositionMatch_LessOrEqual) ->
    index_ok x n m p r = true -> is_last_idx n (fun i => holds m p (x i)) r.
  Proof.
    intros Hm H.
    assert (E : index_ok x n m p r =
                match r with
                | Some i => inaxb n i && holds m p (x i) && (negb (inaxb n (i + 1)) || negb (holds m p (x (i + 1))))
                | None => negb (inaxb n 0) || negb (holds m p (x 0))
                end) by (destruct Hm as [-> | ->]; reflexivity).
    rewrite E in H. clear E. destruct r as [i|]; cbn [is_last_idx].
    - apply andb_true_iff in H. destruct H as [H H3]. apply andb_true_iff in H. destruct H as [H1 H2].
      split; [exact H1|]. split; [exact H2|]. intros j Hj Pj.
      destruct (Z_le_gt_dec j i) as [|Hgt]; [assumption|exfalso].
      apply inax_N in Hj. apply inax_N in H1.
      assert (Hi1 : 0 <= i + 1 < N) by lia.
      apply orb_true_iff in H3. destruct H3 as [H3|H3].
      + apply negb_true_iff, inaxb_false in H3. contradiction.
      + apply negb_true_iff in H3.
        rewrite (holds_down m (i + 1) j Hm ltac:(lia) ltac:(lia) Pj) in H3. discriminate.
    - intros j Hj. apply inax_N in Hj.
      destruct (holds m p (x j)) eqn:Pj; [exfalso|reflexivity].
      apply orb_true_iff in H. destruct H as [H|H].
      + apply negb_true_iff, inaxb_false in H. lia.
      + apply negb_true_iff in H. rewrite (holds_down m 0 j Hm ltac:(lia) ltac:(lia) Pj) in H. discriminate.
  Qed.

  Lemma ok_first m r : (m = PositionMatch_GreaterOrEqual \/ m = PositionMatch_Greater) ->
    index_ok x n m p r = true -> is_first_idx n (fun i => holds m p (x i)) r.
  Proof.
    intros Hm H.
    assert (E : index_ok x n m p r =
                match r with
                | Some i => inaxb n i && holds m p (x i) && (negb (inaxb n (i - 1)) || negb (holds m p (x (i - 1))))
                | None => (N <=? 0) || negb (holds m p (x (N - 1)))
                end) by (destruct Hm as [-> | ->]; reflexivity).
    rewrite E in H. clear E. destruct r as [i|]; cbn [is_first_idx].
    - apply andb_true_iff in H. destruct H as [H H3]. apply andb_true_iff in H. destruct H as [H1 H2].
      split; [exact H1|]. split; [exact H2|]. intros j Hj Pj.
      destruct (Z_le_gt_dec i j) as [|Hgt]; [assumption|exfalso].
      apply inax_N in Hj. apply inax_N in H1.
      assert (Hi1 : 0 <= i - 1 < N) by lia.
      apply orb_true_iff in H3. destruct H3 as [H3|H3].
      + apply negb_true_iff, inaxb_false in H3. contradiction.
      + apply negb_true_iff in H3.
        rewrite (holds_up m j (i - 1) Hm ltac:(lia) ltac:(lia) Pj) in H3. discriminate.
    - intros j Hj. apply inax_N in Hj.
      destruct (holds m p (x j)) eqn:Pj; [exfalso|reflexivity].
      apply orb_true_iff in H. destruct H as [H|H].
      + apply Z.leb_le in H. lia.
      + apply negb_true_iff in H. rewrite (holds_up m j (N - 1) Hm ltac:(lia) ltac:(lia) Pj) in H. discriminate.
  Qed.

  (** the judge implies the specification (Equal is derived from LessOrEqual, see [equal_of_le]) *)
  Theorem index_ok_sound m r : m <> PositionMatch_Equal ->
    index_ok x n m p r = true -> rule_spec x n m p r.
  Proof.
    intros Hm H. destruct m; try contradiction; cbn [rule_spec].
    - apply ok_last; [left; reflexivity|exact H].
    - apply ok_first; [right; reflexivity|exact H].
    - apply ok_first; [left; reflexivity|exact H].
    - apply ok_last; [right; reflexivity|exact H].
  Qed.

  Theorem equal_of_le le : rule_spec x n PositionMatch_LessOrEqual p le ->
    rule_spec x n PositionMatch_Equal p (spec_equal x p le).
  Proof.
    cbn [rule_spec]. intro H. destruct le as [d|]; cbn [spec_equal is_last_idx] in *.
    - destruct H as (Hd & Pd & Hmax).
      destruct (feq (x d) p) eqn:E; [split; assumption|].
      intros j Hj. destruct (feq (x j) p) eqn:Ej; [exfalso|reflexivity].
      pose proof Hj as Hj'. apply inax_N in Hj'. pose proof Hd as Hd'. apply inax_N in Hd'.
      assert (Fj : finite (x j)) by (apply Fx; lia). assert (Fd : finite (x d)) by (apply Fx; lia).
      apply (feq_true _ _ Fj Fp) in Ej.
      assert (Pj : holds PositionMatch_LessOrEqual p (x j) = true) by (cbn [holds]; apply (fle_true _ _ Fj Fp); lra).
      pose proof (Hmax j Hj Pj) as Hle.
      pose proof (Hmono j d ltac:(lia) ltac:(lia)) as M.
      cbn [holds] in Pd. apply (fle_true _ _ Fd Fp) in Pd.
      assert (B2R (x d) = B2R p) by lra. apply (feq_true _ _ Fd Fp) in H. congruence.
    - intros j Hj. destruct (feq (x j) p) eqn:Ej; [exfalso|reflexivity].
      pose proof Hj as Hj'. apply inax_N in Hj'.
      assert (Fj : finite (x j)) by (apply Fx; lia).
      apply (feq_true _ _ Fj Fp) in Ej.
      specialize (H j Hj). cbn [holds] in H.
      assert (fle (x j) p = true) by (apply (fle_true _ _ Fj Fp); lra). congruence.
  Qed.
End Judge.
