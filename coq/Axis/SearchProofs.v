(** Correctness and termination of the gallop + bisect search, for ANY predicate that is true on
    an initial segment of [0, MAXI]; the starting guess is irrelevant for the result. *)
From Coq Require Import ZArith Bool String List Lia.
Require Import NixV.Base.Prelude NixV.Base.F64 NixV.Axis.SampledHand.
Local Open Scope Z_scope.

Lemma u64_add_small a b : 0 <= a + b < two64 -> u64_add a b = a + b.
Proof. intro H. unfold u64_add, u64_wrap. apply Z.mod_small. exact H. Qed.
Lemma u64_sub_small a b : 0 <= a - b < two64 -> u64_sub a b = a - b.
Proof. intro H. unfold u64_sub, u64_wrap. apply Z.mod_small. exact H. Qed.
Lemma u64_mul_small a b : 0 <= a * b < two64 -> u64_mul a b = a * b.
Proof. intro H. unfold u64_mul, u64_wrap. apply Z.mod_small. exact H. Qed.

Lemma MAXI_val : MAXI = 2 ^ 53. Proof. reflexivity. Qed.
Lemma two64_val : two64 = 2 ^ 64. Proof. reflexivity. Qed.

Section Search.
  Variable below : Z -> bool.
  Hypothesis anti : forall i j, 0 <= i <= j -> j <= MAXI -> below j = true -> below i = true.

  (** [r] is the last index of [0, MAXI] on which [below] holds *)
  Definition is_last_below (r : Z) : Prop :=
    0 <= r <= MAXI /\ below r = true /\ (r < MAXI -> below (r + 1) = false).

  Lemma is_last_below_char r : is_last_below r ->
    forall i, 0 <= i <= MAXI -> (below i = true <-> i <= r).
  Proof.
    intros (Hr & Hb & Hn) i Hi. split.
    - intro Hbi. destruct (Z_le_gt_dec i r) as [|Hgt]; [assumption|exfalso].
      assert (r < MAXI) as Hlt by lia. specialize (Hn Hlt).
      assert (below (r + 1) = true) by (apply (anti (r + 1) i); [lia|lia|exact Hbi]). congruence.
    - intro Hle. apply (anti i r); [lia|lia|exact Hb].
  Qed.

  Lemma pow2_S (n : nat) : 2 ^ Z.of_nat (S n) = 2 * 2 ^ Z.of_nat n.
  Proof. rewrite Nat2Z.inj_succ, Z.pow_succ_r; lia. Qed.
  Lemma pow2_pos (n : nat) : 0 < 2 ^ Z.of_nat n.
  Proof. apply Z.pow_pos_nonneg; lia. Qed.

  Lemma bisect_ok : forall (fuel : nat) (hi lo : Z),
    0 <= lo < hi -> hi <= MAXI -> below lo = true -> below hi = false ->
    hi - lo <= 2 ^ Z.of_nat fuel ->
    exists r, bisect below (S fuel) hi lo = Ok (Some r) /\ is_last_below r.
  Proof.
    induction fuel as [|fuel IH]; intros hi lo Hlo Hhi Bl Bh Hw.
    - (* width 1 *)
      cbn [bisect]. change (2 ^ Z.of_nat 0) with 1 in Hw.
      rewrite u64_sub_small by (rewrite two64_val; unfold MAXI in *; lia).
      replace (hi - lo >? 1) with false by lia.
      exists lo. split; [reflexivity|]. unfold is_last_below. repeat split; try lia; try assumption.
      intros _. replace (lo + 1) with hi by lia. exact Bh.
    - cbn [bisect]. rewrite u64_sub_small by (rewrite two64_val; unfold MAXI in *; lia).
      destruct (hi - lo >? 1) eqn:E.
      + set (mid := u64_add lo ((hi - lo) / 2)).
        assert (Hmid : mid = lo + (hi - lo) / 2).
        { unfold mid. apply u64_add_small. rewrite two64_val. unfold MAXI in *.
          assert (0 <= (hi - lo) / 2 <= hi - lo) by (split; [apply Z.div_pos; lia | apply Z.div_le_upper_bound; lia]). lia. }
        assert (Hm : lo < mid < hi).
        { rewrite Hmid. assert (1 <= (hi - lo) / 2) by (apply Z.div_le_lower_bound; lia).
          assert ((hi - lo) / 2 < hi - lo) by (apply Z.div_lt_upper_bound; lia). lia. }
        rewrite pow2_S in Hw.
        destruct (below mid) eqn:Bm.
        * apply IH; try lia; try assumption.
          rewrite Hmid. assert (hi - lo - (hi - lo) / 2 <= 2 ^ Z.of_nat fuel); [|lia].
          assert (H2 := Z.div_mod (hi - lo) 2 ltac:(lia)). assert (H3 := Z.mod_pos_bound (hi - lo) 2 ltac:(lia)). lia.
        * apply IH; try lia; try assumption.
          rewrite Hmid. assert ((hi - lo) / 2 <= 2 ^ Z.of_nat fuel); [|lia].
          apply Z.div_le_upper_bound; lia.
      + exists lo. split; [reflexivity|]. unfold is_last_below. repeat split; try lia; try assumption.
        intros _. replace (lo + 1) with hi by lia. exact Bh.
  Qed.

  Lemma bisect_LOOP_FUEL hi lo :
    0 <= lo < hi -> hi <= MAXI -> below lo = true -> below hi = false ->
    exists r, bisect below LOOP_FUEL hi lo = Ok (Some r) /\ is_last_below r.
  Proof.
    intros. change LOOP_FUEL with (S 199). apply bisect_ok; try assumption.
    apply Z.le_trans with (2 ^ 53); [unfold MAXI in *; lia|].
    apply Z.pow_le_mono_r; lia.
  Qed.

  Hypothesis below0 : below 0 = true.
  Hypothesis belowM : below MAXI = false.

  (** galloping upwards: [lo] is below, [hi = min (lo + step) MAXI]; ends within [fuel]
      iterations when [MAXI - lo < step * 2^fuel] *)
  Lemma gallop_up_ok : forall (fuel : nat) (hi lo step : Z),
    0 <= lo -> lo < MAXI -> below lo = true -> 1 <= step -> step <= 2 ^ 54 ->
    hi = next_hi lo step ->
    MAXI - lo < step * 2 ^ Z.of_nat fuel ->
    exists r, gallop_up below (S fuel) hi lo step = Ok (Some r) /\ is_last_below r.
  Proof.
    induction fuel as [|fuel IH]; intros hi lo step Hlo HloM Bl Hs Hs2 Hhi Hd.
    - change (2 ^ Z.of_nat 0) with 1 in Hd. cbn [gallop_up].
      assert (hi = MAXI) as ->.
      { rewrite Hhi. unfold next_hi. rewrite u64_sub_small by (rewrite two64_val; unfold MAXI in *; lia).
        replace (MAXI - lo >? step) with false by lia. reflexivity. }
      rewrite belowM. apply bisect_LOOP_FUEL; try lia; assumption.
    - cbn [gallop_up]. rewrite pow2_S in Hd.
      assert (Hhi' : hi = if MAXI - lo >? step then lo + step else MAXI).
      { rewrite Hhi. unfold next_hi. rewrite u64_sub_small by (rewrite two64_val; unfold MAXI in *; lia).
        destruct (MAXI - lo >? step) eqn:E; [|reflexivity].
        apply u64_add_small. rewrite two64_val. unfold MAXI in *. lia. }
      destruct (below hi) eqn:Bh.
      + destruct (MAXI - lo >? step) eqn:E.
        2:{ rewrite Hhi' in Bh. congruence. }
        assert (Hm : u64_mul step 2 = step * 2) by (apply u64_mul_small; rewrite two64_val; lia).
        rewrite Hm.
        destruct (Z.eq_dec step (2 ^ 54)) as [->|Hne].
        { exfalso. unfold MAXI in *. lia. }
        assert (step * 2 <= 2 ^ 54).
        { (* step < MAXI - lo <= 2^53 *) unfold MAXI in *. lia. }
        apply IH; try lia; try assumption.
      + apply bisect_LOOP_FUEL; try assumption.
        * rewrite Hhi'. destruct (MAXI - lo >? step); lia.
        * rewrite Hhi'. destruct (MAXI - lo >? step) eqn:E; lia.
  Qed.

  (** galloping downwards: [hi] is not below, [lo = max (hi - step) 0] *)
  Lemma gallop_down_ok : forall (fuel : nat) (hi lo step : Z),
    0 < hi -> hi <= MAXI -> below hi = false -> 1 <= step -> step <= 2 ^ 54 ->
    lo = next_lo hi step ->
    hi < step * 2 ^ Z.of_nat fuel ->
    exists r, gallop_down below (S fuel) hi lo step = Ok (Some r) /\ is_last_below r.
  Proof.
    induction fuel as [|fuel IH]; intros hi lo step Hhi HhiM Bh Hs Hs2 Hlo Hd.
    - change (2 ^ Z.of_nat 0) with 1 in Hd. cbn [gallop_down].
      assert (lo = 0) as ->.
      { rewrite Hlo. unfold next_lo. replace (hi >? step) with false by lia. reflexivity. }
      rewrite below0. cbn [negb]. apply bisect_LOOP_FUEL; try lia; assumption.
    - cbn [gallop_down]. rewrite pow2_S in Hd.
      assert (Hlo' : lo = if hi >? step then hi - step else 0).
      { rewrite Hlo. unfold next_lo. destruct (hi >? step) eqn:E; [|reflexivity].
        apply u64_sub_small. rewrite two64_val. unfold MAXI in *. lia. }
      destruct (below lo) eqn:Bl; cbn [negb].
      + apply bisect_LOOP_FUEL; try assumption.
        rewrite Hlo'. destruct (hi >? step) eqn:E; lia.
      + destruct (hi >? step) eqn:E.
        2:{ rewrite Hlo' in Bl. congruence. }
        assert (Hm : u64_mul step 2 = step * 2) by (apply u64_mul_small; rewrite two64_val; lia).
        rewrite Hm.
        assert (step * 2 <= 2 ^ 54) by (unfold MAXI in *; lia).
        assert (hi - step <> 0).
        { intro E0. rewrite Hlo' in Bl. replace (hi - step) with 0 in Bl by lia. congruence. }
        apply IH; try lia; try assumption.
  Qed.

  Theorem search_ok (guess : Z) : 0 <= guess <= MAXI ->
    exists r, search below guess = Ok (Some r) /\ is_last_below r.
  Proof.
    intro Hg. unfold search.
    destruct (below guess) eqn:Bg.
    - assert (guess < MAXI) by (destruct (Z.eq_dec guess MAXI) as [->|]; [congruence|lia]).
      change LOOP_FUEL with (S 199).
      apply gallop_up_ok; try lia; try assumption; try reflexivity.
      apply Z.le_lt_trans with (2 ^ 53); [unfold MAXI in *; lia|].
      rewrite Z.mul_1_l. apply Z.pow_lt_mono_r; lia.
    - assert (0 < guess) by (destruct (Z.eq_dec guess 0) as [->|]; [congruence|lia]).
      change LOOP_FUEL with (S 199).
      apply gallop_down_ok; try lia; try assumption; try reflexivity.
      apply Z.le_lt_trans with (2 ^ 53); [unfold MAXI in *; lia|].
      rewrite Z.mul_1_l. apply Z.pow_lt_mono_r; lia.
  Qed.
End Search.
