(** C07, sampled axis: the generated [lastSampleBelow] / [getSampledIndex] meet the rule
    specification.  Only monotonicity of the computed coordinates is used. *)
From Coq Require Import ZArith Bool String List Reals Lia Lra.
From Flocq Require Import Core BinarySingleNaN.
Require Import NixV.Base.Prelude NixV.Base.F64 NixV.Base.F64Facts NixV.Gen.GenDimensions.
Require Import NixV.Axis.SampledHand NixV.Axis.SearchProofs NixV.Axis.AxisSpec.
Local Open Scope Z_scope.

(** --- bridge: the generated function is the hand-written search --- *)
Definition below_of (limit off dt : F64) (strict : bool) : Z -> bool :=
  fun i => sampleBelow i limit off dt strict.

Definition guess_of (estimate : F64) : res Z :=
  if fge estimate (ofME 1 53) then Ok MAXI
  else if fge estimate (ofZ 1) then toU64 estimate else Ok 0.

Definition lastSampleBelow_hand (limit off dt : F64) (strict : bool) : res (option Z) :=
  let below := below_of limit off dt strict in
  if negb (below 0) then Ok None
  else if below MAXI then Ok (Some MAXI)
  else bind (guess_of (ffloor (fdiv (fsub limit off) dt))) (fun g => search below g).

Lemma lastSampleBelow_bridge limit off dt strict :
  lastSampleBelow limit off dt strict = lastSampleBelow_hand limit off dt strict.
Proof.
  unfold lastSampleBelow, lastSampleBelow_hand, guess_of, below_of, search.
  change MAXI with 9007199254740992. cbv beta.
  destruct (negb (sampleBelow 0 limit off dt strict)); [reflexivity|].
  destruct (sampleBelow 9007199254740992 limit off dt strict) eqn:E; [reflexivity|].
  destruct (fge (ffloor (fdiv (fsub limit off) dt)) (ofME 1 53)).
  { cbn [bind]. rewrite E. reflexivity. }
  destruct (fge (ffloor (fdiv (fsub limit off) dt)) (ofZ 1)).
  - cbn [bind]. destruct (toU64 (ffloor (fdiv (fsub limit off) dt))); reflexivity.
  - cbn [bind]. reflexivity.
Qed.
