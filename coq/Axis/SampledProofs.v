(** C07, sampled axis: the generated [lastSampleBelow] / [getSampledIndex] meet the rule
    specification.  Only monotonicity of the computed coordinates is used. *)
From Coq Require Import ZArith Bool String List Reals Lia Lra.
From Flocq Require Import Core BinarySingleNaN.
Require Import NixV.Base.Prelude NixV.Base.F64 NixV.Base.F64Facts NixV.Gen.GenDimensions.
Require Import NixV.Axis.SampledHand NixV.Axis.SearchProofs NixV.Axis.AxisSpec.
Local Open Scope Z_scope.

(** --- bridge: the generated function is the hand-written search --- *)
Definition below_of (limit off dt : F64) (strict : bool) : Z -> bool :=
  fun i => sampleBelow i limit off dt strict.

Definition guess_of (estimate : F64) : res Z :=
  if fge estimate (ofME 1 53) then Ok MAXI
  else if fge estimate (ofZ 1) then toU64 estimate else Ok 0.

Definition lastSampleBelow_hand (limit off dt : F64) (strict : bool) : res (option Z) :=
  let below := below_of limit off dt strict in
  if negb (below 0) then Ok None
  else if below MAXI then Ok (Some MAXI)
  else bind (guess_of (ffloor (fdiv (fsub limit off) dt))) (fun g => search below g).

Section Bridge.
  Variables (limit off dt : F64) (strict : bool).
  Let below := below_of limit off dt strict.

  Lemma loop3_is_bisect result estimate guess step : forall fuel hi lo,
    lastSampleBelow_loop3 limit off dt strict result estimate guess step fuel hi lo = bisect below fuel hi lo.
  Proof.
    induction fuel as [|f IH]; intros hi lo; [reflexivity|].
    cbn [lastSampleBelow_loop3 bisect]. rewrite !IH. reflexivity.
  Qed.

  Lemma loop5_is_gallop_up result estimate guess k2 :
    (forall hi lo step, k2 hi lo step = bisect below LOOP_FUEL hi lo) ->
    forall fuel hi lo step,
    lastSampleBelow_loop5 limit off dt strict result estimate guess k2 fuel hi lo step = gallop_up below fuel hi lo step.
  Proof.
    intros Hk. induction fuel as [|f IH]; intros hi lo step; [reflexivity|].
    cbn [lastSampleBelow_loop5 gallop_up]. rewrite IH, Hk. reflexivity.
  Qed.

  Lemma loop6_is_gallop_down result estimate guess k2 :
    (forall hi lo step, k2 hi lo step = bisect below LOOP_FUEL hi lo) ->
    forall fuel hi lo step,
    lastSampleBelow_loop6 limit off dt strict result estimate guess k2 fuel hi lo step = gallop_down below fuel hi lo step.
  Proof.
    intros Hk. induction fuel as [|f IH]; intros hi lo step; [reflexivity|].
    cbn [lastSampleBelow_loop6 gallop_down]. rewrite IH, Hk. reflexivity.
  Qed.

  Lemma k1_is_search result estimate g :
    (if sampleBelow g limit off dt strict
     then lastSampleBelow_loop5 limit off dt strict result estimate g
            (fun hi lo step => lastSampleBelow_loop3 limit off dt strict result estimate g step LOOP_FUEL hi lo)
            LOOP_FUEL (next_hi g 1) g 1
     else lastSampleBelow_loop6 limit off dt strict result estimate g
            (fun hi lo step => lastSampleBelow_loop3 limit off dt strict result estimate g step LOOP_FUEL hi lo)
            LOOP_FUEL g (next_lo g 1) 1) = search below g.
  Proof.
    unfold search. change (sampleBelow g limit off dt strict) with (below g).
    destruct (below g).
    - rewrite loop5_is_gallop_up by (intros; apply loop3_is_bisect). reflexivity.
    - rewrite loop6_is_gallop_down by (intros; apply loop3_is_bisect). reflexivity.
  Qed.

  Lemma lastSampleBelow_bridge :
    lastSampleBelow limit off dt strict = lastSampleBelow_hand limit off dt strict.
  Proof.
    unfold lastSampleBelow, lastSampleBelow_hand, guess_of.
    fold below.
    change (sampleBelow 0 limit off dt strict) with (below 0).
    change (sampleBelow 9007199254740992 limit off dt strict) with (below MAXI).
    destruct (negb (below 0)); [reflexivity|].
    destruct (below MAXI) eqn:EM; [reflexivity|].
    cbv zeta.
    destruct (fge (ffloor (fdiv (fsub limit off) dt)) (ofME 1 53)).
    { cbn [bind]. rewrite <- (k1_is_search None (ffloor (fdiv (fsub limit off) dt)) MAXI).
      change (sampleBelow MAXI limit off dt strict) with (below MAXI). rewrite EM. reflexivity. }
    destruct (fge (ffloor (fdiv (fsub limit off) dt)) (ofZ 1)).
    - destruct (toU64 (ffloor (fdiv (fsub limit off) dt))) as [g| |]; cbn [bind]; [|reflexivity|reflexivity].
      exact (k1_is_search None _ g).
    - cbn [bind]. exact (k1_is_search None _ 0).
  Qed.
End Bridge.

(** --- the computed coordinates never decrease with the index --- *)
Local Open Scope R_scope.

Definition axis_finite (dt off : F64) : Prop :=
  forall i, (0 <= i <= MAXI)%Z -> finite (fmul (ofZ i) dt) /\ finite (x_sampled dt off i).

Lemma MAXI_pow : MAXI = (2 ^ 53)%Z. Proof. reflexivity. Qed.

Lemma x_sampled_mono dt off : finite dt -> finite off -> 0 <= B2R dt -> axis_finite dt off ->
  forall i j, (0 <= i <= j)%Z -> (j <= MAXI)%Z -> B2R (x_sampled dt off i) <= B2R (x_sampled dt off j).
Proof.
  intros Fdt Foff Hdt Hfin i j Hij HjM.
  destruct (Hfin i ltac:(lia)) as [Fmi Fxi]. destruct (Hfin j ltac:(lia)) as [Fmj Fxj].
  destruct (ofZ_exact i) as [Ei Fi]; [rewrite MAXI_pow in *; lia|].
  destruct (ofZ_exact j) as [Ej Fj]; [rewrite MAXI_pow in *; lia|].
  unfold x_sampled in *.
  rewrite (fadd_R _ _ Fmi Foff Fxi), (fadd_R _ _ Fmj Foff Fxj).
  apply rnd_le. apply Rplus_le_compat_r.
  rewrite (fmul_R _ _ Fi Fdt Fmi), (fmul_R _ _ Fj Fdt Fmj).
  apply rnd_le. rewrite Ei, Ej. apply Rmult_le_compat_r; [exact Hdt|]. apply IZR_le. lia.
Qed.

Lemma below_anti limit dt off strict : finite limit -> finite dt -> finite off -> 0 <= B2R dt -> axis_finite dt off ->
  forall i j, (0 <= i <= j)%Z -> (j <= MAXI)%Z ->
  below_of limit off dt strict j = true -> below_of limit off dt strict i = true.
Proof.
  intros Fl Fdt Foff Hdt Hfin i j Hij HjM.
  pose proof (x_sampled_mono dt off Fdt Foff Hdt Hfin i j Hij HjM) as Hm.
  destruct (Hfin i ltac:(lia)) as [_ Fxi]. destruct (Hfin j ltac:(lia)) as [_ Fxj].
  unfold below_of, sampleBelow. fold (x_sampled dt off i). fold (x_sampled dt off j).
  destruct strict.
  - rewrite !flt_true by assumption. lra.
  - rewrite !fle_true by assumption. lra.
Qed.

(** a sufficient, explicit condition for [axis_finite]: moderate interval and offset *)
Lemma axis_finite_small dt off :
  finite dt -> finite off -> Rabs (B2R dt) <= bpow radix2 900 -> Rabs (B2R off) <= bpow radix2 1000 ->
  axis_finite dt off.
Proof.
  intros Fdt Foff Hdt Hoff i Hi.
  destruct (ofZ_exact i) as [Ei Fi]; [rewrite MAXI_pow in *; lia|].
  assert (Hi53 : Rabs (IZR i) <= bpow radix2 53).
  { rewrite <- abs_IZR. change (bpow radix2 53) with (IZR (2 ^ 53)). apply IZR_le. rewrite MAXI_pow in Hi. lia. }
  assert (Hprod : Rabs (B2R (ofZ i) * B2R dt) <= bpow radix2 953).
  { rewrite Rabs_mult, Ei. change 953%Z with (53 + 900)%Z. rewrite bpow_plus.
    apply Rmult_le_compat; try apply Rabs_pos; assumption. }
  assert (Hrp : Rabs (rnd (B2R (ofZ i) * B2R dt)) <= bpow radix2 953).
  { apply abs_round_le_generic; [apply fexp_valid | apply valid_rnd_round_mode | | exact Hprod].
    apply generic_format_bpow. unfold fexp, FLT_exp, emin, emax, prec. lia. }
  assert (Fm : finite (fmul (ofZ i) dt) /\ B2R (fmul (ofZ i) dt) = rnd (B2R (ofZ i) * B2R dt)).
  { unfold fmul, finite.
    pose proof (Bmult_correct prec emax Hprec Hmax mode_NE (ofZ i) dt) as H.
    change (SpecFloat.fexp prec emax) with fexp in H.
    rewrite Rlt_bool_true in H.
    - destruct H as (H1 & H2 & _). rewrite H2. unfold finite in Fi, Fdt. rewrite Fi, Fdt. split; [reflexivity|exact H1].
    - eapply Rle_lt_trans; [exact Hrp|]. apply bpow_lt. unfold emax. lia. }
  destruct Fm as [Fm Em]. split; [exact Fm|].
  unfold x_sampled, fadd, finite.
  pose proof (Bplus_correct prec emax Hprec Hmax mode_NE (fmul (ofZ i) dt) off Fm Foff) as H.
  change (SpecFloat.fexp prec emax) with fexp in H.
  rewrite Rlt_bool_true in H.
  - destruct H as (_ & H2 & _). exact H2.
  - assert (Hs : Rabs (B2R (fmul (ofZ i) dt) + B2R off) <= bpow radix2 1001).
    { eapply Rle_trans; [apply Rabs_triang|]. rewrite Em.
      change 1001%Z with (1000 + 1)%Z. rewrite bpow_plus. change (bpow radix2 1) with 2.
      assert (bpow radix2 953 <= bpow radix2 1000) by (apply bpow_le; lia). lra. }
    eapply Rle_lt_trans.
    + apply abs_round_le_generic; [apply fexp_valid | apply valid_rnd_round_mode | | exact Hs].
      apply generic_format_bpow. unfold fexp, FLT_exp, emin, emax, prec. lia.
    + apply bpow_lt. unfold emax. lia.
Qed.

(** --- specification of [lastSampleBelow] --- *)
Local Open Scope Z_scope.

Definition last_spec (below : Z -> bool) (r : option Z) : Prop :=
  match r with
  | None => below 0 = false
  | Some i => is_last_below below i
  end.

Lemma guess_of_floor (y : F64) : exists g, guess_of (ffloor y) = Ok g /\ 0 <= g <= MAXI.
Proof.
  unfold guess_of.
  destruct (fge (ffloor y) (ofME 1 53)) eqn:E1.
  { exists MAXI. split; [reflexivity|unfold MAXI; lia]. }
  destruct (fge (ffloor y) (ofZ 1)) eqn:E2.
  2:{ exists 0. split; [reflexivity|unfold MAXI; lia]. }
  destruct (ffloor_R y) as [Hv Hf].
  destruct (is_finite y) eqn:Fy.
  - (* finite: an integer in [1, 2^53) *)
    assert (F1 : finite (ofZ 1)) by (apply ofZ_exact; lia).
    assert (V1 : B2R (ofZ 1) = 1%R) by (apply (ofZ_exact 1); lia).
    assert (F53 : finite (ofME 1 53)) by reflexivity.
    assert (V53 : B2R (ofME 1 53) = IZR (2 ^ 53)).
    { unfold ofME. pose proof (binary_normalize_correct prec emax Hprec Hmax mode_NE 1 53 false) as H.
      cbv zeta in H.
      assert (Ef : F2R (Float radix2 1 53) = IZR (2 ^ 53)).
      { unfold F2R. cbn [Fnum Fexp]. rewrite Rmult_1_l. rewrite <- (IZR_Zpower radix2 53) by lia. reflexivity. }
      rewrite Ef in H. rewrite (round_int (2 ^ 53)) in H by lia.
      rewrite Rlt_bool_true in H by (apply int_small_lt_emax; lia). destruct H as (H & _). exact H. }
    assert (Ffl : finite (ffloor y)) by (unfold finite; congruence).
    unfold fge in E1, E2.
    assert (L2 : (1 <= B2R (ffloor y))%R).
    { apply (fle_true (ofZ 1) (ffloor y) F1 Ffl) in E2. rewrite V1 in E2. exact E2. }
    assert (L1 : ~ (IZR (2 ^ 53) <= B2R (ffloor y))%R).
    { intro H. rewrite <- V53 in H. apply (fle_true (ofME 1 53) (ffloor y) F53 Ffl) in H. unfold fle in H. congruence. }
    rewrite Hv in L1, L2.
    set (z := Zfloor (B2R y)) in *.
    assert (1 <= z) by (apply le_IZR; exact L2).
    assert (z < 2 ^ 53) by (apply Znot_ge_lt; intro G; apply L1; apply IZR_le; lia).
    exists z. split.
    + apply toU64_int; [exact Ffl | exact Hv | unfold two64; lia].
    + unfold MAXI. lia.
  - (* infinite or NaN: floor is the identity, the comparisons decide *)
    destruct y as [s|s| |s m e B]; try discriminate Fy.
    + destruct s; cbn in E1, E2; discriminate.
    + cbn in E2. discriminate.
Qed.

Lemma lastSampleBelow_spec limit dt off strict :
  finite limit -> finite dt -> finite off -> (0 <= B2R dt)%R -> axis_finite dt off ->
  exists r, lastSampleBelow limit off dt strict = Ok r /\ last_spec (below_of limit off dt strict) r.
Proof.
  intros Fl Fdt Foff Hdt Hfin. rewrite lastSampleBelow_bridge. unfold lastSampleBelow_hand.
  set (below := below_of limit off dt strict).
  assert (anti := below_anti limit dt off strict Fl Fdt Foff Hdt Hfin). fold below in anti.
  destruct (below 0) eqn:B0; cbn [negb].
  2:{ exists None. split; [reflexivity|exact B0]. }
  destruct (below MAXI) eqn:BM.
  { exists (Some MAXI). split; [reflexivity|]. unfold last_spec, is_last_below. repeat split; try (unfold MAXI; lia); try assumption. }
  destruct (guess_of_floor (fdiv (fsub limit off) dt)) as (g & Hg & Hgr).
  rewrite Hg. cbn [bind].
  destruct (search_ok below B0 BM g Hgr) as (r & Hr & Hl).
  exists (Some r). split; assumption.
Qed.

(** --- from the search result to the matching rules --- *)
Section Rules.
  Variables (p off dt : F64).
  Hypothesis Fp : finite p.
  Hypothesis Foff : finite off.
  Hypothesis Fdt : finite dt.
  Hypothesis Hdt : (0 < B2R dt)%R.
  Hypothesis Hfin : axis_finite dt off.

  Let X := x_sampled dt off.
  Let n := Some (MAXI + 1).

  Lemma inax_iff i : inax n i <-> 0 <= i <= MAXI.
  Proof. unfold inax, inaxb, n. rewrite andb_true_iff, Z.leb_le, Z.ltb_lt. lia. Qed.

  Lemma FX i : 0 <= i <= MAXI -> finite (X i).
  Proof. intro Hi. apply (Hfin i Hi). Qed.

  Lemma below_le i : below_of p off dt false i = fle (X i) p. Proof. reflexivity. Qed.
  Lemma below_lt i : below_of p off dt true i = flt (X i) p. Proof. reflexivity. Qed.

  Lemma X_mono i j : 0 <= i <= j -> j <= MAXI -> (B2R (X i) <= B2R (X j))%R.
  Proof. apply x_sampled_mono; try assumption. lra. Qed.

  Lemma anti_of strict : forall i j, 0 <= i <= j -> j <= MAXI ->
    below_of p off dt strict j = true -> below_of p off dt strict i = true.
  Proof. apply below_anti; try assumption. lra. Qed.

  (** last-index rules *)
  Lemma last_rule strict r :
    last_spec (below_of p off dt strict) r ->
    is_last_idx n (below_of p off dt strict) r.
  Proof.
    intro H. destruct r as [i|]; cbn [last_spec is_last_idx] in *.
    - pose proof (is_last_below_char _ (anti_of strict) i H) as C.
      destruct H as (Hi & Hb & _). split; [apply inax_iff; exact Hi|]. split; [exact Hb|].
      intros j Hj Pj. apply inax_iff in Hj. apply (C j Hj). exact Pj.
    - intros j Hj. apply inax_iff in Hj.
      destruct (below_of p off dt strict j) eqn:E; [|reflexivity].
      rewrite (anti_of strict 0 j) in H; [discriminate|lia|lia|exact E].
  Qed.

  (** first-index rules: the complement of a prefix predicate *)
  Lemma first_rule strict r (Q : Z -> bool) :
    (forall j, 0 <= j <= MAXI -> Q j = negb (below_of p off dt strict j)) ->
    last_spec (below_of p off dt strict) r ->
    is_first_idx n Q
      (match r with
       | None => Some 0
       | Some d => if d <? MAXI then Some (d + 1) else None
       end).
  Proof.
    intros HQ H. destruct r as [d|]; cbn [last_spec] in H.
    - pose proof (is_last_below_char _ (anti_of strict) d H) as C.
      destruct H as (Hd & Hb & Hn).
      destruct (d <? MAXI) eqn:E.
      + apply Z.ltb_lt in E. cbn [is_first_idx]. split; [apply inax_iff; lia|]. split.
        * rewrite HQ by lia. rewrite (Hn E). reflexivity.
        * intros j Hj Pj. apply inax_iff in Hj. rewrite HQ in Pj by exact Hj.
          destruct (Z_le_gt_dec j d) as [Hle|]; [|lia]. exfalso.
          assert (below_of p off dt strict j = true) by (apply C; [exact Hj|exact Hle]).
          rewrite H in Pj. discriminate.
      + apply Z.ltb_ge in E. cbn [is_first_idx]. intros j Hj. apply inax_iff in Hj.
        rewrite HQ by exact Hj. assert (below_of p off dt strict j = true) as -> by (apply C; [exact Hj|lia]). reflexivity.
    - cbn [is_first_idx]. split; [apply inax_iff; unfold MAXI; lia|]. split.
      + rewrite HQ by (unfold MAXI; lia). rewrite H. reflexivity.
      + intros j Hj _. apply inax_iff in Hj. lia.
  Qed.

  Lemma not_le_lt i : 0 <= i <= MAXI -> flt p (X i) = negb (fle (X i) p).
  Proof.
    intro Hi. pose proof (FX i Hi) as F.
    rewrite flt_R, fle_R by assumption.
    destruct (Rlt_bool_spec (B2R p) (B2R (X i))); destruct (Rle_bool_spec (B2R (X i)) (B2R p)); try reflexivity; lra.
  Qed.
  Lemma not_lt_le i : 0 <= i <= MAXI -> fle p (X i) = negb (flt (X i) p).
  Proof.
    intro Hi. pose proof (FX i Hi) as F.
    rewrite flt_R, fle_R by assumption.
    destruct (Rle_bool_spec (B2R p) (B2R (X i))); destruct (Rlt_bool_spec (B2R (X i)) (B2R p)); try reflexivity; lra.
  Qed.

  (** Equal: the LessOrEqual index if its coordinate is p *)
  Lemma equal_rule r :
    last_spec (below_of p off dt false) r ->
    match spec_equal X p r with
    | Some i => inax n i /\ feq (X i) p = true
    | None => forall j, inax n j -> feq (X j) p = false
    end.
  Proof.
    intro H. destruct r as [d|]; cbn [spec_equal last_spec] in *.
    - pose proof (is_last_below_char _ (anti_of false) d H) as C.
      destruct H as (Hd & Hb & Hn).
      destruct (feq (X d) p) eqn:E.
      + split; [apply inax_iff; exact Hd|exact E].
      + intros j Hj. apply inax_iff in Hj.
        destruct (feq (X j) p) eqn:Ej; [exfalso|reflexivity].
        pose proof (FX j Hj) as Fj. pose proof (FX d Hd) as Fd.
        apply (feq_true _ _ Fj Fp) in Ej.
        assert (Bj : below_of p off dt false j = true).
        { rewrite below_le. apply (fle_true _ _ Fj Fp). lra. }
        apply (C j Hj) in Bj.
        pose proof (X_mono j d ltac:(lia) ltac:(lia)) as M.
        rewrite below_le in Hb. apply (fle_true _ _ Fd Fp) in Hb.
        assert (B2R (X d) = B2R p) by lra.
        apply (feq_true _ _ Fd Fp) in H. congruence.
    - intros j Hj. apply inax_iff in Hj.
      destruct (feq (X j) p) eqn:Ej; [exfalso|reflexivity].
      pose proof (FX j Hj) as Fj. apply (feq_true _ _ Fj Fp) in Ej.
      assert (Bj : below_of p off dt false j = true).
      { rewrite below_le. apply (fle_true _ _ Fj Fp). lra. }
      rewrite (anti_of false 0 j) in H; [discriminate|lia|lia|exact Bj].
  Qed.
End Rules.

(** --- the generated [getSampledIndex] meets the specification of every rule --- *)
Lemma feq_refl_finite (x : F64) : finite x -> feq x x = true.
Proof. intro F. apply (feq_true x x F F). reflexivity. Qed.

Lemma ofZ0 : B2R (ofZ 0) = 0%R /\ finite (ofZ 0).
Proof. apply (ofZ_exact 0). lia. Qed.

Theorem sampled_index_spec p off dt m :
  finite p -> finite off -> finite dt -> (0 < B2R dt)%R -> axis_finite dt off ->
  exists r, getSampledIndex p off dt m = Ok r /\
            rule_spec (x_sampled dt off) (Some (MAXI + 1)) m p r.
Proof.
  intros Fp Foff Fdt Hdt Hfin.
  assert (Hdt0 : (0 <= B2R dt)%R) by lra.
  unfold getSampledIndex.
  change (fne p p) with (negb (feq p p)). change (fne off off) with (negb (feq off off)).
  rewrite (feq_refl_finite p Fp), (feq_refl_finite off Foff). cbn [negb orb].
  assert (G : fgt dt (ofZ 0) = true).
  { unfold fgt. destruct ofZ0 as [V0 F0]. apply (flt_true _ _ F0 Fdt). rewrite V0. exact Hdt. }
  rewrite G. cbn [negb].
  destruct (lastSampleBelow_spec p dt off false Fp Fdt Foff Hdt0 Hfin) as (le & Ele & Sle).
  destruct (lastSampleBelow_spec p dt off true Fp Fdt Foff Hdt0 Hfin) as (lt & Elt & Slt).
  destruct m; cbn [PositionMatch_beq orb]; cbv zeta.
  - (* Equal *)
    rewrite Ele. cbn [bind].
    pose proof (equal_rule p off dt Fp Foff Fdt Hdt Hfin le Sle) as E.
    destruct le as [d|]; cbn [opt_is_some opt_deref bind spec_equal] in *.
    + fold (x_sampled dt off d). destruct (feq (x_sampled dt off d) p); eexists; (split; [reflexivity|exact E]).
    + eexists; split; [reflexivity|exact E].
  - (* Less *)
    rewrite Elt. cbn [bind]. exists lt. split; [reflexivity|].
    apply (last_rule p off dt Fp Foff Fdt Hdt Hfin true lt Slt).
  - (* Greater *)
    rewrite Ele. cbn [bind].
    pose proof (first_rule p off dt Fp Foff Fdt Hdt Hfin false le (fun i => flt p (x_sampled dt off i))
                  (not_le_lt p off dt Fp Hfin) Sle) as R.
    destruct le as [d|]; cbn [opt_is_some opt_deref bind negb] in *.
    + destruct (d <? 9007199254740992) eqn:E; change 9007199254740992 with MAXI in E; rewrite E in R.
      * cbn [bind]. eexists; split; [reflexivity|].
        rewrite u64_add_small; [exact R|]. destruct Sle as (Hd & _). unfold MAXI, two64 in *. lia.
      * eexists; split; [reflexivity|exact R].
    + eexists; split; [reflexivity|exact R].
  - (* GreaterOrEqual *)
    rewrite Elt. cbn [bind].
    pose proof (first_rule p off dt Fp Foff Fdt Hdt Hfin true lt (fun i => fle p (x_sampled dt off i))
                  (not_lt_le p off dt Fp Hfin) Slt) as R.
    destruct lt as [d|]; cbn [opt_is_some opt_deref bind negb] in *.
    + destruct (d <? 9007199254740992) eqn:E; change 9007199254740992 with MAXI in E; rewrite E in R.
      * cbn [bind]. eexists; split; [reflexivity|].
        rewrite u64_add_small; [exact R|]. destruct Slt as (Hd & _). unfold MAXI, two64 in *. lia.
      * eexists; split; [reflexivity|exact R].
    + eexists; split; [reflexivity|exact R].
  - (* LessOrEqual *)
    rewrite Ele. cbn [bind]. exists le. split; [reflexivity|].
    apply (last_rule p off dt Fp Foff Fdt Hdt Hfin false le Sle).
Qed.
