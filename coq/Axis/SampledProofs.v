(** C07, sampled axis: the generated [lastSampleBelow] / [getSampledIndex] meet the rule
    specification.  Only monotonicity of the computed coordinates is used. *)
From Coq Require Import ZArith Bool String List Reals Lia Lra.
From Flocq Require Import Core BinarySingleNaN.
Require Import NixV.Base.Prelude NixV.Base.F64 NixV.Base.F64Facts NixV.Gen.GenDimensions.
Require Import NixV.Axis.SampledHand NixV.Axis.SearchProofs NixV.Axis.AxisSpec.
Local Open Scope Z_scope.

(** --- bridge: the generated function is the hand-written search --- *)
Definition below_of (limit off dt : F64) (strict : bool) : Z -> bool :=
  fun i => sampleBelow i limit off dt strict.

Definition guess_of (estimate : F64) : res Z :=
  if fge estimate (ofME 1 53) then Ok MAXI
  else if fge estimate (ofZ 1) then toU64 estimate else Ok 0.

Definition lastSampleBelow_hand (limit off dt : F64) (strict : bool) : res (option Z) :=
  let below := below_of limit off dt strict in
  if negb (below 0) then Ok None
  else if below MAXI then Ok (Some MAXI)
  else bind (guess_of (ffloor (fdiv (fsub limit off) dt))) (fun g => search below g).

Section Bridge.
  Variables (limit off dt : F64) (strict : bool).
  Let below := below_of limit off dt strict.

  Lemma loop3_is_bisect result estimate guess step : forall fuel hi lo,
    lastSampleBelow_loop3 limit off dt strict result estimate guess step fuel hi lo = bisect below fuel hi lo.
  Proof.
    induction fuel as [|f IH]; intros hi lo; [reflexivity|].
    cbn [lastSampleBelow_loop3 bisect]. rewrite !IH. reflexivity.
  Qed.

  Lemma loop5_is_gallop_up result estimate guess k2 :
    (forall hi lo step, k2 hi lo step = bisect below LOOP_FUEL hi lo) ->
    forall fuel hi lo step,
    lastSampleBelow_loop5 limit off dt strict result estimate guess k2 fuel hi lo step = gallop_up below fuel hi lo step.
  Proof.
    intros Hk. induction fuel as [|f IH]; intros hi lo step; [reflexivity|].
    cbn [lastSampleBelow_loop5 gallop_up]. rewrite IH, Hk. reflexivity.
  Qed.

  Lemma loop6_is_gallop_down result estimate guess k2 :
    (forall hi lo step, k2 hi lo step = bisect below LOOP_FUEL hi lo) ->
    forall fuel hi lo step,
    lastSampleBelow_loop6 limit off dt strict result estimate guess k2 fuel hi lo step = gallop_down below fuel hi lo step.
  Proof.
    intros Hk. induction fuel as [|f IH]; intros hi lo step; [reflexivity|].
    cbn [lastSampleBelow_loop6 gallop_down]. rewrite IH, Hk. reflexivity.
  Qed.

  Lemma k1_is_search result estimate g :
    (if sampleBelow g limit off dt strict
     then lastSampleBelow_loop5 limit off dt strict result estimate g
            (fun hi lo step => lastSampleBelow_loop3 limit off dt strict result estimate g step LOOP_FUEL hi lo)
            LOOP_FUEL (next_hi g 1) g 1
     else lastSampleBelow_loop6 limit off dt strict result estimate g
            (fun hi lo step => lastSampleBelow_loop3 limit off dt strict result estimate g step LOOP_FUEL hi lo)
            LOOP_FUEL g (next_lo g 1) 1) = search below g.
  Proof.
    unfold search. change (sampleBelow g limit off dt strict) with (below g).
    destruct (below g).
    - rewrite loop5_is_gallop_up by (intros; apply loop3_is_bisect). reflexivity.
    - rewrite loop6_is_gallop_down by (intros; apply loop3_is_bisect). reflexivity.
  Qed.

  Lemma lastSampleBelow_bridge :
    lastSampleBelow limit off dt strict = lastSampleBelow_hand limit off dt strict.
  Proof.
    unfold lastSampleBelow, lastSampleBelow_hand, guess_of.
    fold below.
    change (sampleBelow 0 limit off dt strict) with (below 0).
    change (sampleBelow 9007199254740992 limit off dt strict) with (below MAXI).
    destruct (negb (below 0)); [reflexivity|].
    destruct (below MAXI) eqn:EM; [reflexivity|].
    cbv zeta.
    destruct (fge (ffloor (fdiv (fsub limit off) dt)) (ofME 1 53)).
    { cbn [bind]. rewrite <- (k1_is_search None (ffloor (fdiv (fsub limit off) dt)) MAXI).
      change (sampleBelow MAXI limit off dt strict) with (below MAXI). rewrite EM. reflexivity. }
    destruct (fge (ffloor (fdiv (fsub limit off) dt)) (ofZ 1)).
    - destruct (toU64 (ffloor (fdiv (fsub limit off) dt))) as [g| |]; cbn [bind]; [|reflexivity|reflexivity].
      exact (k1_is_search None _ g).
    - cbn [bind]. exact (k1_is_search None _ 0).
  Qed.
End Bridge.
