(** The start/end pair conversions regenerated from src/Dimensions.cpp ([NixV.Gen.GenPairs]) are the pair rule
    [pair_of] applied to the two scalar conversions - for every kind of dimension, every pair of positions and
    both modes; the retrieval model's [indexOf_pair] (C05, C06, C17 via the slice model) is that function. *)
From Coq Require Import ZArith Bool String List.
Require Import NixV.Base.Prelude NixV.Base.F64 NixV.Gen.GenDimensions NixV.Axis.RangeModel NixV.Gen.GenPairs.
Require NixV.Access.Retrieval.
Import ListNotations.
Local Open Scope Z_scope.

Definition end_match (m : RangeMatch) : PositionMatch :=
  if RangeMatch_beq m RangeMatch_Inclusive then PositionMatch_LessOrEqual else PositionMatch_Less.

(** both conversions, then the pair rule (the range kind returns before converting the end when the start has no index) *)
Definition pair_rule (conv : F64 -> PositionMatch -> res (option Z)) (early : bool) (m : RangeMatch) (s e : F64)
  : res (option (Z * Z)) :=
  if fgt s e then Ok None
  else bind (conv s PositionMatch_GreaterOrEqual) (fun si =>
       if early && negb (opt_is_some si) then Ok None
       else bind (conv e (end_match m)) (fun ei => Ok (pair_of false si ei))).

Lemma tail_rule (si ei : option Z) :
  bind (if opt_is_some si && opt_is_some ei
        then bind (opt_deref si) (fun a => bind (opt_deref ei) (fun b => Ok (a <=? b))) else Ok false)
       (fun sc => let k := fun idx : option (Z * Z) => Ok idx in
                  if sc then bind (opt_deref si) (fun a => bind (opt_deref ei) (fun b => let idx := Some (a, b) in k idx))
                  else k None)
  = Ok (pair_of false si ei).
Proof. destruct si as [a|], ei as [b|]; cbn; try reflexivity. destruct (a <=? b); reflexivity. Qed.

Theorem sampled_pair_generated s e dt off m :
  sampled_pair s e dt off m = pair_rule (fun p r => getSampledIndex p off dt r) false m s e.
Proof.
  unfold sampled_pair, pair_rule. fold (end_match m). destruct (fgt s e); [reflexivity|].
  destruct (getSampledIndex s off dt PositionMatch_GreaterOrEqual) as [si| |]; cbn [bind andb]; try reflexivity.
  destruct (getSampledIndex e off dt (end_match m)) as [ei| |]; cbn [bind]; try reflexivity.
  apply tail_rule.
Qed.

Theorem df_pair_generated s e n m :
  df_pair s e n m = pair_rule (fun p r => getDataFrameIndex p n r) false m s e.
Proof.
  unfold df_pair, pair_rule. fold (end_match m). destruct (fgt s e); [reflexivity|].
  destruct (getDataFrameIndex s n PositionMatch_GreaterOrEqual) as [si| |]; cbn [bind andb]; try reflexivity.
  destruct (getDataFrameIndex e n (end_match m)) as [ei| |]; cbn [bind]; try reflexivity.
  apply tail_rule.
Qed.

(** [set_labels] empty: the labels of the dimension are fetched *)
Theorem set_pair_generated s e labels own m :
  set_pair s e labels m own =
  pair_rule (fun p r => getSetIndex p (if zlen labels =? 0 then own else labels) r) false m s e.
Proof.
  unfold set_pair, pair_rule. fold (end_match m).
  destruct (zlen labels =? 0); cbv zeta beta;
  (destruct (fgt s e); [reflexivity|];
   match goal with |- context [getSetIndex s ?l PositionMatch_GreaterOrEqual] =>
     destruct (getSetIndex s l PositionMatch_GreaterOrEqual) as [si| |]; cbn [bind andb]; try reflexivity;
     destruct (getSetIndex e l (end_match m)) as [ei| |]; cbn [bind]; try reflexivity
   end; apply tail_rule).
Qed.

Theorem range_pair_generated s e ticks own m :
  range_pair s e ticks m own =
  pair_rule (fun p r => getIndex p (if zlen ticks =? 0 then own else ticks) r) true m s e.
Proof.
  unfold range_pair, pair_rule. fold (end_match m).
  destruct (zlen ticks =? 0); cbv zeta beta;
  (destruct (fgt s e); [reflexivity|];
   match goal with |- context [getIndex s ?l PositionMatch_GreaterOrEqual] =>
     destruct (getIndex s l PositionMatch_GreaterOrEqual) as [[a|]| |]; cbn [bind andb negb opt_is_some]; try reflexivity;
     destruct (getIndex e l (end_match m)) as [[b|]| |]; cbn [bind opt_is_some opt_deref pair_of]; try reflexivity
   end; destruct (a <=? b); reflexivity).
Qed.

(** the retrieval model's pair conversion is the generated code *)
Theorem retrieval_pair_is_generated : forall d m s e,
  Retrieval.indexOf_pair d m s e =
  match d with
  | Retrieval.DSampled dt off _ => sampled_pair s e dt (Retrieval.offset_or_zero off) m
  | Retrieval.DRange ticks _ => pair_rule (fun p r => getIndex p ticks r) true m s e
  | Retrieval.DSet n => pair_rule (fun p r => getSetIndex p (Retrieval.labels_of n) r) false m s e
  | Retrieval.DFrame n => df_pair s e n m
  end.
Proof.
  intros d m s e. destruct d as [dt off u|ticks u|n|n].
  - rewrite sampled_pair_generated. unfold Retrieval.indexOf_pair, pair_rule, Retrieval.indexOf_scalar, Retrieval.GE, Retrieval.end_match, end_match.
    destruct (fgt s e); [reflexivity|]. cbn [andb]. reflexivity.
  - unfold Retrieval.indexOf_pair, pair_rule, Retrieval.indexOf_scalar, Retrieval.GE, Retrieval.end_match, end_match.
    destruct (fgt s e); [reflexivity|].
    destruct (getIndex s ticks PositionMatch_GreaterOrEqual) as [[a|]| |]; cbn [bind andb negb opt_is_some]; reflexivity.
  - unfold Retrieval.indexOf_pair, pair_rule, Retrieval.indexOf_scalar, Retrieval.GE, Retrieval.end_match, end_match.
    destruct (fgt s e); [reflexivity|]. cbn [andb]. reflexivity.
  - rewrite df_pair_generated. unfold Retrieval.indexOf_pair, pair_rule, Retrieval.indexOf_scalar, Retrieval.GE, Retrieval.end_match, end_match.
    destruct (fgt s e); [reflexivity|]. cbn [andb]. reflexivity.
Qed.
