(** Hand-written twin of the generated [lastSampleBelow] / [getSampledIndex] (src/Dimensions.cpp):
    the three loops as top-level fixpoints over an abstract predicate [below].  The bridge lemmas
    in SampledProofs.v show the generated definitions equal these. Definitions only. *)
From Coq Require Import ZArith Bool String List.
Require Import NixV.Base.Prelude NixV.Base.F64.
Local Open Scope Z_scope.
Local Open Scope bool_scope.
Local Open Scope string_scope.

Definition MAXI : Z := 9007199254740992.   (* 2^53 *)

Section Hand.
  Variable below : Z -> bool.

  Fixpoint bisect (fuel : nat) (hi lo : Z) {struct fuel} : res (option Z) :=
    match fuel with
    | O => Err "OutOfFuel"
    | S fuel_ =>
        if Z.gtb (u64_sub hi lo) 1
        then let mid := u64_add lo (Z.div (u64_sub hi lo) 2) in
             if below mid then bisect fuel_ hi mid else bisect fuel_ mid lo
        else Ok (Some lo)
    end.

  Definition next_hi (lo step : Z) : Z :=
    if Z.gtb (u64_sub MAXI lo) step then u64_add lo step else MAXI.
  Definition next_lo (hi step : Z) : Z :=
    if Z.gtb hi step then u64_sub hi step else 0.

  Fixpoint gallop_up (fuel : nat) (hi lo step : Z) {struct fuel} : res (option Z) :=
    match fuel with
    | O => Err "OutOfFuel"
    | S fuel_ =>
        if below hi
        then gallop_up fuel_ (next_hi hi (u64_mul step 2)) hi (u64_mul step 2)
        else bisect LOOP_FUEL hi lo
    end.

  Fixpoint gallop_down (fuel : nat) (hi lo step : Z) {struct fuel} : res (option Z) :=
    match fuel with
    | O => Err "OutOfFuel"
    | S fuel_ =>
        if negb (below lo)
        then gallop_down fuel_ lo (next_lo lo (u64_mul step 2)) (u64_mul step 2)
        else bisect LOOP_FUEL hi lo
    end.

  Definition search (guess : Z) : res (option Z) :=
    if below guess
    then gallop_up LOOP_FUEL (next_hi guess 1) guess 1
    else gallop_down LOOP_FUEL guess (next_lo guess 1) 1.
End Hand.
