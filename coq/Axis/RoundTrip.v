(** C07 corollaries of the rule specification on a monotone axis: the coordinate of index i
    converts back to i (i-1 for Less, i+1 for Greater) wherever the axis is strictly increasing
    around i; the start/end pair rule. *)
From Coq Require Import ZArith Bool List Reals Lia Lra.
From Flocq Require Import Core BinarySingleNaN.
Require Import NixV.Base.Prelude NixV.Base.F64 NixV.Base.F64Facts NixV.Gen.GenDimensions.
Require Import NixV.Axis.AxisSpec NixV.Axis.AxisSpecProofs NixV.Axis.RangeModel.
Local Open Scope Z_scope.

Section RoundTrip.
  Variable x : Z -> F64.
  Variable N : Z.
  Let n := Some N.
  Hypothesis Fx : forall i, 0 <= i < N -> finite (x i).
  Hypothesis Hmono : forall i j, 0 <= i <= j -> j < N -> (B2R (x i) <= B2R (x j))%R.
  Variable i0 : Z.
  Hypothesis Hi0 : 0 <= i0 < N.
  Hypothesis Hup : i0 + 1 < N -> (B2R (x i0) < B2R (x (i0 + 1)))%R.
  Hypothesis Hdown : 0 < i0 -> (B2R (x (i0 - 1)) < B2R (x i0))%R.

  Local Notation p := (x i0).
  Lemma Fp0 : finite p. Proof. apply Fx. exact Hi0. Qed.

  Lemma above j : 0 <= j < N -> i0 < j -> (B2R p < B2R (x j))%R.
  Proof. intros Hj Hlt. pose proof (Hmono (i0 + 1) j ltac:(lia) ltac:(lia)). pose proof (Hup ltac:(lia)). lra. Qed.
  Lemma below j : 0 <= j < N -> j < i0 -> (B2R (x j) < B2R p)%R.
  Proof. intros Hj Hlt. pose proof (Hmono j (i0 - 1) ltac:(lia) ltac:(lia)). pose proof (Hdown ltac:(lia)). lra. Qed.

  Lemma cmp_le j : 0 <= j < N -> fle (x j) p = (j <=? i0).
  Proof.
    intro Hj. rewrite (fle_R _ _ (Fx j Hj) Fp0).
    destruct (Rle_bool_spec (B2R (x j)) (B2R p)) as [L|L]; symmetry.
    - apply Z.leb_le. destruct (Z_le_gt_dec j i0); [assumption|]. pose proof (above j Hj ltac:(lia)). lra.
    - apply Z.leb_gt. destruct (Z_le_gt_dec j i0) as [Hle|]; [|lia].
      pose proof (Hmono j i0 ltac:(lia) ltac:(lia)). lra.
  Qed.
  Lemma cmp_lt j : 0 <= j < N -> flt (x j) p = (j <? i0).
  Proof.
    intro Hj. rewrite (flt_R _ _ (Fx j Hj) Fp0).
    destruct (Rlt_bool_spec (B2R (x j)) (B2R p)) as [L|L]; symmetry.
    - apply Z.ltb_lt. destruct (Z_lt_ge_dec j i0); [assumption|].
      pose proof (Hmono i0 j ltac:(lia) ltac:(lia)). lra.
    - apply Z.ltb_ge. destruct (Z_lt_ge_dec j i0) as [Hlt|]; [|lia]. pose proof (below j Hj Hlt). lra.
  Qed.
  Lemma cmp_ge j : 0 <= j < N -> fle p (x j) = (i0 <=? j).
  Proof.
    intro Hj. pose proof (cmp_lt j Hj) as C. rewrite (fle_R _ _ Fp0 (Fx j Hj)). rewrite (flt_R _ _ (Fx j Hj) Fp0) in C.
    destruct (Rle_bool_spec (B2R p) (B2R (x j))); destruct (Rlt_bool_spec (B2R (x j)) (B2R p)); try lra; lia.
  Qed.
  Lemma cmp_gt j : 0 <= j < N -> flt p (x j) = (i0 <? j).
  Proof.
    intro Hj. pose proof (cmp_le j Hj) as C. rewrite (flt_R _ _ Fp0 (Fx j Hj)). rewrite (fle_R _ _ (Fx j Hj) Fp0) in C.
    destruct (Rlt_bool_spec (B2R p) (B2R (x j))); destruct (Rle_bool_spec (B2R (x j)) (B2R p)); try lra; lia.
  Qed.
  Lemma cmp_eq j : 0 <= j < N -> feq (x j) p = (j =? i0).
  Proof.
    intro Hj. pose proof (cmp_le j Hj) as C1. pose proof (cmp_lt j Hj) as C2.
    rewrite (feq_R _ _ (Fx j Hj) Fp0). rewrite (fle_R _ _ (Fx j Hj) Fp0) in C1. rewrite (flt_R _ _ (Fx j Hj) Fp0) in C2.
    destruct (Req_bool_spec (B2R (x j)) (B2R p)); destruct (Rle_bool_spec (B2R (x j)) (B2R p));
      destruct (Rlt_bool_spec (B2R (x j)) (B2R p)); try lra; lia.
  Qed.

  (** the coordinate of index i0 converts back: i0 for LessOrEqual / GreaterOrEqual / Equal,
      i0 - 1 for Less, i0 + 1 for Greater (no index at the ends of the axis) *)
  Theorem coordinate_roundtrip m r : rule_spec x n m p r ->
    r = match m with
        | PositionMatch_Less => if 0 <? i0 then Some (i0 - 1) else None
        | PositionMatch_Greater => if i0 + 1 <? N then Some (i0 + 1) else None
        | _ => Some i0
        end.
  Proof.
    destruct m; cbn [rule_spec]; intro H.
    - (* Equal *) destruct r as [k|].
      + destruct H as [Hk E]. apply inax_N in Hk. rewrite (cmp_eq k Hk) in E. f_equal. lia.
      + specialize (H i0 ltac:(apply inax_N; exact Hi0)). rewrite (cmp_eq i0 Hi0) in H. lia.
    - (* Less *) destruct r as [k|]; cbn [is_last_idx] in H.
      + destruct H as (Hk & Pk & Hm). apply inax_N in Hk. cbn [holds] in *. rewrite (cmp_lt k Hk) in Pk.
        destruct (0 <? i0) eqn:E; [|lia]. f_equal.
        assert (i0 - 1 <= k); [|lia]. apply Hm; [apply inax_N; lia|]. rewrite cmp_lt by lia. lia.
      + destruct (0 <? i0) eqn:E; [|reflexivity]. exfalso.
        specialize (H (i0 - 1) ltac:(apply inax_N; lia)). cbn [holds] in H. rewrite cmp_lt in H by lia. lia.
    - (* Greater *) destruct r as [k|]; cbn [is_first_idx] in H.
      + destruct H as (Hk & Pk & Hm). apply inax_N in Hk. cbn [holds] in *. rewrite (cmp_gt k Hk) in Pk.
        destruct (i0 + 1 <? N) eqn:E; [|lia]. f_equal.
        assert (k <= i0 + 1); [|lia]. apply Hm; [apply inax_N; lia|]. rewrite cmp_gt by lia. lia.
      + destruct (i0 + 1 <? N) eqn:E; [|reflexivity]. exfalso.
        specialize (H (i0 + 1) ltac:(apply inax_N; lia)). cbn [holds] in H. rewrite cmp_gt in H by lia. lia.
    - (* GreaterOrEqual *) destruct r as [k|]; cbn [is_first_idx] in H.
      + destruct H as (Hk & Pk & Hm). apply inax_N in Hk. cbn [holds] in *. rewrite (cmp_ge k Hk) in Pk.
        f_equal. assert (k <= i0); [|lia]. apply Hm; [apply inax_N; lia|]. rewrite cmp_ge by lia. lia.
      + exfalso. specialize (H i0 ltac:(apply inax_N; lia)). cbn [holds] in H. rewrite cmp_ge in H by lia. lia.
    - (* LessOrEqual *) destruct r as [k|]; cbn [is_last_idx] in H.
      + destruct H as (Hk & Pk & Hm). apply inax_N in Hk. cbn [holds] in *. rewrite (cmp_le k Hk) in Pk.
        f_equal. assert (i0 <= k); [|lia]. apply Hm; [apply inax_N; lia|]. rewrite cmp_le by lia. lia.
      + exfalso. specialize (H i0 ltac:(apply inax_N; lia)). cbn [holds] in H. rewrite cmp_le in H by lia. lia.
  Qed.
End RoundTrip.

(** start / end pair: by construction the pair rule of the specification *)
Theorem pair_of_spec (x : Z -> F64) (n : option Z) (inclusive : bool) (s e : F64) (si ei : option Z) :
  rule_spec x n PositionMatch_GreaterOrEqual s si ->
  rule_spec x n (if inclusive then PositionMatch_LessOrEqual else PositionMatch_Less) e ei ->
  pair_spec x n inclusive s e si ei (pair_of (fgt s e) si ei).
Proof. intros H1 H2. unfold pair_spec, pair_of. auto. Qed.
