(** The remaining public routes into the position-to-index conversion (src/Dimensions.cpp): the deprecated overloads
    that return a bare index / pair and throw nix::OutOfBounds where the optional-returning overloads answer "none",
    the vector overloads, and RangeDimension::positionInRange.  Each is the generated conversion followed by
    "none -> OutOfBounds"; the statements below say exactly that, so every theorem about the conversions
    (Properties_C07.v) carries over to these routes. *)
From Coq Require Import ZArith Bool String List.
Require Import NixV.Base.Prelude NixV.Base.F64 NixV.Gen.GenDimensions NixV.Axis.RangeModel NixV.Gen.GenPairs.
Import ListNotations.
Local Open Scope Z_scope.
Local Open Scope string_scope.
Local Open Scope Z_scope.

Definition oob : string := "nix::OutOfBounds".
Definition or_oob {A} (r : res (option A)) : res A :=
  bind r (fun o => match o with Some v => Ok v | None => Err oob end).

(** SampledDimension::indexOf(position) / indexOf(start, end) *)
Definition sampled_index1 (p off dt : F64) : res Z := or_oob (getSampledIndex p off dt PositionMatch_GreaterOrEqual).
Definition sampled_pair2 (s e dt off : F64) : res (Z * Z) := or_oob (sampled_pair s e dt off RangeMatch_Inclusive).

(** the vector overloads: sizes must agree (std::runtime_error), then entry by entry *)
Fixpoint map_pairs {A} (f : F64 -> F64 -> res A) (starts ends : list F64) : res (list A) :=
  match starts, ends with
  | s :: ss, e :: es => bind (f s e) (fun r => bind (map_pairs f ss es) (fun rs => Ok (r :: rs)))
  | _, _ => Ok []
  end.
Definition vec_overload {A} (f : F64 -> F64 -> res A) (starts ends : list F64) : res (list A) :=
  if negb (zlen starts =? zlen ends) then Err "std::runtime_error" else map_pairs f starts ends.

(** RangeDimension::indexOf(position, bool less_or_equal) *)
Definition range_index_le (p : F64) (ticks : list F64) (less_or_equal : bool) : res Z :=
  or_oob (getIndex p ticks (if less_or_equal then PositionMatch_LessOrEqual else PositionMatch_GreaterOrEqual)).

(** RangeDimension::indexOf(start, end) as the library has it: both conversions, OutOfBounds when one of them
    has no index - and NO test that the pair is ordered ([ordered_checked] = false); the repaired overload
    applies the pair rule like every other route *)
Definition range_pair2 (ordered_checked : bool) (s e : F64) (ticks : list F64) : res (Z * Z) :=
  bind (getIndex s ticks PositionMatch_GreaterOrEqual) (fun si =>
  bind (getIndex e ticks PositionMatch_LessOrEqual) (fun ei =>
  match si, ei with
  | Some a, Some b => if ordered_checked && (fgt s e || (a >? b)) then Err oob else Ok (a, b)
  | _, _ => Err oob
  end)).

(** RangeDimension::indexOf(starts, ends, strict, match): invalid ranges are skipped, or raise when [strict] *)
Fixpoint keep_valid (strict : bool) (l : list (option (Z * Z))) : res (list (Z * Z)) :=
  match l with
  | [] => Ok []
  | Some v :: r => bind (keep_valid strict r) (fun rs => Ok (v :: rs))
  | None :: r => if strict then Err oob else keep_valid strict r
  end.

(** RangeDimension::positionInRange: 0 NoRange, 1 Less, 2 InRange, 3 Greater *)
Definition position_in_range (p : F64) (ticks : list F64) : Z :=
  if zlen ticks =? 0 then 0
  else if flt p (tick_at ticks 0) then 1
  else if fgt p (tick_at ticks (zlen ticks - 1)) then 3 else 2.

(** which behaviour the library under test has *)
Definition range_pair2_checks_order_now : bool := true.

(* ------------------------------------------------------------------------------------------ *)
Lemma or_oob_spec {A} (r : res (option A)) (v : A) : or_oob r = Ok v <-> r = Ok (Some v).
Proof.
  unfold or_oob. destruct r as [[a|]| |]; cbn [bind]; split; intro H; try discriminate; try (injection H as ->; reflexivity).
Qed.

(** the repaired deprecated pair overload answers a pair exactly when the pair rule does *)
Theorem range_pair2_repaired : forall s e ticks si ei,
  getIndex s ticks PositionMatch_GreaterOrEqual = Ok si -> getIndex e ticks PositionMatch_LessOrEqual = Ok ei ->
  range_pair2 true s e ticks = or_oob (Ok (pair_of (fgt s e) si ei)).
Proof.
  intros s e ticks si ei Hs He. unfold range_pair2, or_oob, pair_of. rewrite Hs, He. cbn [bind andb].
  destruct si as [a|], ei as [b|]; destruct (fgt s e); cbn [orb]; try reflexivity.
  rewrite Z.gtb_ltb, Z.ltb_antisym. destruct (a <=? b); reflexivity.
Qed.

(** ... the overload as it was until the repair returned an UNORDERED pair for start > end *)
Theorem range_pair2_unchecked_refuted :
  let ticks := [ofZ 1; ofZ 2; ofZ 3] in
  range_pair2 false (ofME 5 (-1)) (ofME 3 (-1)) ticks = Ok (2, 0) /\
  range_pair (ofME 5 (-1)) (ofME 3 (-1)) ticks RangeMatch_Inclusive ticks = Ok None.
Proof. vm_compute. split; reflexivity. Qed.

Theorem range_pair2_now_checks : range_pair2_checks_order_now = true.
Proof. reflexivity. Qed.
