(** [getIndex] regenerated from src/Dimensions.cpp ([NixV.Gen.GenRange.getIndex_gen]: iterators as indices,
    [*it] as a checked access, std::lower_bound as [lower_bound]) equals the hand model [RangeModel.getIndex]
    that the C07 theorems and the retrieval / slice models are stated over - for every position (NaN included),
    every tick list (sorted or not) and every rule. *)
From Coq Require Import ZArith Bool List Lia.
Require Import NixV.Base.Prelude NixV.Base.F64 NixV.Gen.GenDimensions NixV.Axis.RangeModel NixV.Gen.GenRange.
Import ListNotations.
Local Open Scope Z_scope.

Lemma deref_in (ticks : list F64) (i : Z) : 0 <= i < zlen ticks -> iter_deref ticks i = Ok (tick_at ticks i).
Proof.
  intros H. unfold iter_deref, deref_tick.
  replace (0 <=? i) with true by (symmetry; apply Z.leb_le; lia).
  replace (i <? zlen ticks) with true by (symmetry; apply Z.ltb_lt; lia). reflexivity.
Qed.

Lemma lower_bound_range (ticks : list F64) (p : F64) : 0 <= lower_bound ticks p <= zlen ticks.
Proof.
  induction ticks as [|t r IH]; cbn [lower_bound]; [unfold zlen; cbn; lia|].
  unfold zlen in *. cbn [List.length]. destruct (flt t p); lia.
Qed.

Theorem getIndex_generated : forall position ticks matching,
  getIndex_gen position ticks matching = getIndex position ticks matching.
Proof.
  intros p ticks m. unfold getIndex_gen, getIndex.
  destruct (zlen ticks =? 0) eqn:E0; [reflexivity|].
  apply Z.eqb_neq in E0. assert (Hlen : 0 < zlen ticks) by (unfold zlen in *; lia).
  rewrite deref_in by lia. cbn [bind].
  destruct (flt p (tick_at ticks 0)).
  { unfold is_G, is_GE. destruct m; reflexivity. }
  rewrite deref_in by lia. cbn [bind]. replace (zlen ticks - 1) with (zlen ticks - 1) by reflexivity.
  destruct (fgt p (tick_at ticks (zlen ticks - 1))).
  { unfold is_L, is_LE. rewrite Z.sub_0_r. destruct m; reflexivity. }
  pose proof (lower_bound_range ticks p) as Hlb.
  set (lower := lower_bound ticks p) in *.
  unfold is_G, is_GE, is_L, is_LE.
  rewrite !Z.sub_0_r.
  assert (Din : lower < zlen ticks -> deref_tick ticks lower = Ok (tick_at ticks lower)).
  { intros H. apply deref_in. lia. }
  assert (Dout : lower = zlen ticks -> deref_tick ticks lower = UB "dereference of end()"%string).
  { intros H. unfold deref_tick. rewrite H, Z.ltb_irrefl, andb_false_r. reflexivity. }
  unfold iter_deref.
  destruct (Z.ltb_spec lower (zlen ticks)) as [Hin|Hout].
  - rewrite !(Din Hin). replace (lower =? zlen ticks) with false by (symmetry; apply Z.eqb_neq; lia).
    replace (lower <? zlen ticks) with true by (symmetry; apply Z.ltb_lt; lia).
    destruct m; cbn [PositionMatch_beq orb andb bind negb];
      repeat (match goal with |- context [if ?c then _ else _] => destruct c; cbn [bind] end); reflexivity.
  - assert (El : lower = zlen ticks) by lia. rewrite !(Dout El).
    replace (lower =? zlen ticks) with true by (symmetry; apply Z.eqb_eq; lia).
    replace (lower <? zlen ticks) with false by (symmetry; apply Z.ltb_ge; lia).
    destruct m; cbn [PositionMatch_beq orb andb bind negb]; reflexivity.
Qed.
