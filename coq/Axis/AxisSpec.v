(** C07 — the matching rules as a specification over an axis of double coordinates, in Prop form
    ([rule_spec]) and as an extractable boolean judge ([index_ok], [spec_equal]).  Definitions only;
    the equivalence is proved in AxisSpecProofs.v.  The enum [PositionMatch] is the generated one. *)
From Coq Require Import ZArith Bool List.
Require Import NixV.Base.Prelude NixV.Base.F64 NixV.Gen.GenDimensions.
Local Open Scope Z_scope.
Local Open Scope bool_scope.

Section AxisSpec.
  Variable x : Z -> F64.      (* coordinate of index i: the double the library itself computes *)
  Variable n : option Z.       (* number of coordinates; None = not bounded by the descriptor *)

  Definition inaxb (i : Z) : bool :=
    (0 <=? i) && match n with Some k => i <? k | None => true end.
  Definition inax (i : Z) : Prop := inaxb i = true.

  (** the relation between position [p] and a coordinate [c] that each rule asks for *)
  Definition holds (m : PositionMatch) (p c : F64) : bool :=
    match m with
    | PositionMatch_Less => flt c p
    | PositionMatch_LessOrEqual => fle c p
    | PositionMatch_GreaterOrEqual => fle p c
    | PositionMatch_Greater => flt p c
    | PositionMatch_Equal => feq c p
    end.

  Definition is_last_idx (P : Z -> bool) (r : option Z) : Prop :=
    match r with
    | Some i => inax i /\ P i = true /\ forall j, inax j -> P j = true -> j <= i
    | None => forall j, inax j -> P j = false
    end.
  Definition is_first_idx (P : Z -> bool) (r : option Z) : Prop :=
    match r with
    | Some i => inax i /\ P i = true /\ forall j, inax j -> P j = true -> i <= j
    | None => forall j, inax j -> P j = false
    end.

  (** The property's statement: Less / LessOrEqual = the largest i with x_i < p / x_i <= p,
      GreaterOrEqual / Greater = the smallest i with x_i >= p / x_i > p, Equal = the i with
      x_i = p, and no index when no such i exists. *)
  Definition rule_spec (m : PositionMatch) (p : F64) (r : option Z) : Prop :=
    match m with
    | PositionMatch_Less | PositionMatch_LessOrEqual => is_last_idx (fun i => holds m p (x i)) r
    | PositionMatch_GreaterOrEqual | PositionMatch_Greater => is_first_idx (fun i => holds m p (x i)) r
    | PositionMatch_Equal =>
        match r with
        | Some i => inax i /\ feq (x i) p = true
        | None => forall j, inax j -> feq (x j) p = false
        end
    end.

  (** Boolean judge (local check; equivalent to [rule_spec] on a monotone axis).  For the
      first-index rules on an axis without upper bound "no index" is never the answer. *)
  Definition index_ok (m : PositionMatch) (p : F64) (r : option Z) : bool :=
    match m with
    | PositionMatch_Less | PositionMatch_LessOrEqual =>
        match r with
        | Some i => inaxb i && holds m p (x i) && (negb (inaxb (i + 1)) || negb (holds m p (x (i + 1))))
        | None => negb (inaxb 0) || negb (holds m p (x 0))
        end
    | PositionMatch_GreaterOrEqual | PositionMatch_Greater =>
        match r with
        | Some i => inaxb i && holds m p (x i) && (negb (inaxb (i - 1)) || negb (holds m p (x (i - 1))))
        | None => match n with
                  | Some k => (k <=? 0) || negb (holds m p (x (k - 1)))
                  | None => false
                  end
        end
    | PositionMatch_Equal =>
        match r with
        | Some i => inaxb i && feq (x i) p
        | None => true   (* judged through [spec_equal] *)
        end
    end.

  (** Equal, from the LessOrEqual answer [le]: that index if its coordinate is p, else none *)
  Definition spec_equal (p : F64) (le : option Z) : option Z :=
    match le with
    | Some i => if feq (x i) p then Some i else None
    | None => None
    end.

  (** start/end pair: (GreaterOrEqual start, LessOrEqual end) inclusive, (GreaterOrEqual start,
      Less end) exclusive; valid iff start <= end and both exist and are ordered *)
  Definition pair_spec (inclusive : bool) (s e : F64) (si ei : option Z) (r : option (Z * Z)) : Prop :=
    rule_spec PositionMatch_GreaterOrEqual s si /\
    rule_spec (if inclusive then PositionMatch_LessOrEqual else PositionMatch_Less) e ei /\
    r = (if fgt s e then None
         else match si, ei with
              | Some a, Some b => if a <=? b then Some (a, b) else None
              | _, _ => None
              end).
End AxisSpec.

(** the three coordinate functions *)
Definition x_sampled (dt off : F64) (i : Z) : F64 := fadd (fmul (ofZ i) dt) off.
Definition x_int (i : Z) : F64 := ofZ i.
Definition x_ticks (ticks : list F64) (i : Z) : F64 := nth (Z.to_nat i) ticks f64_nan.
(** Integer axes (set / data frame): bounded by the label / row count; with no labels / rows the
    axis is not bounded by the descriptor — indices are then considered up to 2^53, the range in
    which an index is an exact double (the same bound as for sampled axes). *)
Definition AXIS_MAX : Z := 9007199254740992.
Definition n_count (k : Z) : option Z := if k =? 0 then Some (AXIS_MAX + 1) else Some k.
