(** Hand-written model of [getIndex] for range dimensions (src/Dimensions.cpp): boundary cases,
    then std::lower_bound as a structural recursion over the tick list.  Definitions only. *)
From Coq Require Import ZArith Bool List.
Require Import NixV.Base.Prelude NixV.Base.F64 NixV.Gen.GenDimensions.
Import ListNotations.
Local Open Scope Z_scope.
Local Open Scope bool_scope.

(** std::lower_bound(begin, end, p): index of the first element that is not < p
    (on a sorted sequence; defined by std's bisection, whose result on a sorted sequence is this) *)
Fixpoint lower_bound (ticks : list F64) (p : F64) : Z :=
  match ticks with
  | [] => 0
  | t :: rest => if flt t p then 1 + lower_bound rest p else 0
  end.

Definition tick_at (ticks : list F64) (i : Z) : F64 := nth (Z.to_nat i) ticks f64_nan.

Definition is_G (m : PositionMatch) := PositionMatch_beq m PositionMatch_Greater.
Definition is_GE (m : PositionMatch) := PositionMatch_beq m PositionMatch_GreaterOrEqual.
Definition is_L (m : PositionMatch) := PositionMatch_beq m PositionMatch_Less.
Definition is_LE (m : PositionMatch) := PositionMatch_beq m PositionMatch_LessOrEqual.

(** [*lower] with lower == end() is undefined behaviour; the boundary cases in front of the
    search exclude it when the ticks are sorted — the model makes the access explicit. *)
Definition deref_tick (ticks : list F64) (i : Z) : res F64 :=
  if (0 <=? i) && (i <? zlen ticks) then Ok (tick_at ticks i) else UB "dereference of end()".

(** [*it] for an iterator of the tick vector, as the translated code names it *)
Definition iter_deref := deref_tick.

Definition getIndex (position : F64) (ticks : list F64) (matching : PositionMatch) : res (option Z) :=
  let len := zlen ticks in
  if len =? 0 then Ok None
  else if flt position (tick_at ticks 0)
  then Ok (if is_G matching || is_GE matching then Some 0 else None)
  else if fgt position (tick_at ticks (len - 1))
  then Ok (if is_L matching || is_LE matching then Some (len - 1) else None)
  else
    let lower := lower_bound ticks position in
    if is_G matching || is_GE matching then
      bind (if is_G matching then bind (deref_tick ticks lower) (fun t => Ok (feq t position)) else Ok false) (fun bump =>
      if bump then Ok (if lower + 1 <? len then Some (lower + 1) else None)
      else Ok (Some lower))
    else
      let final := if lower <? len
                   then (if feq (tick_at ticks lower) position then Ok (Some lower) else Ok None)
                   else Ok None in
      let before := Ok (if lower - 1 >=? 0 then Some (lower - 1) else None) in
      if is_LE matching then bind (deref_tick ticks lower) (fun t => if fgt t position then before else final)
      else if is_L matching then bind (deref_tick ticks lower) (fun t => if fge t position then before else final)
      else final.

(** start/end pair logic shared by the four dimension kinds *)
Definition pair_of (start_gt_end : bool) (si ei : option Z) : option (Z * Z) :=
  if start_gt_end then None
  else match si, ei with
       | Some a, Some b => if a <=? b then Some (a, b) else None
       | _, _ => None
       end.
