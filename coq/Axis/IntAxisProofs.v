(** C07, set and data-frame axes: the generated [getDataFrameIndex] / [getSetIndex] evaluate to an
    integer-level reference [ref_index] over floor and ceiling of the position, and that
    reference satisfies the judge (hence the rule specification). *)
From Coq Require Import ZArith Bool String List Reals Lia Lra ZifyBool.
From Flocq Require Import Core BinarySingleNaN.
Require Import NixV.Base.Prelude NixV.Base.F64 NixV.Base.F64Facts NixV.Gen.GenDimensions.
Require Import NixV.Axis.AxisSpec NixV.Axis.AxisSpecProofs NixV.Axis.SearchProofs.
Local Open Scope Z_scope.

(** comparisons between an integer and a real through floor and ceiling *)
Section FloorCeil.
  Variable v : R.
  Local Notation zf := (Zfloor v).
  Local Notation zc := (Zceil v).

  Lemma fc_close : zc = zf \/ zc = zf + 1.
  Proof.
    destruct (Req_dec (IZR (Zfloor v)) v) as [E|NE].
    - left. rewrite <- E at 1. apply Zceil_IZR.
    - right. apply Zceil_floor_neq. exact NE.
  Qed.
  Lemma le_floor i : (IZR i <= v)%R <-> i <= zf.
  Proof.
    split; intro H.
    - rewrite <- (Zfloor_IZR i). apply Zfloor_le. exact H.
    - apply Rle_trans with (IZR (Zfloor v)); [apply IZR_le; exact H | apply Zfloor_lb].
  Qed.
  Lemma ge_ceil i : (v <= IZR i)%R <-> zc <= i.
  Proof.
    split; intro H.
    - rewrite <- (Zceil_IZR i). apply Zceil_le. exact H.
    - apply Rle_trans with (IZR (Zceil v)); [apply Zceil_ub | apply IZR_le; exact H].
  Qed.
  Lemma lt_ceil i : (IZR i < v)%R <-> i < zc.
  Proof. pose proof (ge_ceil i). split; intro H0; [apply Znot_ge_lt; intro; apply (Rlt_not_le _ _ H0); apply H; lia | apply Rnot_le_lt; intro; assert (zc <= i) by (apply H; assumption); lia]. Qed.
  Lemma gt_floor i : (v < IZR i)%R <-> zf < i.
  Proof. pose proof (le_floor i). split; intro H0; [apply Znot_ge_lt; intro; apply (Rlt_not_le _ _ H0); apply H; lia | apply Rnot_le_lt; intro; assert (i <= zf) by (apply H; assumption); lia]. Qed.
  Lemma eq_int i : IZR i = v <-> i = zf /\ zf = zc.
  Proof.
    split.
    - intro E. assert (i <= zf) by (apply le_floor; lra). assert (zc <= i) by (apply ge_ceil; lra).
      destruct fc_close; lia.
    - intros [-> E]. apply Rle_antisym; [apply Zfloor_lb|]. rewrite E. apply Zceil_ub.
  Qed.
End FloorCeil.

Definition P52 : Z := 4503599627370496.   (* 2^52 *)

(** integer-level reference of the conversion on an axis of [k] integer coordinates (k = 0: not bounded) *)
Definition clampL (k i : Z) : option Z := if (k >? 0) && (i >? k - 1) then Some (k - 1) else Some i.
Definition clampG (k i : Z) : option Z := if (k >? 0) && (i >? k - 1) then None else Some i.
Definition ref_index (zf zc k : Z) (m : PositionMatch) : option Z :=
  match m with
  | PositionMatch_Less =>
      if zf <? 0 then None
      else if zf =? zc then (if 1 <=? zf then clampL k (zf - 1) else None) else clampL k zf
  | PositionMatch_LessOrEqual => if zf <? 0 then None else clampL k zf
  | PositionMatch_GreaterOrEqual => clampG k (Z.max 0 zc)
  | PositionMatch_Greater =>
      let t := Z.max 0 zc in clampG k (if (0 <=? zc) && (zf =? zc) then t + 1 else t)
  | PositionMatch_Equal => if zf <? 0 then None else if zf =? zc then clampG k zf else None
  end.

Section Eval.
  Variable p : F64.
  Hypothesis Fp : finite p.
  Hypothesis Hp : (B2R p < IZR P52)%R.
  Local Notation v := (B2R p).
  Local Notation zf := (Zfloor (B2R p)).
  Local Notation zc := (Zceil (B2R p)).

  Lemma zc_le : zc <= P52.
  Proof. apply (ge_ceil v). lra. Qed.
  Lemma zf_lt : zf < P52.
  Proof. apply (gt_floor v). lra. Qed.
  Lemma zf_le : zf <= zc. Proof. destruct (fc_close v); lia. Qed.

  Lemma small_ofZ i : Z.abs i <= 2 ^ 53 -> finite (ofZ i) /\ B2R (ofZ i) = IZR i.
  Proof. intro H. destruct (ofZ_exact i H). split; assumption. Qed.

  (** comparisons of p with small integers *)
  Lemma p_lt_int i : Z.abs i <= 2 ^ 53 -> flt p (ofZ i) = (zf <? i).
  Proof.
    intro H. destruct (small_ofZ i H) as [F E]. rewrite (flt_R p _ Fp F), E.
    destruct (Rlt_bool_spec (B2R p) (IZR i)) as [L|L].
    - apply (gt_floor v) in L.  lia.
    - symmetry. apply Z.ltb_ge. apply (le_floor v). exact L.
  Qed.
  Lemma int_lt_p i : Z.abs i <= 2 ^ 53 -> flt (ofZ i) p = (i <? zc).
  Proof.
    intro H. destruct (small_ofZ i H) as [F E]. rewrite (flt_R _ p F Fp), E.
    destruct (Rlt_bool_spec (IZR i) (B2R p)) as [L|L].
    - apply (lt_ceil v) in L.  lia.
    - symmetry. apply Z.ltb_ge. apply (ge_ceil v). exact L.
  Qed.
  Lemma p_le_int i : Z.abs i <= 2 ^ 53 -> fle p (ofZ i) = (zc <=? i).
  Proof.
    intro H. destruct (small_ofZ i H) as [F E]. rewrite (fle_R p _ Fp F), E.
    destruct (Rle_bool_spec (B2R p) (IZR i)) as [L|L].
    - apply (ge_ceil v) in L.  lia.
    - symmetry. apply Z.leb_gt. apply (lt_ceil v). exact L.
  Qed.
  Lemma int_le_p i : Z.abs i <= 2 ^ 53 -> fle (ofZ i) p = (i <=? zf).
  Proof.
    intro H. destruct (small_ofZ i H) as [F E]. rewrite (fle_R _ p F Fp), E.
    destruct (Rle_bool_spec (IZR i) (B2R p)) as [L|L].
    - apply (le_floor v) in L.  lia.
    - symmetry. apply Z.leb_gt. apply (gt_floor v). exact L.
  Qed.
  Lemma int_eq_p i : Z.abs i <= 2 ^ 53 -> feq (ofZ i) p = ((i =? zf) && (zf =? zc)).
  Proof.
    intro H. destruct (small_ofZ i H) as [F E]. rewrite (feq_R _ p F Fp), E.
    destruct (Req_bool_spec (IZR i) (B2R p)) as [L|L].
    - apply (eq_int v) in L.  lia.
    - destruct ((i =? zf) && (zf =? zc)) eqn:B; [|reflexivity]. exfalso. apply L. apply (eq_int v). lia.
  Qed.

  (** a finite double [t] whose value is the integer [z] compares with p like [ofZ z] *)
  Lemma val_eq_p (t : F64) z : finite t -> B2R t = IZR z -> feq t p = ((z =? zf) && (zf =? zc)).
  Proof.
    intros F E. rewrite (feq_R _ p F Fp), E.
    destruct (Req_bool_spec (IZR z) (B2R p)) as [L|L].
    - apply (eq_int v) in L.  lia.
    - destruct ((z =? zf) && (zf =? zc)) eqn:B; [|reflexivity]. exfalso. apply L. apply (eq_int v). lia.
  Qed.
  Lemma val_lt_int (t : F64) z i : finite t -> B2R t = IZR z -> Z.abs i <= 2 ^ 53 -> flt t (ofZ i) = (z <? i).
  Proof.
    intros F E H. destruct (small_ofZ i H) as [Fi Ei]. rewrite (flt_R _ _ F Fi), E, Ei.
    destruct (Rlt_bool_spec (IZR z) (IZR i)) as [L|L]; [apply lt_IZR in L|apply le_IZR in L]; lia.
  Qed.
  Lemma val_ge_int (t : F64) z i : finite t -> B2R t = IZR z -> Z.abs i <= 2 ^ 53 -> fge t (ofZ i) = (i <=? z).
  Proof.
    intros F E H. destruct (small_ofZ i H) as [Fi Ei]. unfold fge. change (Bleb (ofZ i) t) with (fle (ofZ i) t).
    rewrite (fle_R _ _ Fi F), E, Ei.
    destruct (Rle_bool_spec (IZR i) (IZR z)) as [L|L]; [apply le_IZR in L|apply lt_IZR in L]; lia.
  Qed.
End Eval.

Lemma getSetIndex_is_df p labels m : getSetIndex p labels m = getDataFrameIndex p (zlen labels) m.
Proof. reflexivity. Qed.

Section EvalDF.
  Variable p : F64.
  Hypothesis Fp : finite p.
  Hypothesis Hp : (B2R p < IZR P52)%R.
  Variable k : Z.
  Hypothesis Hk : 0 <= k < two64.
  Local Notation zf := (Zfloor (B2R p)).
  Local Notation zc := (Zceil (B2R p)).

  Lemma k_sub : 0 < k -> u64_sub k 1 = k - 1.
  Proof. intro H. apply u64_sub_small. lia. Qed.

  (** the clamping tail of the function *)
  Definition clamp_tail (m : PositionMatch) (index : option Z) : res (option Z) :=
    bind (if opt_is_some index && (k >? 0) then bind (opt_deref index) (fun d => Ok (d >? u64_sub k 1)) else Ok false)
      (fun sc => if sc then (if PositionMatch_beq m PositionMatch_Less || PositionMatch_beq m PositionMatch_LessOrEqual
                              then Ok (Some (u64_sub k 1)) else Ok None)
                 else Ok index).

  Lemma clamp_tail_L m i : (m = PositionMatch_Less \/ m = PositionMatch_LessOrEqual) ->
    clamp_tail m (Some i) = Ok (clampL k i).
  Proof.
    intros Hm. unfold clamp_tail, clampL. cbn [opt_is_some opt_deref bind andb].
    destruct (k >? 0) eqn:E; cbn [bind]; [|reflexivity].
    rewrite k_sub by lia. destruct (i >? k - 1); [|reflexivity].
    destruct Hm as [-> | ->]; reflexivity.
  Qed.
  Lemma clamp_tail_G m i : (m = PositionMatch_GreaterOrEqual \/ m = PositionMatch_Greater \/ m = PositionMatch_Equal) ->
    clamp_tail m (Some i) = Ok (clampG k i).
  Proof.
    intros Hm. unfold clamp_tail, clampG. cbn [opt_is_some opt_deref bind andb].
    destruct (k >? 0) eqn:E; cbn [bind]; [|reflexivity].
    rewrite k_sub by lia. destruct (i >? k - 1); [|reflexivity].
    destruct Hm as [-> | [-> | ->]]; reflexivity.
  Qed.
  Lemma clamp_tail_none m : clamp_tail m None = Ok None.
  Proof. reflexivity. Qed.

  Lemma F0 : finite (ofZ 0) /\ B2R (ofZ 0) = 0%R.
  Proof. destruct (ofZ_exact 0 ltac:(lia)). split; assumption. Qed.
  Lemma F1 : finite (ofZ 1) /\ B2R (ofZ 1) = 1%R.
  Proof. destruct (ofZ_exact 1 ltac:(lia)). split; assumption. Qed.

  Lemma ceil_fin : finite (fceil p) /\ B2R (fceil p) = IZR zc.
  Proof. destruct (fceil_R p) as [E F]. split; [unfold finite; rewrite F; exact Fp|exact E]. Qed.
  Lemma floor_fin : finite (ffloor p) /\ B2R (ffloor p) = IZR zf.
  Proof. destruct (ffloor_R p) as [E F]. split; [unfold finite; rewrite F; exact Fp|exact E]. Qed.
  Lemma round_fin : finite (fround p) /\ B2R (fround p) = IZR (ZnearestA (B2R p)).
  Proof. destruct (fround_R p) as [E F]. split; [unfold finite; rewrite F; exact Fp|exact E]. Qed.

  Lemma cast_val (t : F64) z : finite t -> B2R t = IZR z -> 0 <= z <= 2 ^ 53 -> toU64 t = Ok z.
  Proof. intros F E H. apply toU64_int; try assumption. unfold two64. lia. Qed.
  Lemma cast_plus1 (t : F64) z : finite t -> B2R t = IZR z -> 0 <= z < 2 ^ 53 -> toU64 (fadd t (ofZ 1)) = Ok (z + 1).
  Proof.
    intros F E H. destruct F1 as [Fo Eo].
    destruct (fadd_int t (ofZ 1) z 1 F Fo E Eo ltac:(lia)) as [Ea Fa].
    apply cast_val; [exact Fa|exact Ea|lia].
  Qed.
  Lemma cast_minus1 (t : F64) z : finite t -> B2R t = IZR z -> 1 <= z <= 2 ^ 53 -> toU64 (fsub t (ofZ 1)) = Ok (z - 1).
  Proof.
    intros F E H. destruct F1 as [Fo Eo].
    destruct (fsub_int t (ofZ 1) z 1 F Fo E Eo ltac:(lia)) as [Ea Fa].
    apply cast_val; [exact Fa|exact Ea|lia].
  Qed.

  Lemma round_eq : feq (fround p) p = (zf =? zc).
  Proof.
    destruct round_fin as [Fr Er]. rewrite (feq_R _ _ Fr Fp), Er.
    destruct (Req_bool_spec (IZR (ZnearestA (B2R p))) (B2R p)) as [L|L].
    - apply (eq_int (B2R p)) in L. lia.
    - destruct (zf =? zc) eqn:B; [|reflexivity]. exfalso. apply L.
      assert (Ev : B2R p = IZR zf) by (symmetry; apply (eq_int (B2R p)); lia).
      set (z := zf) in *. rewrite Ev. f_equal. apply (@Zrnd_IZR (round_mode mode_NA) (valid_rnd_round_mode mode_NA)).
  Qed.
  Lemma round_val : zf = zc -> B2R (fround p) = IZR zf.
  Proof.
    intro E. destruct round_fin as [Fr Er]. rewrite Er.
    assert (Ev : B2R p = IZR zf) by (symmetry; apply (eq_int (B2R p)); lia).
    set (z := zf) in *. rewrite Ev. f_equal. apply (@Zrnd_IZR (round_mode mode_NA) (valid_rnd_round_mode mode_NA)).
  Qed.

  Ltac tails := repeat match goal with
    | |- context [bind (if opt_is_some (Some ?x) && (k >? 0) then _ else Ok false) _] =>
        change (bind (if opt_is_some (Some x) && (k >? 0) then bind (opt_deref (Some x)) (fun d => Ok (d >? u64_sub k 1)) else Ok false) _)
          with (clamp_tail _ (Some x))
    end.

  Theorem df_eval m : getDataFrameIndex p k m = Ok (ref_index zf zc k m).
  Proof.
    unfold getDataFrameIndex.
    rewrite (p_lt_int p Fp 4503599627370496) by lia.
    assert (Hzc := zc_le p Hp). assert (Hfc := fc_close (B2R p)). change P52 with 4503599627370496 in Hzc.
    assert (Hzf := zf_lt p Hp). change P52 with 4503599627370496 in Hzf.
    replace (zf <? 4503599627370496) with true by lia. cbn [negb].
    rewrite (p_lt_int p Fp 0) by lia.
    destruct ceil_fin as [Fc Ec]. destruct floor_fin as [Ff Ef]. destruct round_fin as [Fr Er].
    destruct F0 as [Fz Ez].
    destruct m; cbn [PositionMatch_beq andb orb negb]; cbv zeta.
    - (* Equal *)
      rewrite andb_true_r. destruct (zf <? 0) eqn:N; cbn [ref_index]; rewrite N; [reflexivity|].
      rewrite round_eq. destruct (zf =? zc) eqn:I; [|reflexivity].
      rewrite (cast_val (fround p) zf Fr (round_val ltac:(lia)) ltac:(lia)). cbn [bind].
      exact (clamp_tail_G PositionMatch_Equal zf ltac:(tauto)).
    - (* Less *)
      rewrite andb_true_r. destruct (zf <? 0) eqn:N; cbn [ref_index]; rewrite N; [reflexivity|].
      rewrite (val_eq_p p Fp (ffloor p) zf Ff Ef). rewrite Z.eqb_refl. cbn [andb].
      destruct (zf =? zc) eqn:I.
      + rewrite (val_ge_int (ffloor p) zf 1 Ff Ef ltac:(lia)).
        destruct (1 <=? zf) eqn:G1; [|reflexivity].
        rewrite (cast_minus1 (ffloor p) zf Ff Ef ltac:(lia)). cbn [bind].
        exact (clamp_tail_L PositionMatch_Less (zf - 1) ltac:(tauto)).
      + rewrite (cast_val (ffloor p) zf Ff Ef ltac:(lia)). cbn [bind].
        exact (clamp_tail_L PositionMatch_Less zf ltac:(tauto)).
    - (* Greater *)
      rewrite andb_false_r. cbn [ref_index].
      rewrite (val_lt_int (fceil p) zc 0 Fc Ec ltac:(lia)).
      destruct (zc <? 0) eqn:N.
      + rewrite (int_eq_p p Fp 0 ltac:(lia)).
        replace ((0 =? zf) && (zf =? zc)) with false by lia.
        rewrite (cast_val (ofZ 0) 0 Fz Ez ltac:(lia)). cbn [bind].
        replace (0 <=? zc) with false by lia. cbn [andb]. replace (Z.max 0 zc) with 0 by lia.
        exact (clamp_tail_G PositionMatch_Greater 0 ltac:(tauto)).
      + rewrite (val_eq_p p Fp (fceil p) zc Fc Ec).
        replace (0 <=? zc) with true by lia. cbn [andb]. replace (Z.max 0 zc) with zc by lia.
        replace ((zc =? zf) && (zf =? zc)) with (zf =? zc) by lia.
        destruct (zf =? zc) eqn:I.
        * rewrite (cast_plus1 (fceil p) zc Fc Ec ltac:(lia)). cbn [bind].
          exact (clamp_tail_G PositionMatch_Greater (zc + 1) ltac:(tauto)).
        * rewrite (cast_val (fceil p) zc Fc Ec ltac:(lia)). cbn [bind].
          exact (clamp_tail_G PositionMatch_Greater zc ltac:(tauto)).
    - (* GreaterOrEqual *)
      rewrite andb_false_r. cbn [ref_index].
      rewrite (val_lt_int (fceil p) zc 0 Fc Ec ltac:(lia)).
      destruct (zc <? 0) eqn:N.
      + rewrite (cast_val (ofZ 0) 0 Fz Ez ltac:(lia)). cbn [bind]. replace (Z.max 0 zc) with 0 by lia.
        exact (clamp_tail_G PositionMatch_GreaterOrEqual 0 ltac:(tauto)).
      + rewrite (cast_val (fceil p) zc Fc Ec ltac:(lia)). cbn [bind]. replace (Z.max 0 zc) with zc by lia.
        exact (clamp_tail_G PositionMatch_GreaterOrEqual zc ltac:(tauto)).
    - (* LessOrEqual *)
      rewrite andb_true_r. destruct (zf <? 0) eqn:N; cbn [ref_index]; rewrite N; [reflexivity|].
      rewrite (cast_val (ffloor p) zf Ff Ef ltac:(lia)). cbn [bind].
      exact (clamp_tail_L PositionMatch_LessOrEqual zf ltac:(tauto)).
  Qed.
End EvalDF.

(** --- the reference meets the rule specification on the integer axis --- *)
Lemma is_last_ext n (P Q : Z -> bool) r :
  (forall i, inax n i -> P i = Q i) -> is_last_idx n Q r -> is_last_idx n P r.
Proof.
  intros H. destruct r as [i|]; cbn [is_last_idx].
  - intros (Hi & Qi & Hm). split; [exact Hi|]. split; [rewrite H by exact Hi; exact Qi|].
    intros j Hj Pj. apply Hm; [exact Hj|]. rewrite <- H by exact Hj. exact Pj.
  - intros Hn j Hj. rewrite H by exact Hj. apply Hn. exact Hj.
Qed.
Lemma is_first_ext n (P Q : Z -> bool) r :
  (forall i, inax n i -> P i = Q i) -> is_first_idx n Q r -> is_first_idx n P r.
Proof.
  intros H. destruct r as [i|]; cbn [is_first_idx].
  - intros (Hi & Qi & Hm). split; [exact Hi|]. split; [rewrite H by exact Hi; exact Qi|].
    intros j Hj Pj. apply Hm; [exact Hj|]. rewrite <- H by exact Hj. exact Pj.
  - intros Hn j Hj. rewrite H by exact Hj. apply Hn. exact Hj.
Qed.

Section IntSpec.
  Variable p : F64.
  Hypothesis Fp : finite p.
  Hypothesis Hp : (B2R p < IZR P52)%R.
  Variable k : Z.
  Hypothesis Hk : 0 <= k <= AXIS_MAX.
  Local Notation zf := (Zfloor (B2R p)).
  Local Notation zc := (Zceil (B2R p)).
  Let N := if k =? 0 then AXIS_MAX + 1 else k.

  Lemma n_count_N : n_count k = Some N. Proof. unfold n_count, N. destruct (k =? 0); reflexivity. Qed.
  Lemma N_bound : 0 < N <= AXIS_MAX + 1.
  Proof. unfold N, AXIS_MAX in *. destruct (k =? 0) eqn:E; lia. Qed.

  Lemma inax_int i : inax (Some N) i <-> 0 <= i < N.
  Proof. apply inax_N. Qed.

  Theorem int_index_spec m : rule_spec x_int (n_count k) m p (ref_index zf zc k m).
  Proof.
    rewrite n_count_N. pose proof N_bound as HN. unfold AXIS_MAX in HN.
    assert (Hzc := zc_le p Hp). assert (Hfc := fc_close (B2R p)). assert (Hzf := zf_lt p Hp).
    unfold P52 in *.
    assert (HkN : (k = 0 /\ N = 9007199254740993) \/ (0 < k /\ N = k)) by (unfold N, AXIS_MAX; destruct (k =? 0) eqn:E; lia).
    assert (Small : forall i, inax (Some N) i -> Z.abs i <= 2 ^ 53) by (intros i Hi; apply inax_int in Hi; lia).
    destruct m; cbn [rule_spec ref_index].
    - (* Equal *)
      destruct (zf <? 0) eqn:Ng.
      + intros j Hj. unfold x_int. rewrite (int_eq_p p Fp j (Small j Hj)). apply inax_int in Hj. lia.
      + destruct (zf =? zc) eqn:I.
        * unfold clampG. destruct ((k >? 0) && (zf >? k - 1)) eqn:C.
          -- intros j Hj. unfold x_int. rewrite (int_eq_p p Fp j (Small j Hj)). apply inax_int in Hj. lia.
          -- assert (Hi : inax (Some N) zf) by (apply inax_int; lia).
             split; [exact Hi|]. unfold x_int. rewrite (int_eq_p p Fp zf (Small zf Hi)). lia.
        * intros j Hj. unfold x_int. rewrite (int_eq_p p Fp j (Small j Hj)). lia.
    - (* Less *)
      apply is_last_ext with (Q := fun i => i <? zc).
      { intros i Hi. cbn [holds]. unfold x_int. apply (int_lt_p p Fp i (Small i Hi)). }
      destruct (zf <? 0) eqn:Ng.
      { cbn [is_last_idx]. intros j Hj. apply inax_int in Hj. lia. }
      destruct (zf =? zc) eqn:I.
      + destruct (1 <=? zf) eqn:G1.
        * unfold clampL. destruct ((k >? 0) && (zf - 1 >? k - 1)) eqn:C; cbn [is_last_idx];
            (split; [apply inax_int; lia|]); (split; [lia|]); intros j Hj Pj; apply inax_int in Hj; lia.
        * cbn [is_last_idx]. intros j Hj. apply inax_int in Hj. lia.
      + unfold clampL. destruct ((k >? 0) && (zf >? k - 1)) eqn:C; cbn [is_last_idx];
          (split; [apply inax_int; lia|]); (split; [lia|]); intros j Hj Pj; apply inax_int in Hj; lia.
    - (* Greater *)
      apply is_first_ext with (Q := fun i => zf <? i).
      { intros i Hi. cbn [holds]. unfold x_int. apply (p_lt_int p Fp i (Small i Hi)). }
      unfold clampG.
      destruct ((0 <=? zc) && (zf =? zc)) eqn:I;
        match goal with |- context [(k >? 0) && (?t >? k - 1)] => destruct ((k >? 0) && (t >? k - 1)) eqn:C end;
        cbn [is_first_idx];
        try (intros j Hj; apply inax_int in Hj; lia);
        (split; [apply inax_int; lia|]); (split; [lia|]); intros j Hj Pj; apply inax_int in Hj; lia.
    - (* GreaterOrEqual *)
      apply is_first_ext with (Q := fun i => zc <=? i).
      { intros i Hi. cbn [holds]. unfold x_int. apply (p_le_int p Fp i (Small i Hi)). }
      unfold clampG. destruct ((k >? 0) && (Z.max 0 zc >? k - 1)) eqn:C; cbn [is_first_idx].
      + intros j Hj. apply inax_int in Hj. lia.
      + (split; [apply inax_int; lia|]); (split; [lia|]); intros j Hj Pj; apply inax_int in Hj; lia.
    - (* LessOrEqual *)
      apply is_last_ext with (Q := fun i => i <=? zf).
      { intros i Hi. cbn [holds]. unfold x_int. apply (int_le_p p Fp i (Small i Hi)). }
      destruct (zf <? 0) eqn:Ng.
      { cbn [is_last_idx]. intros j Hj. apply inax_int in Hj. lia. }
      unfold clampL. destruct ((k >? 0) && (zf >? k - 1)) eqn:C; cbn [is_last_idx];
        (split; [apply inax_int; lia|]); (split; [lia|]); intros j Hj Pj; apply inax_int in Hj; lia.
  Qed.

  (** the two generated functions meet the specification for every rule *)
  Theorem df_index_spec m : exists r, getDataFrameIndex p k m = Ok r /\ rule_spec x_int (n_count k) m p r.
  Proof.
    eexists. split.
    - apply df_eval; try assumption. unfold two64, AXIS_MAX in *. lia.
    - apply int_index_spec.
  Qed.
End IntSpec.

Theorem set_index_spec p labels m : finite p -> (B2R p < IZR P52)%R -> zlen labels <= AXIS_MAX ->
  exists r, getSetIndex p labels m = Ok r /\ rule_spec x_int (n_count (zlen labels)) m p r.
Proof.
  intros Fp Hp Hl. rewrite getSetIndex_is_df. apply df_index_spec; try assumption.
  split; [unfold zlen; lia|exact Hl].
Qed.
