(** C07, range axis: the hand model of [getIndex] (boundary cases + lower_bound) meets the rule
    specification on every strictly ascending list of finite ticks. *)
From Coq Require Import ZArith Bool String List Reals Lia Lra ZifyBool.
From Flocq Require Import Core BinarySingleNaN.
Require Import NixV.Base.Prelude NixV.Base.F64 NixV.Base.F64Facts NixV.Gen.GenDimensions.
Require Import NixV.Axis.AxisSpec NixV.Axis.AxisSpecProofs NixV.Axis.RangeModel.
Import ListNotations.
Local Open Scope Z_scope.

Lemma zlen_cons {A} (a : A) l : zlen (a :: l) = zlen l + 1.
Proof. unfold zlen. cbn [List.length]. lia. Qed.
Lemma zlen_nonneg {A} (l : list A) : 0 <= zlen l.
Proof. unfold zlen. lia. Qed.

Lemma tick_at_0 t rest : tick_at (t :: rest) 0 = t.
Proof. reflexivity. Qed.
Lemma tick_at_S t rest i : 0 <= i -> tick_at (t :: rest) (i + 1) = tick_at rest i.
Proof.
  intro H. unfold tick_at. replace (Z.to_nat (i + 1)) with (S (Z.to_nat i)) by lia. reflexivity.
Qed.

(** what std::lower_bound's result means (no sortedness needed for these three facts) *)
Lemma lower_bound_props ticks p :
  let lb := lower_bound ticks p in
  0 <= lb <= zlen ticks /\
  (forall i, 0 <= i < lb -> flt (tick_at ticks i) p = true) /\
  (lb < zlen ticks -> flt (tick_at ticks lb) p = false).
Proof.
  induction ticks as [|t rest IH]; cbn [lower_bound].
  - cbv zeta. split; [unfold zlen; cbn; lia|]. split; [intros; lia|unfold zlen; cbn; lia].
  - cbv zeta in *. rewrite zlen_cons. pose proof (zlen_nonneg rest) as Hl.
    destruct IH as (Hb & Hlt & Hge).
    destruct (flt t p) eqn:E.
    + split; [lia|]. split.
      * intros i Hi. destruct (Z.eq_dec i 0) as [->|Hn]; [rewrite tick_at_0; exact E|].
        replace i with ((i - 1) + 1) by lia. rewrite tick_at_S by lia. apply Hlt. lia.
      * intro H. replace (1 + lower_bound rest p) with (lower_bound rest p + 1) by lia.
        rewrite tick_at_S by lia. apply Hge. lia.
    + split; [lia|]. split; [intros; lia|]. intros _. rewrite tick_at_0. exact E.
Qed.

Lemma is_last_ext_r n (P Q : Z -> bool) r :
  (forall i, inax n i -> P i = Q i) -> is_last_idx n Q r -> is_last_idx n P r.
Proof.
  intros H. destruct r as [i|]; cbn [is_last_idx].
  - intros (Hi & Qi & Hm). split; [exact Hi|]. split; [rewrite H by exact Hi; exact Qi|].
    intros j Hj Pj. apply Hm; [exact Hj|]. rewrite <- H by exact Hj. exact Pj.
  - intros Hn j Hj. rewrite H by exact Hj. apply Hn. exact Hj.
Qed.
Lemma is_first_ext_r n (P Q : Z -> bool) r :
  (forall i, inax n i -> P i = Q i) -> is_first_idx n Q r -> is_first_idx n P r.
Proof.
  intros H. destruct r as [i|]; cbn [is_first_idx].
  - intros (Hi & Qi & Hm). split; [exact Hi|]. split; [rewrite H by exact Hi; exact Qi|].
    intros j Hj Pj. apply Hm; [exact Hj|]. rewrite <- H by exact Hj. exact Pj.
  - intros Hn j Hj. rewrite H by exact Hj. apply Hn. exact Hj.
Qed.

Section Range.
  Variable ticks : list F64.
  Variable p : F64.
  Hypothesis Fp : finite p.
  Let len := zlen ticks.
  Hypothesis Ft : forall i, 0 <= i < len -> finite (tick_at ticks i).
  Hypothesis Hsorted : forall i j, 0 <= i < j -> j < len -> (B2R (tick_at ticks i) < B2R (tick_at ticks j))%R.

  Lemma ticks_mono i j : 0 <= i <= j -> j < len -> (B2R (x_ticks ticks i) <= B2R (x_ticks ticks j))%R.
  Proof.
    intros Hij Hj. change (x_ticks ticks) with (tick_at ticks).
    destruct (Z.eq_dec i j) as [->|Hne]; [lra|]. apply Rlt_le. apply Hsorted; lia.
  Qed.

  Lemma Fx i : 0 <= i < len -> finite (x_ticks ticks i).
  Proof. apply Ft. Qed.

  Local Notation T i := (tick_at ticks i).
  Local Notation lb := (lower_bound ticks p).

  (** real-number reading of the comparisons with tick i *)
  Lemma T_lt i : 0 <= i < len -> (flt (T i) p = true <-> (B2R (T i) < B2R p)%R).
  Proof. intro H. apply flt_true; [apply Ft; exact H|exact Fp]. Qed.
  Lemma T_lt_false i : 0 <= i < len -> (flt (T i) p = false <-> (B2R p <= B2R (T i))%R).
  Proof.
    intro H. rewrite (flt_R (T i) p (Ft i H) Fp).
    destruct (Rlt_bool_spec (B2R (T i)) (B2R p)); split; intros; try easy; lra.
  Qed.

  Definition ub : Z := if (lb <? len) && feq (T lb) p then lb + 1 else lb.

  Lemma lb_facts : 0 <= lb <= len /\ (forall i, 0 <= i < lb -> (B2R (T i) < B2R p)%R) /\
                   (lb < len -> (B2R p <= B2R (T lb))%R).
  Proof.
    destruct (lower_bound_props ticks p) as (Hb & Hlt & Hge). fold len in Hb, Hge. cbv zeta in *.
    split; [exact Hb|]. split.
    - intros i Hi. apply T_lt; [lia|]. apply Hlt. exact Hi.
    - intro H. apply T_lt_false; [lia|]. apply Hge. exact H.
  Qed.

  Lemma ub_facts : lb <= ub <= lb + 1 /\ ub <= len /\
                   (ub = lb + 1 <-> (lb < len /\ B2R (T lb) = B2R p)).
  Proof.
    destruct lb_facts as (Hb & _ & _). unfold ub.
    destruct (lb <? len) eqn:E; cbn [andb].
    - destruct (feq (T lb) p) eqn:Q.
      + apply (feq_true _ _ (Ft lb ltac:(lia)) Fp) in Q. split; [lia|]. split; [lia|]. split; [intros _; split; [lia|exact Q]|lia].
      + split; [lia|]. split; [lia|]. split; [lia|]. intros [_ H]. apply (feq_true _ _ (Ft lb ltac:(lia)) Fp) in H. congruence.
    - split; [lia|]. split; [lia|]. split; lia.
  Qed.

  (** with strictly ascending ticks every comparison of p with tick j is a comparison of j with lb / ub *)
  Lemma char_lt j : 0 <= j < len -> flt (T j) p = (j <? lb).
  Proof.
    intro Hj. destruct lb_facts as (Hb & Hlt & Hge).
    destruct (j <? lb) eqn:E.
    - apply T_lt; [exact Hj|]. apply Hlt. lia.
    - apply T_lt_false; [exact Hj|]. assert (lb < len) by lia. specialize (Hge H).
      destruct (Z.eq_dec j lb) as [->|Hne]; [exact Hge|].
      pose proof (Hsorted lb j ltac:(lia) ltac:(lia)). lra.
  Qed.
  Lemma char_le j : 0 <= j < len -> fle (T j) p = (j <? ub).
  Proof.
    intro Hj. destruct lb_facts as (Hb & Hlt & Hge). destruct ub_facts as (U1 & U2 & U3).
    rewrite (fle_R _ _ (Ft j Hj) Fp).
    destruct (Rle_bool_spec (B2R (T j)) (B2R p)) as [L|L]; symmetry.
    - apply Z.ltb_lt. destruct (Z_lt_ge_dec j lb) as [|Hge']; [lia|].
      assert (Hl : lb < len) by lia. specialize (Hge Hl).
      destruct (Z.eq_dec j lb) as [->|Hne].
      + assert (ub = lb + 1) by (apply U3; split; [exact Hl|lra]). lia.
      + pose proof (Hsorted lb j ltac:(lia) ltac:(lia)). lra.
    - apply Z.ltb_ge. destruct (Z_lt_ge_dec j lb) as [Hlt'|]; [specialize (Hlt j ltac:(lia)); lra|].
      destruct (Z.eq_dec j lb) as [->|Hne]; [|lia].
      destruct (Z.eq_dec ub (lb + 1)) as [Eu|]; [|lia]. apply U3 in Eu. lra.
  Qed.
  Lemma char_ge j : 0 <= j < len -> fle p (T j) = (lb <=? j).
  Proof.
    intro Hj. pose proof (char_lt j Hj) as C.
    rewrite (fle_R _ _ Fp (Ft j Hj)). rewrite (flt_R _ _ (Ft j Hj) Fp) in C.
    destruct (Rle_bool_spec (B2R p) (B2R (T j))); destruct (Rlt_bool_spec (B2R (T j)) (B2R p)); try lra; lia.
  Qed.
  Lemma char_gt j : 0 <= j < len -> flt p (T j) = (ub <=? j).
  Proof.
    intro Hj. pose proof (char_le j Hj) as C.
    rewrite (flt_R _ _ Fp (Ft j Hj)). rewrite (fle_R _ _ (Ft j Hj) Fp) in C.
    destruct (Rlt_bool_spec (B2R p) (B2R (T j))); destruct (Rle_bool_spec (B2R (T j)) (B2R p)); try lra; lia.
  Qed.
  Lemma char_eq j : 0 <= j < len -> feq (T j) p = ((lb <=? j) && (j <? ub)).
  Proof.
    intro Hj. pose proof (char_le j Hj) as C1. pose proof (char_lt j Hj) as C2.
    rewrite (feq_R _ _ (Ft j Hj) Fp).
    rewrite (fle_R _ _ (Ft j Hj) Fp) in C1. rewrite (flt_R _ _ (Ft j Hj) Fp) in C2.
    destruct (Req_bool_spec (B2R (T j)) (B2R p)); destruct (Rle_bool_spec (B2R (T j)) (B2R p));
      destruct (Rlt_bool_spec (B2R (T j)) (B2R p)); try lra; lia.
  Qed.

  Definition ref_range (m : PositionMatch) : option Z :=
    match m with
    | PositionMatch_Less => if 1 <=? lb then Some (lb - 1) else None
    | PositionMatch_LessOrEqual => if 1 <=? ub then Some (ub - 1) else None
    | PositionMatch_GreaterOrEqual => if lb <? len then Some lb else None
    | PositionMatch_Greater => if ub <? len then Some ub else None
    | PositionMatch_Equal => if lb <? ub then Some lb else None
    end.

  Theorem ref_range_spec m : rule_spec (x_ticks ticks) (Some len) m p (ref_range m).
  Proof.
    destruct lb_facts as (Hb & _ & _). destruct ub_facts as (U1 & U2 & _).
    change (x_ticks ticks) with (tick_at ticks).
    destruct m; cbn [rule_spec ref_range].
    - destruct (lb <? ub) eqn:E.
      + split; [apply inax_N; lia|]. rewrite char_eq by lia. lia.
      + intros j Hj. apply inax_N in Hj. rewrite char_eq by lia. lia.
    - apply is_last_ext_r with (Q := fun j => j <? lb).
      { intros j Hj. apply inax_N in Hj. cbn [holds]. apply char_lt. exact Hj. }
      destruct (1 <=? lb) eqn:E; cbn [is_last_idx].
      + split; [apply inax_N; lia|]. split; [lia|]. intros j Hj Pj. lia.
      + intros j Hj. apply inax_N in Hj. lia.
    - apply is_first_ext_r with (Q := fun j => ub <=? j).
      { intros j Hj. apply inax_N in Hj. cbn [holds]. apply char_gt. exact Hj. }
      destruct (ub <? len) eqn:E; cbn [is_first_idx].
      + split; [apply inax_N; lia|]. split; [lia|]. intros j Hj Pj. lia.
      + intros j Hj. apply inax_N in Hj. lia.
    - apply is_first_ext_r with (Q := fun j => lb <=? j).
      { intros j Hj. apply inax_N in Hj. cbn [holds]. apply char_ge. exact Hj. }
      destruct (lb <? len) eqn:E; cbn [is_first_idx].
      + split; [apply inax_N; lia|]. split; [lia|]. intros j Hj Pj. lia.
      + intros j Hj. apply inax_N in Hj. lia.
    - apply is_last_ext_r with (Q := fun j => j <? ub).
      { intros j Hj. apply inax_N in Hj. cbn [holds]. apply char_le. exact Hj. }
      destruct (1 <=? ub) eqn:E; cbn [is_last_idx].
      + split; [apply inax_N; lia|]. split; [lia|]. intros j Hj Pj. lia.
      + intros j Hj. apply inax_N in Hj. lia.
  Qed.

  Ltac split_ifs :=
    repeat match goal with
           | |- context [if ?c then _ else _] => destruct c eqn:?
           end.

  Theorem getIndex_eval m : 0 < len -> getIndex p ticks m = Ok (ref_range m).
  Proof.
    intro Hlen. unfold getIndex. fold len.
    replace (len =? 0) with false by lia.
    destruct lb_facts as (Hb & _ & _). destruct ub_facts as (U1 & U2 & _).
    rewrite (char_gt 0) by lia.
    change (fgt p (T (len - 1))) with (flt (T (len - 1)) p). rewrite (char_lt (len - 1)) by lia.
    destruct (ub <=? 0) eqn:C1.
    { destruct m; cbn [is_G is_GE is_L is_LE PositionMatch_beq orb ref_range]; split_ifs; try reflexivity; try lia; do 2 f_equal; lia. }
    destruct (len - 1 <? lb) eqn:C2.
    { destruct m; cbn [is_G is_GE is_L is_LE PositionMatch_beq orb ref_range]; split_ifs; try reflexivity; try lia; do 2 f_equal; lia. }
    assert (Hl : lb < len) by lia.
    assert (D : deref_tick ticks lb = Ok (T lb)).
    { unfold deref_tick. fold len. replace ((0 <=? lb) && (lb <? len)) with true by lia. reflexivity. }
    rewrite D. cbn [bind].
    rewrite (char_eq lb) by lia.
    change (fgt (T lb) p) with (flt p (T lb)). change (fge (T lb) p) with (fle p (T lb)).
    rewrite (char_gt lb) by lia. rewrite (char_ge lb) by lia.
    destruct m; cbn [is_G is_GE is_L is_LE PositionMatch_beq orb andb ref_range bind]; split_ifs;
      try reflexivity; try lia; do 2 f_equal; lia.
  Qed.

  Theorem range_index_spec m :
    exists r, getIndex p ticks m = Ok r /\ rule_spec (x_ticks ticks) (Some len) m p r.
  Proof.
    destruct (Z.eq_dec len 0) as [E0|E0].
    { exists None. split.
      - unfold getIndex. fold len. rewrite E0. reflexivity.
      - assert (forall j, ~ inax (Some len) j) by (intros j Hj; apply inax_N in Hj; lia).
        destruct m; cbn [rule_spec is_last_idx is_first_idx]; intros j Hj; exfalso; eapply H; eauto. }
    assert (Hlen : 0 < len) by (pose proof (zlen_nonneg ticks) as H; fold len in H; lia).
    exists (ref_range m). split; [apply getIndex_eval; exact Hlen|apply ref_range_spec].
  Qed.
End Range.
