(** The generated index conversions are total: for EVERY double input (NaN, infinities, huge
    values included) they return a value — no undefined cast, no dereference of an empty optional,
    no exception, no exhausted fuel.  (Used by C07 and C16.) *)
From Coq Require Import ZArith Bool String List Reals Lia Lra ZifyBool.
From Flocq Require Import Core BinarySingleNaN.
Require Import NixV.Base.Prelude NixV.Base.F64 NixV.Base.F64Facts NixV.Gen.GenDimensions.
Require Import NixV.Axis.AxisSpec NixV.Axis.SampledHand NixV.Axis.SearchProofs NixV.Axis.SampledProofs
               NixV.Axis.IntAxisProofs.
Local Open Scope Z_scope.

Lemma lastSampleBelow_total limit off dt strict : exists r, lastSampleBelow limit off dt strict = Ok r.
Proof.
  rewrite lastSampleBelow_bridge. unfold lastSampleBelow_hand.
  set (below := below_of limit off dt strict).
  destruct (below 0) eqn:B0; cbn [negb]; [|eexists; reflexivity].
  destruct (below MAXI) eqn:BM; [eexists; reflexivity|].
  destruct (guess_of_floor (fdiv (fsub limit off) dt)) as (g & Hg & Hgr).
  rewrite Hg. cbn [bind].
  destruct (search_ok below B0 BM g Hgr) as (r & Hr & _). eexists. exact Hr.
Qed.

Theorem getSampledIndex_total p off dt m : exists r, getSampledIndex p off dt m = Ok r.
Proof.
  unfold getSampledIndex.
  destruct (fne p p || fne off off || negb (fgt dt (ofZ 0))); [eexists; reflexivity|].
  destruct (lastSampleBelow_total p off dt false) as (le & Ele).
  destruct (lastSampleBelow_total p off dt true) as (lt & Elt).
  destruct m; cbn [PositionMatch_beq orb]; cbv zeta; rewrite ?Ele, ?Elt; cbn [bind].
  - destruct le as [d|]; cbn [opt_is_some opt_deref bind]; [|eexists; reflexivity].
    destruct (feq (fadd (fmul (ofZ d) dt) off) p); eexists; reflexivity.
  - eexists; reflexivity.
  - destruct le as [d|]; cbn [opt_is_some opt_deref bind negb]; [|eexists; reflexivity].
    destruct (d <? 9007199254740992); cbn [bind]; eexists; reflexivity.
  - destruct lt as [d|]; cbn [opt_is_some opt_deref bind negb]; [|eexists; reflexivity].
    destruct (d <? 9007199254740992); cbn [bind]; eexists; reflexivity.
  - eexists; reflexivity.
Qed.

Lemma flt_true_cases (p q : F64) : flt p q = true -> finite q -> finite p \/ p = B754_infinity true.
Proof.
  intros H Fq. destruct p as [s|s| |s m e B]; try (left; reflexivity).
  - destruct s; [right; reflexivity|]. destruct q; cbn in H; try discriminate; destruct s; discriminate.
  - destruct q; cbn in H; discriminate.
Qed.

Theorem getDataFrameIndex_total p k m : 0 <= k < two64 -> exists r, getDataFrameIndex p k m = Ok r.
Proof.
  intro Hk.
  destruct (flt p (ofZ 4503599627370496)) eqn:E.
  - destruct (ofZ_exact 4503599627370496 ltac:(lia)) as [V F].
    destruct (flt_true_cases p _ E F) as [Fp | ->].
    + eexists. apply df_eval; [exact Fp| |exact Hk].
      apply (flt_true _ _ Fp F) in E. rewrite V in E. exact E.
    + (* p = -inf *)
      unfold getDataFrameIndex.
      destruct m; cbn -[Z.gtb u64_sub]; try (eexists; reflexivity);
        destruct (k >? 0); cbn -[Z.gtb u64_sub]; try (eexists; reflexivity);
        destruct (0 >? u64_sub k 1); cbn -[Z.gtb u64_sub]; eexists; reflexivity.
  - unfold getDataFrameIndex. rewrite E. cbn [negb]. cbv zeta.
    match goal with |- context [if ?c then _ else _] => destruct c end; eexists; reflexivity.
Qed.

Theorem getSetIndex_total p labels m : zlen labels < two64 -> exists r, getSetIndex p labels m = Ok r.
Proof.
  intro H. rewrite getSetIndex_is_df. apply getDataFrameIndex_total. unfold zlen in *. lia.
Qed.
