(** * Store/DbInv.v — the invariant of the entity database and its preservation by the primitive state changes

    [Inv s]:
    - [inv_sorted]   the entity list is strictly sorted by oid (list order = creation order; oids unique)
    - [inv_below]    every oid is below the supply counter [next s] (so the next id is new)
    - [inv_idx]      no entity was ever re-identified: its id is the one it was created with
    - [inv_names]    within one container (parent, kind) no two entities share a link name (= name)
    - [inv_nonempty] names of named entities are not empty
    - [inv_linkid]   within one container a link name equals an id only if it is the same entity's
                     (this is what makes a uuid-shaped NAME harmless for lookups by id)
    - [inv_links]    every link container holds each target at most once ("keyed by target id") and every
                     link (list, single or inside a dimension descriptor) points to an entity that is in the file
                     (C04: no dangling reference)
    - [inv_parent]   tree closure: the parent of every entity is in the file, and was created before it

    Hypotheses on the id supply (Section variables, stated where used):
    - [ids_inj]   the supply is injective             — unique ids from unique oids, [find_id] finds the right entity
    - [ids_uuid]  the first [N] ids are uuid-shaped   — a name that is not uuid-shaped can never equal an id.
                  (No injective function from nat into the uuid-shaped strings exists, so the shape is assumed
                  for the first N ids only and [inv_bound] keeps the supply counter below N: the theorems speak
                  about files with fewer than N creations, for an arbitrary N.)
    Freshness ("the new id is not a name in use") is a precondition of the create step, see DbInvStep.v. *)
From Coq Require Import List ZArith Bool String Ascii Arith Lia Sorting.Sorted.
Require Import NixV.Base.Prelude NixV.Store.Db NixV.Store.DbOps.
Import ListNotations.

(** ** generic list facts *)
Lemma filter_map_comm {A} (P : A -> bool) (g : A -> A) (l : list A) :
  (forall a, P (g a) = P a) -> filter P (map g l) = map g (filter P l).
Proof.
  intros H. induction l as [|a l IH]; simpl; auto.
  rewrite H. destruct (P a); simpl; rewrite IH; auto.
Qed.

Lemma StronglySorted_filter {A} (R : A -> A -> Prop) (P : A -> bool) l :
  StronglySorted R l -> StronglySorted R (filter P l).
Proof.
  induction 1 as [|a l Hs IH Hall]; simpl; [constructor|].
  destruct (P a); auto. constructor; auto.
  rewrite Forall_forall in *. intros x Hx. apply filter_In in Hx. apply Hall. tauto.
Qed.

Lemma StronglySorted_app_one {A} (R : A -> A -> Prop) l x :
  StronglySorted R l -> Forall (fun y => R y x) l -> StronglySorted R (l ++ [x]).
Proof.
  induction 1 as [|a l Hs IH Hall]; intros Hf; simpl.
  - constructor; constructor.
  - inversion Hf; subst. constructor; auto.
    rewrite Forall_forall in *. intros y Hy. apply in_app_or in Hy. destruct Hy as [Hy|[Hy|[]]]; subst; auto.
Qed.

Lemma StronglySorted_lt_NoDup l : StronglySorted lt l -> NoDup l.
Proof.
  induction 1 as [|a l Hs IH Hall]; constructor; auto.
  intro Hin. rewrite Forall_forall in Hall. specialize (Hall _ Hin). lia.
Qed.

Lemma NoDup_map_filter {A B} (f : A -> B) (P : A -> bool) l : NoDup (map f l) -> NoDup (map f (filter P l)).
Proof.
  induction l as [|a l IH]; simpl; intros H; auto.
  inversion H; subst. destruct (P a); simpl; auto.
  constructor; auto. intro Hin. apply H2. apply in_map_iff in Hin. destruct Hin as [x [Hx Hin]].
  apply filter_In in Hin. apply in_map_iff. exists x. tauto.
Qed.

Lemma NoDup_filter {A} (P : A -> bool) l : NoDup l -> NoDup (filter P l).
Proof.
  induction 1; simpl; [constructor|]. destruct (P x); auto. constructor; auto.
  intro Hin. apply filter_In in Hin. tauto.
Qed.

Lemma NoDup_app_one {A} (l : list A) x : NoDup l -> ~ In x l -> NoDup (l ++ [x]).
Proof.
  intros N Hn. induction N as [|a l Ha N IH]; simpl.
  - constructor; auto. constructor.
  - constructor.
    + intro Hin. apply in_app_or in Hin. destruct Hin as [Hin|[Hin|[]]]; auto. subst. apply Hn. left; auto.
    + apply IH. intro. apply Hn. right; auto.
Qed.

Lemma memn_In x l : memn x l = true <-> In x l.
Proof.
  unfold memn. rewrite existsb_exists. split.
  - intros [y [Hy He]]. apply Nat.eqb_eq in He. subst; auto.
  - intros H. exists x. split; auto. apply Nat.eqb_refl.
Qed.

Lemma memn_false x l : memn x l = false <-> ~ In x l.
Proof. rewrite <- memn_In. destruct (memn x l); split; congruence. Qed.

Lemma nodupb_NoDup l : nodupb l = true -> NoDup l.
Proof.
  induction l as [|x l IH]; simpl; intros H; [constructor|].
  apply andb_true_iff in H. destruct H as [H1 H2]. constructor; auto.
  apply negb_true_iff in H1. apply memn_false in H1. auto.
Qed.

Lemma find_some_in {A} (P : A -> bool) l x : find P l = Some x -> In x l /\ P x = true.
Proof. apply find_some. Qed.

Lemma kind_eqb_eq a b : kind_eqb a b = true <-> a = b.
Proof. destruct a, b; simpl; split; intros H; try reflexivity; try discriminate. Qed.

Lemma kind_eqb_refl a : kind_eqb a a = true.
Proof. destruct a; reflexivity. Qed.

Lemma opt_nat_eqb_eq a b : opt_nat_eqb a b = true <-> a = b.
Proof.
  destruct a, b; simpl; split; intros H; try discriminate; auto.
  - apply Nat.eqb_eq in H. subst; auto.
  - inversion H. apply Nat.eqb_refl.
Qed.

(** ** the invariant *)
Section Inv.
Variable ids : nat -> string.
Hypothesis ids_inj : forall a b, ids a = ids b -> a = b.
Variable N : nat.
Hypothesis ids_uuid : forall a, a < N -> looksLikeUUID (ids a) = true.

Notation eid := (eid ids).
Notation link_name := (link_name ids).

Definition links_alive (s : db) (l : links) : Prop :=
  (forall sl, NoDup (get_l sl l) /\ forall t, In t (get_l sl l) -> alive s t = true) /\
  (forall sl t, get_o sl l = Some t -> alive s t = true) /\
  (forall t, In (DimFrame (Some t)) (l_dims l) -> alive s t = true).

Record Inv (s : db) : Prop := mkInv {
  inv_sorted : StronglySorted lt (map e_oid (ents s));
  inv_below : forall e, In e (ents s) -> e_oid e < next s;
  inv_idx : forall e, In e (ents s) -> e_idx e = e_oid e;
  inv_names : forall p k, NoDup (map link_name (children s p k));
  inv_nonempty : forall e, In e (ents s) -> e_kind e <> KFeature -> e_name e <> EmptyString;
  inv_linkid : forall p k e1 e2, In e1 (children s p k) -> In e2 (children s p k) -> link_name e1 = eid e2 -> e1 = e2;
  inv_links : forall e, In e (ents s) -> links_alive s (e_links e);
  inv_bound : next s <= N;
  inv_parent : forall e p, In e (ents s) -> e_parent e = Some p -> alive s p = true /\ p < e_oid e
}.

(** ** basic consequences *)
Lemma children_in s p k e : In e (children s p k) <-> In e (ents s) /\ e_parent e = p /\ e_kind e = k.
Proof.
  unfold children. rewrite filter_In. unfold in_container. rewrite andb_true_iff, opt_nat_eqb_eq, kind_eqb_eq. tauto.
Qed.

Lemma inv_oids_nodup s : Inv s -> NoDup (map e_oid (ents s)).
Proof. intros H. apply StronglySorted_lt_NoDup, (inv_sorted _ H). Qed.

Lemma NoDup_map_inj {A B} (f : A -> B) l x y : NoDup (map f l) -> In x l -> In y l -> f x = f y -> x = y.
Proof.
  induction l as [|a l IH]; simpl; [tauto|].
  intros Nd [Hx|Hx] [Hy|Hy] E; subst; auto; inversion Nd; subst.
  - exfalso. apply H1. rewrite E. apply in_map; auto.
  - exfalso. apply H1. rewrite <- E. apply in_map; auto.
  - apply IH; auto.
Qed.

Lemma oid_inj s e1 e2 : Inv s -> In e1 (ents s) -> In e2 (ents s) -> e_oid e1 = e_oid e2 -> e1 = e2.
Proof.
  intros H H1 H2 He. eapply NoDup_map_inj; eauto. apply inv_oids_nodup; auto.
Qed.

Lemma find_ent_some s o e : find_ent s o = Some e -> In e (ents s) /\ e_oid e = o.
Proof.
  unfold find_ent. intros H. apply find_some in H. destruct H as [H1 H2]. apply Nat.eqb_eq in H2. auto.
Qed.

Lemma find_ent_in s e : Inv s -> In e (ents s) -> find_ent s (e_oid e) = Some e.
Proof.
  intros HI Hin. unfold find_ent.
  destruct (find (fun e0 => e_oid e0 =? e_oid e) (ents s)) eqn:F.
  - apply find_some in F. destruct F as [F1 F2]. apply Nat.eqb_eq in F2. f_equal. eapply oid_inj; eauto.
  - exfalso. eapply find_none in F; eauto. simpl in F. rewrite Nat.eqb_refl in F. discriminate.
Qed.

Lemma alive_iff s o : alive s o = true <-> exists e, In e (ents s) /\ e_oid e = o.
Proof.
  unfold alive. destruct (find_ent s o) eqn:F.
  - apply find_ent_some in F. split; eauto.
  - split; [discriminate|]. intros [e [Hin He]]. unfold find_ent in F. eapply find_none in F; eauto.
    simpl in F. subst. rewrite Nat.eqb_refl in F. discriminate.
Qed.

Lemma eid_inj s e1 e2 : Inv s -> In e1 (ents s) -> In e2 (ents s) -> eid e1 = eid e2 -> e1 = e2.
Proof.
  intros H H1 H2 He. unfold DbOps.eid in He. apply ids_inj in He.
  rewrite (inv_idx _ H _ H1), (inv_idx _ H _ H2) in He. eapply oid_inj; eauto.
Qed.

Lemma inv_empty : Inv empty_db.
Proof.
  constructor; simpl; try (intros; contradiction); try constructor; try lia.
Qed.

Lemma eid_uuid_in s e : Inv s -> In e (ents s) -> looksLikeUUID (eid e) = true.
Proof.
  intros H He. unfold DbOps.eid. apply ids_uuid. rewrite (inv_idx _ H _ He).
  pose proof (inv_below _ H _ He). pose proof (inv_bound _ H). lia.
Qed.

(** ** bump *)
Lemma children_bump s p k : children (bump s) p k = children s p k.
Proof. reflexivity. Qed.

Lemma alive_bump s o : alive (bump s) o = alive s o.
Proof. reflexivity. Qed.

Lemma inv_bump s : Inv s -> next s < N -> Inv (bump s).
Proof.
  intros H B. constructor; simpl; try apply H; try lia.
  intros e He. pose proof (inv_below _ H _ He). lia.
Qed.

(** ** upd: a change of one entity that leaves its identity (oid, id index, kind, parent, name) alone *)
Definition hkey (e : ent) : nat * nat * kind * option nat * string := (e_oid e, e_idx e, e_kind e, e_parent e, e_name e).
Definition same_hdr (f : ent -> ent) : Prop := forall e, hkey (f e) = hkey e.

Definition updf (o : nat) (f : ent -> ent) (e : ent) : ent := if Nat.eqb (e_oid e) o then f e else e.

Lemma updf_hdr o f e : same_hdr f -> hkey (updf o f e) = hkey e.
Proof. intros H. unfold updf. destruct (e_oid e =? o); auto. Qed.

Lemma hkey_parts e e' : hkey e' = hkey e ->
  e_oid e' = e_oid e /\ e_idx e' = e_idx e /\ e_kind e' = e_kind e /\ e_parent e' = e_parent e /\ e_name e' = e_name e.
Proof. unfold hkey. intros H. inversion H. auto. Qed.

Lemma ents_upd s o f : ents (upd s o f) = map (updf o f) (ents s).
Proof. reflexivity. Qed.

Lemma children_upd s o f p k : same_hdr f -> children (upd s o f) p k = map (updf o f) (children s p k).
Proof.
  intros H. unfold children. rewrite ents_upd. apply filter_map_comm.
  intros a. unfold in_container. destruct (hkey_parts _ _ (updf_hdr o f a H)) as [_ [_ [K [P _]]]]. rewrite K, P. reflexivity.
Qed.

Lemma map_oid_upd s o f : same_hdr f -> map e_oid (ents (upd s o f)) = map e_oid (ents s).
Proof.
  intros H. rewrite ents_upd, map_map. apply map_ext. intros a.
  destruct (hkey_parts _ _ (updf_hdr o f a H)) as [O _]. auto.
Qed.

Lemma alive_upd s o f x : same_hdr f -> alive (upd s o f) x = alive s x.
Proof.
  intros H. unfold alive, find_ent. rewrite ents_upd.
  induction (ents s) as [|a l IH]; simpl; auto.
  destruct (hkey_parts _ _ (updf_hdr o f a H)) as [O _]. rewrite O. destruct (e_oid a =? x); auto.
Qed.

Lemma link_name_hdr e e' : hkey e' = hkey e -> link_name e' = link_name e.
Proof. intros H. destruct (hkey_parts _ _ H) as [_ [I [K [_ Nm]]]]. unfold DbOps.link_name, DbOps.eid. rewrite I, K, Nm. reflexivity. Qed.

Lemma eid_hdr e e' : hkey e' = hkey e -> eid e' = eid e.
Proof. intros H. destruct (hkey_parts _ _ H) as [_ [I _]]. unfold DbOps.eid. rewrite I. reflexivity. Qed.

(** the condition on the changed entity: its new links are fine *)
Definition good_upd (s : db) (o : nat) (f : ent -> ent) : Prop :=
  same_hdr f /\ forall e, In e (ents s) -> e_oid e = o -> links_alive s (e_links (f e)).

Lemma inv_upd s o f : Inv s -> good_upd s o f -> Inv (upd s o f).
Proof.
  intros H [Hh Hl]. constructor.
  - rewrite map_oid_upd; auto. apply (inv_sorted _ H).
  - intros e He. rewrite ents_upd in He. apply in_map_iff in He. destruct He as [a [Ha Hin]]. subst.
    destruct (hkey_parts _ _ (updf_hdr o f a Hh)) as [O _]. rewrite O. apply (inv_below _ H _ Hin).
  - intros e He. rewrite ents_upd in He. apply in_map_iff in He. destruct He as [a [Ha Hin]]. subst.
    destruct (hkey_parts _ _ (updf_hdr o f a Hh)) as [O [I _]]. rewrite O, I. apply (inv_idx _ H _ Hin).
  - intros p k. rewrite children_upd; auto. rewrite map_map.
    rewrite (map_ext _ link_name); [apply (inv_names _ H)|].
    intros a. apply link_name_hdr, updf_hdr; auto.
  - intros e He. rewrite ents_upd in He. apply in_map_iff in He. destruct He as [a [Ha Hin]]. subst.
    destruct (hkey_parts _ _ (updf_hdr o f a Hh)) as [_ [_ [K [_ Nm]]]]. rewrite K, Nm. apply (inv_nonempty _ H _ Hin).
  - intros p k e1 e2 H1 H2. rewrite children_upd in H1, H2; auto.
    apply in_map_iff in H1. destruct H1 as [a1 [E1 I1]]. apply in_map_iff in H2. destruct H2 as [a2 [E2 I2]]. subst.
    rewrite (link_name_hdr a1), (eid_hdr a2) by (apply updf_hdr; auto).
    intros He. rewrite (inv_linkid _ H p k a1 a2 I1 I2 He). reflexivity.
  - intros e He. rewrite ents_upd in He. apply in_map_iff in He. destruct He as [a [Ha Hin]]. subst.
    assert (Hal : links_alive s (e_links (updf o f a))).
    { unfold updf. destruct (e_oid a =? o) eqn:E; [apply Nat.eqb_eq in E; apply Hl; auto | apply (inv_links _ H _ Hin)]. }
    destruct Hal as [A1 [A2 A3]]. split; [|split].
    + intros sl. destruct (A1 sl) as [Nd T]. split; auto. intros t Ht. rewrite alive_upd; auto.
    + intros sl t Ht. rewrite alive_upd; auto. eapply A2; eauto.
    + intros t Ht. rewrite alive_upd; auto.
  - simpl. apply (inv_bound _ H).
  - intros e p He Hp. rewrite ents_upd in He. apply in_map_iff in He. destruct He as [a [Ha Hin]]. subst.
    destruct (hkey_parts _ _ (updf_hdr o f a Hh)) as [O [_ [_ [P _]]]]. rewrite O. rewrite P in Hp.
    rewrite alive_upd; auto. apply (inv_parent _ H _ _ Hin Hp).
Qed.

(** ** add_ent: a new entity at the end *)
Lemma children_add s e p k :
  children (add_ent s e) p k = children s p k ++ (if in_container p k e then [e] else []).
Proof. unfold children, add_ent. simpl. rewrite filter_app. simpl. destruct (in_container p k e); reflexivity. Qed.

Lemma alive_add_old s e o : alive s o = true -> alive (add_ent s e) o = true.
Proof.
  rewrite !alive_iff. intros [x [Hx Ho]]. exists x. split; auto. simpl. apply in_or_app. auto.
Qed.

Lemma alive_add_new s e : alive (add_ent s e) (e_oid e) = true.
Proof. rewrite alive_iff. exists e. split; auto. simpl. apply in_or_app. right. left. reflexivity. Qed.

(** the conditions a new entity must meet *)
Record addable (s : db) (e : ent) : Prop := mkAddable {
  ad_oid : e_oid e = next s;
  ad_idx : e_idx e = next s;
  ad_name_new : forall x, In x (children s (e_parent e) (e_kind e)) -> link_name x <> link_name e;
  ad_nonempty : e_kind e <> KFeature -> e_name e <> EmptyString;
  ad_name_not_id : forall x, In x (children s (e_parent e) (e_kind e)) -> link_name e <> eid x;
  ad_id_fresh : forall x, In x (ents s) -> link_name x <> ids (next s);     (* freshness of the supply *)
  ad_links : links_alive (add_ent s e) (e_links e);
  ad_bound : next s < N;
  ad_parent : forall p, e_parent e = Some p -> alive s p = true
}.

Lemma links_alive_add s e l : links_alive s l -> links_alive (add_ent s e) l.
Proof.
  intros [A1 [A2 A3]]. split; [|split].
  - intros sl. destruct (A1 sl) as [Nd T]. split; auto. intros t Ht. apply alive_add_old; auto.
  - intros sl t Ht. apply alive_add_old. eapply A2; eauto.
  - intros t Ht. apply alive_add_old; auto.
Qed.

Lemma inv_add s e : Inv s -> addable s e -> Inv (add_ent s e).
Proof.
  intros H A. destruct A as [Ao Ai An Ane Ani Af Al Ab Ap]. constructor.
  - simpl. rewrite map_app. simpl. apply StronglySorted_app_one; [apply (inv_sorted _ H)|].
    rewrite Forall_forall. intros y Hy. apply in_map_iff in Hy. destruct Hy as [x [Hx Hin]]. subst.
    rewrite Ao. apply (inv_below _ H _ Hin).
  - simpl. intros x Hx. apply in_app_or in Hx. destruct Hx as [Hx|[Hx|[]]]; subst.
    + pose proof (inv_below _ H _ Hx). lia.
    + rewrite Ao. lia.
  - simpl. intros x Hx. apply in_app_or in Hx. destruct Hx as [Hx|[Hx|[]]]; subst.
    + apply (inv_idx _ H _ Hx).
    + congruence.
  - intros p k. rewrite children_add. destruct (in_container p k e) eqn:C.
    + rewrite map_app. simpl. apply NoDup_app_one; [apply (inv_names _ H)|].
      unfold in_container in C. apply andb_true_iff in C. destruct C as [C1 C2].
      apply opt_nat_eqb_eq in C1. apply kind_eqb_eq in C2. subst.
      intro Hin. apply in_map_iff in Hin. destruct Hin as [x [Hx Hin]]. eapply An; eauto.
    + rewrite app_nil_r. apply (inv_names _ H).
  - simpl. intros x Hx. apply in_app_or in Hx. destruct Hx as [Hx|[Hx|[]]]; subst; auto.
    apply (inv_nonempty _ H _ Hx).
  - intros p k e1 e2 H1 H2 He. rewrite children_add in H1, H2.
    apply in_app_or in H1. apply in_app_or in H2.
    destruct (in_container p k e) eqn:C.
    + unfold in_container in C. apply andb_true_iff in C. destruct C as [C1 C2].
      apply opt_nat_eqb_eq in C1. apply kind_eqb_eq in C2. subst.
      destruct H1 as [H1|[H1|[]]]; destruct H2 as [H2|[H2|[]]]; subst; auto.
      * eapply (inv_linkid _ H); eauto.
      * exfalso. apply children_in in H1. destruct H1 as [H1 _]. apply (Af _ H1).
        rewrite He. unfold DbOps.eid. rewrite Ai. reflexivity.
      * exfalso. eapply Ani; eauto.
    + destruct H1 as [H1|[]]; destruct H2 as [H2|[]]. eapply (inv_linkid _ H); eauto.
  - simpl. intros x Hx. apply in_app_or in Hx. destruct Hx as [Hx|[Hx|[]]]; subst; auto.
    apply links_alive_add. apply (inv_links _ H _ Hx).
  - simpl. pose proof (inv_bound _ H). lia.
  - simpl. intros x p Hx Hp. apply in_app_or in Hx. destruct Hx as [Hx|[Hx|[]]]; subst.
    + destruct (inv_parent _ H _ _ Hx Hp) as [P1 P2]. split; auto. apply alive_add_old; auto.
    + split; [apply alive_add_old; auto|]. rewrite Ao. specialize (Ap _ Hp). apply alive_iff in Ap.
      destruct Ap as [y [Hy Ey]]. subst. apply (inv_below _ H _ Hy).
Qed.

(** ** remove_subtree *)
Definition survives (dead : list nat) (e : ent) : bool := negb (memn (e_oid e) dead).

Lemma ents_remove s x :
  ents (remove_subtree s x) = map (with_links (scrub_links (subtree s x))) (filter (survives (subtree s x)) (ents s)).
Proof. reflexivity. Qed.

Lemma with_links_hdr f e : hkey (with_links f e) = hkey e.
Proof. reflexivity. Qed.

Lemma children_remove s x p k :
  children (remove_subtree s x) p k =
  map (with_links (scrub_links (subtree s x))) (filter (survives (subtree s x)) (children s p k)).
Proof.
  unfold children. rewrite ents_remove. rewrite filter_map_comm by (intros; reflexivity).
  f_equal. set (P := survives (subtree s x)). set (Q := in_container p k).
  induction (ents s) as [|a l IH]; simpl; auto.
  destruct (P a) eqn:Pa, (Q a) eqn:Qa; simpl; rewrite ?Pa, ?Qa, ?IH; auto.
Qed.

Lemma alive_remove s x o : alive (remove_subtree s x) o = alive s o && negb (memn o (subtree s x)).
Proof.
  unfold alive, find_ent. rewrite ents_remove.
  induction (ents s) as [|a l IH]; simpl; auto.
  unfold survives at 1. destruct (memn (e_oid a) (subtree s x)) eqn:M; simpl.
  - destruct (e_oid a =? o) eqn:E; auto. apply Nat.eqb_eq in E. subst. rewrite M. simpl.
    rewrite IH. rewrite M. rewrite andb_false_r. reflexivity.
  - unfold e_oid at 1. simpl. fold (e_oid a). destruct (e_oid a =? o) eqn:E; auto.
    apply Nat.eqb_eq in E. subst. rewrite M. reflexivity.
Qed.

Lemma scrub_l_spec dead l t : In t (scrub_l dead l) <-> In t l /\ memn t dead = false.
Proof. unfold scrub_l. rewrite filter_In, negb_true_iff. tauto. Qed.

Lemma get_l_scrub dead sl l : get_l sl (scrub_links dead l) = scrub_l dead (get_l sl l).
Proof. destruct sl; reflexivity. Qed.
Lemma get_o_scrub dead sl l : get_o sl (scrub_links dead l) = scrub_o dead (get_o sl l).
Proof. destruct sl; reflexivity. Qed.

(** ** the subtree: closed under children (a parent precedes its children in the list) *)
Definition dead_fold (x : nat) (l : list ent) (acc : list nat) : list nat := fold_left (dead_step x) l acc.

Lemma subtree_fold s x : subtree s x = dead_fold x (ents s) [].
Proof. reflexivity. Qed.

Lemma dead_step_mono x acc e o : In o acc -> In o (dead_step x acc e).
Proof. intros H. unfold dead_step. destruct (_ || _); simpl; auto. Qed.

Lemma dead_fold_mono x l acc o : In o acc -> In o (dead_fold x l acc).
Proof.
  revert acc. induction l as [|a l IH]; simpl; intros acc H; auto. apply IH. apply dead_step_mono; auto.
Qed.

(** every member is the root or a child of a member, and is an entity of the list *)
Lemma dead_fold_sound x l acc o :
  In o (dead_fold x l acc) ->
  In o acc \/ exists e, In e l /\ e_oid e = o /\ (o = x \/ exists p, e_parent e = Some p /\ In p (dead_fold x l acc)).
Proof.
  revert acc. induction l as [|a l IH]; simpl; intros acc H; auto.
  apply IH in H. destruct H as [H|[e [He [Eo D]]]].
  - unfold dead_step in H. destruct (_ || _) eqn:C; auto. destruct H as [H|H]; auto.
    right. exists a. split; auto. split; auto. apply orb_true_iff in C. destruct C as [C|C].
    + left. apply Nat.eqb_eq in C. congruence.
    + right. destruct (e_parent a) as [p|]; simpl in C; [|discriminate]. exists p. split; auto.
      apply dead_fold_mono. apply dead_step_mono. apply memn_In; auto.
  - right. exists e. split; auto.
Qed.

(** a member's children are members *)
Lemma dead_fold_closed x l acc e p :
  StronglySorted lt (map e_oid l) -> (forall a q, In a l -> e_parent a = Some q -> q < e_oid a) ->
  In e l -> e_parent e = Some p -> In p (dead_fold x l acc) -> In (e_oid e) (dead_fold x l acc).
Proof.
  revert acc. induction l as [|a l IH]; simpl; intros acc S P He Hp Hin; [contradiction|].
  inversion S as [|? ? S' F]; subst. destruct He as [He|He].
  - subst a. apply dead_fold_mono.
    assert (Hacc : In p acc).
    { apply dead_fold_sound in Hin. destruct Hin as [Hin|[e' [He' [Eo _]]]].
      - unfold dead_step in Hin. destruct (_ || _); auto. destruct Hin as [Hin|Hin]; auto.
        exfalso. specialize (P e p (or_introl eq_refl) Hp). lia.
      - exfalso. rewrite Forall_forall in F. specialize (F (e_oid e') (in_map _ _ _ He')).
        specialize (P e p (or_introl eq_refl) Hp). lia. }
    unfold dead_step. rewrite Hp. simpl. apply memn_In in Hacc. rewrite Hacc, orb_true_r. simpl. auto.
  - apply IH; auto.
Qed.

Lemma subtree_closed s x e p :
  Inv s -> In e (ents s) -> e_parent e = Some p -> In p (subtree s x) -> In (e_oid e) (subtree s x).
Proof.
  intros H He Hp Hin. rewrite subtree_fold in *. eapply dead_fold_closed; eauto.
  - apply (inv_sorted _ H).
  - intros a q Ha Hq. apply (inv_parent _ H _ _ Ha Hq).
Qed.

Lemma subtree_sound s x o :
  In o (subtree s x) -> exists e, In e (ents s) /\ e_oid e = o /\ (o = x \/ exists p, e_parent e = Some p /\ In p (subtree s x)).
Proof. intros H. rewrite subtree_fold in *. apply dead_fold_sound in H. destruct H as [[]|H]; auto. Qed.

Lemma subtree_root s x : alive s x = true -> In x (subtree s x).
Proof.
  intros A. apply alive_iff in A. destruct A as [e [He Eo]]. rewrite subtree_fold. generalize (@nil nat).
  induction (ents s) as [|a l IH]; simpl; intros acc; [contradiction|]. destruct He as [He|He].
  - subst a. apply dead_fold_mono. unfold dead_step. rewrite Eo, Nat.eqb_refl. left; auto.
  - apply IH; auto.
Qed.

Lemma inv_remove s x : Inv s -> Inv (remove_subtree s x).
Proof.
  intros H. set (dead := subtree s x). constructor.
  - rewrite ents_remove, map_map. simpl.
    replace (map (fun e => e_oid (with_links (scrub_links (subtree s x)) e)) (filter (survives (subtree s x)) (ents s)))
      with (map e_oid (filter (survives (subtree s x)) (ents s))) by (apply map_ext; reflexivity).
    pose proof (inv_sorted _ H) as S. revert S. generalize (ents s). induction l as [|a l IH]; simpl; intros S; [constructor|].
    inversion S; subst. destruct (survives (subtree s x) a); simpl; auto.
    constructor; auto. rewrite Forall_forall in *. intros y Hy. apply in_map_iff in Hy. destruct Hy as [z [Hz Hin]].
    apply filter_In in Hin. apply H3. subst. apply in_map. tauto.
  - intros e He. rewrite ents_remove in He. apply in_map_iff in He. destruct He as [a [Ha Hin]]. subst.
    apply filter_In in Hin. apply (inv_below _ H a). tauto.
  - intros e He. rewrite ents_remove in He. apply in_map_iff in He. destruct He as [a [Ha Hin]]. subst.
    apply filter_In in Hin. apply (inv_idx _ H a). tauto.
  - intros p k. rewrite children_remove, map_map.
    rewrite (map_ext _ link_name) by (intros; apply link_name_hdr; reflexivity).
    apply NoDup_map_filter. apply (inv_names _ H).
  - intros e He. rewrite ents_remove in He. apply in_map_iff in He. destruct He as [a [Ha Hin]]. subst.
    apply filter_In in Hin. apply (inv_nonempty _ H a). tauto.
  - intros p k e1 e2 H1 H2. rewrite children_remove in H1, H2.
    apply in_map_iff in H1. destruct H1 as [a1 [E1 I1]]. apply in_map_iff in H2. destruct H2 as [a2 [E2 I2]]. subst.
    apply filter_In in I1. apply filter_In in I2.
    rewrite (link_name_hdr a1), (eid_hdr a2) by reflexivity.
    intros He. rewrite (inv_linkid _ H p k a1 a2) by tauto. reflexivity.
  - intros e He. rewrite ents_remove in He. apply in_map_iff in He. destruct He as [a [Ha Hin]]. subst.
    apply filter_In in Hin. destruct Hin as [Hin _]. destruct (inv_links _ H _ Hin) as [A1 [A2 A3]]. split; [|split].
    + intros sl. simpl. rewrite get_l_scrub. destruct (A1 sl) as [Nd T]. split.
      * apply NoDup_filter; auto.
      * intros t Ht. apply scrub_l_spec in Ht. destruct Ht as [Ht Hm]. rewrite alive_remove, (T _ Ht).
        unfold dead in Hm. rewrite Hm. reflexivity.
    + intros sl t. simpl. rewrite get_o_scrub. unfold scrub_o. destruct (get_o sl (e_links a)) as [u|] eqn:G; simpl; [|discriminate].
      destruct (memn u (subtree s x)) eqn:M; [discriminate|]. intros Ht. inversion Ht; subst.
      rewrite alive_remove, (A2 _ _ G), M. reflexivity.
    + intros t. simpl. rewrite in_map_iff. intros [d [Ed Hd]]. destruct d as [| | | |[u|]]; simpl in Ed; try discriminate.
      unfold scrub_o in Ed. simpl in Ed. destruct (memn u (subtree s x)) eqn:M; [discriminate|]. inversion Ed; subst.
      rewrite alive_remove, (A3 _ Hd), M. reflexivity.
  - simpl. apply (inv_bound _ H).
  - intros e p He Hp. rewrite ents_remove in He. apply in_map_iff in He. destruct He as [a [Ha Hin]]. subst.
    apply filter_In in Hin. destruct Hin as [Hin Hs]. change (e_parent a = Some p) in Hp. change (e_oid (with_links (scrub_links (subtree s x)) a)) with (e_oid a).
    destruct (inv_parent _ H _ _ Hin Hp) as [P1 P2]. split; auto.
    rewrite alive_remove, P1. simpl. destruct (memn p (subtree s x)) eqn:M; auto.
    exfalso. apply memn_In in M. pose proof (subtree_closed s x a p H Hin Hp M) as C.
    unfold survives in Hs. apply negb_true_iff in Hs. apply memn_false in Hs. contradiction.
Qed.

End Inv.
