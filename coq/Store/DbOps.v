(** * Store/DbOps.v — the operation alphabet of the entity database and its step function

    [step B s op = (s', r)]: the file after the public API call [op] and the call's outcome.  One
    constructor per call FAMILY; the container kind (and with it the concrete C++ method) is a parameter:
    [OCreate (Some b) KTag …] is Block::createTag, [OCreate None KBlock …] is File::createBlock, and so on
    (the table is in the comment of [op]).  Argument validation ORDER and the exception classes follow
    the C++ line by line: front-end checks first, then the backend's effects in the order the backend
    performs them — a state change before a late check is what C08 is about.

    ** Parameters (Section variables)
    - [ids : nat -> string]      the id supply: the k-th call of util::createId() returns [ids k].
    - [sanitize], [unit_ok]      util::unitSanitizer and "empty, "none" or util::isSIUnit" (Tag::units).
    - [B : behaviour]            one switch per known defect of the pinned tree; [code_today] has every
                                 switch off (= the pinned code), [repaired] every switch on (= the code
                                 after the proposed patches).  Theorems are about [repaired]; the extracted
                                 driver runs [current_behaviour].

    ** Domain.  Lookup keys (has / get / delete / add by string) are byte strings without '/': a key with a
    slash is an HDF5 path and out of scope.  Handles are oids: [HNone] is a default-constructed (none)
    handle, [HEnt o] with [o] not in the file is a handle to a deleted entity (isValidEntity() = false).
    Receivers must be alive and of the right kind (the drivers refuse anything else before calling). *)
From Coq Require Import List ZArith Bool String Ascii Arith Lia.
Require Import NixV.Base.Prelude NixV.Store.Db.
Import ListNotations.

(** ** behaviour switches: true = repaired *)
Record behaviour := mkBeh {
  b_df_checks          : bool;  (* #7   createDataFrame checks name, type and duplicates first *)
  b_df_cols_check      : bool;  (* #26  createDataFrame: at least one column, every column type storable, before creating *)
  b_mtag_pos_first     : bool;  (* #8   createMultiTag checks that positions is in the block before creating *)
  b_array_checks_first : bool;  (* #9 #32 createDataArray validates element type and rank before creating *)
  b_meta_lookup_first  : bool;  (* #10  metadata(id): find the section before dropping the old link *)
  b_link_lookup_first  : bool;  (* #10  Section::link(id): same *)
  b_ext_check_first    : bool;  (* #10  MultiTag::extents(id): check the shapes before dropping the old link *)
  b_values_check_first : bool;  (* #11  Property::values: check every value's type before resizing *)
  b_prop_type_check    : bool;  (* #27  createProperty(name, dtype) rejects types a Variant cannot hold *)
  b_prop_values_uniform: bool;  (* #11  createProperty(name, values) rejects mixed types before creating *)
  b_esrc_by_name       : bool;  (* #24 #25 entity sources: has = get, names resolved among the attached sources *)
  b_uuid_name_links    : bool;  (* new  references: a UUID-shaped NAME is resolved like any name (resolveEntityId);
                                        group members: a UUID-shaped key that is no link name is tried as a name *)
  b_replace_all_atomic : bool;  (* new  references(vector) / sources(vector) / group members(vector) validate first *)
  b_feature_null_guard : bool;  (* #14  getFeature skips features whose data link is gone *)
  b_delsource_by_id    : bool;  (* new (C04) Block::deleteSource(handle) deletes the source with that ID, not the root source
                                        that happens to have the same NAME *)
  b_valid_reachable    : bool;  (* #13 + new (C04) isValidEntity() = "the object can be reached from the file root", not
                                        "its HDF5 link count is positive": a link held by the deleted object itself (alias range
                                        dimension, Section::link to itself) or by an already deleted holder that is still open
                                        keeps the count positive.  Used by Store/DbSession.v ([handle_valid]) *)
  b_setdata_type_first : bool;  (* new (C08) DataSet::setData(value) checks that the element type can be converted into the
                                        array's before it resizes the array *)
  b_append_type_first  : bool;  (* new (C08) DataArray::appendData: the same check before the array is enlarged *)
  b_df_colname_check   : bool;  (* new (C08) createDataFrame rejects an empty column name before anything is created *)
  b_array_rank_max     : bool;  (* new (C08) createDataArray rejects a rank above H5S_MAX_RANK (32) before the group is created *)
  b_create_typed_first : bool   (* new (C08) the template Block::createDataArray(name, type, data, data_type) checks that the data can be
                                        converted to data_type before it creates the array *)
}.

Definition repaired : behaviour := mkBeh true true true true true true true true true true true true true true true true true true true true true.
Definition code_today : behaviour := mkBeh false false false false false false false false false false false false false false false false false false false false false.

(** ** call arguments and results *)
Inductive harg := HNone | HEnt (o : nat).

Inductive cargs :=
| XNone
| XArray (dt : dtype) (shape : list Z)
| XArrayT (mem : dtype) (n : Z) (dt : dtype)   (* template createDataArray(name, type, std::vector<mem>(n), dt); dt = Nothing: inferred *)
| XFrame (cols : list column)
| XTag (pos : list string)
| XMTag (positions : harg)
| XPropT (dt : dtype)
| XPropV (vals : list dtype)          (* the types of the values; their contents are not modelled here *)
| XFeatH (data : harg) (ltype : string)
| XFeatS (key : string) (ltype : string).

Inductive value := VUnit | VBool (b : bool) | VNat (n : nat) | VEnt (o : option nat) | VEnts (l : list nat).

(** The public calls.  [p] = parent (None = the file), [k] = kind of the children addressed:
    (None,KBlock) File::*Block*  (None,KSection) File::*Section*  (sec,KSection) Section::*Section*
    (sec,KProperty) Section::*Property*  (blk,KArray|KFrame|KTag|KMTag|KGroup|KSource) Block::*…*
    (src,KSource) Source::*Source*  (tag|mtag,KFeature) Tag::/MultiTag::*Feature*.
    [h] = holder of a link container: LRefs on a tag / multi-tag, LSrcs on an array, frame, tag, multi-tag
    or group, LG* on a group. *)
Inductive op :=
| OCreate  (p : option nat) (k : kind) (name type : string) (x : cargs)
| ODelete  (p : option nat) (k : kind) (key : string)
| ODeleteH (p : option nat) (k : kind) (a : harg)
| OHas     (p : option nat) (k : kind) (key : string)
| OHasH    (p : option nat) (k : kind) (a : harg)
| OGet     (p : option nat) (k : kind) (key : string)
| OGetIdx  (p : option nat) (k : kind) (i : nat)
| OCount   (p : option nat) (k : kind)
| OList    (p : option nat) (k : kind)
| OLAdd    (h : nat) (sl : lslot) (a : harg)
| OLAddS   (h : nat) (sl : lslot) (key : string)
| OLRemove (h : nat) (sl : lslot) (a : harg)
| OLRemoveS(h : nat) (sl : lslot) (key : string)
| OLHas    (h : nat) (sl : lslot) (a : harg)
| OLHasS   (h : nat) (sl : lslot) (key : string)
| OLGet    (h : nat) (sl : lslot) (key : string)
| OLGetIdx (h : nat) (sl : lslot) (i : nat)
| OLCount  (h : nat) (sl : lslot)
| OLList   (h : nat) (sl : lslot)
| OLSet    (h : nat) (sl : lslot) (l : list harg)
| OSetType (o : nat) (t : string)
| OSetDef  (o : nat) (d : option string)
| OSetMeta (o : nat) (a : harg)
| OSetMetaS(o : nat) (key : string)
| OSetLink (o : nat) (a : harg)
| OSetLinkS(o : nat) (key : string)
| OSetPos  (o : nat) (a : harg)
| OSetPosS (o : nat) (key : string)
| OSetExt  (o : nat) (a : harg)
| OSetExtS (o : nat) (key : string)
| OSetData (o : nat) (a : harg)
| OSetDataS(o : nat) (key : string)
| OSetUnits(o : nat) (u : option (list string))
| OSetExtent (o : nat) (x : list Z)
| OSetValues (o : nat) (vals : list dtype)
| OSetTagPos (o : nat) (x : list string)
| OSetTagExt (o : nat) (x : option (list string))
| ODimAdd  (o : nat) (d : dimd) (f : harg)   (* DataArray::append{Set,Range,Sampled,AliasRange,DataFrame}Dimension; [d] gives the
                                                kind, [f] the frame of a data-frame dimension *)
| ODimClear (o : nat)                        (* DataArray::deleteDimensions *)
| OSetDataT (o : nat) (mem : dtype) (shape : list Z)      (* template DataSet::setData(value): dataExtent(shape(value)),
                                                             then the write of elements of type [mem] *)
| OAppendData (o : nat) (mem : dtype) (count : list Z) (axis : nat)   (* DataArray::appendData(dtype, ptr, count, axis) *)
| OSetLtype (o : nat) (lt : string)          (* Feature::linkType(LinkType) *)
| OTouch   (o : nat) (ks : list kind)        (* a well-formed write of a field this model does not carry (label, unit, data,
                                                values, descriptor fields, ...) on a live entity of one of the kinds [ks] *)
| OReopen.

(** exception classes *)
Definition EEmpty := "nix::EmptyString"%string.
Definition EInvName := "nix::InvalidName"%string.
Definition EDup := "nix::DuplicateName"%string.
Definition EUninit := "nix::UninitializedEntity"%string.
Definition EOob := "nix::OutOfBounds"%string.
Definition ERank := "nix::InvalidRank"%string.
Definition EConsist := "nix::ConsistencyError"%string.
Definition EUnit := "nix::InvalidUnit"%string.
Definition ERuntime := "std::runtime_error"%string.
Definition EInvArg := "std::invalid_argument"%string.
Definition EH5 := "nix::hdf5::H5Exception"%string.
Definition EH5Err := "nix::hdf5::H5Error"%string.
Definition EInvDim := "nix::InvalidDimension"%string.
Definition EIncompat := "nix::IncompatibleDimensions"%string.
Definition EModel := "model::bad-receiver"%string.

Section Ops.
Variable ids : nat -> string.
Variable sanitize : string -> string.
Variable unit_ok : string -> bool.
Variable B : behaviour.

Definition eid (e : ent) : string := ids (e_idx e).
(** the name of the HDF5 link that holds the entity in its parent: the name, or the id for a feature *)
Definition link_name (e : ent) : string := match e_kind e with KFeature => eid e | _ => e_name e end.

(** ** lookups inside one container (a list of entities in link order) *)
(** hasObject(key) / openGroup(key): by link name; the empty string never matches *)
Definition find_link (c : list ent) (key : string) : option ent :=
  if is_empty_str key then None else find (fun e => String.eqb (link_name e) key) c.
Definition find_id (c : list ent) (key : string) : option ent := find (fun e => String.eqb (eid e) key) c.
Definition find_name_attr (c : list ent) (key : string) : option ent := find (fun e => String.eqb (e_name e) key) c.

(** H5Group::findGroupByNameOrAttribute("entity_id", key) (also findDataByNameOrAttribute) *)
Definition find_name_or_id (c : list ent) (key : string) : option ent :=
  match find_link c key with
  | Some e => Some e
  | None => if looksLikeUUID key then find_id c key else None
  end.

(** nix::Identity(name_or_id, type) *)
Definition ident_of_key (key : string) : string * string :=
  if looksLikeUUID key then (EmptyString, key) else (key, EmptyString).

(** BlockHDF5::findEntityGroup *)
Definition block_find (c : list ent) (iname iid : string) : option ent :=
  let haveName := negb (is_empty_str iname) in
  let haveId := negb (is_empty_str iid) in
  if negb haveName && negb haveId then None else
  let needle := if haveName then iname else iid in
  let g := match find_link c needle with
           | Some e => Some e
           | None => if haveId then find_id c iid else None
           end in
  match g with
  | Some e => if haveName && haveId && negb (String.eqb (eid e) iid) then None else Some e
  | None => None
  end.
Definition block_find_key (c : list ent) (key : string) : option ent :=
  let '(n, i) := ident_of_key key in block_find c n i.

(** GroupHDF5::findEntityGroup over the member list [m] (links named by the member's id).
    Repaired: a key that is given as an id but is no link name is also tried as a name. *)
Definition group_find (m : list ent) (iname iid : string) : option ent :=
  let haveName := negb (is_empty_str iname) in
  let haveId := negb (is_empty_str iid) in
  if negb haveName && negb haveId then None else
  let needle := if haveId then iid else iname in
  let g := match (if is_empty_str needle then None else find_id m needle) with
           | Some e => Some e
           | None => if haveName then find_name_attr m iname
                     else if b_uuid_name_links B then find_name_attr m iid else None
           end in
  match g with
  | Some e => if haveName && haveId && negb (String.eqb (e_name e) iname) then None else Some e
  | None => None
  end.
Definition group_find_key (m : list ent) (key : string) : option ent :=
  let '(n, i) := ident_of_key key in group_find m n i.

(** ** the tree *)
Definition parent_kind (s : db) (p : option nat) : option (option kind) :=
  match p with
  | None => Some None
  | Some o => match find_ent s o with Some e => Some (Some (e_kind e)) | None => None end
  end.

(** which (parent kind, child kind) pairs are containers of the data model *)
Definition container_ok (pk : option kind) (k : kind) : bool :=
  match pk, k with
  | None, KBlock | None, KSection => true
  | Some KSection, KSection | Some KSection, KProperty => true
  | Some KBlock, KArray | Some KBlock, KFrame | Some KBlock, KTag | Some KBlock, KMTag
  | Some KBlock, KGroup | Some KBlock, KSource => true
  | Some KSource, KSource => true
  | Some KTag, KFeature | Some KMTag, KFeature => true
  | _, _ => false
  end.

(** the block an entity (given by its parent chain) lives in *)
Fixpoint block_of (fuel : nat) (s : db) (p : option nat) : option nat :=
  match fuel with
  | O => None
  | S f => match p with
           | None => None
           | Some o => match find_ent s o with
                       | None => None
                       | Some e => if kind_eqb (e_kind e) KBlock then Some o else block_of f s (e_parent e)
                       end
           end
  end.
Definition block_of_ent (s : db) (e : ent) : option nat :=
  if kind_eqb (e_kind e) KBlock then Some (e_oid e) else block_of (S (List.length (ents s))) s (e_parent e).

(** all sources of block [b], any depth (the candidates of Block::findSources) in creation order *)
Definition sources_of_block (s : db) (b : nat) : list ent :=
  filter (fun e => kind_eqb (e_kind e) KSource && opt_nat_eqb (block_of_ent s e) (Some b)) (ents s).

(** Source::findSources order: breadth first from one root *)
Fixpoint bfs (fuel : nat) (s : db) (frontier : list ent) : list ent :=
  match fuel with
  | O => []
  | S f => match frontier with
           | [] => []
           | x :: rest => x :: bfs f s (rest ++ children s (Some (e_oid x)) KSource)
           end
  end.
(** Block::findSources(filter): per root source, breadth first *)
Definition block_find_sources (s : db) (b : nat) (flt : ent -> bool) : list ent :=
  flat_map (fun r => filter flt (bfs (S (List.length (ents s))) s [r])) (children s (Some b) KSource).

(** File::findSections(IdFilter(id)): some section of the file with that id *)
Definition find_section_by_id (s : db) (id : string) : option ent :=
  find (fun e => kind_eqb (e_kind e) KSection && String.eqb (eid e) id) (ents s).

(** resolve a list of link targets to the entities (a dangling target is skipped) *)
Definition resolve (s : db) (l : list nat) : list ent :=
  flat_map (fun o => match find_ent s o with Some e => [e] | None => [] end) l.

(** ** handles *)
Definition valid (s : db) (a : harg) : bool := match a with HNone => false | HEnt o => alive s o end.
Definition hent (s : db) (a : harg) : option ent := match a with HNone => None | HEnt o => find_ent s o end.
(** the id a handle reports: a deleted entity's id matches nothing that is in the file; model it by a
    string that is no id and no name (it contains a slash) *)
Definition dead_id : string := "/dead"%string.
Definition hid (s : db) (a : harg) : string := match hent s a with Some e => eid e | None => dead_id end.

(** ** results *)
Definition ret (s : db) (v : value) : db * res value := (s, Ok v).
Definition fail (s : db) (e : string) : db * res value := (s, Err e).
Definition vopt (o : option ent) : value := VEnt (option_map e_oid o).
Definition vbool_of (o : option ent) : value := VBool (match o with Some _ => true | None => false end).

(** ** child containers: lookup by a name_or_id string *)
(** features: link named [key] (the feature id); else — unless the key is UUID-shaped and matches an
    attribute "name", which features do not have — the first feature whose data array has that name or id *)
Fixpoint feature_scan (s : db) (fs : list ent) (key : string) : res (option ent) :=
  match fs with
  | [] => Ok None
  | f :: r =>
    match l_data (e_links f) with
    | None => if b_feature_null_guard B then feature_scan s r key
              else UB "getFeature dereferences the null IDataArray of a feature whose data is gone"
    | Some t =>
      match find_ent s t with
      | Some a => if String.eqb (e_name a) key || String.eqb (eid a) key then Ok (Some f) else feature_scan s r key
      | None => feature_scan s r key
      end
    end
  end.
Definition lookup_feature (s : db) (c : list ent) (key : string) : res (option ent) :=
  match find_link c key with
  | Some f => Ok (Some f)
  | None => feature_scan s c key
  end.

(** named kinds *)
Definition lookup_named (pk : option kind) (c : list ent) (key : string) : option ent :=
  match pk with
  | Some KBlock => block_find_key c key        (* BlockHDF5::findEntityGroup(Identity(key, type)) *)
  | _ => find_name_or_id c key                 (* findGroupByNameOrAttribute / findDataByNameOrAttribute *)
  end.

Definition lookup (s : db) (pk : option kind) (p : option nat) (k : kind) (key : string) : res (option ent) :=
  match k with
  | KFeature => lookup_feature s (children s p k) key
  | _ => Ok (lookup_named pk (children s p k) key)
  end.

(** lookup by handle: Block-level calls pass Identity(name, id); everything else passes the id;
    today Block::deleteSource(handle) passes the NAME (and so can delete a namesake), repaired: the id *)
Definition lookup_h (s : db) (pk : option kind) (p : option nat) (k : kind) (e : ent) (for_delete : bool) : res (option ent) :=
  match pk with
  | Some KBlock =>
    if for_delete && kind_eqb k KSource then
      Ok (block_find_key (children s p k) (if b_delsource_by_id B then eid e else e_name e))
    else Ok (block_find (children s p k) (e_name e) (eid e))
  | _ => lookup s pk p k (eid e)
  end.

(** ** create *)
Definition new_hdr (s : db) (k : kind) (p : option nat) (name type : string) : hdr :=
  mkHdr (next s) (next s) k p name type None.
Definition h5_bad_link_name (n : string) : bool := String.eqb n "."%string.

(** util::checkEntityName / checkEntityType *)
Definition check_name (name : string) : option string :=
  if is_empty_str name then Some EEmpty else if has_slash name then Some EInvName else None.

Fixpoint dup_col (seen : list string) (cols : list column) : option string :=
  match cols with
  | [] => None
  | c :: r => if negb (variant_supports (c_dtype c)) then Some EInvArg
              else if existsb (String.eqb (c_name c)) seen then Some EConsist
              else dup_col (c_name c :: seen) r
  end.

Definition all_same (d : dtype) (l : list dtype) : bool := forallb (dtype_eqb d) l.

Definition create_backend (s : db) (p : option nat) (k : kind) (name type : string)
           (lk : links) (py : payload) : db * res value :=
  (* util::createId(), then openGroup(name, create) / createData(name, ...) *)
  if h5_bad_link_name name then fail (bump s) EH5
  else ret (add_ent s (mkEnt (new_hdr s k p name type) lk py)) (VEnt (Some (next s))).

(** nix::data_type_is_numeric *)
Definition dtype_numeric (d : dtype) : bool :=
  match d with DUInt8 | DUInt16 | DUInt32 | DUInt64 | DInt8 | DInt16 | DInt32 | DInt64 | DFloat | DDouble => true | _ => false end.
(** can H5Dwrite convert elements of memory type [mem] into the file type [file]?  (this build of HDF5: numeric types
    convert into one another, Bool — an 8-bit enum — converts into every numeric type and nothing converts into it,
    String converts to and from nothing else) *)
Definition dtype_writable (mem file : dtype) : bool :=
  dtype_eqb mem file || (dtype_numeric file && (dtype_numeric mem || dtype_eqb mem DBool)).
(** Block::createDataArray(name, type, data_type, shape) *)
Definition create_array (s : db) (pk : option kind) (p : option nat) (name type : string) (dt : dtype) (shape : list Z)
  : db * res value :=
  let k := KArray in
  let c := children s p k in
    match check_name name with Some e => fail s e | None =>
    if is_empty_str type then fail s EEmpty else
    match lookup_named pk c name with Some _ => fail s EDup | None =>
    if b_array_checks_first B then
      if negb (h5_storable dt) then fail s EInvArg
      else if Nat.eqb (List.length shape) 0 then fail s ERank
      else if b_array_rank_max B && Nat.ltb 32 (List.length shape) then fail s ERank
      (* today: H5Screate_simple refuses more than H5S_MAX_RANK dimensions after the array's group was created *)
      else if Nat.ltb 32 (List.length shape) then
        (if h5_bad_link_name name then fail (bump s) EH5
         else fail (add_ent s (mkEnt (new_hdr s k p name type) no_links no_payload)) EH5)
      else create_backend s p k name type no_links (set_extent shape (set_dtype dt no_payload))
    else
      (* today: the group and its attributes first, then createData *)
      if h5_bad_link_name name then fail (bump s) EH5 else
      let s1 := add_ent s (mkEnt (new_hdr s k p name type) no_links no_payload) in
      if negb (h5_storable dt) then fail s1 EInvArg
      else if Nat.eqb (List.length shape) 0 then fail s1 ERank
      else ret (upd s1 (next s) (with_pay (fun py => set_extent shape (set_dtype dt py)))) (VEnt (Some (next s)))
    end end.

Definition do_create (s : db) (pk : option kind) (p : option nat) (k : kind) (name type : string) (x : cargs)
  : db * res value :=
  let c := children s p k in
  let blk := match p with Some b => b | None => 0 end in
  match k, x with
  | KBlock, XNone | KSection, XNone | KSource, XNone | KGroup, XNone | KTag, XTag _ =>
    match check_name name with Some e => fail s e | None =>
    if is_empty_str type then fail s EEmpty else
    match lookup_named pk c name with Some _ => fail s EDup | None =>
    create_backend s p k name type no_links
      (match x with XTag pos => set_tpos pos no_payload | _ => no_payload end)
    end end
  | KArray, XArray dt shape => create_array s pk p name type dt shape
  | KArray, XArrayT mem n dt =>
    (* header template: the array is created with the shape of the data, then the data is written *)
    let dt' := if dtype_eqb dt DNothing then mem else dt in
    if b_create_typed_first B && negb (dtype_writable mem dt') then fail s EInvArg else
    let out := create_array s pk p name type dt' [n] in
    match snd out with
    | Ok _ => if dtype_writable mem dt' then out else (fst out, Err EH5Err)     (* today: the array stays *)
    | _ => out
    end
  | KFrame, XFrame cols =>
    let py := mkPay DNothing [0%Z] [] None None cols EmptyString in
    if b_df_checks B then
      match check_name name with Some e => fail s e | None =>
      if is_empty_str type then fail s EEmpty else
      match lookup_named pk c name with Some _ => fail s EDup | None =>
      if b_df_cols_check B && Nat.eqb (List.length cols) 0 then fail s EInvArg else
      if b_df_cols_check B && existsb (fun c => dtype_eqb (c_dtype c) DNothing) cols then fail s EInvArg else
      if b_df_colname_check B && existsb (fun c => is_empty_str (c_name c)) cols then fail s EInvArg else
      match dup_col [] cols with Some e => fail s e | None =>
      (* today: an empty column name gets as far as H5Tinsert, after the frame's group was created *)
      if negb (b_df_colname_check B) && negb (h5_bad_link_name name) && existsb (fun c => is_empty_str (c_name c)) cols
      then fail (add_ent s (mkEnt (new_hdr s k p name type) no_links (mkPay DNothing [] [] None None [] EmptyString))) EH5 else
      if negb (b_df_cols_check B) && negb (h5_bad_link_name name) &&
         (Nat.eqb (List.length cols) 0 || existsb (fun c => dtype_eqb (c_dtype c) DNothing) cols)
      then fail (add_ent s (mkEnt (new_hdr s k p name type) no_links (mkPay DNothing [] [] None None [] EmptyString))) EH5
      else create_backend s p k name type no_links py
      end end end
    else
      (* today: no name / type / duplicate check at all *)
      match dup_col [] cols with Some e => fail s e | None =>
      if has_slash name then fail (bump s) EInvName else
      if is_empty_str name || h5_bad_link_name name then fail (bump s) EH5 else
      match find_link c name with
      | Some old =>
        (* openGroup opens the EXISTING frame; the constructor rewrites entity_id, then type, then name *)
        let s1 := upd (bump s) (e_oid old) (with_idx (next s)) in
        if is_empty_str type then fail s1 EEmpty
        else fail (upd s1 (e_oid old) (with_type type)) EConsist
      | None =>
        if is_empty_str type then
          fail (add_ent s (mkEnt (new_hdr s k p name EmptyString) no_links (mkPay DNothing [] [] None None [] EmptyString))) EEmpty
        else if Nat.eqb (List.length cols) 0 || existsb (fun c => dtype_eqb (c_dtype c) DNothing) cols then
          if b_df_cols_check B then fail s EInvArg
          else fail (add_ent s (mkEnt (new_hdr s k p name type) no_links (mkPay DNothing [] [] None None [] EmptyString))) EH5
        else ret (add_ent s (mkEnt (new_hdr s k p name type) no_links py)) (VEnt (Some (next s)))
      end end
  | KMTag, XMTag pos =>
    match check_name name with Some e => fail s e | None =>
    if is_empty_str type then fail s EEmpty else
    if negb (valid s pos) then fail s EUninit else
    match lookup_named pk c name with Some _ => fail s EDup | None =>
    (* backend: positions(positions.id()) -> block()->getEntity<IDataArray>(id) *)
    let target := block_find_key (children s p KArray) (hid s pos) in
    if b_mtag_pos_first B then
      match target with
      | None => fail s ERuntime
      | Some a => create_backend s p k name type (set_o OPos (Some (e_oid a)) no_links) no_payload
      end
    else
      if h5_bad_link_name name then fail (bump s) EH5 else
      match target with
      | None => fail (add_ent s (mkEnt (new_hdr s k p name type) no_links no_payload)) ERuntime
      | Some a => ret (add_ent s (mkEnt (new_hdr s k p name type) (set_o OPos (Some (e_oid a)) no_links) no_payload))
                      (VEnt (Some (next s)))
      end
    end end
  | KProperty, XPropT dt =>
    if b_prop_type_check B && (dtype_eqb dt DNothing || negb (variant_supports dt)) then fail s EInvArg else
    match check_name name with Some e => fail s e | None =>
    match lookup_named pk c name with Some _ => fail s EDup | None =>
    (* createId, properties group, then data_type_to_h5_filetype(dtype) before the dataset is created *)
    if negb (h5_storable dt) then fail (bump s) EInvArg else
    create_backend s p k name EmptyString no_links (set_extent [8%Z] (set_dtype dt no_payload))
    end end
  | KProperty, XPropV vals =>
    match vals with
    | [] => fail s ERuntime
    | d0 :: _ =>
      if b_prop_values_uniform B && negb (all_same d0 vals) then fail s EInvArg else
      match check_name name with Some e => fail s e | None =>
      match lookup_named pk c name with Some _ => fail s EDup | None =>
      if negb (h5_storable d0) then fail (bump s) EInvArg else
      let n := Z.of_nat (List.length vals) in
      (* p->values(values): same first type, setExtent(n), then the element loop *)
      if all_same d0 vals then create_backend s p k name EmptyString no_links (set_extent [n] (set_dtype d0 no_payload))
      else if h5_bad_link_name name then fail (bump s) EH5
      else fail (add_ent s (mkEnt (new_hdr s k p name EmptyString) no_links (set_extent [n] (set_dtype d0 no_payload)))) EInvArg
      end end
    end
  | KFeature, XFeatH data lt =>
    (* Tag::createFeature(DataArray): checkEntityInput; MultiTag: data.id() — both refuse none / deleted *)
    if negb (valid s data) then fail s EUninit else
    match block_of (S (List.length (ents s))) s p with
    | None => fail s EModel
    | Some b =>
      match block_find_key (children s (Some b) KArray) (hid s data) with
      | None => fail s ERuntime
      | Some a => create_backend s p k EmptyString EmptyString (set_o OData (Some (e_oid a)) no_links)
                                 (mkPay DNothing [] [] None None [] lt)
      end
    end
  | KFeature, XFeatS key lt =>
    match block_of (S (List.length (ents s))) s p with
    | None => fail s EModel
    | Some b =>
      match block_find_key (children s (Some b) KArray) key with
      | None => fail s ERuntime
      | Some a => create_backend s p k EmptyString EmptyString (set_o OData (Some (e_oid a)) no_links)
                                 (mkPay DNothing [] [] None None [] lt)
      end
    end
  | _, _ => fail s EModel
  end.

(** ** delete / has / get / count / list on child containers *)
Definition do_delete_found (s : db) (r : res (option ent)) : db * res value :=
  match r with
  | Ok (Some e) => ret (remove_subtree s (e_oid e)) (VBool true)
  | Ok None => ret s (VBool false)
  | Err e => fail s e
  | UB w => (s, UB w)
  end.

Definition res_value (s : db) (r : res (option ent)) (f : option ent -> value) : db * res value :=
  match r with Ok o => ret s (f o) | Err e => fail s e | UB w => (s, UB w) end.

(** does the front-end check the index against the count?  (Section::getProperty, Source::getSource and
    MultiTag::getFeature do not; the backend then fails inside HDF5 or returns none — both are treated
    as out of bounds) *)
Definition get_idx (s : db) (pk : option kind) (p : option nat) (k : kind) (i : nat) : db * res value :=
  let c := children s p k in
  match nth_error c i with
  | None => fail s EOob
  | Some e =>
    (* objectName(i), then the lookup by that name *)
    match k with
    | KFeature => res_value s (lookup_feature s c (link_name e)) vopt
    | _ => match pk with
           | Some KBlock => ret s (vopt (block_find c (link_name e) EmptyString))
           | _ => ret s (vopt (find_name_or_id c (link_name e)))
           end
    end
  end.

(** getEntities: get(i) for every i below the count, none results skipped *)
Definition list_children (s : db) (pk : option kind) (p : option nat) (k : kind) : db * res value :=
  let c := children s p k in
  ret s (VEnts (flat_map (fun e =>
                  match k with
                  | KFeature => match find_link c (link_name e) with Some x => [e_oid x] | None => [] end
                  | _ => match pk with
                         | Some KBlock => match block_find c (link_name e) EmptyString with Some x => [e_oid x] | None => [] end
                         | _ => match find_name_or_id c (link_name e) with Some x => [e_oid x] | None => [] end
                         end
                  end) c)).

(** ** link containers *)
Definition holder_ok (k : kind) (sl : lslot) : bool :=
  match sl, k with
  | LRefs, KTag | LRefs, KMTag => true
  | LSrcs, KArray | LSrcs, KFrame | LSrcs, KTag | LSrcs, KMTag | LSrcs, KGroup => true
  | LGArr, KGroup | LGFrm, KGroup | LGTag, KGroup | LGMtg, KGroup => true
  | _, _ => false
  end.

Definition members (s : db) (h : ent) (sl : lslot) : list ent := resolve s (get_l sl (e_links h)).
Definition set_members (s : db) (h : ent) (sl : lslot) (l : list nat) : db :=
  upd s (e_oid h) (with_links (set_l sl l)).
Definition remove_member (s : db) (h : ent) (sl : lslot) (t : nat) : db :=
  set_members s h sl (filter (fun x => negb (Nat.eqb x t)) (get_l sl (e_links h))).
Definition add_member (s : db) (h : ent) (sl : lslot) (t : nat) : db :=
  set_members s h sl (get_l sl (e_links h) ++ [t]).

(** BlockHDF5::resolveEntityId over the arrays of the block *)
Definition resolve_entity_id (arrays : list ent) (key : string) : string :=
  let '(n, i) := ident_of_key key in
  if b_uuid_name_links B then
    match block_find arrays n i with Some e => eid e | None => i end
  else if negb (is_empty_str i) then i
  else match block_find arrays n i with Some e => eid e | None => EmptyString end.

(** BaseTagHDF5::getReference(name_or_id) *)
Definition ref_get (arrays : list ent) (m : list ent) (key : string) : option ent :=
  let id := resolve_entity_id arrays key in
  if is_empty_str id then None else find_id m id.

(** EntityWithSourcesHDF5::getSource(name_or_id) *)
Definition esrc_get (s : db) (b : nat) (m : list ent) (key : string) : option ent :=
  if b_esrc_by_name B then
    if is_empty_str key then None else
    match find_id m key with Some e => Some e | None => find_name_attr m key end
  else
    let id := if looksLikeUUID key then key
              else match block_find_sources s b (fun e => String.eqb (e_name e) key) with
                   | x :: _ => eid x
                   | [] => key
                   end in
    if is_empty_str id then None else find_id m id.
(** EntityWithSourcesHDF5::hasSource(id) *)
Definition esrc_has (s : db) (b : nat) (m : list ent) (key : string) : bool :=
  if b_esrc_by_name B then match esrc_get s b m key with Some _ => true | None => false end
  else if is_empty_str key then false else match find_id m key with Some _ => true | None => false end.

(** the entities of the holder's block a link of slot [sl] may point to, and the lookup used by add *)
Definition add_target (s : db) (b : nat) (sl : lslot) (iname iid : string) : option ent :=
  match sl with
  | LSrcs => if is_empty_str iid then None else find_id (sources_of_block s b) iid
  | _ => block_find (children s (Some b) (lslot_target sl)) iname iid
  end.

Definition do_ladd_ident (s : db) (h : ent) (b : nat) (sl : lslot) (iname iid : string) : db * res value :=
  match add_target s b sl iname iid with
  | None => fail s ERuntime
  | Some t => if memn (e_oid t) (get_l sl (e_links h)) then fail s EH5Err   (* H5Lcreate_hard: the link exists *)
              else ret (add_member s h sl (e_oid t)) VUnit
  end.

(** replace-all: the targets the new list resolves to, or the exception the resolution raises *)
Fixpoint lset_targets (s : db) (h : ent) (b : nat) (sl : lslot) (l : list harg) : res (list nat) :=
  match l with
  | [] => Ok []
  | a :: r =>
    match a with
    | HNone => Err EUninit
    | HEnt _ =>
      let t := match sl, hent s a with
               | LRefs, _ => block_find_key (children s (Some b) KArray) (hid s a)          (* addReference(ref.id()) *)
               | LSrcs, Some e => block_find (children s (Some b) KSource) (e_name e) (eid e) (* block()->hasEntity(src) *)
               | LSrcs, None => None
               | _, Some e => block_find (children s (Some b) (lslot_target sl)) (e_name e) (eid e)
               | _, None => None
               end in
      match t, sl with
      | None, LSrcs => lset_targets s h b sl r                (* sources(vector) silently skips *)
      | None, _ => Err ERuntime
      | Some e, _ => bind (lset_targets s h b sl r) (fun ts => Ok (e_oid e :: ts))
      end
    end
  end.

(** today's replace-all: remove everything, then add one by one until something throws *)
Fixpoint lset_today (s : db) (h : nat) (b : nat) (sl : lslot) (l : list harg) : db * res value :=
  match l with
  | [] => ret s VUnit
  | a :: r =>
    match find_ent s h with
    | None => fail s EModel
    | Some he =>
      match lset_targets s he b sl [a] with
      | Err e => fail s e
      | UB w => (s, UB w)
      | Ok [] => lset_today s h b sl r
      | Ok (t :: _) => if memn t (get_l sl (e_links he)) then fail s EH5Err
                       else lset_today (add_member s he sl t) h b sl r
      end
    end
  end.

Fixpoint nodupb (l : list nat) : bool :=
  match l with [] => true | x :: r => negb (memn x r) && nodupb r end.

Definition do_link_op (s : db) (h : nat) (sl : lslot) (o : op) : db * res value :=
  match find_ent s h with
  | None => fail s EModel
  | Some he =>
    if negb (holder_ok (e_kind he) sl) then fail s EModel else
    match block_of_ent s he with
    | None => fail s EModel
    | Some b =>
      let m := members s he sl in
      let arrays := children s (Some b) KArray in
      match o with
      | OLAdd _ _ a =>
        match sl with
        | LSrcs =>                                  (* addSource(source.id()) *)
          match a with HNone => fail s EUninit | HEnt _ => do_ladd_ident s he b sl EmptyString (hid s a) end
        | LRefs =>                                  (* addReference(reference.name()) *)
          match hent s a with
          | None => fail s EUninit
          | Some e => let '(n, i) := ident_of_key (e_name e) in do_ladd_ident s he b sl n i
          end
        | _ =>                                      (* Group::add*(entity): Identity(entity) *)
          match hent s a with
          | None => fail s EUninit
          | Some e => do_ladd_ident s he b sl (e_name e) (eid e)
          end
        end
      | OLAddS _ _ key =>
        match sl with
        | LSrcs => if is_empty_str key then fail s EEmpty else do_ladd_ident s he b sl EmptyString key
        | LRefs => if is_empty_str key && kind_eqb (e_kind he) KTag then fail s EEmpty
                   else let '(n, i) := ident_of_key key in do_ladd_ident s he b sl n i
        | _ => let '(n, i) := ident_of_key key in do_ladd_ident s he b sl n i
        end
      | OLRemove _ _ a =>
        match sl with
        | LSrcs =>                                  (* removeSource(source.id()); the result is not observed *)
          match a with
          | HNone => fail s EUninit
          | HEnt _ => match find_id m (hid s a) with
                      | Some t => ret (remove_member s he sl (e_oid t)) VUnit
                      | None => ret s VUnit
                      end
          end
        | LRefs =>
          match hent s a with
          | None => if kind_eqb (e_kind he) KMTag then fail s EUninit else ret s (VBool false)
          | Some e => match ref_get arrays m (e_name e) with
                      | Some t => ret (remove_member s he sl (e_oid t)) (VBool true)
                      | None => ret s (VBool false)
                      end
          end
        | _ =>
          match hent s a with
          | None => ret s (VBool false)
          | Some e => match group_find m (e_name e) (eid e) with
                      | Some t => ret (remove_member s he sl (e_oid t)) (VBool true)
                      | None => ret s (VBool false)
                      end
          end
        end
      | OLRemoveS _ _ key =>
        match sl with
        | LSrcs => match (if is_empty_str key then None else find_id m key) with
                   | Some t => ret (remove_member s he sl (e_oid t)) VUnit
                   | None => ret s VUnit
                   end
        | LRefs => match ref_get arrays m key with
                   | Some t => ret (remove_member s he sl (e_oid t)) (VBool true)
                   | None => ret s (VBool false)
                   end
        | _ => match group_find_key m key with
               | Some t => ret (remove_member s he sl (e_oid t)) (VBool true)
               | None => ret s (VBool false)
               end
        end
      | OLHas _ _ a =>
        match sl with
        | LSrcs => match a with
                   | HNone => ret s (VBool false)
                   | HEnt _ => ret s (VBool (esrc_has s b m (hid s a)))
                   end
        | LRefs => match hent s a with
                   | None => ret s (VBool false)
                   | Some e => ret s (VBool (match ref_get arrays m (e_name e) with
                                             | Some t => String.eqb (eid t) (eid e)
                                             | None => false
                                             end))
                   end
        | _ => match hent s a with
               | None => ret s (VBool false)
               | Some e => ret s (vbool_of (group_find m (e_name e) (eid e)))
               end
        end
      | OLHasS _ _ key =>
        match sl with
        | LSrcs => ret s (VBool (esrc_has s b m key))
        | LRefs => ret s (vbool_of (ref_get arrays m key))
        | _ => ret s (vbool_of (group_find_key m key))
        end
      | OLGet _ _ key =>
        match sl with
        | LSrcs => ret s (vopt (esrc_get s b m key))
        | LRefs => ret s (vopt (ref_get arrays m key))
        | _ => ret s (vopt (group_find_key m key))
        end
      | OLGetIdx _ _ i =>
        match nth_error m i with
        | None => fail s EOob
        | Some t => ret s (VEnt (Some (e_oid t)))
        end
      | OLCount _ _ => ret s (VNat (List.length m))
      | OLList _ _ => ret s (VEnts (map e_oid m))
      | OLSet _ _ l =>
        if b_replace_all_atomic B then
          match lset_targets s he b sl l with
          | Err e => fail s e
          | UB w => (s, UB w)
          | Ok ts => if nodupb ts then ret (set_members s he sl ts) VUnit else fail s ERuntime
          end
        else lset_today (set_members s he sl []) h b sl l
      | _ => fail s EModel
      end
    end
  end.

(** ** setters *)
Definition has_meta (k : kind) : bool :=
  match k with KBlock | KSource | KArray | KFrame | KTag | KMTag | KGroup => true | _ => false end.
Definition has_type (k : kind) : bool := match k with KProperty | KFeature => false | _ => true end.

Definition set_olink (s : db) (o : nat) (sl : oslot) (v : option nat) : db := upd s o (with_links (set_o sl v)).

(** metadata(id) / Section::link(id): replace the link to a section found anywhere in the file *)
Definition relink_section (s : db) (o : nat) (sl : oslot) (lookup_first : bool) (id : string) : db * res value :=
  if lookup_first then
    match find_section_by_id s id with
    | None => fail s ERuntime
    | Some t => ret (set_olink s o sl (Some (e_oid t))) VUnit
    end
  else
    let s1 := set_olink s o sl None in
    match find_section_by_id s id with
    | None => fail s1 ERuntime
    | Some t => ret (set_olink s1 o sl (Some (e_oid t))) VUnit
    end.

Definition extent_of (s : db) (o : option nat) : option (list Z) :=
  match o with Some t => option_map (fun e => p_extent (e_pay e)) (find_ent s t) | None => None end.
(** appendData: the shapes agree in every dimension but [axis] *)
Fixpoint same_but (axis i : nat) (a b : list Z) : bool :=
  match a, b with
  | [], [] => true
  | x :: r, y :: q => (Nat.eqb i axis || Z.eqb x y) && same_but axis (S i) r q
  | _, _ => false
  end.
Fixpoint add_at (axis : nat) (a b : list Z) : list Z :=
  match a, b with
  | x :: r, y :: q => match axis with O => (x + y)%Z :: r | S n => x :: add_at n r q end
  | _, _ => a
  end.
Fixpoint zlist_eqb (a b : list Z) : bool :=
  match a, b with
  | [], [] => true
  | x :: r, y :: q => Z.eqb x y && zlist_eqb r q
  | _, _ => false
  end.

(** MultiTagHDF5::extents(name_or_id) *)
Definition set_extents (s : db) (m : ent) (b : nat) (key : string) : db * res value :=
  match block_find_key (children s (Some b) KArray) key with
  | None => fail s ERuntime
  | Some a =>
    let s1 := if b_ext_check_first B then s else set_olink s (e_oid m) OExt None in
    (* positions(): the link must exist (and its target be in the block) *)
    match extent_of s (l_pos (e_links m)) with
    | None => fail s1 ERuntime
    | Some pe => if zlist_eqb (p_extent (e_pay a)) pe then ret (set_olink s (e_oid m) OExt (Some (e_oid a))) VUnit
                 else fail s1 ERuntime
    end
  end.

Definition first_bad_unit (us : list string) : bool := existsb (fun u => negb (unit_ok (sanitize u))) us.

Definition do_setter (s : db) (o : nat) (oper : op) : db * res value :=
  match find_ent s o with
  | None => fail s EModel
  | Some e =>
    let k := e_kind e in
    let blk := block_of_ent s e in
    match oper with
    | OSetType _ t =>
      if negb (has_type k) then fail s EModel else
      if is_empty_str t then fail s EEmpty else ret (upd s o (with_type t)) VUnit
    | OSetDef _ d =>
      if kind_eqb k KFeature then fail s EModel else
      match d with
      | Some EmptyString => fail s EEmpty
      | _ => ret (upd s o (with_def d)) VUnit
      end
    | OSetMeta _ a =>
      if negb (has_meta k) then fail s EModel else
      match a with
      | HNone => ret (set_olink s o OMeta None) VUnit
      | HEnt _ => relink_section s o OMeta (b_meta_lookup_first B) (hid s a)
      end
    | OSetMetaS _ key =>
      if negb (has_meta k) then fail s EModel else
      if is_empty_str key then fail s EEmpty else relink_section s o OMeta (b_meta_lookup_first B) key
    | OSetLink _ a =>
      if negb (kind_eqb k KSection) then fail s EModel else
      match a with
      | HNone => ret (set_olink s o OLink None) VUnit
      | HEnt _ => relink_section s o OLink (b_link_lookup_first B) (hid s a)
      end
    | OSetLinkS _ key =>
      if negb (kind_eqb k KSection) then fail s EModel else
      if is_empty_str key then fail s EEmpty else relink_section s o OLink (b_link_lookup_first B) key
    | OSetPos _ a =>
      match k, blk with
      | KMTag, Some b =>
        if negb (valid s a) then fail s EUninit else
        match block_find_key (children s (Some b) KArray) (hid s a) with
        | None => fail s ERuntime
        | Some t => ret (set_olink s o OPos (Some (e_oid t))) VUnit
        end
      | _, _ => fail s EModel
      end
    | OSetPosS _ key =>
      match k, blk with
      | KMTag, Some b =>
        if is_empty_str key then fail s EEmpty else
        match block_find_key (children s (Some b) KArray) key with
        | None => fail s ERuntime
        | Some t => ret (set_olink s o OPos (Some (e_oid t))) VUnit
        end
      | _, _ => fail s EModel
      end
    | OSetExt _ a =>
      match k, blk with
      | KMTag, Some b =>
        match a with
        | HNone => ret (set_olink s o OExt None) VUnit
        | HEnt _ => if negb (valid s a) then fail s EUninit else set_extents s e b (hid s a)
        end
      | _, _ => fail s EModel
      end
    | OSetExtS _ key =>
      match k, blk with
      | KMTag, Some b => if is_empty_str key then fail s EEmpty else set_extents s e b key
      | _, _ => fail s EModel
      end
    | OSetData _ a =>
      match k, blk with
      | KFeature, Some b =>
        if negb (valid s a) then fail s EUninit else
        match block_find_key (children s (Some b) KArray) (hid s a) with
        | None => fail s ERuntime
        | Some t => ret (set_olink s o OData (Some (e_oid t))) VUnit
        end
      | _, _ => fail s EModel
      end
    | OSetDataS _ key =>
      match k, blk with
      | KFeature, Some b =>
        if is_empty_str key then fail s EEmpty else
        match block_find_key (children s (Some b) KArray) key with
        | None => fail s ERuntime
        | Some t => ret (set_olink s o OData (Some (e_oid t))) VUnit
        end
      | _, _ => fail s EModel
      end
    | OSetUnits _ u =>
      match k with
      | KTag | KMTag =>
        match u with
        | None => ret (upd s o (with_pay (set_units None))) VUnit
        | Some us => if first_bad_unit us then fail s EUnit
                     else ret (upd s o (with_pay (set_units (Some (map sanitize us))))) VUnit
        end
      | _ => fail s EModel
      end
    | OSetExtent _ x =>
      match k with
      | KArray =>
        if dtype_eqb (p_dtype (e_pay e)) DNothing then fail s ERuntime        (* no dataset *)
        else if negb (Nat.eqb (List.length x) (List.length (p_extent (e_pay e)))) then fail s ERank
        else ret (upd s o (with_pay (set_extent x))) VUnit
      | KFrame =>                                      (* DataFrame::rows(n) *)
        match x with
        | [n] => ret (upd s o (with_pay (set_extent [n]))) VUnit
        | _ => fail s EModel
        end
      | _ => fail s EModel
      end
    | OSetValues _ vals =>
      match k with
      | KProperty =>
        match vals with
        | [] => ret (upd s o (with_pay (set_extent [0%Z]))) VUnit
        | d0 :: _ =>
          if negb (dtype_eqb d0 (p_dtype (e_pay e))) then fail s EInvArg else
          let n := Z.of_nat (List.length vals) in
          if b_values_check_first B then
            if all_same d0 vals then ret (upd s o (with_pay (set_extent [n]))) VUnit else fail s EInvArg
          else
            let s1 := upd s o (with_pay (set_extent [n])) in
            if all_same d0 vals then ret s1 VUnit else fail s1 EInvArg
        end
      | _ => fail s EModel
      end
    | OSetTagPos _ x =>
      match k with KTag => ret (upd s o (with_pay (set_tpos x))) VUnit | _ => fail s EModel end
    | OSetTagExt _ x =>
      match k with KTag => ret (upd s o (with_pay (set_text x))) VUnit | _ => fail s EModel end
    | ODimAdd _ d f =>
      match k, blk with
      | KArray, Some b =>
        let dims := l_dims (e_links e) in
        match d with
        | DimAlias =>
          (* front-end: rank, element type, no dimension yet (the unit check is the driver's: arrays get SI units only) *)
          if Nat.ltb 1 (List.length (p_extent (e_pay e))) then fail s EInvDim
          else if negb (dtype_numeric (p_dtype (e_pay e))) then fail s EInvDim
          else if negb (Nat.eqb (List.length dims) 0) then fail s EInvDim
          else ret (upd s o (with_links (set_dims [DimAlias]))) VUnit
        | DimFrame _ =>
          match f with
          | HNone => fail s EUninit
          | HEnt _ =>
            (* backend: checkFrameInBlock(block(), df) -> getEntity<IDataFrame>(df.id()), before the group is created *)
            match block_find_key (children s (Some b) KFrame) (hid s f) with
            | None => fail s ERuntime
            | Some t => ret (upd s o (with_links (set_dims (dims ++ [DimFrame (Some (e_oid t))])))) VUnit
            end
          end
        | _ => ret (upd s o (with_links (set_dims (dims ++ [d])))) VUnit
        end
      | _, _ => fail s EModel
      end
    | ODimClear _ =>
      match k with
      | KArray => ret (upd s o (with_links (set_dims []))) (VBool true)
      | _ => fail s EModel
      end
    | OSetDataT _ mem shape =>
      match k with
      | KArray =>
        let w := dtype_writable mem (p_dtype (e_pay e)) in
        if b_setdata_type_first B && negb w then fail s EInvArg
        else if negb (Nat.eqb (List.length shape) (List.length (p_extent (e_pay e)))) then fail s ERank   (* dataExtent(shape) *)
        else
          let s1 := upd s o (with_pay (set_extent shape)) in
          if w then ret s1 VUnit else fail s1 EH5Err            (* today: resized, then H5Dwrite cannot convert *)
      | _ => fail s EModel
      end
    | OAppendData _ mem count axis =>
      match k with
      | KArray =>
        let ext := p_extent (e_pay e) in
        let w := dtype_writable mem (p_dtype (e_pay e)) in
        if Nat.leb (List.length ext) axis then fail s ERank
        else if negb (Nat.eqb (List.length ext) (List.length count)) then fail s EIncompat
        else if negb (same_but axis 0 ext count) then fail s EIncompat
        else if b_append_type_first B && negb w then fail s EInvArg
        else
          let s1 := upd s o (with_pay (set_extent (add_at axis ext count))) in
          if w then ret s1 VUnit else fail s1 EH5Err            (* today: enlarged, then H5Dwrite cannot convert *)
      | _ => fail s EModel
      end
    | OSetLtype _ lt =>
      match k with
      | KFeature => ret (upd s o (with_pay (fun p => mkPay (p_dtype p) (p_extent p) (p_tpos p) (p_text p) (p_units p) (p_cols p) lt))) VUnit
      | _ => fail s EModel
      end
    | OTouch _ ks => if existsb (kind_eqb k) ks then ret s VUnit else fail s EModel
    | _ => fail s EModel
    end
  end.

(** ** the step function *)
Definition with_container (s : db) (p : option nat) (k : kind)
           (f : option kind -> db * res value) : db * res value :=
  match parent_kind s p with
  | None => fail s EModel
  | Some pk => if container_ok pk k then f pk else fail s EModel
  end.

Definition step (s : db) (o : op) : db * res value :=
  match o with
  | OCreate p k name type x => with_container s p k (fun pk => do_create s pk p k name type x)
  | ODelete p k key => with_container s p k (fun pk => do_delete_found s (lookup s pk p k key))
  | ODeleteH p k a =>
    with_container s p k (fun pk =>
      match hent s a with
      | None => ret s (VBool false)
      | Some e => do_delete_found s (lookup_h s pk p k e true)
      end)
  | OHas p k key => with_container s p k (fun pk => res_value s (lookup s pk p k key) vbool_of)
  | OHasH p k a =>
    with_container s p k (fun pk =>
      match hent s a with
      | None => ret s (VBool false)
      | Some e => res_value s (lookup_h s pk p k e false) vbool_of
      end)
  | OGet p k key =>
    with_container s p k (fun pk =>
      (* Tag::getFeature(string) checks for the empty string (MultiTag::getFeature does not) *)
      match pk, k with
      | Some KTag, KFeature => if is_empty_str key then fail s EEmpty else res_value s (lookup s pk p k key) vopt
      | _, _ => res_value s (lookup s pk p k key) vopt
      end)
  | OGetIdx p k i => with_container s p k (fun pk => get_idx s pk p k i)
  | OCount p k => with_container s p k (fun _ => ret s (VNat (List.length (children s p k))))
  | OList p k => with_container s p k (fun pk => list_children s pk p k)
  | OLAdd h sl _ | OLAddS h sl _ | OLRemove h sl _ | OLRemoveS h sl _ | OLHas h sl _ | OLHasS h sl _
  | OLGet h sl _ | OLGetIdx h sl _ | OLCount h sl | OLList h sl | OLSet h sl _ => do_link_op s h sl o
  | OSetType x _ | OSetDef x _ | OSetMeta x _ | OSetMetaS x _ | OSetLink x _ | OSetLinkS x _
  | OSetPos x _ | OSetPosS x _ | OSetExt x _ | OSetExtS x _ | OSetData x _ | OSetDataS x _
  | OSetUnits x _ | OSetExtent x _ | OSetValues x _ | OSetTagPos x _ | OSetTagExt x _
  | ODimAdd x _ _ | ODimClear x | OSetDataT x _ _ | OAppendData x _ _ _ | OSetLtype x _ | OTouch x _ => do_setter s x o
  | OReopen => ret s VUnit       (* the library keeps no write-back state: the file is the state *)
  end.

(** running a history *)
Definition run (s : db) (l : list op) : db := fold_left (fun st o => fst (step st o)) l s.

End Ops.

(** the behaviour of the tree the check runs against; the coordinator switches a field to [true] when
    the corresponding fix has landed in /repo (the model driver is extracted with this definition) *)
Definition current_behaviour : behaviour :=
  {| b_df_checks := true;             (* fixed in /repo: bb6b709 (#7) *)
     b_df_cols_check := true;         (* fixed in /repo (#26 ) *)
     b_mtag_pos_first := true;        (* fixed in /repo (#8 ) *)
     b_array_checks_first := true;    (* fixed in /repo (#9 #32 ) *)
     b_meta_lookup_first := true;     (* fixed in /repo (#10 ) *)
     b_link_lookup_first := true;     (* fixed in /repo (#10 ) *)
     b_ext_check_first := true;       (* fixed in /repo (#10 ) *)
     b_values_check_first := true;    (* fixed in /repo: 491c620 *)
     b_prop_type_check := true;       (* fixed in /repo: 2f44815 *)
     b_prop_values_uniform := true;   (* fixed in /repo: 491c620 *)
     b_esrc_by_name := true;          (* fixed in /repo (#24 #25 ) *)
     b_uuid_name_links := true;       (* fixed in /repo (new finding ) *)
     b_replace_all_atomic := true;    (* fixed in /repo (new finding ) *)
     b_feature_null_guard := true;    (* fixed in /repo (#14 ) *)
     b_delsource_by_id := true;       (* fixed in /repo: bec435c (new finding (C04)) *)
     b_valid_reachable := true;       (* fixed in /repo: 1b5d80a *)
     b_setdata_type_first := true;    (* fixed in /repo: 13076e5 *)
     b_append_type_first := true;    (* fixed in /repo: 333dc71 *)
     b_df_colname_check := true;    (* fixed in /repo: 9dd5538 *)
     b_array_rank_max := true;       (* fixed in /repo: 65ab894 *)
     b_create_typed_first := true    (* fixed in /repo: b2f41f8 (by deleting the array again when the write fails) *) |}.
