(** C20 — tree searches and back references.  Definitions only (model + specification).

    Model: the work-list algorithms of src/Section.cpp, src/Source.cpp, src/File.cpp, src/Block.cpp,
    include/nix/util/filter.hpp, backend/hdf5/{SectionHDF5,EntityWithMetadataHDF5,EntityWithSourcesHDF5}.cpp,
    statement by statement, over rose trees (children in HDF5 creation order).
    Specification: level order ([levels_from], [levels], [within]) and brute-force depth-first
    traversal ([all_nodes], [descendants], [dfs_within]); pointwise link tests for the back references.
    Proofs are in SearchProofs.v. *)
From Coq Require Import List ZArith Bool String Ascii Lia.
Require Import NixV.Base.Prelude.
Import ListNotations.
Local Open Scope Z_scope.

(** * Trees *)

(** One node type for sections and sources.  Sections use [n_props] (id, name of each property, creation
    order) and [n_link] (id of the linked section); sources use [n_meta] (id of their metadata section). *)
Record node := mkNode {
  n_id : string; n_name : string; n_type : string;
  n_props : list (string * string);
  n_link : option string;
  n_meta : option string }.

Inductive tree := Node (label : node) (kids : list tree).

Definition label (t : tree) : node := match t with Node l _ => l end.
Definition kids (t : tree) : list tree := match t with Node _ k => k end.
Definition tid (t : tree) : string := n_id (label t).

Definition list_sum (l : list nat) : nat := fold_right Nat.add 0%nat l.
Fixpoint tsize (t : tree) : nat := match t with Node _ ks => S (list_sum (map tsize ks)) end.
Definition fsize (ts : list tree) : nat := list_sum (map tsize ts).

(** [size_t]'s maximum: the default [max_depth] of every search ("unlimited"). *)
Definition size_max : Z := two64 - 1.

Definition out_of_fuel {A} : res A := Err "OutOfFuel".

(** * Filters of include/nix/util/filter.hpp.  A filter sees the entity handle, i.e. the subtree. *)
Definition AcceptAll (e : tree) : bool := true.
Definition IdFilter (id : string) (e : tree) : bool := String.eqb (tid e) id.
Definition NameFilter (name : string) (e : tree) : bool := String.eqb (n_name (label e)) name.
(** TypeFilter(str, exact = true) is [boost::regex_match(e.type(), regex(str))]; for strings without regex
    metacharacters (the domain of the correspondence run) that is string equality. *)
Definition TypeFilter (type : string) (e : tree) : bool := String.eqb (n_type (label e)) type.
Definition IdsFilter (ids : list string) (e : tree) : bool := existsb (String.eqb (tid e)) ids.

(** * Section::findSections — std::list work list, seeded with the children, self excluded *)

Definition entry := (tree * Z)%type.

(** addChildrenIfNotMaxDepth(current, todo, max_depth) *)
Definition add_children (current : entry) (todo : list entry) (max_depth : Z) : list entry :=
  if snd current <? max_depth then
    let next_depth := u64_add (snd current) 1 in
    todo ++ map (fun s => (s, next_depth)) (kids (fst current))
  else todo.

(** while (todo.size() > 0) { current = todo.front(); todo.pop_front(); if (filter(current)) results.push_back;
    addChildrenIfNotMaxDepth(current, todo, max_depth); } *)
Fixpoint sec_loop (fuel : nat) (filter : tree -> bool) (max_depth : Z) (todo : list entry) (results : list tree)
  : res (list tree) :=
  match fuel with
  | O => out_of_fuel
  | S fuel' =>
    match todo with
    | [] => Ok results
    | current :: todo' =>
      let results' := if filter (fst current) then results ++ [fst current] else results in
      sec_loop fuel' filter max_depth (add_children current todo' max_depth) results'
    end
  end.

Definition Section_findSections (filter : tree -> bool) (max_depth : Z) (self : tree) : res (list tree) :=
  let current := (self, 0) in
  let todo := add_children current [] max_depth in
  sec_loop (S (tsize self)) filter max_depth todo [].

(** * Source::findSources — std::queue seeded with the source itself at depth 0 *)

Fixpoint src_loop (fuel : nat) (filter : tree -> bool) (max_depth : Z) (todo : list entry) (results : list tree)
  : res (list tree) :=
  match fuel with
  | O => out_of_fuel
  | S fuel' =>
    match todo with
    | [] => Ok results
    | current :: todo' =>
      let filter_ok := filter (fst current) in
      let results' := if filter_ok then results ++ [fst current] else results in
      let todo'' :=
        if snd current <? max_depth then
          let children := kids (fst current) in
          let next_depth := u64_add (snd current) 1 in
          todo' ++ map (fun c => (c, next_depth)) children
        else todo' in
      src_loop fuel' filter max_depth todo'' results'
    end
  end.

Definition Source_findSources (filter : tree -> bool) (max_depth : Z) (self : tree) : res (list tree) :=
  src_loop (S (tsize self)) filter max_depth [(self, 0)] [].

(** * File::findSections — per root: the root if the filter accepts it, then root.findSections(max_depth - 1) *)

Fixpoint file_roots_loop (filter : tree -> bool) (max_depth : Z) (roots : list tree) (results : list tree)
  : res (list tree) :=
  match roots with
  | [] => Ok results
  | root :: rest =>
    let results1 := if filter root then results ++ [root] else results in
    bind (Section_findSections filter (u64_sub max_depth 1) root) (fun secs =>
    file_roots_loop filter max_depth rest (results1 ++ secs))
  end.

Definition File_findSections (filter : tree -> bool) (max_depth : Z) (roots : list tree) : res (list tree) :=
  if max_depth =? 0 then Ok [] else file_roots_loop filter max_depth roots [].

(** * Block::findSources — concatenation over the root sources of probe.findSources(filter, max_depth) *)

Fixpoint block_probes_loop (filter : tree -> bool) (max_depth : Z) (probes : list tree) (result : list tree)
  : res (list tree) :=
  match probes with
  | [] => Ok result
  | probe :: rest =>
    bind (Source_findSources filter max_depth probe) (fun matches =>
    block_probes_loop filter max_depth rest (result ++ matches))
  end.

Definition Block_findSources (filter : tree -> bool) (max_depth : Z) (roots : list tree) : res (list tree) :=
  block_probes_loop filter max_depth roots [].

(** * Section::findRelated and its helpers.  A section handle knows its parent chain: [ancestors] lists the
      parent, the grandparent, ... (nearest first; empty for a root section). *)

Fixpoint Section_tree_depth (t : tree) : Z :=
  match t with
  | Node _ children =>
    let depth := fold_left (fun depth child => Z.max depth (Section_tree_depth child)) children 0 in
    if 0 <? zlen children then depth + 1 else depth
  end.

(** while (results.size() == 0 && actual_depth <= max_depth) { results = findSections(filter, actual_depth); actual_depth += 1; } *)
Fixpoint downstream_loop (fuel : nat) (filter : tree -> bool) (self : tree) (max_depth : Z)
         (results : list tree) (actual_depth : Z) : res (list tree) :=
  match fuel with
  | O => out_of_fuel
  | S fuel' =>
    if (zlen results =? 0) && (actual_depth <=? max_depth) then
      bind (Section_findSections filter actual_depth self) (fun results' =>
      downstream_loop fuel' filter self max_depth results' (actual_depth + 1))
    else Ok results
  end.

Definition Section_findDownstream (filter : tree -> bool) (self : tree) : res (list tree) :=
  let max_depth := Section_tree_depth self in
  downstream_loop (S (tsize self)) filter self max_depth [] 1.

Fixpoint Section_findAmongParents (filter : tree -> bool) (ancestors : list tree) : list tree :=
  match ancestors with
  | [] => []
  | p :: up => if filter p then [p] else Section_findAmongParents filter up
  end.

Fixpoint Section_findSideways (filter : tree -> bool) (caller_id : string) (ancestors : list tree) : res (list tree) :=
  match ancestors with
  | [] => Ok []
  | p :: up =>
    bind (Section_findSections filter 1 p) (fun results =>
    if 0 <? zlen results then
      Ok (List.filter (fun section => negb (String.eqb (tid section) caller_id)) results)
    else Section_findSideways filter caller_id up)
  end.

Definition erase_section_with_id (sections : list tree) (my_id : string) : list tree :=
  List.filter (fun section => negb (String.eqb my_id (tid section))) sections.

Definition Section_findRelated (filter : tree -> bool) (ancestors : list tree) (self : tree) : res (list tree) :=
  bind (Section_findDownstream filter self) (fun results =>
  let my_id := tid self in
  let results := erase_section_with_id results my_id in
  let results := if zlen results =? 0 then Section_findAmongParents filter ancestors else results in
  let results := erase_section_with_id results my_id in
  if zlen results =? 0 then Section_findSideways filter my_id ancestors else Ok results).

(** * Links resolved through the search: SectionHDF5::link() and EntityWithMetadataHDF5::metadata() re-find the
      link target with File::findSections(IdFilter(target id)) (default depth) and take the first hit. *)

Definition resolve_section (roots : list tree) (target : option string) : res (option tree) :=
  match target with
  | None => Ok None
  | Some target_id =>
    bind (File_findSections (IdFilter target_id) size_max roots) (fun found => Ok (hd_error found))
  end.

Definition Section_link (roots : list tree) (self : tree) : res (option tree) :=
  resolve_section roots (n_link (label self)).

(** Section::inheritedProperties: copy_if(linked, back_inserter(own), name not found in own) — [own] grows while
    the predicate looks at it. *)
Definition Section_inheritedProperties (roots : list tree) (self : tree) : res (list (string * string)) :=
  let own := n_props (label self) in
  bind (Section_link roots self) (fun l =>
  match l with
  | None => Ok own
  | Some lk =>
    let linked := n_props (label lk) in
    Ok (fold_left (fun own linked_prop =>
                     if existsb (fun own_prop => String.eqb (snd linked_prop) (snd own_prop)) own
                     then own else own ++ [linked_prop]) linked own)
  end).

(** * Entities with metadata / sources, blocks, the file *)

Record ent := mkEnt { e_id : string; e_meta : option string; e_srcs : list string }.
Record block := mkBlock {
  b_id : string; b_meta : option string; b_sources : list tree;
  b_arrays : list ent; b_tags : list ent; b_mtags : list ent }.
Record file := mkFile { f_sections : list tree; f_blocks : list block }.

(** id of the section [e.metadata()] returns (none when there is no link or the target is not found) *)
Definition metadata_id (roots : list tree) (meta : option string) : option string :=
  match resolve_section roots meta with
  | Ok (Some s) => Some (tid s)
  | _ => None
  end.

(** MetadataFilter(sec_id): e.metadata() && e.metadata().id() == sec_id *)
Definition MetadataFilter (roots : list tree) (sec_id : string) (meta : option string) : bool :=
  match metadata_id roots meta with
  | Some i => String.eqb i sec_id
  | None => false
  end.

(** SourceFilter(src_id) on an entity with sources: a link named src_id exists in its sources group *)
Definition SourceFilter (src_id : string) (e : ent) : bool := existsb (String.eqb src_id) (e_srcs e).

Definition Section_referringDataArrays (f : file) (sec_id : string) : list ent :=
  flat_map (fun b => List.filter (fun e => MetadataFilter (f_sections f) sec_id (e_meta e)) (b_arrays b)) (f_blocks f).
Definition Section_referringTags (f : file) (sec_id : string) : list ent :=
  flat_map (fun b => List.filter (fun e => MetadataFilter (f_sections f) sec_id (e_meta e)) (b_tags b)) (f_blocks f).
Definition Section_referringMultiTags (f : file) (sec_id : string) : list ent :=
  flat_map (fun b => List.filter (fun e => MetadataFilter (f_sections f) sec_id (e_meta e)) (b_mtags b)) (f_blocks f).
Definition Section_referringBlocks (f : file) (sec_id : string) : list block :=
  List.filter (fun b => MetadataFilter (f_sections f) sec_id (b_meta b)) (f_blocks f).

Definition Section_referringSources_in (f : file) (sec_id : string) (b : block) : res (list tree) :=
  Block_findSources (fun s => MetadataFilter (f_sections f) sec_id (n_meta (label s))) size_max (b_sources b).

Fixpoint referringSources_loop (f : file) (sec_id : string) (blocks : list block) (srcs : list tree) : res (list tree) :=
  match blocks with
  | [] => Ok srcs
  | b :: rest =>
    bind (Section_referringSources_in f sec_id b) (fun temp => referringSources_loop f sec_id rest (srcs ++ temp))
  end.
Definition Section_referringSources (f : file) (sec_id : string) : res (list tree) :=
  referringSources_loop f sec_id (f_blocks f) [].

Definition Source_referringDataArrays (b : block) (src_id : string) : list ent := List.filter (SourceFilter src_id) (b_arrays b).
Definition Source_referringTags (b : block) (src_id : string) : list ent := List.filter (SourceFilter src_id) (b_tags b).
Definition Source_referringMultiTags (b : block) (src_id : string) : list ent := List.filter (SourceFilter src_id) (b_mtags b).

(** util::looksLikeUUID *)
Definition dash : ascii := "-"%char.
Definition char_is_dash (s : string) (i : nat) : bool :=
  match String.get i s with Some c => Ascii.eqb c dash | None => false end.
Definition looksLikeUUID (id : string) : bool :=
  Nat.eqb (String.length id) 36 && char_is_dash id 8 && char_is_dash id 13 && char_is_dash id 18 && char_is_dash id 23.

(** Source::hasSource(name_or_id) -> SourceHDF5::getSource -> H5Group::findGroupByNameOrAttribute("entity_id", v):
    a child link named v, else (v UUID-shaped) a child whose entity_id is v *)
Definition Source_hasSource (s : tree) (v : string) : bool :=
  if existsb (fun c => String.eqb (n_name (label c)) v) (kids s) then true
  else if looksLikeUUID v then existsb (fun c => String.eqb (tid c) v) (kids s)
  else false.

(** Source::parentSource: first hit of block.findSources(SourceFilter<Source>(id())) *)
Definition Source_parentSource (b : block) (id : string) : res (option tree) :=
  bind (Block_findSources (fun s => Source_hasSource s id) size_max (b_sources b)) (fun srcs => Ok (hd_error srcs)).

(** * Further public routes (route audit): filter constructors, filtered enumerations, block-restricted overloads *)

(** TypeFilter(str, exact = false): boost::regex_search with boost::regex::icase; for strings without regex
    metacharacters that is a case-insensitive substring test (ASCII case folding). *)
Definition lower_ascii (c : ascii) : ascii :=
  let n := nat_of_ascii c in if Nat.leb 65 n && Nat.leb n 90 then ascii_of_nat (n + 32) else c.
Fixpoint lower (s : string) : string :=
  match s with EmptyString => EmptyString | String c r => String (lower_ascii c) (lower r) end.
Fixpoint contains (p s : string) : bool :=
  if String.prefix p s then true else match s with EmptyString => false | String _ r => contains p r end.
Definition TypeFilterLoose (type : string) (e : tree) : bool := contains (lower type) (lower (n_type (label e))).

(** MetadataFilter<Source>(sec_id) and SourceFilter<Source>(src_id) passed by the user to a source search *)
Definition SourceMetadataFilter (roots : list tree) (sec_id : string) (s : tree) : bool :=
  MetadataFilter roots sec_id (n_meta (label s)).
Definition SourceSourceFilter (src_id : string) (s : tree) : bool := Source_hasSource s src_id.

(** ImplContainer::getEntities(getEntity, n, filter): for i in 0..n-1: candidate = getEntity(i); keep it if
    candidate && filter(candidate).  sections(filter) / sources(filter) / dataArrays(filter) ... *)
Definition getEntities {A} (filter : A -> bool) (entities : list A) : list A := List.filter filter entities.
Definition Section_sections (filter : tree -> bool) (self : tree) : list tree := getEntities filter (kids self).
Definition File_sections (filter : tree -> bool) (roots : list tree) : list tree := getEntities filter roots.
Definition Source_sources (filter : tree -> bool) (self : tree) : list tree := getEntities filter (kids self).
Definition Block_sources (filter : tree -> bool) (b : block) : list tree := getEntities filter (b_sources b).
Definition Block_dataArrays (filter : ent -> bool) (b : block) : list ent := getEntities filter (b_arrays b).
Definition Block_tags (filter : ent -> bool) (b : block) : list ent := getEntities filter (b_tags b).
Definition Block_multiTags (filter : ent -> bool) (b : block) : list ent := getEntities filter (b_mtags b).
Definition File_blocks (filter : block -> bool) (f : file) : list block := getEntities filter (f_blocks f).
Definition Section_properties (filter : string * string -> bool) (self : tree) : list (string * string) :=
  getEntities filter (n_props (label self)).

(** filters over data arrays / tags / multi-tags / blocks / properties *)
Definition EntIdFilter (id : string) (e : ent) : bool := String.eqb (e_id e) id.
Definition EntMetadataFilter (roots : list tree) (sec_id : string) (e : ent) : bool := MetadataFilter roots sec_id (e_meta e).
Definition BlockIdFilter (id : string) (b : block) : bool := String.eqb (b_id b) id.
Definition BlockMetadataFilter (roots : list tree) (sec_id : string) (b : block) : bool := MetadataFilter roots sec_id (b_meta b).
Definition PropIdFilter (id : string) (p : string * string) : bool := String.eqb (fst p) id.
Definition PropNameFilter (name : string) (p : string * string) : bool := String.eqb (snd p) name.

(** Section::referringDataArrays(const Block &b) etc.: if (b) b.dataArrays(MetadataFilter(id())) else nothing *)
Definition Section_referringDataArrays_in (f : file) (sec_id : string) (b : option block) : list ent :=
  match b with Some b => Block_dataArrays (EntMetadataFilter (f_sections f) sec_id) b | None => [] end.
Definition Section_referringTags_in (f : file) (sec_id : string) (b : option block) : list ent :=
  match b with Some b => Block_tags (EntMetadataFilter (f_sections f) sec_id) b | None => [] end.
Definition Section_referringMultiTags_in (f : file) (sec_id : string) (b : option block) : list ent :=
  match b with Some b => Block_multiTags (EntMetadataFilter (f_sections f) sec_id) b | None => [] end.
Definition Section_referringSources_opt (f : file) (sec_id : string) (b : option block) : res (list tree) :=
  match b with Some b => Section_referringSources_in f sec_id b | None => Ok [] end.

(** * Specification: level order and brute-force traversal (independent of the work lists) *)

(** the first [k] levels of the forest [ts], concatenated: level 0 = the roots, level i+1 = the children of level i *)
Fixpoint levels_from (k : nat) (ts : list tree) : list tree :=
  match k with
  | O => []
  | S k' => ts ++ levels_from k' (flat_map kids ts)
  end.

Fixpoint level (i : nat) (ts : list tree) : list tree :=
  match i with
  | O => ts
  | S i' => level i' (flat_map kids ts)
  end.

Fixpoint level_list (fuel : nat) (ts : list tree) : list (list tree) :=
  match fuel with
  | O => []
  | S n => match ts with [] => [] | _ => ts :: level_list n (flat_map kids ts) end
  end.

(** all non-empty levels of a forest *)
Definition levels (ts : list tree) : list (list tree) := level_list (fsize ts) ts.

Fixpoint firstnZ {A} (d : Z) (l : list A) : list A :=
  match l with
  | [] => []
  | x :: r => if d <=? 0 then [] else x :: firstnZ (d - 1) r
  end.

(** the nodes of the first [d] levels, in level order *)
Definition within (d : Z) (ts : list tree) : list tree := List.concat (firstnZ d (levels ts)).

(** brute force: every node of a tree (pre-order) *)
Fixpoint all_nodes (t : tree) : list tree :=
  match t with Node l ks => Node l ks :: flat_map all_nodes ks end.

Definition descendants (t : tree) : list tree := flat_map all_nodes (kids t).

(** brute force with a depth budget: the nodes of [t] at depth < d (t itself is depth 0) *)
Fixpoint dfs_within (d : Z) (t : tree) : list tree :=
  match t with Node l ks => if d <=? 0 then [] else Node l ks :: flat_map (dfs_within (d - 1)) ks end.

(** forest height: number of non-empty levels *)
Fixpoint theight (t : tree) : nat := match t with Node _ ks => S (fold_right (fun k acc => Nat.max (theight k) acc) 0%nat ks) end.
Definition fheight (ts : list tree) : nat := fold_right (fun k acc => Nat.max (theight k) acc) 0%nat ts.

(** ** extracted oracles, one per entry point (depth origins as the code has them) *)
Definition spec_section_find (f : tree -> bool) (d : Z) (t : tree) : list tree := filter f (within d (kids t)).
Definition spec_source_find (f : tree -> bool) (d : Z) (t : tree) : list tree := filter f (within (d + 1) [t]).
(** file / block level: the brute-force set (order not promised by the property) *)
Definition spec_file_find (f : tree -> bool) (d : Z) (roots : list tree) : list tree := filter f (flat_map (dfs_within d) roots).
Definition spec_block_find (f : tree -> bool) (d : Z) (roots : list tree) : list tree := filter f (flat_map (dfs_within (d + 1)) roots).
(** unlimited depth: every descendant *)
Definition spec_section_all (f : tree -> bool) (t : tree) : list tree := filter f (descendants t).
Definition spec_source_all (f : tree -> bool) (t : tree) : list tree := filter f (all_nodes t).

(** findRelated by phases *)
Fixpoint first_level (f : tree -> bool) (k : nat) (ts : list tree) : list tree :=
  match k with
  | O => []
  | S k' => match filter f ts with [] => first_level f k' (flat_map kids ts) | r => r end
  end.
Definition related_down (f : tree -> bool) (t : tree) : list tree := first_level f (fsize (kids t)) (kids t).
Fixpoint related_up (f : tree -> bool) (ancestors : list tree) : option tree :=
  match ancestors with [] => None | p :: up => if f p then Some p else related_up f up end.
Fixpoint related_side (f : tree -> bool) (caller : string) (ancestors : list tree) : list tree :=
  match ancestors with
  | [] => []
  | p :: up => match filter f (kids p) with
               | [] => related_side f caller up
               | r => filter (fun s => negb (String.eqb (tid s) caller)) r
               end
  end.
Definition related_spec (f : tree -> bool) (ancestors : list tree) (t : tree) : list tree :=
  match related_down f t with
  | [] => match related_up f ancestors with
          | Some p => [p]
          | None => related_side f (tid t) ancestors
          end
  | r => r
  end.

(** back references, pointwise on the stored link *)
Definition opt_is (o : option string) (id : string) : bool := match o with Some x => String.eqb x id | None => false end.
Definition spec_ref_ents (sel : block -> list ent) (f : file) (sec_id : string) : list ent :=
  flat_map (fun b => filter (fun e => opt_is (e_meta e) sec_id) (sel b)) (f_blocks f).
Definition spec_ref_blocks (f : file) (sec_id : string) : list block := filter (fun b => opt_is (b_meta b) sec_id) (f_blocks f).
Definition spec_ref_sources (f : file) (sec_id : string) : list tree :=
  flat_map (fun b => filter (fun s => opt_is (n_meta (label s)) sec_id) (flat_map all_nodes (b_sources b))) (f_blocks f).
Definition spec_src_ents (sel : block -> list ent) (b : block) (src_id : string) : list ent :=
  filter (fun e => existsb (String.eqb src_id) (e_srcs e)) (sel b).

(** the parent of the node with id [id]: brute-force scan of every node's children *)
Definition has_kid (id : string) (p : tree) : bool := existsb (fun c => String.eqb (tid c) id) (kids p).
Definition spec_parent (roots : list tree) (id : string) : option tree :=
  hd_error (filter (has_kid id) (flat_map all_nodes roots)).

(** inherited properties: own ++ the linked section's properties whose name no own property has *)
Definition find_section (roots : list tree) (id : string) : option tree :=
  hd_error (filter (fun s => String.eqb (tid s) id) (flat_map all_nodes roots)).
Definition spec_inherited (roots : list tree) (self : tree) : list (string * string) :=
  let own := n_props (label self) in
  match n_link (label self) with
  | None => own
  | Some target =>
    match find_section roots target with
    | None => own
    | Some lk => own ++ filter (fun lp => negb (existsb (fun op => String.eqb (snd lp) (snd op)) own)) (n_props (label lk))
    end
  end.

(** ** specifications of the further routes *)
(** pointwise readings of the link-based filters *)
Definition spec_meta_filter (sec_id : string) (s : tree) : bool := opt_is (n_meta (label s)) sec_id.
Definition spec_ref_ents_block (sel : block -> list ent) (sec_id : string) (b : option block) : list ent :=
  match b with Some b => filter (fun e => opt_is (e_meta e) sec_id) (sel b) | None => [] end.
Definition spec_ref_sources_block (sec_id : string) (b : option block) : list tree :=
  match b with Some b => filter (spec_meta_filter sec_id) (flat_map all_nodes (b_sources b)) | None => [] end.
