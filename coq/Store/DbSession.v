(** * Store/DbSession.v — sessions on a file (C02) and what a handle to a deleted entity reports (C04)

    Definitions only; the proofs are in DbDelete.v (C04) and DbReopen.v (C02).

    ** Sessions.  The file is the [db] of Db.v.  A session adds NOTHING the API can read back: it is the open mode
    and the set of objects that are deleted but still open ("ghosts", only needed to say what today's
    [isValidEntity()] answers).  nix keeps no write-back state: every setter writes through HDF5 at once, every
    getter reads the file.  [close] drops the session, [open m] starts a fresh one on the same file — in the same
    or in another process: a process owns nothing but its session.  [flush] is the identity on this level (that
    the bytes reach the disk is C11).

    ** Handles to deleted entities.  A handle is an open HDF5 object.  [isValidEntity()] of the pinned code is
    "link count > 0".  H5Group::removeAllLinks removes the links that can be reached from the root at the
    moment it runs; links held by objects that are no longer reachable themselves are not found:
    - the deleted object's own links (the alias range dimension  array/dimensions/1/<id> -> array,
      Section::link to itself),
    - links of holders that were deleted EARLIER and are still open (an application handle, or the handle
      the deleted object keeps to its block),
    - the container link of entities that were never unlinked themselves because their parent went
      (the arrays of a deleted block, the features of a deleted tag, the properties of a deleted section).
    Closing the file frees the deleted objects whose link count is zero, and what they alone held ([close_ghosts]);
    objects on a cycle (the alias self link!) are never freed: they stay in the file, unreachable, and what THEY link
    to keeps a positive link count even after a reopen.
    [new_ghosts] computes, for one delete call, the links every removed entity still holds afterwards, following
    the order in which the backend unlinks (sources and sections: children first, depth first; everything
    else: the root only).  The repaired library answers "reachable from the root" ([b_valid_reachable]). *)
From Coq Require Import List ZArith Bool String Ascii Arith Lia.
Require Import NixV.Base.Prelude NixV.Store.Db NixV.Store.DbOps NixV.Store.DbObserve.
Import ListNotations.

(** ** ghosts *)
Record ghost := mkGhost { gh_oid : nat; gh_parent : option nat; gh_links : links; gh_unlinked : bool }.

Definition keep_o (keep : nat -> bool) (o : option nat) : option nat :=
  match o with Some t => if keep t then o else None | None => None end.
Definition keep_d (keep : nat -> bool) (d : dimd) : dimd := match d with DimFrame f => DimFrame (keep_o keep f) | x => x end.
Definition prune_links (keep : nat -> bool) (l : links) : links :=
  mkLinks (keep_o keep (l_meta l)) (keep_o keep (l_link l)) (keep_o keep (l_pos l)) (keep_o keep (l_ext l))
          (keep_o keep (l_data l)) (filter keep (l_refs l)) (filter keep (l_srcs l)) (filter keep (l_garr l))
          (filter keep (l_gfrm l)) (filter keep (l_gtag l)) (filter keep (l_gmtg l)) (map (keep_d keep) (l_dims l)).

(** does [l] hold a link to [o]? (the alias self link is [has_alias] on the object's own links) *)
Definition links_to (o : nat) (l : links) : bool :=
  existsb (fun sl => in_opt (get_o sl l) [o]) all_oslots || existsb (fun sl => memn o (get_l sl l)) all_lslots ||
  memn o (dim_frames l).

Fixpoint first_idx (P : nat -> bool) (l : list nat) : nat :=
  match l with [] => 0 | x :: r => if P x then 0 else S (first_idx P r) end.

(** the objects removeAllLinks is called on, in call order *)
Fixpoint unlink_order (fuel : nat) (s : db) (x : nat) : list nat :=
  match fuel with
  | O => [x]
  | S f =>
    match find_ent s x with
    | Some e =>
      match e_kind e with
      | KSection => flat_map (unlink_order f s) (map e_oid (children s (Some x) KSection)) ++ [x]
      | KSource => flat_map (unlink_order f s) (map e_oid (children s (Some x) KSource)) ++ [x]
      | _ => [x]
      end
    | None => [x]
    end
  end.

Definition new_ghosts (s : db) (r : nat) : list ghost :=
  let dead := subtree s r in
  let order := unlink_order (List.length (ents s)) s r in
  (* the call after which [y] can no longer be reached from the root *)
  let time := fun y => first_idx (fun n => memn y (subtree s n)) order in
  map (fun e => let y := e_oid e in
                mkGhost y (e_parent e) (prune_links (fun x => if memn x order then Nat.leb (time y) (time x) else true) (e_links e))
                        (memn y order))
      (filter (fun e => memn (e_oid e) dead) (ents s)).

Definition ghost_holds (o : nat) (g : ghost) : bool :=
  links_to o (gh_links g) || (Nat.eqb (gh_oid g) o && has_alias (gh_links g)).
Definition orphan (o : nat) (g : ghost) : bool := Nat.eqb (gh_oid g) o && negb (gh_unlinked g).

(** What is left of the deleted objects when the file is closed: HDF5 frees an object when its link count is zero and
    it is no longer open, and with it the links it holds — reference counting, so whatever sits on a cycle stays in the
    file for ever, unreachable: an array with an alias range dimension (its own link), a section linked to itself, and
    everything such an object links to or contains.  Their links keep counting after a reopen. *)
Definition supported (gs : list ghost) (g : ghost) : bool :=
  existsb (ghost_holds (gh_oid g)) gs ||
  (negb (gh_unlinked g) && existsb (fun h => opt_nat_eqb (gh_parent g) (Some (gh_oid h))) gs).
Fixpoint gc (fuel : nat) (gs : list ghost) : list ghost :=
  match fuel with
  | O => gs
  | S f => let gs' := filter (supported gs) gs in
           if Nat.eqb (List.length gs') (List.length gs) then gs else gc f gs'
  end.
Definition close_ghosts (gs : list ghost) : list ghost := gc (List.length gs) gs.

(** isValidEntity() of a handle *)
Definition handle_valid (B : behaviour) (d : db) (ghosts : list ghost) (a : harg) : bool :=
  match a with
  | HNone => false
  | HEnt o => alive d o || (negb (b_valid_reachable B) && existsb (fun g => ghost_holds o g || orphan o g) ghosts)
  end.

(** the root of the subtree a delete call removed: the oldest entity that is gone *)
Definition removed_root (s s' : db) : option nat :=
  option_map e_oid (find (fun e => negb (alive s' (e_oid e))) (ents s)).

(** ** sessions *)
Inductive fmode := MRO | MRW.
Record sess := mkSess { s_db : db; s_mode : option fmode; s_ghosts : list ghost }.

Inductive sop :=
| SOp (o : op)
| SClose
| SOpen (m : fmode)          (* File::open of the same file: in this process or in another one *)
| SFlush.

Definition mutates (o : op) : bool :=
  match o with
  | OHas _ _ _ | OHasH _ _ _ | OGet _ _ _ | OGetIdx _ _ _ | OCount _ _ | OList _ _
  | OLHas _ _ _ | OLHasS _ _ _ | OLGet _ _ _ | OLGetIdx _ _ _ | OLCount _ _ | OLList _ _ | OReopen => false
  | _ => true
  end.

Definition is_delete (o : op) : bool := match o with ODelete _ _ _ | ODeleteH _ _ _ => true | _ => false end.

Definition init_sess : sess := mkSess empty_db (Some MRW) [].

Section Sess.
Variable ids : nat -> string.
Variable sanitize : string -> string.
Variable unit_ok : string -> bool.
Variable B : behaviour.

Definition ghosts_after (st : sess) (o : op) (d' : db) : list ghost :=
  if is_delete o then
    match removed_root (s_db st) d' with
    | Some x => s_ghosts st ++ new_ghosts (s_db st) x
    | None => s_ghosts st
    end
  else s_ghosts st.

Definition sstep (st : sess) (x : sop) : sess * res value :=
  match x with
  | SClose => (mkSess (s_db st) None (close_ghosts (s_ghosts st)), Ok VUnit)      (* closing a closed file is a no-op *)
  | SOpen m =>
    match s_mode st with
    | None => (mkSess (s_db st) (Some m) (s_ghosts st), Ok VUnit)
    | Some _ => (st, Err EModel)                                     (* the drivers close first *)
    end
  | SFlush => (st, Ok (VBool (match s_mode st with Some _ => true | None => false end)))
  | SOp o =>
    match s_mode st with
    | None => (st, Err EUninit)
    | Some MRO =>
      (* HDF5 refuses every write of a read-only file (C09); a query reads the file *)
      if mutates o then (st, Err EH5) else (st, snd (step ids sanitize unit_ok B (s_db st) o))
    | Some MRW =>
      let out := step ids sanitize unit_ok B (s_db st) o in
      (mkSess (fst out) (Some MRW) (ghosts_after st o (fst out)), snd out)
    end
  end.

Definition srun (st : sess) (l : list sop) : sess := fold_left (fun s x => fst (sstep s x)) l st.

(** the answers of a history *)
Fixpoint strace (st : sess) (l : list sop) : list (res value) :=
  match l with
  | [] => []
  | x :: r => snd (sstep st x) :: strace (fst (sstep st x)) r
  end.

(** the observation of a session reads the file and nothing else *)
Definition sobserve (st : sess) : list field * list line := observe (s_db st).

(** isValidEntity() of a handle held by the session *)
Definition svalid (st : sess) (a : harg) : bool := handle_valid B (s_db st) (s_ghosts st) a.

End Sess.

(** no [SClose] / [SOpen] inside *)
Definition plain (x : sop) : bool := match x with SOp _ | SFlush => true | _ => false end.
