(* ========================================================================= *)
(*  NixV.Store.H5Links                                                        *)
(*                                                                            *)
(*  An abstract model of the hard-link graph of an HDF5 file and of the nix   *)
(*  HDF5-backend function  H5Group::removeAllLinks(name):                     *)
(*                                                                            *)
(*      H5Group group = openGroup(name);        // the object  o              *)
(*      std::string gname = group.name();       // H5Iget_name                *)
(*      while (!gname.empty()) {                                              *)
(*          deleteLink(gname);                                                *)
(*          gname = group.name();                                             *)
(*      }                                                                     *)
(*                                                                            *)
(*  H5Iget_name returns SOME path from the root group to o, and "" when o is  *)
(*  not reachable from the root.  When the remembered path is gone it         *)
(*  searches the file from the root and reports the path at the FIRST         *)
(*  arrival at o.  Hence the link named by that path is a hard link           *)
(*  (p -> o) whose source p is reachable from the root by a path that does    *)
(*  not pass through o.                                                       *)
(*                                                                            *)
(*  MODEL                                                                     *)
(*   - objects are natural numbers, [root] is a parameter;                    *)
(*   - a hard link is a record (src, label, dst); [label] distinguishes       *)
(*     parallel links; a graph is a list of links;                            *)
(*   - [reachable g q]      : q is reachable from the root;                   *)
(*   - [reach_avoid g o q]  : q is reachable from the root by a path none of  *)
(*     whose objects (root, intermediate, q itself) is o;                     *)
(*   - [pickable g o l]     : l is a link of g into o whose source is         *)
(*     reach_avoid: exactly the links H5Iget_name can name;                   *)
(*   - [indeg g o]          : number of links of g into o.  This is the HDF5  *)
(*     link count of o.  nix's  isValidEntity()  is  (link count > 0);        *)
(*   - the loop, relationally: [rm_run o g g'] (keep deleting a pickable      *)
(*     link, in any order, until none is pickable), its prefix-closed         *)
(*     variant [rm_steps], and executably with fuel and a generic search      *)
(*     function [pick] that is only assumed sound and complete for            *)
(*     [pickable]: [rm_loop pick fuel g o].  A concrete verified search       *)
(*     [pick_search] is supplied too, giving the closed function              *)
(*     [removeAllLinks root g o].                                             *)
(*                                                                            *)
(*  WHAT THE THEOREMS SAY ABOUT nix                                           *)
(*   - reachable_iff_pickable: group.name() is non-empty exactly when a       *)
(*     pickable link exists (cut a root path at its first arrival at o).      *)
(*   - removeAllLinks_terminates: the loop ends; (link count of o) many       *)
(*     iterations suffice, because every iteration deletes one link into o.   *)
(*   - removeAllLinks_only_links_to_o: frame.  Only links INTO o are ever     *)
(*     deleted; every other link of the file is kept.                         *)
(*   - removeAllLinks_complete / _no_reachable_link: afterwards o is not      *)
(*     reachable from the root and no remaining holder of o is reachable.     *)
(*   - removeAllLinks_other_reachability_preserved: every object that was     *)
(*     reachable without going through o is still reachable (nothing else     *)
(*     is orphaned).  removeAllLinks_reachable_after_iff sharpens this: the   *)
(*     objects reachable afterwards are EXACTLY those.                        *)
(*   - removeAllLinks_exact: the loop removes exactly the links (p -> o)      *)
(*     with p reachable avoiding o; the result does not depend on the order   *)
(*     in which H5Iget_name happens to find them.                             *)
(*   - removeAllLinks_rc_zero: IF every holder of o is reachable avoiding o   *)
(*     (no holder sits below o itself, no holder is an already unlinked       *)
(*     object) THEN the link count of o drops to 0 and the entity becomes     *)
(*     invalid, as the callers of removeAllLinks expect.                      *)
(*   - removeAllLinks_rc_zero_refuted: without that premise the claim is      *)
(*     false.  The alias range dimension of nix gives                         *)
(*     array -> "dimensions" -> "1" -> array; the self link survives the      *)
(*     loop, the link count stays 1, so isValidEntity() stays true although   *)
(*     the array is no longer reachable from the root.                        *)
(*   - removeAllLinks_unreachable_holder_refuted: same when the holder is an  *)
(*     object that was itself unlinked earlier but is kept alive by an open   *)
(*     handle (e.g. a deleted tag still held by the application).             *)
(*  What survives the loop are precisely links held by objects that are       *)
(*  themselves unreachable without o: objects below o (a cycle through o)     *)
(*  or unlinked holders kept open by handles.                                 *)
(* ========================================================================= *)

From Coq Require Import List Arith Bool Lia PeanoNat.
Import ListNotations.

(* ------------------------------------------------------------------------- *)
(*  Links and graphs                                                          *)
(* ------------------------------------------------------------------------- *)

Record link : Set := mkLink { src : nat; label : nat; dst : nat }.

Definition graph : Set := list link.

Definition link_eq_dec : forall a b : link, {a = b} + {a <> b}.
Proof. decide equality; apply Nat.eq_dec. Defined.

(* H5Ldelete: remove ONE occurrence of the link. *)
Fixpoint remove_link (l : link) (g : graph) : graph :=
  match g with
  | [] => []
  | x :: r => if link_eq_dec l x then r else x :: remove_link l r
  end.

Definition into (o : nat) (l : link) : bool := dst l =? o.

(* HDF5 link count of o. *)
Definition indeg (g : graph) (o : nat) : nat := length (filter (into o) g).

Lemma into_true : forall o l, dst l = o -> into o l = true.
Proof. intros o l H. unfold into. apply Nat.eqb_eq. exact H. Qed.

Lemma into_true_inv : forall o l, into o l = true -> dst l = o.
Proof. intros o l H. unfold into in H. apply Nat.eqb_eq. exact H. Qed.

Lemma remove_link_incl : forall l g x, In x (remove_link l g) -> In x g.
Proof.
  intros l g x. induction g as [|y r IH]; cbn [remove_link]; intros Hin.
  - exact Hin.
  - destruct (link_eq_dec l y) as [Heq|Hne].
    + right; exact Hin.
    + destruct Hin as [Hxy|Hin].
      * left; exact Hxy.
      * right; apply IH; exact Hin.
Qed.

Lemma remove_link_keep : forall l g x, In x g -> x <> l -> In x (remove_link l g).
Proof.
  intros l g x. induction g as [|y r IH]; cbn [remove_link]; intros Hin Hne.
  - exact Hin.
  - destruct (link_eq_dec l y) as [Heq|Hny].
    + destruct Hin as [Hxy|Hin].
      * exfalso. apply Hne. congruence.
      * exact Hin.
    + destruct Hin as [Hxy|Hin].
      * left; exact Hxy.
      * right; apply IH; assumption.
Qed.

Lemma indeg_remove_link : forall l g o,
  In l g -> dst l = o -> S (indeg (remove_link l g) o) = indeg g o.
Proof.
  intros l g o. unfold indeg. induction g as [|y r IH]; intros Hin Hd.
  - destruct Hin.
  - cbn [remove_link]. destruct (link_eq_dec l y) as [Heq|Hne].
    + subst y. cbn [filter]. rewrite (into_true o l Hd). reflexivity.
    + destruct Hin as [Hyl|Hin]; [congruence|].
      specialize (IH Hin Hd). cbn [filter].
      destruct (into o y) eqn:Hy; cbn [length]; lia.
Qed.

Lemma indeg_zero : forall g o, (forall l, In l g -> dst l <> o) -> indeg g o = 0.
Proof.
  intros g o. unfold indeg. induction g as [|y r IH]; intros H.
  - reflexivity.
  - cbn [filter]. destruct (into o y) eqn:Hy.
    + exfalso. apply (H y); [left; reflexivity | apply into_true_inv; exact Hy].
    + apply IH. intros l Hl. apply H. right; exact Hl.
Qed.

Lemma indeg_pos : forall g o l, In l g -> dst l = o -> 0 < indeg g o.
Proof.
  intros g o l Hin Hd. rewrite <- (indeg_remove_link l g o Hin Hd). lia.
Qed.

Lemma count_occ_remove_link_le : forall l g x,
  count_occ link_eq_dec (remove_link l g) x <= count_occ link_eq_dec g x.
Proof.
  intros l g x. induction g as [|y r IH]; cbn [remove_link count_occ].
  - lia.
  - destruct (link_eq_dec l y) as [Heq|Hne].
    + destruct (link_eq_dec y x) as [Hyx|Hyx]; lia.
    + cbn [count_occ]. destruct (link_eq_dec y x) as [Hyx|Hyx]; lia.
Qed.

Lemma count_occ_remove_link_neq : forall l g x, x <> l ->
  count_occ link_eq_dec (remove_link l g) x = count_occ link_eq_dec g x.
Proof.
  intros l g x Hne. induction g as [|y r IH]; cbn [remove_link count_occ].
  - reflexivity.
  - destruct (link_eq_dec l y) as [Heq|Hny].
    + destruct (link_eq_dec y x) as [Hyx|Hyx]; [exfalso; apply Hne; congruence | reflexivity].
    + cbn [count_occ]. destruct (link_eq_dec y x) as [Hyx|Hyx]; lia.
Qed.

Lemma filter_length_le : forall (f : link -> bool) g, length (filter f g) <= length g.
Proof.
  intros f g. induction g as [|y r IH]; cbn [filter length].
  - lia.
  - destruct (f y) eqn:Hy; cbn [length]; lia.
Qed.

Lemma filter_length_lt : forall (f : link -> bool) g l,
  In l g -> f l = false -> length (filter f g) < length g.
Proof.
  intros f g l. induction g as [|y r IH]; intros Hin Hf.
  - destruct Hin.
  - cbn [filter length]. destruct Hin as [Hyl|Hin].
    + subst y. rewrite Hf. pose proof (filter_length_le f r) as Hle. lia.
    + specialize (IH Hin Hf). destruct (f y) eqn:Hy; cbn [length]; lia.
Qed.

(* ========================================================================= *)
Section Model.

Variable root : nat.

(* ------------------------------------------------------------------------- *)
(*  Reachability                                                              *)
(* ------------------------------------------------------------------------- *)

Inductive reachable (g : graph) : nat -> Prop :=
| R_root : reachable g root
| R_step : forall p q l,
    reachable g p -> In l g -> src l = p -> dst l = q -> reachable g q.

Inductive reach_avoid (g : graph) (o : nat) : nat -> Prop :=
| RA_root : root <> o -> reach_avoid g o root
| RA_step : forall p q l,
    reach_avoid g o p -> In l g -> src l = p -> dst l = q -> q <> o ->
    reach_avoid g o q.

(* The links H5Iget_name can name. *)
Definition pickable (g : graph) (o : nat) (l : link) : Prop :=
  In l g /\ dst l = o /\ reach_avoid g o (src l).

Lemma reach_avoid_neq : forall g o q, reach_avoid g o q -> q <> o.
Proof.
  intros g o q H. destruct H as [Hr | p q' l Hp Hin Hs Hd Hq].
  - exact Hr.
  - exact Hq.
Qed.

Lemma reach_avoid_inv : forall g o q, reach_avoid g o q ->
  (q = root /\ root <> o) \/
  (exists l, In l g /\ dst l = q /\ q <> o /\ reach_avoid g o (src l)).
Proof.
  intros g o q H. destruct H as [Hr | p q' l Hp Hin Hs Hd Hq].
  - left. split; [reflexivity | exact Hr].
  - right. exists l. split; [exact Hin|]. split; [exact Hd|]. split; [exact Hq|].
    rewrite Hs. exact Hp.
Qed.

Lemma reach_avoid_reachable : forall g o q, reach_avoid g o q -> reachable g q.
Proof.
  intros g o q H. induction H as [Hr | p q' l Hp IH Hin Hs Hd Hq].
  - apply R_root.
  - apply R_step with (p := p) (l := l); assumption.
Qed.

Lemma reach_avoid_incl : forall g g' o q,
  (forall l, In l g -> In l g') -> reach_avoid g o q -> reach_avoid g' o q.
Proof.
  intros g g' o q Hsub H. induction H as [Hr | p q' l Hp IH Hin Hs Hd Hq].
  - apply RA_root; exact Hr.
  - apply RA_step with (p := p) (l := l); [exact IH | apply Hsub; exact Hin | exact Hs | exact Hd | exact Hq].
Qed.

Lemma reachable_incl : forall g g' q,
  (forall l, In l g -> In l g') -> reachable g q -> reachable g' q.
Proof.
  intros g g' q Hsub H. induction H as [| p q' l Hp IH Hin Hs Hd].
  - apply R_root.
  - apply R_step with (p := p) (l := l); [exact IH | apply Hsub; exact Hin | exact Hs | exact Hd].
Qed.

(* Cut a root path at its first arrival at o. *)
Lemma first_arrival : forall g o q, o <> root -> reachable g q ->
  reach_avoid g o q \/ exists l, pickable g o l.
Proof.
  intros g o q Hor H. induction H as [| p q' l Hp IH Hin Hs Hd].
  - left. apply RA_root. intros E. apply Hor. symmetry. exact E.
  - destruct IH as [Hra|Hex]; [|right; exact Hex].
    destruct (Nat.eq_dec q' o) as [Hqo|Hqo].
    + right. exists l. unfold pickable. split; [exact Hin|]. split; [congruence|].
      rewrite Hs. exact Hra.
    + left. apply RA_step with (p := p) (l := l); assumption.
Qed.

Lemma pickable_reachable : forall g o l, pickable g o l -> reachable g o.
Proof.
  intros g o l [Hin [Hd Hra]].
  apply R_step with (p := src l) (l := l);
    [apply reach_avoid_reachable with (o := o); exact Hra | exact Hin | reflexivity | exact Hd].
Qed.

(* group.name() is non-empty iff there is a link H5Iget_name can name. *)
Theorem reachable_iff_pickable : forall g o, o <> root ->
  (reachable g o <-> exists l, pickable g o l).
Proof.
  intros g o Hor. split.
  - intros Hr. destruct (first_arrival g o o Hor Hr) as [Hra|Hex].
    + exfalso. apply (reach_avoid_neq g o o Hra). reflexivity.
    + exact Hex.
  - intros [l Hp]. apply pickable_reachable with (l := l). exact Hp.
Qed.

(* Paths avoiding o never use a link into o. *)
Lemma reach_avoid_remove_link_to_o : forall g o l q, dst l = o ->
  (reach_avoid (remove_link l g) o q <-> reach_avoid g o q).
Proof.
  intros g o l q Hd. split; intros H.
  - apply reach_avoid_incl with (g := remove_link l g);
      [exact (remove_link_incl l g) | exact H].
  - induction H as [Hr | p q' l0 Hp IH Hin Hs Hd0 Hq].
    + apply RA_root; exact Hr.
    + apply RA_step with (p := p) (l := l0);
        [exact IH | | exact Hs | exact Hd0 | exact Hq].
      apply remove_link_keep; [exact Hin|].
      intros E. apply Hq. rewrite <- Hd0, E. exact Hd.
Qed.

(* ------------------------------------------------------------------------- *)
(*  The loop, relationally                                                    *)
(* ------------------------------------------------------------------------- *)

(* Any number of iterations (the loop possibly interrupted). *)
Inductive rm_steps (o : nat) : graph -> graph -> Prop :=
| rs_refl : forall g, rm_steps o g g
| rs_step : forall g l g',
    pickable g o l -> rm_steps o (remove_link l g) g' -> rm_steps o g g'.

(* Complete runs: iterate until group.name() is empty. *)
Inductive rm_run (o : nat) : graph -> graph -> Prop :=
| rm_done : forall g, (forall l, ~ pickable g o l) -> rm_run o g g
| rm_more : forall g l g',
    pickable g o l -> rm_run o (remove_link l g) g' -> rm_run o g g'.

Lemma rm_run_inv : forall o g g', rm_run o g g' ->
  (g' = g /\ forall l, ~ pickable g o l) \/
  (exists l, pickable g o l /\ rm_run o (remove_link l g) g').
Proof.
  intros o g g' H. destruct H as [g Hn | g l g' Hp Hr].
  - left. split; [reflexivity | exact Hn].
  - right. exists l. split; [exact Hp | exact Hr].
Qed.

Lemma rm_run_steps : forall o g g', rm_run o g g' -> rm_steps o g g'.
Proof.
  intros o g g' H. induction H as [g Hn | g l g' Hp Hr IH].
  - apply rs_refl.
  - apply rs_step with (l := l); [exact Hp | exact IH].
Qed.

Lemma rm_run_final : forall o g g', rm_run o g g' -> forall l, ~ pickable g' o l.
Proof.
  intros o g g' H. induction H as [g Hn | g l g' Hp Hr IH].
  - exact Hn.
  - exact IH.
Qed.

Lemma rm_steps_final_run : forall o g g',
  rm_steps o g g' -> (forall l, ~ pickable g' o l) -> rm_run o g g'.
Proof.
  intros o g g' H. induction H as [g | g l g' Hp Hr IH]; intros Hn.
  - apply rm_done. exact Hn.
  - apply rm_more with (l := l); [exact Hp | apply IH; exact Hn].
Qed.

Lemma rm_steps_incl : forall o g g', rm_steps o g g' -> forall x, In x g' -> In x g.
Proof.
  intros o g g' H. induction H as [g | g l g' Hp Hr IH]; intros x Hx.
  - exact Hx.
  - apply remove_link_incl with (l := l). apply IH. exact Hx.
Qed.

Lemma rm_steps_reach_avoid : forall o g g', rm_steps o g g' ->
  forall q, reach_avoid g' o q <-> reach_avoid g o q.
Proof.
  intros o g g' H. induction H as [g | g l g' Hp Hr IH]; intros q.
  - split; intros Hq; exact Hq.
  - destruct Hp as [Hin [Hd Hra]].
    pose proof (reach_avoid_remove_link_to_o g o l q Hd) as Hrm.
    specialize (IH q). split; intros Hq.
    + apply Hrm. apply IH. exact Hq.
    + apply IH. apply Hrm. exact Hq.
Qed.

Lemma rm_steps_keep : forall o g g', rm_steps o g g' ->
  forall x, In x g -> ~ (dst x = o /\ reach_avoid g o (src x)) -> In x g'.
Proof.
  intros o g g' H. induction H as [g | g l g' Hp Hr IH]; intros x Hx Hnp.
  - exact Hx.
  - destruct Hp as [Hin [Hd Hra]]. apply IH.
    + apply remove_link_keep; [exact Hx|]. intros E. apply Hnp. subst x.
      split; [exact Hd | exact Hra].
    + intros [Hdx Hrx]. apply Hnp. split; [exact Hdx|].
      apply (reach_avoid_remove_link_to_o g o l (src x) Hd). exact Hrx.
Qed.

Lemma rm_steps_indeg : forall o g g', rm_steps o g g' -> indeg g' o <= indeg g o.
Proof.
  intros o g g' H. induction H as [g | g l g' Hp Hr IH].
  - lia.
  - destruct Hp as [Hin [Hd Hra]].
    pose proof (indeg_remove_link l g o Hin Hd) as Hrm. lia.
Qed.

Lemma rm_steps_count_occ : forall o g g', rm_steps o g g' -> forall x,
  count_occ link_eq_dec g' x <= count_occ link_eq_dec g x /\
  (dst x <> o -> count_occ link_eq_dec g' x = count_occ link_eq_dec g x).
Proof.
  intros o g g' H. induction H as [g | g l g' Hp Hr IH]; intros x.
  - split; [lia | reflexivity].
  - destruct Hp as [Hin [Hd Hra]]. destruct (IH x) as [Hle Heq].
    pose proof (count_occ_remove_link_le l g x) as Hle'.
    split; [lia|]. intros Hx. rewrite (Heq Hx).
    apply count_occ_remove_link_neq. intros E. apply Hx. subst x. exact Hd.
Qed.

(* ------------------------------------------------------------------------- *)
(*  Theorems about complete runs                                              *)
(* ------------------------------------------------------------------------- *)

(* Frame: only links into o are deleted. *)
Theorem removeAllLinks_only_links_to_o : forall o g g', rm_run o g g' ->
  (forall l, In l g' -> In l g) /\
  (forall l, In l g -> ~ In l g' -> dst l = o) /\
  (forall l, In l g -> dst l <> o -> In l g').
Proof.
  intros o g g' H. apply rm_run_steps in H.
  assert (Hkeep : forall l, In l g -> dst l <> o -> In l g').
  { intros l Hl Hd. apply (rm_steps_keep o g g' H l Hl).
    intros [Hd' _]. apply Hd. exact Hd'. }
  split; [exact (rm_steps_incl o g g' H)|]. split; [|exact Hkeep].
  intros l Hl Hnot. destruct (Nat.eq_dec (dst l) o) as [E|NE]; [exact E|].
  exfalso. apply Hnot. apply Hkeep; assumption.
Qed.

(* The same as multisets: multiplicities never grow and are unchanged for
   every link that does not point to o. *)
Theorem removeAllLinks_only_links_to_o_multiset : forall o g g', rm_run o g g' ->
  forall l,
    count_occ link_eq_dec g' l <= count_occ link_eq_dec g l /\
    (dst l <> o -> count_occ link_eq_dec g' l = count_occ link_eq_dec g l).
Proof.
  intros o g g' H. apply rm_steps_count_occ. apply rm_run_steps. exact H.
Qed.

(* Exactly the links (p -> o) with p reachable avoiding o are removed. *)
Theorem removeAllLinks_exact : forall o g g', rm_run o g g' ->
  forall l, In l g' <-> (In l g /\ ~ (dst l = o /\ reach_avoid g o (src l))).
Proof.
  intros o g g' H l. pose proof (rm_run_steps o g g' H) as Hs. split.
  - intros Hl. split; [apply (rm_steps_incl o g g' Hs); exact Hl|].
    intros [Hd Hra]. apply (rm_run_final o g g' H l).
    split; [exact Hl|]. split; [exact Hd|].
    apply (rm_steps_reach_avoid o g g' Hs). exact Hra.
  - intros [Hl Hn]. apply (rm_steps_keep o g g' Hs); assumption.
Qed.

Theorem removeAllLinks_survivors : forall o g g' l, rm_run o g g' ->
  In l g -> ~ reach_avoid g o (src l) -> In l g'.
Proof.
  intros o g g' l H Hl Hn. apply (removeAllLinks_exact o g g' H l).
  split; [exact Hl|]. intros [_ Hra]. apply Hn. exact Hra.
Qed.

(* Afterwards o is not reachable from the root: group.name() is "". *)
Theorem removeAllLinks_complete : forall o g g', o <> root ->
  rm_run o g g' -> ~ reachable g' o.
Proof.
  intros o g g' Hor H Hr.
  apply (reachable_iff_pickable g' o Hor) in Hr. destruct Hr as [l Hp].
  apply (rm_run_final o g g' H l). exact Hp.
Qed.

(* No remaining holder of o is reachable from the root. *)
Theorem removeAllLinks_no_reachable_link : forall o g g', o <> root ->
  rm_run o g g' ->
  forall l, In l g' -> dst l = o ->
    ~ reach_avoid g' o (src l) /\ ~ reachable g' (src l).
Proof.
  intros o g g' Hor H l Hl Hd. split.
  - intros Hra. apply (rm_run_final o g g' H l).
    split; [exact Hl|]. split; [exact Hd | exact Hra].
  - intros Hr. apply (removeAllLinks_complete o g g' Hor H).
    apply R_step with (p := src l) (l := l); [exact Hr | exact Hl | reflexivity | exact Hd].
Qed.

(* Objects whose reachability does not depend on o stay reachable. *)
Theorem removeAllLinks_other_reachability_preserved : forall o g g' q,
  rm_run o g g' -> reach_avoid g o q -> reach_avoid g' o q /\ reachable g' q.
Proof.
  intros o g g' q H Hra.
  assert (Hra' : reach_avoid g' o q).
  { apply (rm_steps_reach_avoid o g g' (rm_run_steps o g g' H)). exact Hra. }
  split; [exact Hra' | apply reach_avoid_reachable with (o := o); exact Hra'].
Qed.

(* ... and those are exactly the objects reachable afterwards. *)
Theorem removeAllLinks_reachable_after_iff : forall o g g' q, o <> root ->
  rm_run o g g' -> (reachable g' q <-> reach_avoid g o q).
Proof.
  intros o g g' q Hor H. split.
  - intros Hr. destruct (first_arrival g' o q Hor Hr) as [Hra|[l Hp]].
    + apply (rm_steps_reach_avoid o g g' (rm_run_steps o g g' H)). exact Hra.
    + exfalso. apply (rm_run_final o g g' H l). exact Hp.
  - intros Hra.
    apply (removeAllLinks_other_reachability_preserved o g g' q H Hra).
Qed.

(* If every holder of o is reachable avoiding o, the link count drops to 0. *)
Theorem removeAllLinks_rc_zero : forall o g g',
  (forall l, In l g -> dst l = o -> reach_avoid g o (src l)) ->
  rm_run o g g' -> indeg g' o = 0.
Proof.
  intros o g g' Hall H. apply indeg_zero. intros l Hl Hd.
  apply (removeAllLinks_exact o g g' H l) in Hl. destruct Hl as [Hlg Hn].
  apply Hn. split; [exact Hd | apply Hall; assumption].
Qed.

(* ------------------------------------------------------------------------- *)
(*  The loop, executably, generic in the search                               *)
(* ------------------------------------------------------------------------- *)

Section Exec.

Variable pick : graph -> nat -> option link.
Hypothesis pick_some : forall g o l, pick g o = Some l -> pickable g o l.
Hypothesis pick_none : forall g o, pick g o = None -> forall l, ~ pickable g o l.

(* The boolean says whether the loop finished before the fuel ran out. *)
Fixpoint rm_loop (fuel : nat) (g : graph) (o : nat) {struct fuel} : graph * bool :=
  match pick g o with
  | None => (g, true)
  | Some l =>
      match fuel with
      | 0 => (g, false)
      | S f => rm_loop f (remove_link l g) o
      end
  end.

Lemma rm_loop_steps : forall fuel g o, rm_steps o g (fst (rm_loop fuel g o)).
Proof.
  induction fuel as [|f IH]; intros g o; cbn [rm_loop];
    destruct (pick g o) as [l|] eqn:Hp; cbn [fst]; try apply rs_refl.
  apply rs_step with (l := l); [apply pick_some; exact Hp | apply IH].
Qed.

Lemma rm_loop_final : forall fuel g o, snd (rm_loop fuel g o) = true ->
  forall l, ~ pickable (fst (rm_loop fuel g o)) o l.
Proof.
  induction fuel as [|f IH]; intros g o; cbn [rm_loop];
    destruct (pick g o) as [l|] eqn:Hp; cbn [fst snd]; intros Hs.
  - discriminate Hs.
  - apply pick_none. exact Hp.
  - apply IH. exact Hs.
  - apply pick_none. exact Hp.
Qed.

Lemma rm_loop_run : forall fuel g o, snd (rm_loop fuel g o) = true ->
  rm_run o g (fst (rm_loop fuel g o)).
Proof.
  intros fuel g o Hs. apply rm_steps_final_run.
  - apply rm_loop_steps.
  - apply rm_loop_final. exact Hs.
Qed.

(* Termination: (link count of o) iterations suffice. *)
Theorem removeAllLinks_terminates : forall fuel g o,
  indeg g o <= fuel -> snd (rm_loop fuel g o) = true.
Proof.
  induction fuel as [|f IH]; intros g o Hle; cbn [rm_loop];
    destruct (pick g o) as [l|] eqn:Hp; cbn [snd]; try reflexivity.
  - exfalso. destruct (pick_some g o l Hp) as [Hin [Hd Hra]].
    pose proof (indeg_pos g o l Hin Hd) as Hpos. lia.
  - apply IH. destruct (pick_some g o l Hp) as [Hin [Hd Hra]].
    pose proof (indeg_remove_link l g o Hin Hd) as Hrm. lia.
Qed.

(* Termination of the relation (relative to the search). *)
Theorem rm_run_exists_pick : forall g o, exists g', rm_run o g g'.
Proof.
  intros g o. exists (fst (rm_loop (indeg g o) g o)).
  apply rm_loop_run. apply removeAllLinks_terminates. lia.
Qed.

(* Frame, for any amount of fuel (even an interrupted loop). *)
Theorem removeAllLinks_only_links_to_o_exec : forall fuel g o,
  let g' := fst (rm_loop fuel g o) in
  (forall l, In l g' -> In l g) /\
  (forall l, In l g -> ~ In l g' -> dst l = o) /\
  (forall l, In l g -> dst l <> o -> In l g').
Proof.
  intros fuel g o g'. pose proof (rm_loop_steps fuel g o) as H. fold g' in H.
  assert (Hkeep : forall l, In l g -> dst l <> o -> In l g').
  { intros l Hl Hd. apply (rm_steps_keep o g g' H l Hl).
    intros [Hd' _]. apply Hd. exact Hd'. }
  split; [exact (rm_steps_incl o g g' H)|]. split; [|exact Hkeep].
  intros l Hl Hnot. destruct (Nat.eq_dec (dst l) o) as [E|NE]; [exact E|].
  exfalso. apply Hnot. apply Hkeep; assumption.
Qed.

Theorem removeAllLinks_complete_exec : forall fuel g o, o <> root ->
  snd (rm_loop fuel g o) = true -> ~ reachable (fst (rm_loop fuel g o)) o.
Proof.
  intros fuel g o Hor Hs.
  apply (removeAllLinks_complete o g _ Hor (rm_loop_run fuel g o Hs)).
Qed.

Theorem removeAllLinks_no_reachable_link_exec : forall fuel g o, o <> root ->
  snd (rm_loop fuel g o) = true ->
  forall l, In l (fst (rm_loop fuel g o)) -> dst l = o ->
    ~ reach_avoid (fst (rm_loop fuel g o)) o (src l) /\
    ~ reachable (fst (rm_loop fuel g o)) (src l).
Proof.
  intros fuel g o Hor Hs.
  apply (removeAllLinks_no_reachable_link o g _ Hor (rm_loop_run fuel g o Hs)).
Qed.

(* Holds for any amount of fuel. *)
Theorem removeAllLinks_other_reachability_preserved_exec : forall fuel g o q,
  reach_avoid g o q ->
  reach_avoid (fst (rm_loop fuel g o)) o q /\ reachable (fst (rm_loop fuel g o)) q.
Proof.
  intros fuel g o q Hra.
  assert (Hra' : reach_avoid (fst (rm_loop fuel g o)) o q).
  { apply (rm_steps_reach_avoid o g _ (rm_loop_steps fuel g o)). exact Hra. }
  split; [exact Hra' | apply reach_avoid_reachable with (o := o); exact Hra'].
Qed.

Theorem removeAllLinks_rc_zero_exec : forall fuel g o,
  (forall l, In l g -> dst l = o -> reach_avoid g o (src l)) ->
  snd (rm_loop fuel g o) = true -> indeg (fst (rm_loop fuel g o)) o = 0.
Proof.
  intros fuel g o Hall Hs.
  apply (removeAllLinks_rc_zero o g _ Hall (rm_loop_run fuel g o Hs)).
Qed.

End Exec.

(* ------------------------------------------------------------------------- *)
(*  A concrete, verified search                                               *)
(* ------------------------------------------------------------------------- *)

Definition drop_into (q : nat) (g : graph) : graph :=
  filter (fun l => negb (dst l =? q)) g.

Lemma drop_into_In : forall q g l, In l (drop_into q g) <-> (In l g /\ dst l <> q).
Proof.
  intros q g l. unfold drop_into. rewrite filter_In. split; intros [Hin Hd]; split; try exact Hin.
  - apply Nat.eqb_neq. apply negb_true_iff. exact Hd.
  - apply negb_true_iff. apply Nat.eqb_neq. exact Hd.
Qed.

(* Decide [reach_avoid g o q]: q is the root, or some link l into q has a
   source that is reach_avoid without using any link into q (a simple path). *)
Fixpoint ra_dec (n : nat) (g : graph) (o q : nat) {struct n} : bool :=
  ((q =? root) && negb (root =? o)) ||
  match n with
  | 0 => false
  | S n' =>
      negb (q =? o) &&
      existsb (fun l => (dst l =? q) && ra_dec n' (drop_into q g) o (src l)) g
  end.

Lemma ra_dec_root_case : forall g o q,
  (q =? root) && negb (root =? o) = true -> reach_avoid g o q.
Proof.
  intros g o q H. apply andb_true_iff in H. destruct H as [Hq Hr].
  apply Nat.eqb_eq in Hq. apply negb_true_iff in Hr. apply Nat.eqb_neq in Hr.
  subst q. apply RA_root. exact Hr.
Qed.

Lemma ra_dec_sound : forall n g o q, ra_dec n g o q = true -> reach_avoid g o q.
Proof.
  induction n as [|n IH]; intros g o q H; cbn [ra_dec] in H;
    apply orb_true_iff in H; destruct H as [H|H].
  - apply ra_dec_root_case; exact H.
  - discriminate H.
  - apply ra_dec_root_case; exact H.
  - apply andb_true_iff in H. destruct H as [Hqo Hex].
    apply negb_true_iff in Hqo. apply Nat.eqb_neq in Hqo.
    apply existsb_exists in Hex. destruct Hex as [l [Hin Hl]].
    apply andb_true_iff in Hl. destruct Hl as [Hd Hrec].
    apply Nat.eqb_eq in Hd. apply IH in Hrec.
    apply RA_step with (p := src l) (l := l);
      [ | exact Hin | reflexivity | exact Hd | exact Hqo].
    apply reach_avoid_incl with (g := drop_into q g); [|exact Hrec].
    intros x Hx. apply (drop_into_In q g x). exact Hx.
Qed.

(* First arrival at q, for paths avoiding o. *)
Lemma ra_cut : forall g o q p, reach_avoid g o p ->
  reach_avoid (drop_into q g) o p \/
  (exists l, In l g /\ dst l = q /\ reach_avoid (drop_into q g) o (src l)).
Proof.
  intros g o q p H. induction H as [Hr | p0 q0 l Hp IH Hin Hs Hd Hq].
  - left. apply RA_root. exact Hr.
  - destruct IH as [Hra|Hex]; [|right; exact Hex].
    destruct (Nat.eq_dec q0 q) as [E|NE].
    + right. exists l. split; [exact Hin|]. split; [congruence|].
      rewrite Hs. exact Hra.
    + left. apply RA_step with (p := p0) (l := l);
        [exact Hra | | exact Hs | exact Hd | exact Hq].
      apply drop_into_In. split; [exact Hin | congruence].
Qed.

Lemma ra_last_link : forall g o q, q <> root -> reach_avoid g o q ->
  exists l, In l g /\ dst l = q /\ reach_avoid (drop_into q g) o (src l).
Proof.
  intros g o q Hqr H. destruct (ra_cut g o q q H) as [Hra|Hex]; [|exact Hex].
  exfalso. destruct (reach_avoid_inv _ _ _ Hra) as [[E _]|[l [Hin [Hd _]]]].
  - apply Hqr. exact E.
  - apply drop_into_In in Hin. destruct Hin as [_ Hne]. apply Hne. exact Hd.
Qed.

Lemma ra_dec_complete : forall n g o q,
  length g <= n -> reach_avoid g o q -> ra_dec n g o q = true.
Proof.
  induction n as [|n IH]; intros g o q Hlen H; cbn [ra_dec]; apply orb_true_iff;
    (destruct (Nat.eq_dec q root) as [E|NE];
     [ left; apply andb_true_iff; split;
       [ apply Nat.eqb_eq; exact E
       | apply negb_true_iff; apply Nat.eqb_neq; intros E';
         apply (reach_avoid_neq g o q H); congruence ]
     | right ]).
  - exfalso. destruct (ra_last_link g o q NE H) as [l [Hin _]].
    destruct g as [|y r]; [destruct Hin | cbn [length] in Hlen; lia].
  - destruct (ra_last_link g o q NE H) as [l [Hin [Hd Hra]]].
    apply andb_true_iff. split.
    + apply negb_true_iff. apply Nat.eqb_neq. apply (reach_avoid_neq g o q H).
    + apply existsb_exists. exists l. split; [exact Hin|].
      apply andb_true_iff. split; [apply Nat.eqb_eq; exact Hd|].
      apply IH; [|exact Hra].
      assert (Hlt : length (drop_into q g) < length g).
      { unfold drop_into. apply filter_length_lt with (l := l); [exact Hin|].
        apply negb_false_iff. apply Nat.eqb_eq. exact Hd. }
      lia.
Qed.

(* Search the links of g for one H5Iget_name could name. *)
Definition pick_search (g : graph) (o : nat) : option link :=
  find (fun l => (dst l =? o) && ra_dec (length g) g o (src l)) g.

Lemma pick_search_some : forall g o l, pick_search g o = Some l -> pickable g o l.
Proof.
  intros g o l H. unfold pick_search in H. apply find_some in H.
  destruct H as [Hin Hl]. apply andb_true_iff in Hl. destruct Hl as [Hd Hra].
  split; [exact Hin|]. split; [apply Nat.eqb_eq; exact Hd|].
  apply ra_dec_sound with (n := length g). exact Hra.
Qed.

Lemma pick_search_none : forall g o, pick_search g o = None ->
  forall l, ~ pickable g o l.
Proof.
  intros g o H l [Hin [Hd Hra]]. unfold pick_search in H.
  pose proof (find_none _ _ H l Hin) as Hf. cbv beta in Hf.
  apply Nat.eqb_eq in Hd. rewrite Hd in Hf.
  rewrite (ra_dec_complete (length g) g o (src l) (le_n _) Hra) in Hf.
  discriminate Hf.
Qed.

(* The closed function: run the loop with (link count) fuel. *)
Definition removeAllLinks (g : graph) (o : nat) : graph :=
  fst (rm_loop pick_search (indeg g o) g o).

Theorem removeAllLinks_run : forall g o, rm_run o g (removeAllLinks g o).
Proof.
  intros g o. unfold removeAllLinks.
  apply (rm_loop_run pick_search pick_search_some pick_search_none).
  apply (removeAllLinks_terminates pick_search pick_search_some). lia.
Qed.

(* Termination of the relation, unconditionally. *)
Theorem rm_run_exists : forall g o, exists g', rm_run o g g'.
Proof.
  intros g o. exists (removeAllLinks g o). apply removeAllLinks_run.
Qed.

End Model.

(* ========================================================================= *)
(*  Counterexamples (root = 0, o = 2)                                         *)
(* ========================================================================= *)

Definition L (s d : nat) : link := mkLink s 0 d.

(* 0 = root, 1 = the "data_arrays" container, 2 = the array,
   3 = its "dimensions" group, 4 = the alias range dimension "1" whose link
   points back to the array itself. *)
Definition alias_graph : graph := [L 0 1; L 1 2; L 2 3; L 3 4; L 4 2].
Definition alias_after : graph := [L 0 1; L 2 3; L 3 4; L 4 2].

Lemma alias_ra : forall g, (forall l, In l g -> In l alias_graph) ->
  forall q, reach_avoid 0 g 2 q -> q = 0 \/ q = 1.
Proof.
  intros g Hsub q H. induction H as [Hr | p q' l Hp IH Hin Hs Hd Hq].
  - left; reflexivity.
  - apply Hsub in Hin. unfold alias_graph, L in Hin. cbn [In] in Hin.
    destruct Hin as [E|[E|[E|[E|[E|[]]]]]]; subst l; cbn [src dst] in Hs, Hd; lia.
Qed.

Lemma alias_after_incl : forall l, In l alias_after -> In l alias_graph.
Proof.
  intros l H. unfold alias_after in H. unfold alias_graph. cbn [In] in *. tauto.
Qed.

Lemma alias_remove : remove_link (L 1 2) alias_graph = alias_after.
Proof. vm_compute. reflexivity. Qed.

Lemma alias_pickable_1 : pickable 0 alias_graph 2 (L 1 2).
Proof.
  split; [unfold alias_graph; cbn [In]; tauto|]. split; [reflexivity|].
  apply RA_step with (p := 0) (l := L 0 1).
  - apply RA_root. discriminate.
  - unfold alias_graph; cbn [In]; tauto.
  - reflexivity.
  - reflexivity.
  - discriminate.
Qed.

Lemma alias_after_none : forall l, ~ pickable 0 alias_after 2 l.
Proof.
  intros l [Hin [Hd Hra]].
  destruct (alias_ra alias_after alias_after_incl _ Hra) as [E|E];
    unfold alias_after, L in Hin; cbn [In] in Hin;
    destruct Hin as [E'|[E'|[E'|[E'|[]]]]]; subst l; cbn [src dst] in *; discriminate.
Qed.

Lemma alias_run_unique : forall g', rm_run 0 2 alias_graph g' -> g' = alias_after.
Proof.
  intros g' H. destruct (rm_run_inv 0 2 _ _ H) as [[_ Hn]|[l [Hp Hr]]].
  - exfalso. apply (Hn (L 1 2)). exact alias_pickable_1.
  - assert (El : l = L 1 2).
    { destruct Hp as [Hin [Hd Hra]].
      destruct (alias_ra alias_graph (fun x Hx => Hx) _ Hra) as [E|E];
        unfold alias_graph, L in Hin; cbn [In] in Hin;
        destruct Hin as [E'|[E'|[E'|[E'|[E'|[]]]]]]; subst l; cbn [src dst] in *;
        try discriminate; reflexivity. }
    subst l. rewrite alias_remove in Hr.
    destruct (rm_run_inv 0 2 _ _ Hr) as [[Eg _]|[l [Hp' _]]].
    + exact Eg.
    + exfalso. apply (alias_after_none l). exact Hp'.
Qed.

Lemma alias_run : rm_run 0 2 alias_graph alias_after.
Proof.
  apply rm_more with (l := L 1 2); [exact alias_pickable_1|].
  rewrite alias_remove. apply rm_done. exact alias_after_none.
Qed.

(* The alias range dimension: the loop terminates, the array is unreachable,
   but its link count is still 1 (isValidEntity() stays true).  Hence the
   premise of removeAllLinks_rc_zero cannot be dropped. *)
Theorem removeAllLinks_rc_zero_refuted :
  (exists g', rm_run 0 2 alias_graph g') /\
  (forall g', rm_run 0 2 alias_graph g' ->
     indeg g' 2 = 1 /\ In (L 4 2) g' /\ ~ reachable 0 g' 2) /\
  ~ (forall o g g', o <> 0 -> rm_run 0 o g g' -> indeg g' o = 0).
Proof.
  split; [exists alias_after; exact alias_run|]. split.
  - intros g' H. pose proof (alias_run_unique g' H) as E. subst g'.
    split; [vm_compute; reflexivity|].
    split; [unfold alias_after; cbn [In]; tauto|].
    apply (removeAllLinks_complete 0 2 alias_graph alias_after); [discriminate | exact H].
  - intros Hall.
    pose proof (Hall 2 alias_graph alias_after (fun E => O_S 1 (eq_sym E)) alias_run) as Hz.
    vm_compute in Hz. discriminate Hz.
Qed.

(* 5 = a holder of the array (e.g. a tag referencing it) that was itself
   unlinked from the file before, but is kept alive by an open handle. *)
Definition holder_graph : graph := [L 0 1; L 1 2; L 5 2].
Definition holder_after : graph := [L 0 1; L 5 2].

Lemma holder_ra : forall g, (forall l, In l g -> In l holder_graph) ->
  forall q, reach_avoid 0 g 2 q -> q = 0 \/ q = 1.
Proof.
  intros g Hsub q H. induction H as [Hr | p q' l Hp IH Hin Hs Hd Hq].
  - left; reflexivity.
  - apply Hsub in Hin. unfold holder_graph, L in Hin. cbn [In] in Hin.
    destruct Hin as [E|[E|[E|[]]]]; subst l; cbn [src dst] in Hs, Hd; lia.
Qed.

Lemma holder_after_incl : forall l, In l holder_after -> In l holder_graph.
Proof.
  intros l H. unfold holder_after in H. unfold holder_graph. cbn [In] in *. tauto.
Qed.

Lemma holder_remove : remove_link (L 1 2) holder_graph = holder_after.
Proof. vm_compute. reflexivity. Qed.

Lemma holder_pickable_1 : pickable 0 holder_graph 2 (L 1 2).
Proof.
  split; [unfold holder_graph; cbn [In]; tauto|]. split; [reflexivity|].
  apply RA_step with (p := 0) (l := L 0 1).
  - apply RA_root. discriminate.
  - unfold holder_graph; cbn [In]; tauto.
  - reflexivity.
  - reflexivity.
  - discriminate.
Qed.

Lemma holder_after_none : forall l, ~ pickable 0 holder_after 2 l.
Proof.
  intros l [Hin [Hd Hra]].
  destruct (holder_ra holder_after holder_after_incl _ Hra) as [E|E];
    unfold holder_after, L in Hin; cbn [In] in Hin;
    destruct Hin as [E'|[E'|[]]]; subst l; cbn [src dst] in *; discriminate.
Qed.

Lemma holder_run_unique : forall g', rm_run 0 2 holder_graph g' -> g' = holder_after.
Proof.
  intros g' H. destruct (rm_run_inv 0 2 _ _ H) as [[_ Hn]|[l [Hp Hr]]].
  - exfalso. apply (Hn (L 1 2)). exact holder_pickable_1.
  - assert (El : l = L 1 2).
    { destruct Hp as [Hin [Hd Hra]].
      destruct (holder_ra holder_graph (fun x Hx => Hx) _ Hra) as [E|E];
        unfold holder_graph, L in Hin; cbn [In] in Hin;
        destruct Hin as [E'|[E'|[E'|[]]]]; subst l; cbn [src dst] in *;
        try discriminate; reflexivity. }
    subst l. rewrite holder_remove in Hr.
    destruct (rm_run_inv 0 2 _ _ Hr) as [[Eg _]|[l [Hp' _]]].
    + exact Eg.
    + exfalso. apply (holder_after_none l). exact Hp'.
Qed.

Lemma holder_run : rm_run 0 2 holder_graph holder_after.
Proof.
  apply rm_more with (l := L 1 2); [exact holder_pickable_1|].
  rewrite holder_remove. apply rm_done. exact holder_after_none.
Qed.

Theorem removeAllLinks_unreachable_holder_refuted :
  ~ reachable 0 holder_graph 5 /\
  (exists g', rm_run 0 2 holder_graph g') /\
  (forall g', rm_run 0 2 holder_graph g' ->
     indeg g' 2 = 1 /\ In (L 5 2) g' /\ ~ reachable 0 g' 2).
Proof.
  split.
  - intros Hr.
    assert (Hinv : forall q, reachable 0 holder_graph q -> q = 0 \/ q = 1 \/ q = 2).
    { intros q H. induction H as [| p q' l Hp IH Hin Hs Hd].
      - left; reflexivity.
      - unfold holder_graph, L in Hin. cbn [In] in Hin.
        destruct Hin as [E|[E|[E|[]]]]; subst l; cbn [src dst] in Hs, Hd; lia. }
    specialize (Hinv 5 Hr). lia.
  - split; [exists holder_after; exact holder_run|].
    intros g' H. pose proof (holder_run_unique g' H) as E. subst g'.
    split; [vm_compute; reflexivity|].
    split; [unfold holder_after; cbn [In]; tauto|].
    apply (removeAllLinks_complete 0 2 holder_graph holder_after); [discriminate | exact H].
Qed.

(* The closed executable function on the two examples. *)
Example removeAllLinks_alias_computed :
  removeAllLinks 0 alias_graph 2 = alias_after /\
  rm_loop (pick_search 0) 1 alias_graph 2 = (alias_after, true).
Proof. split; vm_compute; reflexivity. Qed.

Example removeAllLinks_holder_computed :
  removeAllLinks 0 holder_graph 2 = holder_after.
Proof. vm_compute. reflexivity. Qed.
