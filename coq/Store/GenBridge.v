(** The hand copies of [util::looksLikeUUID] and of the entity-name checks used by the models of
    C03 / C08 / C04 / C02 (Store/Db.v), C12 (FileIO/Ids.v) and C20 (Store/Search.v) are equal to the
    definitions the translator regenerates from src/util/util.cpp on every run (Gen/GenUtil.v): if the
    source changes, these lemmas — and with them the property files that cite them — stop checking. *)
From Coq Require Import ZArith Bool String Ascii List Lia.
Require Import NixV.Base.Prelude NixV.Base.Strings NixV.Gen.GenUtil.
Require NixV.Store.Db NixV.FileIO.Ids NixV.Store.Search.
Local Open Scope Z_scope.

Lemma ascii_code_dash (c : ascii) : (Z.of_nat (nat_of_ascii c) =? 45) = Ascii.eqb c "-"%char.
Proof. destruct c as [[] [] [] [] [] [] [] []]; reflexivity. Qed.

Lemma str_len_36 (s : string) : (str_len s =? 36) = Nat.eqb (String.length s) 36.
Proof.
  unfold str_len. destruct (Nat.eqb_spec (String.length s) 36) as [E|E].
  - rewrite E. reflexivity.
  - apply Z.eqb_neq. lia.
Qed.

Lemma str_at_dash (s : string) (z : Z) :
  (str_at s z =? 45) = match String.get (Z.to_nat z) s with Some c => Ascii.eqb c "-"%char | None => false end.
Proof.
  unfold str_at. destruct (String.get (Z.to_nat z) s) as [c|]; [apply ascii_code_dash|reflexivity].
Qed.

Lemma gen_looksLikeUUID_eq (s : string) :
  looksLikeUUID s =
  (Nat.eqb (String.length s) 36 &&
   match String.get 8 s with Some c => Ascii.eqb c "-"%char | None => false end &&
   match String.get 13 s with Some c => Ascii.eqb c "-"%char | None => false end &&
   match String.get 18 s with Some c => Ascii.eqb c "-"%char | None => false end &&
   match String.get 23 s with Some c => Ascii.eqb c "-"%char | None => false end)%bool.
Proof.
  unfold looksLikeUUID. rewrite str_len_36.
  rewrite (str_at_dash s 8), (str_at_dash s 13), (str_at_dash s 18), (str_at_dash s 23).
  change (Z.to_nat 8) with 8%nat. change (Z.to_nat 13) with 13%nat. change (Z.to_nat 18) with 18%nat. change (Z.to_nat 23) with 23%nat.
  reflexivity.
Qed.

Theorem db_looksLikeUUID_is_generated (s : string) : Db.looksLikeUUID s = looksLikeUUID s.
Proof. rewrite gen_looksLikeUUID_eq. reflexivity. Qed.

Theorem ids_looksLikeUUID_is_generated (s : string) : Ids.looksLikeUUID s = looksLikeUUID s.
Proof. rewrite gen_looksLikeUUID_eq. reflexivity. Qed.

Theorem search_looksLikeUUID_is_generated (s : string) : Search.looksLikeUUID s = looksLikeUUID s.
Proof. rewrite gen_looksLikeUUID_eq. reflexivity. Qed.

(** entity-name check: the model's [check_name] is the generated [util::checkEntityName] *)
Require NixV.Store.DbOps.

Lemma str_len_0 (s : string) : (str_len s =? 0) = Db.is_empty_str s.
Proof. destruct s; reflexivity. Qed.

Lemma prefix_slash (s : string) :
  String.prefix "/" s = match s with String c _ => Ascii.eqb c "/"%char | EmptyString => false end.
Proof.
  destruct s as [|c r]; [reflexivity|]. cbn [String.prefix].
  destruct (ascii_dec "/"%char c) as [<-|N].
  - destruct r; reflexivity.
  - symmetry. apply Ascii.eqb_neq. congruence.
Qed.

Lemma str_contains_slash (s : string) : str_contains s "/" = Db.has_slash s.
Proof.
  induction s as [|c r IH]; [reflexivity|].
  cbn [str_contains Db.has_slash]. rewrite prefix_slash. fold str_contains. rewrite IH.
  unfold Db.slash. destruct (Ascii.eqb c "/"%char); reflexivity.
Qed.

Theorem db_check_name_is_generated (name : string) :
  DbOps.check_name name = match checkEntityName name with Ok _ => None | Err e => Some e | UB _ => None end.
Proof.
  unfold DbOps.check_name, checkEntityName, nameCheck. rewrite str_len_0, str_contains_slash.
  destruct (Db.is_empty_str name); [reflexivity|]. destruct (Db.has_slash name); reflexivity.
Qed.
