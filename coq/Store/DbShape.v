(** * Store/DbShape.v — what one step of the repaired model can do to the state

    [trans s s']: [s'] is [s] itself, [s] with the id counter advanced, [s] plus one admissible new entity,
    [s] with the links / attributes of one entity changed admissibly, or [s] minus a subtree.
    [step_shape]: for every op, a step of the REPAIRED model from a state satisfying [Inv] (with a fresh next
    id) ends in [Ok] with a [trans]ition, or in [Err] with the state unchanged up to the id counter, and never
    in undefined behaviour.  C03's [inv_step] and C08's [rejected_no_trace] are both read off this. *)
From Coq Require Import List ZArith Bool String Ascii Arith Lia Sorting.Sorted.
Require Import NixV.Base.Prelude NixV.Store.Db NixV.Store.DbOps NixV.Store.DbInv.
Import ListNotations.

(** reduce the behaviour switches of [repaired] *)
Ltac beh := cbn [repaired b_df_checks b_df_cols_check b_mtag_pos_first b_array_checks_first b_meta_lookup_first
                 b_link_lookup_first b_ext_check_first b_values_check_first b_prop_type_check b_prop_values_uniform
                 b_esrc_by_name b_uuid_name_links b_replace_all_atomic b_feature_null_guard b_delsource_by_id b_valid_reachable b_setdata_type_first b_append_type_first
                 b_df_colname_check b_array_rank_max b_create_typed_first andb negb].

Section Shape.
Variable ids : nat -> string.
Hypothesis ids_inj : forall a b, ids a = ids b -> a = b.
Variable N : nat.
Hypothesis ids_uuid : forall a, a < N -> looksLikeUUID (ids a) = true.
Notation eid := (eid ids).
Notation link_name := (link_name ids).
Notation Inv := (Inv ids N).
Notation addable := (addable ids N).

Inductive trans (s : db) : db -> Prop :=
| TSame : trans s s
| TBump : next s < N -> trans s (bump s)
| TAdd e : addable s e -> trans s (add_ent s e)
| TUpd o f : good_upd s o f -> trans s (upd s o f)
| TDel x : trans s (remove_subtree s x).

Lemma trans_inv s s' : Inv s -> trans s s' -> Inv s'.
Proof.
  intros H T. destruct T.
  - auto.
  - apply inv_bump; auto.
  - apply inv_add; auto.
  - apply inv_upd; auto.
  - apply inv_remove; auto.
Qed.

(** the supply is not exhausted and the next id is not a name in use (the hypothesis on the id supply that the
    create step needs) *)
Definition fresh (s : db) : Prop := next s < N /\ forall x, In x (ents s) -> e_name x <> ids (next s).

Definition shape (s : db) (out : db * res value) : Prop :=
  match snd out with
  | Ok _ => trans s (fst out)
  | Err _ => fst out = s \/ fst out = bump s
  | UB _ => False
  end.

(** ** strings *)
Lemma is_empty_str_false n : is_empty_str n = false <-> n <> EmptyString.
Proof. destruct n; simpl; split; intros H; try congruence; try discriminate. Qed.
Lemma is_empty_str_true n : is_empty_str n = true <-> n = EmptyString.
Proof. destruct n; simpl; split; intros H; try congruence; try discriminate. Qed.

Lemma uuid_nonempty n : looksLikeUUID n = true -> n <> EmptyString.
Proof. intros H E. subst. discriminate. Qed.

(** ** where the lookups find their results *)
Lemma find_link_in c key e : find_link ids c key = Some e -> In e c /\ link_name e = key.
Proof.
  unfold find_link. destruct (is_empty_str key); [discriminate|]. intros H. apply find_some in H.
  destruct H as [H1 H2]. apply String.eqb_eq in H2. auto.
Qed.
Lemma find_id_in c key e : find_id ids c key = Some e -> In e c /\ eid e = key.
Proof. unfold find_id. intros H. apply find_some in H. destruct H as [H1 H2]. apply String.eqb_eq in H2. auto. Qed.
Lemma find_name_attr_in c key e : find_name_attr c key = Some e -> In e c /\ e_name e = key.
Proof. unfold find_name_attr. intros H. apply find_some in H. destruct H as [H1 H2]. apply String.eqb_eq in H2. auto. Qed.

Lemma find_link_none c key : key <> EmptyString -> find_link ids c key = None -> forall x, In x c -> link_name x <> key.
Proof.
  unfold find_link. intros Hk. apply is_empty_str_false in Hk. rewrite Hk. intros H x Hx E.
  eapply find_none in H; eauto. simpl in H. rewrite E, String.eqb_refl in H. discriminate.
Qed.
Lemma find_id_none c key : find_id ids c key = None -> forall x, In x c -> eid x <> key.
Proof.
  unfold find_id. intros H x Hx E. eapply find_none in H; eauto. simpl in H. rewrite E, String.eqb_refl in H. discriminate.
Qed.

Lemma find_name_or_id_in c key e : find_name_or_id ids c key = Some e -> In e c.
Proof.
  unfold find_name_or_id. destruct (find_link ids c key) eqn:F.
  - intros H. inversion H; subst. apply find_link_in in F. tauto.
  - destruct (looksLikeUUID key); [|discriminate]. intros H. apply find_id_in in H. tauto.
Qed.

Lemma block_find_in c n i e : block_find ids c n i = Some e -> In e c.
Proof.
  unfold block_find. destruct (negb (negb (is_empty_str n)) && negb (negb (is_empty_str i))); [discriminate|].
  destruct (find_link ids c (if negb (is_empty_str n) then n else i)) eqn:F.
  - apply find_link_in in F. destruct (_ && _ && _); [discriminate|]. intros H. inversion H; subst. tauto.
  - destruct (negb (is_empty_str i)); [|discriminate].
    destruct (find_id ids c i) eqn:G; [|discriminate]. apply find_id_in in G.
    destruct (_ && _ && _); [discriminate|]. intros H. inversion H; subst. tauto.
Qed.

Lemma block_find_key_in c key e : block_find_key ids c key = Some e -> In e c.
Proof. unfold block_find_key. destruct (ident_of_key key). apply block_find_in. Qed.

Lemma lookup_named_in pk c key e : lookup_named ids pk c key = Some e -> In e c.
Proof.
  unfold lookup_named. destruct pk as [[]|]; try apply find_name_or_id_in. apply block_find_key_in.
Qed.

Lemma group_find_in B m n i e : group_find ids B m n i = Some e -> In e m.
Proof.
  unfold group_find. destruct (negb (negb (is_empty_str n)) && negb (negb (is_empty_str i))); [discriminate|].
  set (needle := if negb (is_empty_str i) then i else n).
  destruct (if is_empty_str needle then None else find_id ids m needle) eqn:F.
  - assert (In e0 m) by (destruct (is_empty_str needle); [discriminate|]; apply find_id_in in F; tauto).
    destruct (_ && _ && _); [discriminate|]. intros E. inversion E; subst. auto.
  - destruct (negb (is_empty_str n)).
    + destruct (find_name_attr m n) eqn:G; [|discriminate]. apply find_name_attr_in in G.
      destruct (_ && _ && _); [discriminate|]. intros E. inversion E; subst. tauto.
    + destruct (b_uuid_name_links B); [|discriminate].
      destruct (find_name_attr m i) eqn:G; [|discriminate]. apply find_name_attr_in in G.
      destruct (_ && _ && _); [discriminate|]. intros E. inversion E; subst. tauto.
Qed.

Lemma group_find_key_in B m key e : group_find_key ids B m key = Some e -> In e m.
Proof. unfold group_find_key. destruct (ident_of_key key). apply group_find_in. Qed.

Lemma resolve_in s l e : In e (resolve s l) -> In e (ents s) /\ In (e_oid e) l.
Proof.
  unfold resolve. rewrite in_flat_map. intros [o [Ho He]]. destruct (find_ent s o) eqn:F; simpl in He; [|tauto].
  destruct He as [He|[]]. subst. apply find_ent_some in F. destruct F; subst; auto.
Qed.

Lemma in_alive s e : In e (ents s) -> alive s (e_oid e) = true.
Proof. intros H. apply alive_iff. eauto. Qed.

Lemma children_ents s p k e : In e (children s p k) -> In e (ents s).
Proof. intros H. apply children_in in H. tauto. Qed.

Lemma sources_of_block_ents s b e : In e (sources_of_block s b) -> In e (ents s).
Proof. unfold sources_of_block. intros H. apply filter_In in H. tauto. Qed.

Lemma find_section_by_id_in s id e : find_section_by_id ids s id = Some e -> In e (ents s).
Proof. unfold find_section_by_id. intros H. apply find_some in H. tauto. Qed.

Lemma add_target_in s b sl n i e : add_target ids s b sl n i = Some e -> In e (ents s).
Proof.
  unfold add_target. destruct sl; try (intros H; apply block_find_in in H; eapply children_ents; eauto).
  destruct (is_empty_str i); [discriminate|]. intros H. apply find_id_in in H. destruct H as [H _]. eapply sources_of_block_ents; eauto.
Qed.

(** ** the duplicate check of create *)
Lemma lookup_named_none pk c name :
  (forall x, In x c -> looksLikeUUID (eid x) = true) ->
  name <> EmptyString -> lookup_named ids pk c name = None ->
  (forall x, In x c -> link_name x <> name) /\ (forall x, In x c -> name <> eid x).
Proof.
  intros Hu Hn H.
  assert (K : find_link ids c name = None /\ (looksLikeUUID name = true -> find_id ids c name = None)).
  { unfold lookup_named in H.
    assert (Hb : block_find_key ids c name = None -> find_link ids c name = None /\ (looksLikeUUID name = true -> find_id ids c name = None)).
    { unfold block_find_key, ident_of_key. destruct (looksLikeUUID name) eqn:U.
      - unfold block_find. simpl. apply is_empty_str_false in Hn. rewrite Hn. simpl.
        destruct (find_link ids c name); [discriminate|]. destruct (find_id ids c name); [discriminate|]. auto.
      - unfold block_find. simpl. apply is_empty_str_false in Hn. rewrite Hn. simpl.
        destruct (find_link ids c name); [discriminate|]. split; auto. discriminate. }
    assert (Hf : find_name_or_id ids c name = None -> find_link ids c name = None /\ (looksLikeUUID name = true -> find_id ids c name = None)).
    { unfold find_name_or_id. destruct (find_link ids c name); [discriminate|]. destruct (looksLikeUUID name); auto.
      split; auto. discriminate. }
    destruct pk as [[]|]; auto. }
  destruct K as [K1 K2]. split.
  - apply find_link_none; auto.
  - intros x Hx E. assert (U : looksLikeUUID name = true) by (rewrite E; apply Hu; auto).
    specialize (K2 U). eapply find_id_none in K2; eauto.
Qed.

Lemma check_name_none name : check_name name = None -> name <> EmptyString.
Proof. unfold check_name. destruct (is_empty_str name) eqn:E; [discriminate|]. intros _. apply is_empty_str_false; auto. Qed.

(** ** links of new / changed entities *)
Lemma links_alive_none s : links_alive s no_links.
Proof.
  split; [|split].
  - intros sl. destruct sl; simpl; split; try constructor; intros t [].
  - intros sl t. destruct sl; simpl; discriminate.
  - intros t [].
Qed.

Lemma l_dims_set_o o v l : l_dims (set_o o v l) = l_dims l.
Proof. destruct o; reflexivity. Qed.
Lemma l_dims_set_l sl v l : l_dims (set_l sl v l) = l_dims l.
Proof. destruct sl; reflexivity. Qed.
Lemma get_l_set_dims sl v l : get_l sl (set_dims v l) = get_l sl l.
Proof. destruct sl; reflexivity. Qed.
Lemma get_o_set_dims o v l : get_o o (set_dims v l) = get_o o l.
Proof. destruct o; reflexivity. Qed.

Lemma get_l_set_o sl o v l : get_l sl (set_o o v l) = get_l sl l.
Proof. destruct sl, o; reflexivity. Qed.
Lemma get_o_set_l sl o v l : get_o o (set_l sl v l) = get_o o l.
Proof. destruct sl, o; reflexivity. Qed.
Lemma get_l_set_l_same sl v l : get_l sl (set_l sl v l) = v.
Proof. destruct sl; reflexivity. Qed.
Lemma get_l_set_l_other sl sl' v l : sl <> sl' -> get_l sl' (set_l sl v l) = get_l sl' l.
Proof. destruct sl, sl'; try reflexivity; intros H; congruence. Qed.
Lemma get_o_set_o_same o v l : get_o o (set_o o v l) = v.
Proof. destruct o; reflexivity. Qed.
Lemma get_o_set_o_other o o' v l : o <> o' -> get_o o' (set_o o v l) = get_o o' l.
Proof. destruct o, o'; try reflexivity; intros H; congruence. Qed.

Lemma lslot_dec (a b : lslot) : {a = b} + {a <> b}.
Proof. decide equality. Qed.
Lemma oslot_dec (a b : oslot) : {a = b} + {a <> b}.
Proof. decide equality. Qed.

Lemma links_alive_set_o s l o v :
  links_alive s l -> (forall t, v = Some t -> alive s t = true) -> links_alive s (set_o o v l).
Proof.
  intros [A1 [A2 A3]] Hv. split; [|split].
  - intros sl. rewrite get_l_set_o. apply A1.
  - intros sl t. destruct (oslot_dec o sl) as [E|E].
    + subst. rewrite get_o_set_o_same. auto.
    + rewrite get_o_set_o_other; auto. apply A2.
  - rewrite l_dims_set_o. apply A3.
Qed.

Lemma links_alive_set_l s l sl v :
  links_alive s l -> NoDup v -> (forall t, In t v -> alive s t = true) -> links_alive s (set_l sl v l).
Proof.
  intros [A1 [A2 A3]] Nd Hv. split; [|split].
  - intros sl'. destruct (lslot_dec sl sl') as [E|E].
    + subst. rewrite get_l_set_l_same. auto.
    + rewrite get_l_set_l_other; auto.
  - intros o t. rewrite get_o_set_l. apply A2.
  - rewrite l_dims_set_l. apply A3.
Qed.

Lemma links_alive_set_dims s l v :
  links_alive s l -> (forall t, In (DimFrame (Some t)) v -> alive s t = true) -> links_alive s (set_dims v l).
Proof.
  intros [A1 [A2 A3]] Hv. split; [|split].
  - intros sl. rewrite get_l_set_dims. apply A1.
  - intros o t. rewrite get_o_set_dims. apply A2.
  - exact Hv.
Qed.

(** ** good updates *)
Lemma good_with_links s o g :
  Inv s -> (forall e, In e (ents s) -> e_oid e = o -> links_alive s (g (e_links e))) -> good_upd s o (with_links g).
Proof. intros H Hg. split; [intros e; reflexivity|]. intros e He Ho. simpl. auto. Qed.

Lemma good_keep_links s o f :
  Inv s -> same_hdr f -> (forall e, e_links (f e) = e_links e) -> good_upd s o f.
Proof. intros H Hh Hl. split; auto. intros e He _. rewrite Hl. apply (inv_links _ _ _ H _ He). Qed.

Lemma good_set_olink s o sl v :
  Inv s -> (forall t, v = Some t -> alive s t = true) -> good_upd s o (with_links (set_o sl v)).
Proof.
  intros H Hv. apply good_with_links; auto. intros e He _. apply links_alive_set_o; auto. apply (inv_links _ _ _ H _ He).
Qed.

Lemma good_set_members s o sl v :
  Inv s -> NoDup v -> (forall t, In t v -> alive s t = true) -> good_upd s o (with_links (set_l sl v)).
Proof.
  intros H Nd Hv. apply good_with_links; auto. intros e He _. apply links_alive_set_l; auto. apply (inv_links _ _ _ H _ He).
Qed.

Lemma good_set_dims s o v :
  Inv s -> (forall e, In e (ents s) -> e_oid e = o -> forall t, In (DimFrame (Some t)) (v e) -> alive s t = true) ->
  good_upd s o (fun e => with_links (set_dims (v e)) e).
Proof.
  intros H Hv. split; [intros e; reflexivity|]. intros e He Ho. simpl. apply links_alive_set_dims; [apply (inv_links _ _ _ H _ He)|].
  apply Hv; auto.
Qed.

Lemma good_with_type s o t : Inv s -> good_upd s o (with_type t).
Proof. intros H. apply good_keep_links; auto; intros e; reflexivity. Qed.
Lemma good_with_def s o d : Inv s -> good_upd s o (with_def d).
Proof. intros H. apply good_keep_links; auto; intros e; reflexivity. Qed.
Lemma good_with_pay s o g : Inv s -> good_upd s o (with_pay g).
Proof. intros H. apply good_keep_links; auto; intros e; reflexivity. Qed.

(** ** shape of the outcomes *)
Lemma shape_fail s e : shape s (fail s e).
Proof. left. reflexivity. Qed.
Lemma shape_fail_bump s e : shape s (fail (bump s) e).
Proof. right. reflexivity. Qed.
Lemma shape_ret_same s v : shape s (ret s v).
Proof. apply TSame. Qed.
Lemma shape_ret_upd s o f v : good_upd s o f -> shape s (ret (upd s o f) v).
Proof. intros H. apply TUpd. auto. Qed.

Lemma fresh_link s x : Inv s -> fresh s -> In x (ents s) -> link_name x <> ids (next s).
Proof.
  intros H [_ F] Hx. unfold DbOps.link_name. destruct (e_kind x); try (apply F; auto).
  unfold DbOps.eid. intro E. apply ids_inj in E. rewrite (inv_idx _ _ _ H _ Hx) in E.
  pose proof (inv_below _ _ _ H _ Hx). lia.
Qed.

Lemma create_backend_shape s p k name type lk py :
  Inv s -> fresh s ->
  (k <> KFeature -> name <> EmptyString /\ (forall x, In x (children s p k) -> link_name x <> name) /\
                    (forall x, In x (children s p k) -> name <> eid x)) ->
  links_alive (add_ent s (mkEnt (new_hdr s k p name type) lk py)) lk ->
  (forall q, p = Some q -> alive s q = true) ->
  shape s (create_backend s p k name type lk py).
Proof.
  intros H F Hn Hl Hpar. unfold create_backend. destruct (h5_bad_link_name name); [apply shape_fail_bump|].
  apply TAdd.
  assert (Hfeat : forall x, In x (children s p KFeature) -> ids (next s) <> eid x).
  { intros x Hx E. unfold DbOps.eid in E. apply ids_inj in E. apply children_ents in Hx.
    rewrite (inv_idx _ _ _ H _ Hx) in E. pose proof (inv_below _ _ _ H _ Hx). lia. }
  constructor; try reflexivity.
  - cbn. intros x Hx. destruct k; cbn; try (apply Hn; [discriminate|exact Hx]).
    intro E. apply (Hfeat x Hx). symmetry.
    apply children_in in Hx. destruct Hx as [_ [_ K]]. unfold DbOps.link_name in E. rewrite K in E. exact E.
  - cbn. intros K. apply Hn. exact K.
  - cbn. intros x Hx. destruct k; cbn; try (apply Hn; [discriminate|exact Hx]).
    apply Hfeat; auto.
  - intros x Hx. apply fresh_link; auto.
  - exact Hl.
  - apply F.
  - exact Hpar.
Qed.

Lemma links_alive_new_o s e sl a :
  In a (ents s) -> links_alive (add_ent s e) (set_o sl (Some (e_oid a)) no_links).
Proof.
  intros Ha. apply links_alive_set_o; [apply links_alive_none|].
  intros t E. inversion E; subst. apply alive_add_old, in_alive; auto.
Qed.

Lemma named_side s pk p k name :
  Inv s -> check_name name = None -> lookup_named ids pk (children s p k) name = None ->
  name <> EmptyString /\ (forall x, In x (children s p k) -> link_name x <> name) /\
  (forall x, In x (children s p k) -> name <> eid x).
Proof.
  intros H CN L. split; [apply check_name_none; auto|]. apply (lookup_named_none pk); auto.
  - intros x Hx. eapply eid_uuid_in; eauto. eapply children_ents; eauto.
  - apply check_name_none; auto.
Qed.

Lemma create_array_shape s pk p name type dt shp :
  Inv s -> fresh s -> (forall q, p = Some q -> alive s q = true) -> shape s (create_array ids repaired s pk p name type dt shp).
Proof.
  intros H F Hpar. unfold create_array. beh.
  destruct (check_name name) eqn:CN; [apply shape_fail|]. destruct (is_empty_str type); [apply shape_fail|].
  destruct (lookup_named ids pk _ name) eqn:L; [apply shape_fail|].
  destruct (negb (h5_storable dt)); [apply shape_fail|].
  destruct (List.length _ =? 0); [apply shape_fail|].
  destruct (32 <? List.length _); [apply shape_fail|].
  apply create_backend_shape; auto; [intros _; eapply named_side; eauto | apply links_alive_none].
Qed.

Lemma do_create_shape s pk p k name type x :
  Inv s -> fresh s -> (forall q, p = Some q -> alive s q = true) -> shape s (do_create ids repaired s pk p k name type x).
Proof.
  intros H F Hpar. unfold do_create.
  destruct k, x; try apply shape_fail; beh.
  - (* block *)
    destruct (check_name name) eqn:CN; [apply shape_fail|]. destruct (is_empty_str type); [apply shape_fail|].
    destruct (lookup_named ids pk _ name) eqn:L; [apply shape_fail|].
    apply create_backend_shape; auto; [intros _; eapply named_side; eauto | apply links_alive_none].
  - (* section *)
    destruct (check_name name) eqn:CN; [apply shape_fail|]. destruct (is_empty_str type); [apply shape_fail|].
    destruct (lookup_named ids pk _ name) eqn:L; [apply shape_fail|].
    apply create_backend_shape; auto; [intros _; eapply named_side; eauto | apply links_alive_none].
  - (* property, by type *)
    destruct (dtype_eqb dt DNothing || negb (variant_supports dt)); [apply shape_fail|].
    destruct (check_name name) eqn:CN; [apply shape_fail|].
    destruct (lookup_named ids pk _ name) eqn:L; [apply shape_fail|].
    destruct (negb (h5_storable dt)); [apply shape_fail_bump|].
    apply create_backend_shape; auto; [intros _; eapply named_side; eauto | apply links_alive_none].
  - (* property, by values *)
    destruct vals as [|d0 vals]; [apply shape_fail|].
    destruct (negb (all_same d0 (d0 :: vals))) eqn:AS; [apply shape_fail|].
    destruct (check_name name) eqn:CN; [apply shape_fail|].
    destruct (lookup_named ids pk _ name) eqn:L; [apply shape_fail|].
    destruct (negb (h5_storable d0)); [apply shape_fail_bump|].
    apply negb_false_iff in AS. rewrite AS.
    apply create_backend_shape; auto; [intros _; eapply named_side; eauto | apply links_alive_none].
  - (* array *)
    apply create_array_shape; auto.
  - (* array, from data (header template) *)
    destruct (dtype_writable mem _); cbn [negb]; [|apply shape_fail].
    pose proof (create_array_shape s pk p name type (if dtype_eqb dt DNothing then mem else dt) [n] H F Hpar) as S.
    unfold shape in *. destruct (create_array ids repaired s pk p name type _ [n]) as [s' r]. cbn [fst snd] in *. destruct r; auto.
  - (* frame *)
    destruct (check_name name) eqn:CN; [apply shape_fail|]. destruct (is_empty_str type); [apply shape_fail|].
    destruct (lookup_named ids pk _ name) eqn:L; [apply shape_fail|].
    destruct (List.length cols =? 0) eqn:LC; [apply shape_fail|].
    destruct (existsb _ cols); [apply shape_fail|].
    destruct (existsb _ cols); [apply shape_fail|].
    destruct (dup_col [] cols); [apply shape_fail|].
    apply create_backend_shape; auto; [intros _; eapply named_side; eauto | apply links_alive_none].
  - (* tag *)
    destruct (check_name name) eqn:CN; [apply shape_fail|]. destruct (is_empty_str type); [apply shape_fail|].
    destruct (lookup_named ids pk _ name) eqn:L; [apply shape_fail|].
    apply create_backend_shape; auto; [intros _; eapply named_side; eauto | apply links_alive_none].
  - (* multi-tag *)
    destruct (check_name name) eqn:CN; [apply shape_fail|]. destruct (is_empty_str type); [apply shape_fail|].
    destruct (negb (valid s positions)); [apply shape_fail|].
    destruct (lookup_named ids pk _ name) eqn:L; [apply shape_fail|].
    destruct (block_find_key ids _ (hid ids s positions)) eqn:BF; [|apply shape_fail].
    apply create_backend_shape; auto; [intros _; eapply named_side; eauto |].
    apply links_alive_new_o. apply block_find_key_in in BF. eapply children_ents; eauto.
  - (* group *)
    destruct (check_name name) eqn:CN; [apply shape_fail|]. destruct (is_empty_str type); [apply shape_fail|].
    destruct (lookup_named ids pk _ name) eqn:L; [apply shape_fail|].
    apply create_backend_shape; auto; [intros _; eapply named_side; eauto | apply links_alive_none].
  - (* source *)
    destruct (check_name name) eqn:CN; [apply shape_fail|]. destruct (is_empty_str type); [apply shape_fail|].
    destruct (lookup_named ids pk _ name) eqn:L; [apply shape_fail|].
    apply create_backend_shape; auto; [intros _; eapply named_side; eauto | apply links_alive_none].
  - (* feature, by handle *)
    destruct (negb (valid s data)); [apply shape_fail|].
    destruct (block_of _ s p); [|apply shape_fail].
    destruct (block_find_key ids _ (hid ids s data)) eqn:BF; [|apply shape_fail].
    apply create_backend_shape; auto; try (intros K; congruence).
    apply links_alive_new_o. apply block_find_key_in in BF. eapply children_ents; eauto.
  - (* feature, by name or id *)
    destruct (block_of _ s p); [|apply shape_fail].
    destruct (block_find_key ids _ key) eqn:BF; [|apply shape_fail].
    apply create_backend_shape; auto; try (intros K; congruence).
    apply links_alive_new_o. apply block_find_key_in in BF. eapply children_ents; eauto.
Qed.

(** ** queries and deletion *)
Lemma feature_scan_ok s fs key : exists o, feature_scan ids repaired s fs key = Ok o.
Proof.
  induction fs as [|f r IH]; simpl; eauto.
  destruct (l_data (e_links f)); beh; auto.
  destruct (find_ent s n); auto. destruct (_ || _); eauto.
Qed.

Lemma lookup_ok s pk p k key : exists o, lookup ids repaired s pk p k key = Ok o.
Proof.
  unfold lookup. destruct k; eauto. unfold lookup_feature. destruct (find_link ids _ key); eauto. apply feature_scan_ok.
Qed.

Lemma lookup_h_ok s pk p k e d : exists o, lookup_h ids repaired s pk p k e d = Ok o.
Proof.
  unfold lookup_h. destruct pk as [[]|]; try apply lookup_ok. destruct (d && kind_eqb k KSource); eauto.
Qed.

Lemma do_delete_found_shape s o : shape s (do_delete_found s (Ok o)).
Proof. destruct o; simpl; [apply TDel|apply TSame]. Qed.

Lemma res_value_shape s o f : shape s (res_value s (Ok o) f).
Proof. apply TSame. Qed.

Lemma get_idx_shape s pk p k i : shape s (get_idx ids repaired s pk p k i).
Proof.
  unfold get_idx. destruct (nth_error _ i); [|apply shape_fail].
  destruct k; try (destruct pk as [[]|]; apply shape_ret_same).
  unfold lookup_feature. destruct (find_link ids _ _); [apply TSame|].
  destruct (feature_scan_ok s (children s p KFeature) (link_name e)) as [o E]. rewrite E. apply TSame.
Qed.

(** ** link containers *)
Lemma members_in s h sl t : In t (members s h sl) -> In t (ents s) /\ In (e_oid t) (get_l sl (e_links h)).
Proof. apply resolve_in. Qed.

Lemma good_add_member s h sl t :
  Inv s -> In h (ents s) -> In t (ents s) -> memn (e_oid t) (get_l sl (e_links h)) = false ->
  good_upd s (e_oid h) (with_links (set_l sl (get_l sl (e_links h) ++ [e_oid t]))).
Proof.
  intros H Hh Ht M. destruct (inv_links _ _ _ H _ Hh) as [A1 _]. destruct (A1 sl) as [Nd T].
  apply good_set_members; auto.
  - apply NoDup_app_one; auto. apply memn_false; auto.
  - intros x Hx. apply in_app_or in Hx. destruct Hx as [Hx|[Hx|[]]]; auto. subst. apply in_alive; auto.
Qed.

Lemma good_remove_member s h sl t :
  Inv s -> In h (ents s) ->
  good_upd s (e_oid h) (with_links (set_l sl (filter (fun x => negb (x =? t)) (get_l sl (e_links h))))).
Proof.
  intros H Hh. destruct (inv_links _ _ _ H _ Hh) as [A1 _]. destruct (A1 sl) as [Nd T].
  apply good_set_members; auto.
  - apply NoDup_filter; auto.
  - intros x Hx. apply filter_In in Hx. apply T. tauto.
Qed.

Lemma shape_add_member s h sl t v :
  Inv s -> In h (ents s) -> In t (ents s) -> memn (e_oid t) (get_l sl (e_links h)) = false ->
  shape s (ret (add_member s h sl (e_oid t)) v).
Proof. intros. apply TUpd. apply good_add_member; auto. Qed.

Lemma shape_remove_member s h sl t v : Inv s -> In h (ents s) -> shape s (ret (remove_member s h sl t) v).
Proof. intros. apply TUpd. apply good_remove_member; auto. Qed.

Lemma do_ladd_ident_shape s h b sl n i :
  Inv s -> In h (ents s) -> shape s (do_ladd_ident ids s h b sl n i).
Proof.
  intros H Hh. unfold do_ladd_ident. destruct (add_target ids s b sl n i) eqn:T; [|apply shape_fail].
  destruct (memn _ _) eqn:M; [apply shape_fail|]. apply shape_add_member; auto. eapply add_target_in; eauto.
Qed.

Lemma lset_targets_alive s h b sl l ts :
  lset_targets ids s h b sl l = Ok ts -> forall t, In t ts -> alive s t = true.
Proof.
  revert ts. induction l as [|a r IH]; simpl; intros ts E.
  - inversion E; subst. intros t [].
  - destruct a as [|o]; [discriminate|].
    set (tt := match sl, hent s (HEnt o) with
               | LRefs, _ => block_find_key ids (children s (Some b) KArray) (hid ids s (HEnt o))
               | LSrcs, Some e => block_find ids (children s (Some b) KSource) (e_name e) (eid e)
               | LSrcs, None => None
               | _, Some e => block_find ids (children s (Some b) (lslot_target sl)) (e_name e) (eid e)
               | _, None => None
               end) in *.
    assert (Htt : forall e, tt = Some e -> In e (ents s)).
    { intros e Ee. unfold tt in Ee. destruct sl; destruct (hent s (HEnt o)); try discriminate;
        try (apply block_find_key_in in Ee; eapply children_ents; eauto);
        try (apply block_find_in in Ee; eapply children_ents; eauto). }
    destruct tt as [e|] eqn:Et.
    + destruct sl; (destruct (lset_targets ids s h b _ r) eqn:R; simpl in E; try discriminate;
        inversion E; subst; intros t [Ht|Ht]; [subst; apply in_alive; apply Htt; reflexivity | eapply IH; eauto]).
    + destruct sl; try discriminate. eapply IH; eauto.
Qed.

Lemma lset_targets_no_ub s h b sl l w : lset_targets ids s h b sl l <> UB w.
Proof.
  induction l as [|a r IH]; simpl; [discriminate|]. destruct a as [|o]; [discriminate|].
  destruct sl; repeat (match goal with
                       | |- context [match hent s (HEnt o) with _ => _ end] => destruct (hent s (HEnt o))
                       | |- context [match block_find_key ?a ?b ?c with _ => _ end] => destruct (block_find_key a b c)
                       | |- context [match block_find ?a ?b ?c ?d with _ => _ end] => destruct (block_find a b c d)
                       end); try discriminate; auto;
    destruct (lset_targets ids s h b _ r); simpl; try discriminate; congruence.
Qed.

Lemma do_link_op_shape s h sl o : Inv s -> shape s (do_link_op ids repaired s h sl o).
Proof.
  intros H. unfold do_link_op. destruct (find_ent s h) as [he|] eqn:Fh; [|apply shape_fail].
  apply find_ent_some in Fh. destruct Fh as [Hh Eh].
  destruct (negb (holder_ok (e_kind he) sl)); [apply shape_fail|].
  destruct (block_of_ent s he) as [b|]; [|apply shape_fail].
  assert (Hm : forall t, In t (members s he sl) -> In t (ents s)) by (intros t Ht; apply members_in in Ht; tauto).
  destruct o; try apply shape_fail.
  - (* add by handle *)
    destruct sl.
    + destruct (hent s a); [|apply shape_fail]. destruct (ident_of_key (e_name e)). apply do_ladd_ident_shape; auto.
    + destruct a; [apply shape_fail|]. apply do_ladd_ident_shape; auto.
    + destruct (hent s a); [|apply shape_fail]. apply do_ladd_ident_shape; auto.
    + destruct (hent s a); [|apply shape_fail]. apply do_ladd_ident_shape; auto.
    + destruct (hent s a); [|apply shape_fail]. apply do_ladd_ident_shape; auto.
    + destruct (hent s a); [|apply shape_fail]. apply do_ladd_ident_shape; auto.
  - (* add by key *)
    destruct sl.
    + destruct (is_empty_str key && kind_eqb (e_kind he) KTag); [apply shape_fail|].
      destruct (ident_of_key key). apply do_ladd_ident_shape; auto.
    + destruct (is_empty_str key); [apply shape_fail|]. apply do_ladd_ident_shape; auto.
    + destruct (ident_of_key key). apply do_ladd_ident_shape; auto.
    + destruct (ident_of_key key). apply do_ladd_ident_shape; auto.
    + destruct (ident_of_key key). apply do_ladd_ident_shape; auto.
    + destruct (ident_of_key key). apply do_ladd_ident_shape; auto.
  - (* remove by handle *)
    destruct sl.
    + destruct (hent s a).
      * destruct (ref_get _ _ _ _ _); [apply shape_remove_member; auto|apply shape_ret_same].
      * destruct (kind_eqb (e_kind he) KMTag); [apply shape_fail|apply shape_ret_same].
    + destruct a; [apply shape_fail|]. destruct (find_id ids _ _); [apply shape_remove_member; auto|apply shape_ret_same].
    + destruct (hent s a); [|apply shape_ret_same]. destruct (group_find _ _ _ _ _); [apply shape_remove_member; auto|apply shape_ret_same].
    + destruct (hent s a); [|apply shape_ret_same]. destruct (group_find _ _ _ _ _); [apply shape_remove_member; auto|apply shape_ret_same].
    + destruct (hent s a); [|apply shape_ret_same]. destruct (group_find _ _ _ _ _); [apply shape_remove_member; auto|apply shape_ret_same].
    + destruct (hent s a); [|apply shape_ret_same]. destruct (group_find _ _ _ _ _); [apply shape_remove_member; auto|apply shape_ret_same].
  - (* remove by key *)
    destruct sl.
    + destruct (ref_get _ _ _ _ _); [apply shape_remove_member; auto|apply shape_ret_same].
    + destruct (if is_empty_str key then None else find_id ids _ key); [apply shape_remove_member; auto|apply shape_ret_same].
    + destruct (group_find_key _ _ _ _); [apply shape_remove_member; auto|apply shape_ret_same].
    + destruct (group_find_key _ _ _ _); [apply shape_remove_member; auto|apply shape_ret_same].
    + destruct (group_find_key _ _ _ _); [apply shape_remove_member; auto|apply shape_ret_same].
    + destruct (group_find_key _ _ _ _); [apply shape_remove_member; auto|apply shape_ret_same].
  - (* has by handle *)
    destruct sl; try (destruct (hent s a); apply shape_ret_same). destruct a; apply shape_ret_same.
  - destruct sl; apply shape_ret_same.
  - destruct sl; apply shape_ret_same.
  - destruct (nth_error _ i); [apply shape_ret_same|apply shape_fail].
  - apply shape_ret_same.
  - apply shape_ret_same.
  - (* replace all *)
    beh. destruct (lset_targets ids s he b sl l) as [ts| |] eqn:T.
    + destruct (nodupb ts) eqn:Nd; [|apply shape_fail]. apply TUpd. apply good_set_members; auto.
      * apply nodupb_NoDup; auto.
      * eapply lset_targets_alive; eauto.
    + apply shape_fail.
    + exfalso. eapply lset_targets_no_ub; eauto.
Qed.

(** ** setters *)
Lemma shape_set_olink s o sl v r :
  Inv s -> (forall t, v = Some t -> alive s t = true) -> shape s (ret (set_olink s o sl v) r).
Proof. intros H Hv. apply TUpd. apply good_set_olink; auto. Qed.

Lemma shape_set_olink_none s o sl r : Inv s -> shape s (ret (set_olink s o sl None) r).
Proof. intros H. apply shape_set_olink; auto. discriminate. Qed.

Lemma shape_set_olink_some s o sl t r : Inv s -> In t (ents s) -> shape s (ret (set_olink s o sl (Some (e_oid t))) r).
Proof. intros H Ht. apply shape_set_olink; auto. intros x E. inversion E; subst. apply in_alive; auto. Qed.

Lemma relink_section_shape s o sl id : Inv s -> shape s (relink_section ids s o sl true id).
Proof.
  intros H. unfold relink_section. destruct (find_section_by_id ids s id) eqn:F; [|apply shape_fail].
  apply shape_set_olink_some; auto. eapply find_section_by_id_in; eauto.
Qed.

Lemma set_extents_shape s m b key : Inv s -> shape s (set_extents ids repaired s m b key).
Proof.
  intros H. unfold set_extents. destruct (block_find_key ids _ key) eqn:F; [|apply shape_fail]. beh.
  destruct (extent_of s _); [|apply shape_fail]. destruct (zlist_eqb _ _); [|apply shape_fail].
  apply shape_set_olink_some; auto. apply block_find_key_in in F. eapply children_ents; eauto.
Qed.

Variable sanitize : string -> string.
Variable unit_ok : string -> bool.

Lemma do_setter_shape s o oper : Inv s -> shape s (do_setter ids sanitize unit_ok repaired s o oper).
Proof.
  intros H. unfold do_setter. destruct (find_ent s o) as [e|] eqn:Fe; [|apply shape_fail].
  destruct oper; try apply shape_fail; beh.
  - destruct (negb (has_type (e_kind e))); [apply shape_fail|]. destruct (is_empty_str t); [apply shape_fail|].
    apply TUpd, good_with_type; auto.
  - destruct (kind_eqb (e_kind e) KFeature); [apply shape_fail|].
    destruct d as [[|]|]; try apply shape_fail; apply TUpd, good_with_def; auto.
  - destruct (negb (has_meta (e_kind e))); [apply shape_fail|]. destruct a; [apply shape_set_olink_none; auto|].
    apply relink_section_shape; auto.
  - destruct (negb (has_meta (e_kind e))); [apply shape_fail|]. destruct (is_empty_str key); [apply shape_fail|].
    apply relink_section_shape; auto.
  - destruct (negb (kind_eqb (e_kind e) KSection)); [apply shape_fail|]. destruct a; [apply shape_set_olink_none; auto|].
    apply relink_section_shape; auto.
  - destruct (negb (kind_eqb (e_kind e) KSection)); [apply shape_fail|]. destruct (is_empty_str key); [apply shape_fail|].
    apply relink_section_shape; auto.
  - destruct (e_kind e); try apply shape_fail. destruct (block_of_ent s e); [|apply shape_fail].
    destruct (negb (valid s a)); [apply shape_fail|].
    destruct (block_find_key ids _ _) eqn:F; [|apply shape_fail].
    apply shape_set_olink_some; auto. apply block_find_key_in in F. eapply children_ents; eauto.
  - destruct (e_kind e); try apply shape_fail. destruct (block_of_ent s e); [|apply shape_fail].
    destruct (is_empty_str key); [apply shape_fail|].
    destruct (block_find_key ids _ _) eqn:F; [|apply shape_fail].
    apply shape_set_olink_some; auto. apply block_find_key_in in F. eapply children_ents; eauto.
  - destruct (e_kind e); try apply shape_fail. destruct (block_of_ent s e); [|apply shape_fail].
    destruct a; [apply shape_set_olink_none; auto|].
    destruct (negb (valid s (HEnt o1))); [apply shape_fail|]. apply set_extents_shape; auto.
  - destruct (e_kind e); try apply shape_fail. destruct (block_of_ent s e); [|apply shape_fail].
    destruct (is_empty_str key); [apply shape_fail|]. apply set_extents_shape; auto.
  - destruct (e_kind e); try apply shape_fail. destruct (block_of_ent s e); [|apply shape_fail].
    destruct (negb (valid s a)); [apply shape_fail|].
    destruct (block_find_key ids _ _) eqn:F; [|apply shape_fail].
    apply shape_set_olink_some; auto. apply block_find_key_in in F. eapply children_ents; eauto.
  - destruct (e_kind e); try apply shape_fail. destruct (block_of_ent s e); [|apply shape_fail].
    destruct (is_empty_str key); [apply shape_fail|].
    destruct (block_find_key ids _ _) eqn:F; [|apply shape_fail].
    apply shape_set_olink_some; auto. apply block_find_key_in in F. eapply children_ents; eauto.
  - destruct (e_kind e); try apply shape_fail; (destruct u; [destruct (first_bad_unit _ _ _); [apply shape_fail|]|]; apply TUpd, good_with_pay; auto).
  - destruct (e_kind e); try apply shape_fail.
    + destruct (dtype_eqb _ _); [apply shape_fail|].
      destruct (negb _); [apply shape_fail|]. apply TUpd, good_with_pay; auto.
    + destruct x as [|n [|]]; try apply shape_fail. apply TUpd, good_with_pay; auto.
  - destruct (e_kind e); try apply shape_fail. destruct vals as [|d0 vals]; [apply TUpd, good_with_pay; auto|].
    destruct (negb (dtype_eqb d0 _)); [apply shape_fail|].
    destruct (all_same d0 (d0 :: vals)); [apply TUpd, good_with_pay; auto|apply shape_fail].
  - destruct (e_kind e); try apply shape_fail. apply TUpd, good_with_pay; auto.
  - destruct (e_kind e); try apply shape_fail. apply TUpd, good_with_pay; auto.
  - (* append a dimension *)
    apply find_ent_some in Fe. destruct Fe as [He Eo].
    destruct (e_kind e); try apply shape_fail. destruct (block_of_ent s e); [|apply shape_fail].
    assert (Hold : forall t, In (DimFrame (Some t)) (l_dims (e_links e)) -> alive s t = true)
      by (destruct (inv_links _ _ _ H _ He) as [_ [_ A3]]; exact A3).
    assert (G : forall v, (forall t, In (DimFrame (Some t)) v -> alive s t = true) ->
                          shape s (ret (upd s o (with_links (set_dims v))) VUnit)).
    { intros v Hv. apply TUpd. apply good_with_links; auto. intros e' He' Eo'. apply links_alive_set_dims; auto.
      apply (inv_links _ _ _ H _ He'). }
    assert (App : forall d', (forall t, d' = DimFrame (Some t) -> alive s t = true) ->
                             forall t, In (DimFrame (Some t)) (l_dims (e_links e) ++ [d']) -> alive s t = true).
    { intros d' Hd t Ht. apply in_app_or in Ht. destruct Ht as [Ht|[Ht|[]]]; auto. }
    destruct d.
    + apply G, App. discriminate.
    + apply G, App. discriminate.
    + apply G, App. discriminate.
    + destruct (1 <? _); [apply shape_fail|]. destruct (negb (dtype_numeric _)); [apply shape_fail|].
      destruct (negb _); [apply shape_fail|]. apply G. intros t [Ht|[]]. discriminate.
    + destruct f; [apply shape_fail|]. destruct (block_find_key ids _ _) eqn:BF; [|apply shape_fail].
      apply G, App. intros t Et. inversion Et; subst. apply in_alive. apply block_find_key_in in BF. eapply children_ents; eauto.
  - (* deleteDimensions *)
    destruct (e_kind e); try apply shape_fail. apply TUpd. apply good_with_links; auto. intros e' He' _.
    apply links_alive_set_dims; [apply (inv_links _ _ _ H _ He')|]. intros t [].
  - (* setData(value) *)
    destruct (e_kind e); try apply shape_fail. destruct (dtype_writable mem _); cbn [negb]; [|apply shape_fail].
    destruct (negb _); [apply shape_fail|]. apply TUpd, good_with_pay; auto.
  - (* appendData *)
    destruct (e_kind e); try apply shape_fail. destruct (_ <=? axis); [apply shape_fail|].
    destruct (negb (_ =? _)); [apply shape_fail|]. destruct (negb (same_but _ _ _ _)); [apply shape_fail|].
    destruct (dtype_writable mem _); cbn [negb]; [|apply shape_fail]. apply TUpd, good_with_pay; auto.
  - (* Feature::linkType *)
    destruct (e_kind e); try apply shape_fail. apply TUpd, good_with_pay; auto.
  - (* a write outside the model *)
    destruct (existsb _ ks); [apply shape_ret_same|apply shape_fail].
Qed.

(** ** every step *)
Theorem step_shape s o : Inv s -> fresh s -> shape s (step ids sanitize unit_ok repaired s o).
Proof.
  intros H F. unfold step.
  assert (WC : forall p k f, ((forall q, p = Some q -> alive s q = true) -> forall pk, shape s (f pk)) -> shape s (with_container s p k f)).
  { intros p k f Hf. unfold with_container. destruct (parent_kind s p) eqn:PK; [|apply shape_fail].
    destruct (container_ok o0 k); [apply Hf|apply shape_fail].
    intros q Eq. subst p. unfold parent_kind in PK. unfold alive. destruct (find_ent s q); [reflexivity|discriminate]. }
  destruct o; try (apply do_link_op_shape; auto); try (apply do_setter_shape; auto).
  - apply WC. intros Hpar pk. apply do_create_shape; auto.
  - apply WC. intros _ pk. destruct (lookup_ok s pk p k key) as [x E]. rewrite E. apply do_delete_found_shape.
  - apply WC. intros _ pk. destruct (hent s a); [|apply shape_ret_same].
    destruct (lookup_h_ok s pk p k e true) as [x E]. rewrite E. apply do_delete_found_shape.
  - apply WC. intros _ pk. destruct (lookup_ok s pk p k key) as [x E]. rewrite E. apply res_value_shape.
  - apply WC. intros _ pk. destruct (hent s a); [|apply shape_ret_same].
    destruct (lookup_h_ok s pk p k e false) as [x E]. rewrite E. apply res_value_shape.
  - apply WC. intros _ pk. destruct (lookup_ok s pk p k key) as [x E].
    destruct pk as [[]|]; destruct k; try (rewrite E; apply res_value_shape);
      (destruct (is_empty_str key); [apply shape_fail|rewrite E; apply res_value_shape]).
  - apply WC. intros _ pk. apply get_idx_shape.
  - apply WC. intros _ pk. apply shape_ret_same.
  - apply WC. intros _ pk. apply shape_ret_same.
  - apply shape_ret_same.
Qed.

End Shape.
