(** * Store/DbLookup.v — from the invariant: lookups, has-queries, counts, enumeration and order agree (C03)

    All statements are about the REPAIRED step function in a state satisfying [Inv]; [c := children s p k] is
    the abstract container (the members in creation order).  For child containers:
      get by index i            = the i-th element of c
      get by name / by id       = the member with that name / id
      has by name / id / handle = true exactly for members
      count                     = length c,   enumeration = c
      c is sorted by oid (creation order); deleting others and reopening keep the relative order.
    For link containers (references, entity sources, group members): count / enumeration / index agree with the
    stored target list; by-id lookups find the target; by-name lookups are stated under the hypothesis that
    makes them unambiguous (see the comments there). *)
From Coq Require Import List ZArith Bool String Ascii Arith Lia Sorting.Sorted.
Require Import NixV.Base.Prelude NixV.Store.Db NixV.Store.DbOps NixV.Store.DbInv NixV.Store.DbShape.
Import ListNotations.

Section Lookup.
Variable ids : nat -> string.
Hypothesis ids_inj : forall a b, ids a = ids b -> a = b.
Variable Nmax : nat.
Hypothesis ids_uuid : forall a, a < Nmax -> looksLikeUUID (ids a) = true.
Variable sanitize : string -> string.
Variable unit_ok : string -> bool.

Notation eid := (eid ids).
Notation link_name := (link_name ids).
Notation Inv := (Inv ids Nmax).
Notation stepR := (step ids sanitize unit_ok repaired).

Lemma eid_uuid s e : Inv s -> In e (ents s) -> looksLikeUUID (eid e) = true.
Proof. apply (eid_uuid_in ids Nmax ids_uuid). Qed.
Lemma eid_nonempty s e : Inv s -> In e (ents s) -> is_empty_str (eid e) = false.
Proof. intros H He. apply is_empty_str_false, uuid_nonempty. eapply eid_uuid; eauto. Qed.

(** ** finding a member of a duplicate-free list *)
Lemma find_unique {A} (f : A -> string) (l : list A) (e : A) :
  NoDup (map f l) -> In e l -> find (fun x => String.eqb (f x) (f e)) l = Some e.
Proof.
  induction l as [|a l IH]; simpl; [tauto|]. intros N [E|Hin].
  - subst. rewrite String.eqb_refl. reflexivity.
  - inversion N; subst. destruct (String.eqb (f a) (f e)) eqn:Q.
    + apply String.eqb_eq in Q. exfalso. apply H1. rewrite Q. apply in_map; auto.
    + apply IH; auto.
Qed.

Lemma link_name_nonempty s e : Inv s -> In e (ents s) -> link_name e <> EmptyString.
Proof.
  intros H He. unfold DbOps.link_name. destruct (e_kind e) eqn:K;
    try (apply (inv_nonempty _ _ _ H _ He); congruence).
  apply (uuid_nonempty). eapply eid_uuid; eauto.
Qed.

Lemma find_link_self s p k e : Inv s -> In e (children s p k) -> find_link ids (children s p k) (link_name e) = Some e.
Proof.
  intros H He. unfold find_link.
  assert (N : link_name e <> EmptyString) by (eapply link_name_nonempty; eauto; eapply children_ents; eauto).
  apply is_empty_str_false in N. rewrite N. apply (find_unique link_name); auto. apply (inv_names _ _ _ H).
Qed.

Lemma eids_nodup s : Inv s -> NoDup (map eid (ents s)).
Proof.
  intros H. pose proof (inv_oids_nodup _ _ _ H) as N.
  assert (E : map eid (ents s) = map ids (map e_oid (ents s))).
  { rewrite map_map. apply map_ext_in. intros a Ha. unfold DbOps.eid. rewrite (inv_idx _ _ _ H _ Ha). reflexivity. }
  rewrite E. clear E. induction N; simpl; constructor; auto.
  intro Hin. apply in_map_iff in Hin. destruct Hin as [y [Hy Hin]]. apply ids_inj in Hy. subst. auto.
Qed.

Lemma find_id_self s (c : list ent) e :
  Inv s -> (forall x, In x c -> In x (ents s)) -> In e c -> find_id ids c (eid e) = Some e.
Proof.
  intros H Hc He. unfold find_id.
  destruct (find (fun x => String.eqb (eid x) (eid e)) c) eqn:F.
  - apply find_some in F. destruct F as [F1 F2]. apply String.eqb_eq in F2. f_equal.
    eapply (eid_inj ids ids_inj Nmax); eauto.
  - exfalso. eapply find_none in F; eauto. simpl in F. rewrite String.eqb_refl in F. discriminate.
Qed.

(** by id: the link-name attempt can only hit the entity itself ([inv_linkid]); then the id scan finds it *)
Lemma find_name_or_id_by_id s p k e :
  Inv s -> In e (children s p k) -> find_name_or_id ids (children s p k) (eid e) = Some e.
Proof.
  intros H He. unfold find_name_or_id. destruct (find_link ids (children s p k) (eid e)) eqn:F.
  - apply find_link_in in F. destruct F as [F1 F2]. f_equal. eapply (inv_linkid _ _ _ H); eauto.
  - rewrite (eid_uuid s e H (children_ents _ _ _ _ He)). eapply find_id_self; eauto. intros x Hx. eapply children_ents; eauto.
Qed.

Lemma find_name_or_id_by_name s p k e :
  Inv s -> In e (children s p k) -> find_name_or_id ids (children s p k) (link_name e) = Some e.
Proof. intros H He. unfold find_name_or_id. rewrite (find_link_self s p k e H He). reflexivity. Qed.

Lemma block_find_by_name s p k e :
  Inv s -> In e (children s p k) -> block_find ids (children s p k) (link_name e) EmptyString = Some e.
Proof.
  intros H He. unfold block_find.
  assert (N : link_name e <> EmptyString) by (eapply link_name_nonempty; eauto; eapply children_ents; eauto).
  apply is_empty_str_false in N. rewrite N. simpl. rewrite (find_link_self s p k e H He). reflexivity.
Qed.

Lemma block_find_key_by_name s p k e :
  Inv s -> In e (children s p k) -> block_find_key ids (children s p k) (link_name e) = Some e.
Proof.
  intros H He. unfold block_find_key, ident_of_key.
  assert (N : link_name e <> EmptyString) by (eapply link_name_nonempty; eauto; eapply children_ents; eauto).
  apply is_empty_str_false in N.
  destruct (looksLikeUUID (link_name e)).
  - unfold block_find. simpl. rewrite N. simpl. rewrite (find_link_self s p k e H He). reflexivity.
  - apply block_find_by_name; auto.
Qed.

Lemma block_find_key_by_id s p k e :
  Inv s -> In e (children s p k) -> block_find_key ids (children s p k) (eid e) = Some e.
Proof.
  intros H He. pose proof (children_ents _ _ _ _ He) as Hin.
  unfold block_find_key, ident_of_key. rewrite (eid_uuid s e H Hin). unfold block_find. simpl.
  assert (N : is_empty_str (eid e) = false) by (eapply eid_nonempty; eauto).
  rewrite N. simpl. destruct (find_link ids (children s p k) (eid e)) eqn:F.
  - apply find_link_in in F. destruct F as [F1 F2]. f_equal. eapply (inv_linkid _ _ _ H); eauto.
  - rewrite (find_id_self s _ e H); auto. intros x Hx. eapply children_ents; eauto.
Qed.

(** by handle at block level: Identity(name, id) *)
Lemma block_find_by_handle s p k e :
  Inv s -> In e (children s p k) -> e_kind e <> KFeature -> block_find ids (children s p k) (e_name e) (eid e) = Some e.
Proof.
  intros H He K. unfold block_find.
  assert (Ln : link_name e = e_name e) by (unfold DbOps.link_name; destruct (e_kind e); congruence).
  assert (N : is_empty_str (e_name e) = false).
  { apply is_empty_str_false. apply (inv_nonempty _ _ _ H); auto. eapply children_ents; eauto. }
  assert (N2 : is_empty_str (eid e) = false) by (eapply eid_nonempty; eauto; eapply children_ents; eauto).
  rewrite N, N2. simpl. rewrite <- Ln. rewrite (find_link_self s p k e H He). rewrite String.eqb_refl. reflexivity.
Qed.

(** a handle whose entity is found is a handle to a member *)
Lemma block_find_handle_sound s (c : list ent) e x :
  Inv s -> (forall y, In y c -> In y (ents s)) -> In e (ents s) -> e_kind e <> KFeature ->
  block_find ids c (e_name e) (eid e) = Some x -> x = e /\ In e c.
Proof.
  intros H Hc He K. unfold block_find.
  assert (N : is_empty_str (e_name e) = false) by (apply is_empty_str_false; apply (inv_nonempty _ _ _ H); auto).
  assert (N2 : is_empty_str (eid e) = false) by (eapply eid_nonempty; eauto).
  rewrite N, N2. simpl.
  destruct (find_link ids c (e_name e)) eqn:F.
  - destruct (String.eqb (eid e0) (eid e)) eqn:Q; simpl; [|discriminate]. intros E. inversion E; subst.
    apply String.eqb_eq in Q. apply find_link_in in F. destruct F as [F1 _].
    assert (x = e) by (eapply (eid_inj ids ids_inj Nmax); eauto). subst. auto.
  - destruct (find_id ids c (eid e)) eqn:G; [|discriminate]. apply find_id_in in G. destruct G as [G1 G2].
    rewrite G2, String.eqb_refl. simpl. intros E. inversion E; subst.
    assert (x = e) by (eapply (eid_inj ids ids_inj Nmax); eauto). subst. auto.
Qed.

(** ** the container a step addresses *)
Definition container (s : db) (p : option nat) (k : kind) (pk : option kind) : Prop :=
  parent_kind s p = Some pk /\ container_ok pk k = true.

Lemma with_container_ok s p k pk f : container s p k pk -> with_container s p k f = f pk.
Proof. intros [P C]. unfold with_container. rewrite P, C. reflexivity. Qed.

Lemma block_container_no_feature pk k : container_ok pk k = true -> pk = Some KBlock -> k <> KFeature.
Proof. intros C E. subst. destruct k; simpl in C; congruence. Qed.

(** ** C03: child containers *)
Theorem count_is_length s p k pk : container s p k pk ->
  stepR s (OCount p k) = (s, Ok (VNat (List.length (children s p k)))).
Proof. intros C. simpl. rewrite (with_container_ok _ _ _ _ _ C). reflexivity. Qed.

Lemma lookup_named_by_name s pk p k e :
  Inv s -> In e (children s p k) -> lookup_named ids pk (children s p k) (link_name e) = Some e.
Proof.
  intros H He. unfold lookup_named. destruct pk as [[]|]; try (apply find_name_or_id_by_name; auto).
  apply block_find_key_by_name; auto.
Qed.

Lemma lookup_named_by_id s pk p k e :
  Inv s -> In e (children s p k) -> lookup_named ids pk (children s p k) (eid e) = Some e.
Proof.
  intros H He. unfold lookup_named. destruct pk as [[]|]; try (apply find_name_or_id_by_id; auto).
  apply block_find_key_by_id; auto.
Qed.

Lemma lookup_by_link_name s pk p k e :
  Inv s -> In e (children s p k) -> lookup ids repaired s pk p k (link_name e) = Ok (Some e).
Proof.
  intros H He. unfold lookup. destruct k eqn:K; try (rewrite (lookup_named_by_name s pk p _ e H He); reflexivity).
  unfold lookup_feature. rewrite (find_link_self s p KFeature e H He). reflexivity.
Qed.

Lemma lookup_by_id s pk p k e :
  Inv s -> In e (children s p k) -> lookup ids repaired s pk p k (eid e) = Ok (Some e).
Proof.
  intros H He. unfold lookup. destruct k eqn:K; try (rewrite (lookup_named_by_id s pk p _ e H He); reflexivity).
  unfold lookup_feature.
  assert (L : link_name e = eid e).
  { apply children_in in He. destruct He as [_ [_ Ke]]. unfold DbOps.link_name. rewrite Ke. reflexivity. }
  rewrite <- L. rewrite (find_link_self s p KFeature e H He). reflexivity.
Qed.

Lemma named_link_name e : e_kind e <> KFeature -> link_name e = e_name e.
Proof. intros K. unfold DbOps.link_name. destruct (e_kind e); congruence. Qed.

Theorem get_by_name s p k pk e : Inv s -> container s p k pk -> In e (children s p k) -> k <> KFeature ->
  stepR s (OGet p k (e_name e)) = (s, Ok (VEnt (Some (e_oid e)))).
Proof.
  intros H C He K. simpl. rewrite (with_container_ok _ _ _ _ _ C).
  assert (Ke : e_kind e <> KFeature) by (apply children_in in He; destruct He as [_ [_ Ke]]; congruence).
  rewrite <- (named_link_name e Ke).
  assert (R : res_value s (lookup ids repaired s pk p k (link_name e)) vopt = (s, Ok (VEnt (Some (e_oid e))))).
  { rewrite (lookup_by_link_name s pk p k e H He). reflexivity. }
  destruct pk as [[]|]; destruct k; auto; congruence.
Qed.

Theorem get_by_id s p k pk e : Inv s -> container s p k pk -> In e (children s p k) ->
  stepR s (OGet p k (eid e)) = (s, Ok (VEnt (Some (e_oid e)))).
Proof.
  intros H C He. simpl. rewrite (with_container_ok _ _ _ _ _ C).
  assert (R : res_value s (lookup ids repaired s pk p k (eid e)) vopt = (s, Ok (VEnt (Some (e_oid e))))).
  { rewrite (lookup_by_id s pk p k e H He). reflexivity. }
  assert (N : is_empty_str (eid e) = false) by (eapply eid_nonempty; eauto; eapply children_ents; eauto).
  destruct pk as [[]|]; destruct k; auto; rewrite N; auto.
Qed.

Theorem get_by_index s p k pk i e : Inv s -> container s p k pk -> nth_error (children s p k) i = Some e ->
  stepR s (OGetIdx p k i) = (s, Ok (VEnt (Some (e_oid e)))).
Proof.
  intros H C Hi. simpl. rewrite (with_container_ok _ _ _ _ _ C). unfold get_idx. rewrite Hi.
  assert (He : In e (children s p k)) by (eapply nth_error_In; eauto).
  destruct k eqn:K;
    try (destruct pk as [[]|];
         try (rewrite (find_name_or_id_by_name s p _ e H He); reflexivity);
         rewrite (block_find_by_name s p _ e H He); reflexivity).
  unfold lookup_feature. rewrite (find_link_self s p KFeature e H He). reflexivity.
Qed.

Theorem index_out_of_range s p k pk i : container s p k pk -> nth_error (children s p k) i = None ->
  stepR s (OGetIdx p k i) = (s, Err EOob).
Proof. intros C Hi. simpl. rewrite (with_container_ok _ _ _ _ _ C). unfold get_idx. rewrite Hi. reflexivity. Qed.

Theorem has_by_name s p k pk e : Inv s -> container s p k pk -> In e (children s p k) -> k <> KFeature ->
  stepR s (OHas p k (e_name e)) = (s, Ok (VBool true)).
Proof.
  intros H C He K. simpl. rewrite (with_container_ok _ _ _ _ _ C).
  assert (Ke : e_kind e <> KFeature) by (apply children_in in He; destruct He as [_ [_ Ke]]; congruence).
  rewrite <- (named_link_name e Ke). rewrite (lookup_by_link_name s pk p k e H He). reflexivity.
Qed.

Theorem has_by_id s p k pk e : Inv s -> container s p k pk -> In e (children s p k) ->
  stepR s (OHas p k (eid e)) = (s, Ok (VBool true)).
Proof.
  intros H C He. simpl. rewrite (with_container_ok _ _ _ _ _ C). rewrite (lookup_by_id s pk p k e H He). reflexivity.
Qed.

Theorem has_by_handle s p k pk e : Inv s -> container s p k pk -> In e (children s p k) ->
  stepR s (OHasH p k (HEnt (e_oid e))) = (s, Ok (VBool true)).
Proof.
  intros H C He. simpl. rewrite (with_container_ok _ _ _ _ _ C).
  assert (Hin : In e (ents s)) by (eapply children_ents; eauto).
  rewrite (find_ent_in ids Nmax s e H Hin). unfold lookup_h.
  destruct pk as [[]|] eqn:P; try (rewrite (lookup_by_id s _ p k e H He); reflexivity).
  assert (K : k <> KFeature) by (destruct C as [_ C]; eapply block_container_no_feature; eauto).
  assert (Ke : e_kind e <> KFeature) by (apply children_in in He; destruct He as [_ [_ Ke]]; congruence).
  simpl. rewrite (block_find_by_handle s p k e H He Ke). reflexivity.
Qed.

(** all lookups of one member agree *)
Theorem lookup_agree s p k pk i e : Inv s -> container s p k pk -> nth_error (children s p k) i = Some e ->
  stepR s (OGetIdx p k i) = (s, Ok (VEnt (Some (e_oid e)))) /\
  stepR s (OGet p k (eid e)) = (s, Ok (VEnt (Some (e_oid e)))) /\
  stepR s (OHas p k (eid e)) = (s, Ok (VBool true)) /\
  stepR s (OHasH p k (HEnt (e_oid e))) = (s, Ok (VBool true)) /\
  (k <> KFeature -> stepR s (OGet p k (e_name e)) = (s, Ok (VEnt (Some (e_oid e)))) /\
                    stepR s (OHas p k (e_name e)) = (s, Ok (VBool true))).
Proof.
  intros H C Hi. pose proof (nth_error_In _ _ Hi) as He.
  split; [eapply get_by_index; eauto|]. split; [eapply get_by_id; eauto|]. split; [eapply has_by_id; eauto|].
  split; [eapply has_by_handle; eauto|]. intros K. split; [eapply get_by_name; eauto|eapply has_by_name; eauto].
Qed.

(** has => present: a key that is found names a member (by its link name or by its id) *)
Theorem has_sound s p k pk key : Inv s -> container s p k pk -> k <> KFeature ->
  stepR s (OHas p k key) = (s, Ok (VBool true)) ->
  exists e, In e (children s p k) /\ (e_name e = key \/ eid e = key).
Proof.
  intros H C K. simpl. rewrite (with_container_ok _ _ _ _ _ C). unfold lookup.
  assert (L : forall x, lookup_named ids pk (children s p k) key = Some x ->
                        In x (children s p k) /\ (e_name x = key \/ eid x = key)).
  { intros x Lx. split; [eapply lookup_named_in; eauto|].
    assert (Kx : e_kind x <> KFeature).
    { apply lookup_named_in in Lx. apply children_in in Lx. destruct Lx as [_ [_ Kx]]. rewrite Kx. exact K. }
    unfold lookup_named in Lx.
    assert (FN : find_name_or_id ids (children s p k) key = Some x -> e_name x = key \/ eid x = key).
    { unfold find_name_or_id. destruct (find_link ids (children s p k) key) eqn:F.
      - intros E. inversion E; subst. apply find_link_in in F. left. rewrite <- (named_link_name x Kx). tauto.
      - destruct (looksLikeUUID key); [|discriminate]. intros G. apply find_id_in in G. tauto. }
    assert (BF : block_find_key ids (children s p k) key = Some x -> e_name x = key \/ eid x = key).
    { unfold block_find_key, ident_of_key. destruct (looksLikeUUID key); unfold block_find; simpl.
      - destruct (is_empty_str key); [discriminate|]. simpl.
        destruct (find_link ids (children s p k) key) eqn:F.
        + intros E. inversion E; subst. apply find_link_in in F. left. rewrite <- (named_link_name x Kx). tauto.
        + destruct (find_id ids (children s p k) key) eqn:G; [|discriminate]. intros E. inversion E; subst.
          apply find_id_in in G. tauto.
      - destruct (is_empty_str key); [discriminate|]. simpl.
        destruct (find_link ids (children s p k) key) eqn:F; [|discriminate].
        intros E. inversion E; subst. apply find_link_in in F. left. rewrite <- (named_link_name x Kx). tauto. }
    destruct pk as [[]|]; auto. }
  destruct k; try congruence;
    (destruct (lookup_named ids pk _ key) eqn:Q; simpl; [intros _; exists e; apply L; auto|intros E; inversion E]).
Qed.

(** has by handle => the handle's entity is a member.  Block-level containers compare name AND id
    (Identity(entity)); the other containers look the handle's id up like any key, link names first, so a member
    that is NAMED like the id of an entity living elsewhere answers for it — excluded by the hypothesis.
    The handle is of the container's entity type (the C++ signatures guarantee it). *)
Theorem has_handle_sound s p k pk e : Inv s -> container s p k pk -> k <> KFeature ->
  In e (ents s) -> e_kind e = k ->
  (pk = Some KBlock \/ forall x, In x (children s p k) -> e_name x <> eid e) ->
  stepR s (OHasH p k (HEnt (e_oid e))) = (s, Ok (VBool true)) -> In e (children s p k).
Proof.
  intros H C K Hin Ke Hyp. simpl. rewrite (with_container_ok _ _ _ _ _ C). unfold hent.
  rewrite (find_ent_in ids Nmax s e H Hin). unfold lookup_h.
  assert (Kf : e_kind e <> KFeature) by congruence.
  assert (NB : forall x, lookup_named ids pk (children s p k) (eid e) = Some x ->
                         (forall y, In y (children s p k) -> e_name y <> eid e) -> x = e).
  { intros x Lx Hy. pose proof (lookup_named_in _ _ _ _ _ Lx) as Hx.
    assert (NL : find_link ids (children s p k) (eid e) = None).
    { destruct (find_link ids (children s p k) (eid e)) eqn:G; auto. apply find_link_in in G. destruct G as [G1 G2].
      exfalso. apply (Hy _ G1). rewrite <- G2. symmetry. apply named_link_name.
      apply children_in in G1. destruct G1 as [_ [_ Kg]]. congruence. }
    unfold lookup_named in Lx.
    assert (FN : find_name_or_id ids (children s p k) (eid e) = Some x -> x = e).
    { unfold find_name_or_id. rewrite NL, (eid_uuid s e H Hin). intros G. apply find_id_in in G. destruct G as [G1 G2].
      eapply (eid_inj ids ids_inj Nmax); eauto. eapply children_ents; eauto. }
    assert (BF : block_find_key ids (children s p k) (eid e) = Some x -> x = e).
    { unfold block_find_key, ident_of_key. rewrite (eid_uuid s e H Hin). unfold block_find. simpl.
      destruct (is_empty_str (eid e)); [discriminate|]. simpl. rewrite NL.
      destruct (find_id ids (children s p k) (eid e)) eqn:G; [|discriminate]. intros E. inversion E; subst.
      apply find_id_in in G. destruct G as [G1 G2]. eapply (eid_inj ids ids_inj Nmax); eauto. eapply children_ents; eauto. }
    destruct pk as [[]|]; auto. }
  destruct pk as [[]|] eqn:P;
    try (destruct Hyp as [Hyp|Hyp]; [discriminate|]; unfold lookup;
         destruct k; try congruence;
         (destruct (lookup_named ids _ _ (eid e)) eqn:Q; simpl; [|intros E; inversion E]; intros _;
          assert (e0 = e) by (eapply NB; eauto); subst; eapply lookup_named_in; eauto)).
  (* block level *)
  simpl. destruct (block_find ids (children s p k) (e_name e) (eid e)) eqn:B; simpl; [|intros E; inversion E].
  intros _. destruct (block_find_handle_sound s (children s p k) e e0 H) as [_ M]; auto.
  intros y Hy. eapply children_ents; eauto.
Qed.

(** ** enumeration, order *)
Lemma flat_map_singleton {A B} (f : A -> list B) (g : A -> B) l :
  (forall a, In a l -> f a = [g a]) -> flat_map f l = map g l.
Proof.
  induction l as [|a l IH]; simpl; intros E; auto. rewrite E by (left; reflexivity). simpl. f_equal.
  apply IH. intros x Hx. apply E. right; auto.
Qed.

Theorem enumeration_is_container s p k pk : Inv s -> container s p k pk ->
  stepR s (OList p k) = (s, Ok (VEnts (map e_oid (children s p k)))).
Proof.
  intros H C. simpl. rewrite (with_container_ok _ _ _ _ _ C). unfold list_children.
  rewrite (flat_map_singleton _ e_oid); [reflexivity|].
  intros e He. destruct k; try (destruct pk as [[]|];
      try (rewrite (find_name_or_id_by_name s p _ e H He); reflexivity);
      rewrite (block_find_by_name s p _ e H He); reflexivity).
  rewrite (find_link_self s p KFeature e H He). reflexivity.
Qed.

Theorem order_is_creation_order s p k : Inv s -> StronglySorted lt (map e_oid (children s p k)).
Proof.
  intros H. pose proof (inv_sorted _ _ _ H) as S. unfold children. revert S. generalize (ents s).
  induction l as [|a l IH]; simpl; intros S; [constructor|]. inversion S; subst.
  destruct (in_container p k a); simpl; auto. constructor; auto.
  rewrite Forall_forall in *. intros y Hy. apply in_map_iff in Hy. destruct Hy as [z [Hz Hin]].
  apply filter_In in Hin. apply H3. subst. apply in_map. tauto.
Qed.

Theorem names_unique s p k : Inv s -> k <> KFeature -> NoDup (map e_name (children s p k)).
Proof.
  intros H K. pose proof (inv_names _ _ _ H p k) as N.
  rewrite (map_ext_in link_name e_name) in N; auto.
  intros a Ha. apply named_link_name. apply children_in in Ha. destruct Ha as [_ [_ Ka]]. congruence.
Qed.

Theorem ids_unique s : Inv s -> NoDup (map eid (ents s)).
Proof. apply eids_nodup. Qed.

(** deleting [x] (with its subtree) removes exactly the dead members and keeps the others in their order *)
Theorem delete_preserves_relative_order s x p k :
  map e_oid (children (remove_subtree s x) p k) =
  filter (fun o => negb (memn o (subtree s x))) (map e_oid (children s p k)).
Proof.
  rewrite children_remove, map_map. simpl. induction (children s p k) as [|a l IH]; simpl; auto.
  unfold survives at 1. destruct (negb (memn (e_oid a) (subtree s x))); simpl; rewrite IH; auto.
Qed.

(** a create that succeeds appends to its container and leaves every other container alone *)
Lemma create_backend_ok s p k name type lk py s' v :
  create_backend s p k name type lk py = (s', Ok v) ->
  s' = add_ent s (mkEnt (new_hdr s k p name type) lk py) /\ v = VEnt (Some (next s)).
Proof. unfold create_backend. destruct (h5_bad_link_name name); intros E; inversion E. auto. Qed.

Lemma add_ent_appends s s' p k lk py n t : s' = add_ent s (mkEnt (new_hdr s k p n t) lk py) ->
  map e_oid (children s' p k) = map e_oid (children s p k) ++ [next s] /\
  forall p' k', (p', k') <> (p, k) -> children s' p' k' = children s p' k'.
Proof.
  intros E. subst s'. split.
  - rewrite children_add.
    assert (IC : in_container p k (mkEnt (new_hdr s k p n t) lk py) = true).
    { unfold in_container. apply andb_true_iff. split; [apply opt_nat_eqb_eq; reflexivity|apply kind_eqb_refl]. }
    rewrite IC, map_app. reflexivity.
  - intros p' k' Hne. rewrite children_add.
    destruct (in_container p' k' (mkEnt (new_hdr s k p n t) lk py)) eqn:IC; [|apply app_nil_r].
    unfold in_container in IC. apply andb_true_iff in IC. destruct IC as [E1 E2].
    apply opt_nat_eqb_eq in E1. apply kind_eqb_eq in E2. cbn in E1, E2. subst. exfalso. apply Hne. reflexivity.
Qed.

Ltac appends_crush :=
  repeat (match goal with
          | |- (fail _ _) = _ -> _ => let E := fresh "E" in intros E; discriminate E
          | |- create_backend _ _ _ _ _ _ _ = _ -> _ =>
            let E := fresh "E" in let E1 := fresh "E1" in let E2 := fresh "E2" in
            intros E; apply create_backend_ok in E; destruct E as [E1 E2]; split; [exact E2|eapply add_ent_appends; eauto]
          | |- context [match ?y with _ => _ end] => destruct y
          end).

Lemma create_array_appends s pk p name type dt shp s' v :
  create_array ids repaired s pk p name type dt shp = (s', Ok v) ->
  v = VEnt (Some (next s)) /\
  map e_oid (children s' p KArray) = map e_oid (children s p KArray) ++ [next s] /\
  forall p' k', (p', k') <> (p, KArray) -> children s' p' k' = children s p' k'.
Proof. unfold create_array. beh. appends_crush. Qed.

Theorem create_appends s pk p k name type x s' v :
  do_create ids repaired s pk p k name type x = (s', Ok v) ->
  v = VEnt (Some (next s)) /\
  map e_oid (children s' p k) = map e_oid (children s p k) ++ [next s] /\
  forall p' k', (p', k') <> (p, k) -> children s' p' k' = children s p' k'.
Proof.
  unfold do_create. destruct k, x; try (intros E; discriminate E); beh; try (apply create_array_appends).
  - appends_crush.
  - appends_crush.
  - appends_crush.
  - appends_crush.
  - (* array from data *)
    destruct (dtype_writable mem _); cbn [negb]; [|intros E; discriminate E].
    destruct (create_array ids repaired s pk p name type _ [n]) as [s1 r] eqn:CA. cbn [fst snd]. destruct r; intros E; inversion E; subst.
    eapply create_array_appends; eauto.
  - appends_crush.
  - appends_crush.
  - appends_crush.
  - appends_crush.
  - appends_crush.
  - appends_crush.
  - appends_crush.
Qed.

(** close and reopen: the library keeps no state outside the file *)
Theorem reopen_preserves_order s : stepR s OReopen = (s, Ok VUnit).
Proof. reflexivity. Qed.

(** ** C03: link containers (references, entity sources, group members) *)
Definition lcontainer (s : db) (h : nat) (sl : lslot) (he : ent) (b : nat) : Prop :=
  find_ent s h = Some he /\ holder_ok (e_kind he) sl = true /\ block_of_ent s he = Some b.

Lemma lcontainer_in s h sl he b : lcontainer s h sl he b -> In he (ents s) /\ e_oid he = h.
Proof. intros [F _]. apply find_ent_some in F. auto. Qed.

(** the stored targets are all alive, so resolving them loses nothing *)
Lemma members_oids s he sl : Inv s -> In he (ents s) -> map e_oid (members s he sl) = get_l sl (e_links he).
Proof.
  intros H Hh. destruct (inv_links _ _ _ H _ Hh) as [A1 _]. destruct (A1 sl) as [_ T].
  unfold members, resolve. revert T. generalize (get_l sl (e_links he)).
  induction l as [|o l IH]; simpl; intros T; auto.
  assert (Ao : alive s o = true) by (apply T; left; reflexivity).
  unfold alive in Ao. destruct (find_ent s o) eqn:F; [|discriminate].
  apply find_ent_some in F. destruct F as [_ F]. simpl. rewrite F. f_equal. apply IH. intros t Ht. apply T. right; auto.
Qed.

Lemma members_ents s he sl t : In t (members s he sl) -> In t (ents s).
Proof. intros Ht. apply resolve_in in Ht. tauto. Qed.

Theorem lcount_is_length s h sl he b : Inv s -> lcontainer s h sl he b ->
  stepR s (OLCount h sl) = (s, Ok (VNat (List.length (get_l sl (e_links he))))).
Proof.
  intros H C. pose proof (lcontainer_in _ _ _ _ _ C) as [Hh _]. destruct C as [F [K B]].
  simpl. unfold do_link_op. rewrite F, K, B. simpl. rewrite <- (members_oids s he sl H Hh), map_length. reflexivity.
Qed.

Theorem lenumeration_is_container s h sl he b : Inv s -> lcontainer s h sl he b ->
  stepR s (OLList h sl) = (s, Ok (VEnts (get_l sl (e_links he)))).
Proof.
  intros H C. pose proof (lcontainer_in _ _ _ _ _ C) as [Hh _]. destruct C as [F [K B]].
  simpl. unfold do_link_op. rewrite F, K, B. simpl. rewrite (members_oids s he sl H Hh). reflexivity.
Qed.

Theorem lget_by_index s h sl he b i t : Inv s -> lcontainer s h sl he b ->
  nth_error (get_l sl (e_links he)) i = Some t -> stepR s (OLGetIdx h sl i) = (s, Ok (VEnt (Some t))).
Proof.
  intros H C Hi. pose proof (lcontainer_in _ _ _ _ _ C) as [Hh _]. destruct C as [F [K B]].
  simpl. unfold do_link_op. rewrite F, K, B. simpl.
  rewrite <- (members_oids s he sl H Hh) in Hi. rewrite nth_error_map in Hi.
  destruct (nth_error (members s he sl) i); simpl in Hi; inversion Hi. reflexivity.
Qed.

Lemma find_id_member s he sl t : Inv s -> In t (members s he sl) -> find_id ids (members s he sl) (eid t) = Some t.
Proof. intros H Ht. apply (find_id_self s); auto. intros x Hx. eapply members_ents; eauto. Qed.

(** entity sources and group members by the target's id *)
Theorem lget_by_id s h sl he b t : Inv s -> lcontainer s h sl he b -> sl <> LRefs -> In t (members s he sl) ->
  stepR s (OLGet h sl (eid t)) = (s, Ok (VEnt (Some (e_oid t)))) /\
  stepR s (OLHasS h sl (eid t)) = (s, Ok (VBool true)) /\
  stepR s (OLHas h sl (HEnt (e_oid t))) = (s, Ok (VBool true)).
Proof.
  intros H C NR Ht. destruct C as [F [K B]].
  pose proof (find_id_member s he sl t H Ht) as FI.
  pose proof (members_ents _ _ _ _ Ht) as Hin.
  pose proof (find_ent_in ids Nmax s t H Hin) as Ft.
  pose proof (eid_nonempty s t H Hin) as Ne.
  assert (GK : group_find_key ids repaired (members s he sl) (eid t) = Some t).
  { unfold group_find_key, ident_of_key. rewrite (eid_uuid s t H Hin). unfold group_find. simpl. rewrite Ne. simpl.
    rewrite Ne, FI. reflexivity. }
  assert (GH : group_find ids repaired (members s he sl) (e_name t) (eid t) = Some t).
  { unfold group_find. rewrite Ne. simpl.
    replace (negb (negb (is_empty_str (e_name t))) && false) with false by (destruct (is_empty_str (e_name t)); reflexivity).
    rewrite Ne, FI. rewrite String.eqb_refl. destruct (negb (is_empty_str (e_name t))); reflexivity. }
  simpl. unfold do_link_op. rewrite F, K, B. simpl. unfold hent, hid, hent. rewrite Ft.
  destruct sl; try congruence; simpl; beh; unfold esrc_has, esrc_get; beh;
    rewrite ?Ne, ?FI, ?GK, ?GH; auto.
Qed.

(** references by id, by name and by handle — for a target that is an array of the holder's block (which is what
    addReference links; the invariant does not carry this fact, so it is a hypothesis here) *)
Lemma resolve_entity_id_repaired arrays key :
  resolve_entity_id ids repaired arrays key =
  match block_find_key ids arrays key with Some e => eid e | None => snd (ident_of_key key) end.
Proof. unfold resolve_entity_id, block_find_key. destruct (ident_of_key key). reflexivity. Qed.

Theorem lget_reference s h he b t : Inv s -> lcontainer s h LRefs he b ->
  In t (members s he LRefs) -> In t (children s (Some b) KArray) ->
  stepR s (OLGet h LRefs (eid t)) = (s, Ok (VEnt (Some (e_oid t)))) /\
  stepR s (OLGet h LRefs (e_name t)) = (s, Ok (VEnt (Some (e_oid t)))) /\
  stepR s (OLHasS h LRefs (eid t)) = (s, Ok (VBool true)) /\
  stepR s (OLHasS h LRefs (e_name t)) = (s, Ok (VBool true)) /\
  stepR s (OLHas h LRefs (HEnt (e_oid t))) = (s, Ok (VBool true)).
Proof.
  intros H C Ht Hb. destruct C as [F [K B]].
  pose proof (find_id_member s he LRefs t H Ht) as FI.
  pose proof (members_ents _ _ _ _ Ht) as Hin.
  pose proof (find_ent_in ids Nmax s t H Hin) as Ft.
  pose proof (eid_nonempty s t H Hin) as Ne.
  assert (Kt : e_kind t <> KFeature) by (apply children_in in Hb; destruct Hb as [_ [_ Kt]]; congruence).
  assert (R1 : ref_get ids repaired (children s (Some b) KArray) (members s he LRefs) (eid t) = Some t).
  { unfold ref_get. rewrite resolve_entity_id_repaired, (block_find_key_by_id s _ _ t H Hb), Ne. exact FI. }
  assert (R2 : ref_get ids repaired (children s (Some b) KArray) (members s he LRefs) (e_name t) = Some t).
  { unfold ref_get. rewrite resolve_entity_id_repaired. rewrite <- (named_link_name t Kt).
    rewrite (block_find_key_by_name s _ _ t H Hb), Ne. exact FI. }
  simpl. unfold do_link_op. rewrite F, K, B. simpl. unfold hent. rewrite Ft, R1, R2, String.eqb_refl. auto.
Qed.

(** adding appends, removing filters: the relative order of the remaining links never changes *)
Theorem add_member_appends (he : ent) sl t :
  get_l sl (e_links (with_links (set_l sl (get_l sl (e_links he) ++ [t])) he)) = get_l sl (e_links he) ++ [t].
Proof. simpl. apply get_l_set_l_same. Qed.

Theorem remove_member_filters (he : ent) sl t :
  get_l sl (e_links (with_links (set_l sl (filter (fun x => negb (Nat.eqb x t)) (get_l sl (e_links he)))) he)) =
  filter (fun x => negb (Nat.eqb x t)) (get_l sl (e_links he)).
Proof. simpl. apply get_l_set_l_same. Qed.

End Lookup.
