(** * Store/DbDeleteWitness.v — C04: witness histories on the concrete id supply of DbWitness.v

    [rc_valid]: the behaviour of the pinned code in the one point C04 depends on — isValidEntity() is "HDF5 link count > 0".
    Each witness runs a short history in a session (the application keeps its handles) and shows a handle to a DELETED
    entity that still reports valid; under [repaired] (validity = reachable from the root) it reports invalid. *)
From Coq Require Import List ZArith Bool String Ascii Arith Lia.
Require Import NixV.Base.Prelude NixV.Store.Db NixV.Store.DbOps NixV.Store.DbObserve NixV.Store.DbInv NixV.Store.DbShape
        NixV.Store.DbNoTrace NixV.Store.DbWitness NixV.Store.DbSession NixV.Store.DbDelete.
Import ListNotations.
Local Open Scope string_scope.

Definition rc_valid : behaviour := mkBeh true true true true true true true true true true true true true true true false true true true true true.

Definition srunW (b : behaviour) (l : list op) : sess := srun wid wsan wunit b init_sess (map SOp l).

(** what the two behaviours say about the handle of ordinal [o] after the history *)
Definition zombie (l : list op) (o : nat) : Prop :=
  alive (s_db (srunW rc_valid l)) o = false /\ svalid rc_valid (srunW rc_valid l) (HEnt o) = true /\
  svalid repaired (srunW repaired l) (HEnt o) = false.

(** #13: a 1-D array with an alias range dimension links to itself (dimensions/1/<id> -> the array) *)
Definition alias_ops : list op :=
  [ OCreate None KBlock "b" "t" XNone; OCreate (Some 0) KArray "a" "t" (XArray DDouble [3%Z]);
    ODimAdd 1 DimAlias HNone; ODelete (Some 0) KArray "a" ].
Example alias_self_link_refuted : zombie alias_ops 1.
Proof. repeat split; vm_compute; reflexivity. Qed.

(** a tag that references the array is deleted first (its handle is still open), then the array *)
Definition holder_ops : list op :=
  [ OCreate None KBlock "b" "t" XNone; OCreate (Some 0) KArray "a" "t" (XArray DDouble [3%Z]);
    OCreate (Some 0) KTag "tg" "t" (XTag ["d:0"]); OLAdd 2 LRefs (HEnt 1);
    ODelete (Some 0) KTag "tg"; ODelete (Some 0) KArray "a" ].
Example deleted_holder_refuted : zombie holder_ops 1.
Proof. repeat split; vm_compute; reflexivity. Qed.

(** the other order is fine: the tag is still reachable when the array goes, its reference is removed *)
Definition holder_ops_other_order : list op :=
  [ OCreate None KBlock "b" "t" XNone; OCreate (Some 0) KArray "a" "t" (XArray DDouble [3%Z]);
    OCreate (Some 0) KTag "tg" "t" (XTag ["d:0"]); OLAdd 2 LRefs (HEnt 1);
    ODelete (Some 0) KArray "a"; ODelete (Some 0) KTag "tg" ].
Example deleted_target_first_ok :
  svalid rc_valid (srunW rc_valid holder_ops_other_order) (HEnt 1) = false /\
  svalid rc_valid (srunW rc_valid holder_ops_other_order) (HEnt 2) = false.
Proof. split; vm_compute; reflexivity. Qed.

(** a section linked to itself *)
Definition selflink_ops : list op :=
  [ OCreate None KSection "s" "t" XNone; OSetLink 0 (HEnt 0); ODelete None KSection "s" ].
Example section_self_link_refuted : zombie selflink_ops 0.
Proof. repeat split; vm_compute; reflexivity. Qed.

(** a child section linked to its parent: the child is unlinked first, its link to the parent is never found *)
Definition childlink_ops : list op :=
  [ OCreate None KSection "s" "t" XNone; OCreate (Some 0) KSection "c" "t" XNone; OSetLink 1 (HEnt 0);
    ODelete None KSection "s" ].
Example section_child_link_refuted : zombie childlink_ops 0.
Proof. repeat split; vm_compute; reflexivity. Qed.

(** entities that went with their parent were never unlinked themselves: the array of a deleted block, the property
    of a deleted section, the feature of a deleted tag *)
Definition orphan_ops : list op :=
  [ OCreate None KBlock "b" "t" XNone; OCreate (Some 0) KArray "a" "t" (XArray DDouble [3%Z]);
    ODelete None KBlock "b" ].
Example orphan_array_refuted : zombie orphan_ops 1.
Proof. repeat split; vm_compute; reflexivity. Qed.
(** the block itself was unlinked: its handle is invalid also today *)
Example deleted_block_invalid : svalid rc_valid (srunW rc_valid orphan_ops) (HEnt 0) = false.
Proof. vm_compute; reflexivity. Qed.

Definition orphan_prop_ops : list op :=
  [ OCreate None KSection "s" "t" XNone; OCreate (Some 0) KProperty "p" "" (XPropT DInt32); ODelete None KSection "s" ].
Example orphan_property_refuted : zombie orphan_prop_ops 1.
Proof. repeat split; vm_compute; reflexivity. Qed.

(** closing the file frees the deleted objects that nothing links to any more (the tag and, with it, its reference) ... *)
Example close_frees_unreferenced :
  s_ghosts (srun wid wsan wunit rc_valid (srunW rc_valid holder_ops) [SClose; SOpen MRW]) = [].
Proof. vm_compute; reflexivity. Qed.
(** ... but not what sits on a cycle: the array with the alias dimension stays in the file for ever, unreachable — and with it
    every link IT holds: the section that is its metadata keeps a positive link count; deleted after a REOPEN, its handle
    still reports valid *)
Definition leak_ops : list op :=
  [ OCreate None KSection "s" "t" XNone; OCreate None KBlock "b" "t" XNone;
    OCreate (Some 1) KArray "a" "t" (XArray DDouble [3%Z]); ODimAdd 2 DimAlias HNone; OSetMeta 2 (HEnt 0);
    ODelete None KBlock "b" ].
Definition after_leak (b : behaviour) : sess :=
  srun wid wsan wunit b (srunW b leak_ops) [SClose; SOpen MRW; SOp (ODelete None KSection "s")].
Example leaked_alias_array_refuted :
  map gh_oid (s_ghosts (srun wid wsan wunit rc_valid (srunW rc_valid leak_ops) [SClose; SOpen MRW])) = [2] /\
  alive (s_db (after_leak rc_valid)) 0 = false /\ svalid rc_valid (after_leak rc_valid) (HEnt 0) = true /\
  svalid repaired (after_leak repaired) (HEnt 0) = false.
Proof. repeat split; vm_compute; reflexivity. Qed.

(** the data-frame dimension: deleting the frame removes the link inside the descriptor; the descriptor stays, frame-less
    (like a multi-tag whose positions array was deleted); nothing dangles *)
Definition framedim_ops : list op :=
  [ OCreate None KBlock "b" "t" XNone; OCreate (Some 0) KFrame "f" "t" (XFrame [col "c" DInt32]);
    OCreate (Some 0) KArray "a" "t" (XArray DDouble [3%Z]); ODimAdd 2 (DimFrame None) (HEnt 1); ODimAdd 2 DimSet HNone;
    ODelete (Some 0) KFrame "f" ].
Example frame_dimension_scrubbed :
  (exists e, find_ent (s_db (srunW repaired (firstn 5 framedim_ops))) 2 = Some e /\ l_dims (e_links e) = [DimFrame (Some 1); DimSet]) /\
  (exists e, find_ent (s_db (srunW repaired framedim_ops)) 2 = Some e /\ l_dims (e_links e) = [DimFrame None; DimSet]) /\
  svalid rc_valid (srunW rc_valid framedim_ops) (HEnt 1) = false.
Proof. repeat split; try (eexists; split; vm_compute; reflexivity); vm_compute; reflexivity. Qed.

(** the populated file of DbWitness.v: deleting the hub array 1 (metadata holder, extents, referenced, source holder)
    and the section 8 leaves no dangling link — computed, as a sanity check next to the theorem *)
Definition all_targets_alive (s : db) : bool :=
  forallb (fun e => forallb (alive s) (targets (e_links e))) (ents s).
Example base_delete_no_dangling :
  all_targets_alive (fst (stepW repaired (base repaired) (ODelete (Some 0) KArray "a"))) = true /\
  all_targets_alive (fst (stepW repaired (base repaired) (ODelete None KSection "s"))) = true /\
  alive (fst (stepW repaired (base repaired) (ODelete None KSection "s"))) 9 = false.
Proof. repeat split; vm_compute; reflexivity. Qed.
