(** C13 — dimension descriptors of ONE DataArray: executable model of every dimension entry point of
    include/nix/DataArray.hpp, src/DataArray.cpp, src/Dimensions.cpp, include/nix/Dimensions.hpp,
    backend/hdf5/DataArrayHDF5.cpp and backend/hdf5/DimensionHDF5.cpp, written in the ORDER of the
    code's checks and backend effects, with the exception class each check throws.

    Storage as the backend keeps it: the group "dimensions" holds one sub-group per descriptor, NAMED by
    its index ("1", "2", ...).  [dimensionCount()] is the number of sub-groups, [getDimension(i)] looks
    the NAME i up.  The model keeps exactly that: [dims : list (Z * dimdesc)] in creation order, keyed by
    the group name - gap-freeness (names are 1..n) is a theorem about the code's algorithm, not built in.

    The alias range dimension holds a link to its own array and redirects label / unit / ticks to the
    array's attributes and data ([RangeDimensionHDF5::redirectGroup]).

    Known deviations of the pinned tree from the property are kept behind the switches of [behaviour]:
    [code_today] is the code as it is, [repaired] the behaviour after the proposed patch
    (notes/proposed-fixes/C13-append-dimension-checks.patch).  Each switch is consulted at exactly one or
    two places, marked (* SWITCH *).  [current_behaviour] is the ONE definition the extracted driver uses.

    Domain notes: column indices are C++ [unsigned] (below 2^32); [ticks(start,count)] allocates [count]
    doubles before it checks the bounds - counts are kept small in the tie; a NaN tick written through an
    alias into an integer array is a C cast of NaN inside H5Tconvert ([UB], excluded from the tie);
    read-only exception classes H5Error / H5Exception are not distinguished.

    Definitions only; proofs in DimsProofs.v. *)
From Coq Require Import List ZArith Bool String Lia.
From Flocq Require Import Core BinarySingleNaN.
Require Import NixV.Base.Prelude NixV.Base.F64.
Require NixV.Data.NDArr NixV.Units.UnitsModel.
Import ListNotations.
Local Open Scope string_scope.
Local Open Scope bool_scope.
Local Open Scope Z_scope.

Notation dtype := NDArr.dtype.
Notation V := NDArr.V.

(* ------------------------------------------------------------------------------------------ *)
(** * Behaviour switches *)

Record behaviour := mkBehaviour {
  check_sorted_on_append : bool;   (* appendRangeDimension / createRangeDimension reject unsorted ticks *)
  check_interval_on_append : bool; (* appendSampledDimension / createSampledDimension reject interval <= 0 *)
  keep_negative_offset : bool;     (* appendSampledDimension stores every offset != 0 (today: only > 0) *)
  validate_unit_first : bool;      (* append{Range,Sampled}Dimension check the unit BEFORE creating the group *)
  validate_frame_first : bool;     (* createDataFrameDimension checks that the frame is in the block BEFORE creating *)
  reject_nan : bool;               (* comparisons written so that NaN fails: !(x > 0), !(a <= b) *)
  ro_delete_throws : bool;         (* H5Group::removeGroup checks the result of H5Gunlink *)
  frame_col_strict : bool          (* appendDataFrameDimension(frame, col) refuses col >= #columns (before b527e42: only col > #columns) *)
}.

(** the tree as it was pinned / with every fix / as it was before the column-bound fix b527e42 (seven fixes landed) *)
Definition code_today : behaviour := mkBehaviour false false false false false false false false.
Definition repaired : behaviour := mkBehaviour true true true true true true true true.
Definition code_head : behaviour := mkBehaviour true true true true true true true false.

(** SET BY THE COORDINATOR: the behaviour of /repo HEAD; [repaired] = every fix: commit has landed *)
Definition current_behaviour : behaviour := repaired.

(* ------------------------------------------------------------------------------------------ *)
(** * Exception classes *)

Definition E_InvalidDimension := "nix::InvalidDimension".
Definition E_UnsortedTicks := "nix::UnsortedTicks".
Definition E_InvalidUnit := "nix::InvalidUnit".
Definition E_Runtime := "std::runtime_error".
Definition E_OutOfBounds := "nix::OutOfBounds".
Definition E_Uninit := "nix::UninitializedEntity".
Definition E_Incompatible := "nix::IncompatibleDimensions".
Definition E_EmptyString := "nix::EmptyString".
Definition E_InvalidRank := "nix::InvalidRank".
Definition E_H5 := "nix::hdf5::H5Error".
Definition E_Logic := "std::logic_error".      (* the harness refuses the call itself (outside the exercised domain) *)

(* ------------------------------------------------------------------------------------------ *)
(** * Values *)

Definition sempty (s : string) : bool := match s with EmptyString => true | _ => false end.
Definition opt_ne (s : string) : option string := if sempty s then None else Some s.
Definition lempty {A} (l : list A) : bool := match l with [] => true | _ => false end.

Definition is_si (u : string) : bool := UnitsModel.isSIUnit u.
Definition is_compound (u : string) : bool := UnitsModel.isCompoundSIUnit u.
Definition deblank (u : string) : string := UnitsModel.deblankString u.

Definition fzero : F64 := B754_zero false.

(** a relation between neighbours *)
Fixpoint adjacent (r : F64 -> F64 -> bool) (l : list F64) : bool :=
  match l with
  | a :: t => match t with b :: _ => r a b && adjacent r t | [] => true end
  | [] => true
  end.

(** std::is_sorted: no element is smaller than its predecessor (blind to NaN) *)
Definition is_sorted_std (l : list F64) : bool := adjacent (fun a b => negb (flt b a)) l.
(** ascending: every element is <= its successor (fails on NaN in lists of two or more) *)
Definition ascending (l : list F64) : bool := adjacent fle l.

Definition ticks_ok (b : behaviour) (l : list F64) : bool :=
  if reject_nan b then ascending l else is_sorted_std l.            (* SWITCH reject_nan *)
(** today [interval <= 0.0] is refused, repaired [!(interval > 0.0)] *)
Definition interval_ok (b : behaviour) (x : F64) : bool :=
  if reject_nan b then fgt x fzero else negb (fle x fzero).         (* SWITCH reject_nan *)

Definition is_numeric (t : dtype) : bool :=
  match t with NDArr.TBool | NDArr.TString => false | _ => true end.

(** the array's element as the double HDF5 hands out / the double as the array stores it *)
Definition to_dbl (t : dtype) (v : V) : F64 :=
  match NDArr.conv_val t NDArr.TDouble v with Ok (NDArr.VD d) => d | _ => fzero end.
Definition from_dbls (t : dtype) (l : list F64) : res (list V) :=
  NDArr.mapM (NDArr.conv_val NDArr.TDouble t) (map NDArr.VD l).

(* ------------------------------------------------------------------------------------------ *)
(** * State *)

Inductive dimdesc :=
| DSampled (interval : F64) (offset : option F64) (unit label : option string)
| DRange (ticks : list F64) (unit label : option string)
| DAlias
| DSet (labels : option (list string)) (label : option string)     (* labels: the dataset may be absent *)
| DFrame (frame : option nat) (col : option Z).                    (* frame = None: the link is missing *)

Inductive kind := KSampled | KSet | KRange | KFrame.
Definition kind_of (d : dimdesc) : kind :=
  match d with DSampled _ _ _ _ => KSampled | DRange _ _ _ | DAlias => KRange | DSet _ _ => KSet | DFrame _ _ => KFrame end.
Definition kind_eqb (a b : kind) : bool :=
  match a, b with KSampled, KSampled | KSet, KSet | KRange, KRange | KFrame, KFrame => true | _, _ => false end.

Record frame := mkFrame { fr_name : string; fr_rows : Z; fr_cols : list (string * string * dtype) }.

Definition dmap := list (Z * dimdesc).

Record state := mkState {
  dims : dmap;                  (* sub-groups of "dimensions": name, content; creation order *)
  a_label : option string;
  a_unit : option string;
  a_data : list V;              (* the array's cells when it is 1-D (otherwise never looked at) *)
  a_ty : dtype;
  a_rank : nat;
  frames : list frame;          (* the data frames of the array's block, by ordinal *)
  ro : bool;                    (* file opened ReadOnly *)
  foreign : list (option (frame * bool));
                                (* frame HANDLES that are not frames of the array's block: frames of the second block
                                   "b2" (their names may equal local names) and stale handles of deleted local frames;
                                   the flag: still in the file after a reopen; None: the handle is gone *)
  b2_alive : bool               (* the second block has not been deleted *)
}.

Definition with_dims (s : state) (m : dmap) : state :=
  mkState m (a_label s) (a_unit s) (a_data s) (a_ty s) (a_rank s) (frames s) (ro s) (foreign s) (b2_alive s).
Definition with_label (s : state) (l : option string) : state :=
  mkState (dims s) l (a_unit s) (a_data s) (a_ty s) (a_rank s) (frames s) (ro s) (foreign s) (b2_alive s).
Definition with_unit (s : state) (u : option string) : state :=
  mkState (dims s) (a_label s) u (a_data s) (a_ty s) (a_rank s) (frames s) (ro s) (foreign s) (b2_alive s).
Definition with_data (s : state) (d : list V) : state :=
  mkState (dims s) (a_label s) (a_unit s) d (a_ty s) (a_rank s) (frames s) (ro s) (foreign s) (b2_alive s).

Definition dinit (t : dtype) (rank : nat) (len : nat) (fs ffs : list frame) : state :=
  mkState [] None None (repeat (NDArr.zero_of t) len) t rank fs false (map (fun fr => Some (fr, true)) ffs) true.

Fixpoint lookup (k : Z) (m : dmap) : option dimdesc :=
  match m with
  | [] => None
  | (k', d) :: r => if k' =? k then Some d else lookup k r
  end.
Definition remove_key (k : Z) (m : dmap) : dmap := filter (fun p => negb (fst p =? k)) m.
Definition update (k : Z) (d : dimdesc) (m : dmap) : dmap :=
  map (fun p => if fst p =? k then (fst p, d) else p) m.

Definition count (s : state) : Z := zlen (dims s).
Definition data_dbl (s : state) : list F64 := map (to_dbl (a_ty s)) (a_data s).

(* ------------------------------------------------------------------------------------------ *)
(** * Operations and answers *)

Inductive fref := FNone | FOrd (n : nat) | FForeign (n : nat).   (* no frame / n-th frame of the block / n-th foreign handle *)
Inductive fq := QLabel | QUnit | QType.

Inductive op :=
| AppendSet (labels : list string)
| AppendRange (ticks : list F64) (label unit : string)
| AppendSampled (interval : F64) (label unit : string) (offset : F64)
| AppendAlias
| AppendFrameIdx (f : fref) (col : Z)
| AppendFrameName (f : fref) (name : string)
| AppendFrame (f : fref)
| CreateSet (id : Z)                        (* deprecated, ignore the id *)
| CreateRange (id : Z) (ticks : list F64)
| CreateSampled (id : Z) (interval : F64)
| CreateAlias
| DeleteDims
| Count
| GetDim (i : Z)
| Dims
| SLabel (i : Z) (l : option string)
| SUnit (i : Z) (u : option string)
| SInterval (i : Z) (x : F64)
| SOffset (i : Z) (x : option F64)
| TLabels (i : Z) (l : option (list string))
| TLabel (i : Z) (l : option string)
| RTicks (i : Z) (t : list F64)
| RLabel (i : Z) (l : option string)
| RUnit (i : Z) (u : option string)
| RTickAt (i : Z) (k : Z)
| RTicksSC (i : Z) (start cnt : Z)
| RAxis (i : Z) (cnt start : Z)
| FQuery (i : Z) (q : fq) (col : option Z)
| ALabel (l : option string)
| AUnit (u : option string)
| AData (v : list F64)
| SAt (i : Z) (k : Z)                               (* SampledDimension::operator[] *)
| DimsOfKind (k : kind)                             (* DataArray::dimensions(filter: dimensionType() == k) *)
| RangeOfArray                                      (* RangeDimension(const DataArray&) *)
| FTicks (i : Z) (col : option Z) (resize : bool) (vsize offset : Z)   (* DataFrameDimension::ticks<T> *)
| Reopen (readonly : bool)
| DropForeignBlock                 (* File::deleteBlock("b2") *)
| RecreateFrame (k : nat)          (* deleteDataFrame(name of local frame k); createDataFrame(same name, same columns) *)
| Observe.

Inductive dobs :=
| OSampled (label unit : option string) (interval : F64) (offset : option F64)
| OSet (label : option string) (labels : list string)
| ORange (alias : bool) (label unit : option string) (ticks : list F64)
| OFrame (col : option Z) (fname label unit : res string) (ty : res dtype) (size : res Z).

Record obs := mkObs {
  o_count : Z;
  o_dims : list (Z * option (Z * dobs));   (* for i = 1..count: getDimension(i) -> its index() and every field *)
  o_zero : bool;                           (* getDimension(0) is a dimension *)
  o_next : bool;                           (* getDimension(count+1) is a dimension *)
  o_label : option string;
  o_unit : option string;
  o_data : option (list F64)               (* the array read as doubles (1-D numeric arrays only) *)
}.

(** a data-frame cell as a tick: integer (also Bool read as an integer), double, string *)
Inductive cellv := CI (z : Z) | CD (d : F64) | CS (s : string).

Inductive ans :=
| ACells (l : list cellv)
| ADone
| AIndex (i : Z)
| ABool (b : bool)
| ACount (n : Z)
| AKind (k : option (kind * Z))
| ADims (l : list (Z * kind))
| ATick (d : F64)
| ATicks (l : list F64)
| AStr (s : string)
| AType (t : dtype)
| AObs (o : obs).

(* ------------------------------------------------------------------------------------------ *)
(** * Getters *)

Definition frame_of (fs : list frame) (fo : option nat) : res frame :=
  match fo with
  | None => Err E_Runtime                   (* DataFrameDimensionHDF5::dataFrame: DataFrame not found *)
  | Some n => match nth_error fs n with Some fr => Ok fr | None => Err E_Runtime end
  end.

Definition nth_col (fr : frame) (c : Z) : option (string * string * dtype) :=
  if (c <? 0) || (zlen (fr_cols fr) <=? c) then None else nth_error (fr_cols fr) (Z.to_nat c).

Definition pick_col (ci col : option Z) : option Z := match col with Some c => Some c | None => ci end.

(** DataFrameDimensionHDF5::label: the frame first, the column check afterwards *)
Definition fq_label (fs : list frame) (fo : option nat) (ci col : option Z) : res string :=
  bind (frame_of fs fo) (fun fr =>
    match pick_col ci col with
    | None => Ok (fr_name fr)
    | Some c => match nth_col fr c with Some (n, _, _) => Ok n | None => Err E_OutOfBounds end
    end).

(** unit / columnDataType: checkColumnIndex (no column -> OutOfBounds) before the frame is opened *)
Definition fq_col (fs : list frame) (fo : option nat) (ci col : option Z) : res (string * string * dtype) :=
  match pick_col ci col with
  | None => Err E_OutOfBounds
  | Some c => bind (frame_of fs fo) (fun fr =>
                match nth_col fr c with Some x => Ok x | None => Err E_OutOfBounds end)
  end.
Definition fq_unit fs fo ci col : res string := bind (fq_col fs fo ci col) (fun x => Ok (snd (fst x))).
Definition fq_type fs fo ci col : res dtype := bind (fq_col fs fo ci col) (fun x => Ok (snd x)).
Definition fq_size fs fo : res Z := bind (frame_of fs fo) (fun fr => Ok (fr_rows fr)).
Definition fq_name fs fo : res string := bind (frame_of fs fo) (fun fr => Ok (fr_name fr)).

(** the harness fills every frame at creation: cell (row r, column c) is r*10+c for the integer types, r*10+c+0.5
    for Double, "r<r>c<c>" for String (rows and columns below 10 in the tie), (r+c) odd for Bool *)
Definition fhalf : F64 := ofME 1 (-1).
Definition digit_str (z : Z) : string := String (Ascii.ascii_of_N (48 + Z.to_N z)) EmptyString.
Definition cell_of (ty : dtype) (r c : Z) : cellv :=
  match ty with
  | NDArr.TDouble | NDArr.TFloat => CD (fadd (ofZ (r * 10 + c)) fhalf)
  | NDArr.TString => CS ("r" ++ digit_str r ++ "c" ++ digit_str c)
  | NDArr.TBool => CI ((r + c) mod 2)
  | _ => CI (r * 10 + c)
  end.
Definition zseq (off n : Z) : list Z := map (fun k => off + Z.of_nat k) (seq 0 (Z.to_nat n)).
Definition cells (ty : dtype) (c off n : Z) : list cellv := map (fun r => cell_of ty r c) (zseq off n).

(** DataFrameDimension::ticks<T>(vector(vsize), col, resize, offset): the frame, the default column, the bound of the
    column index, then DataFrame::readColumn(col, ticks, RESIZE, offset): resize -> all rows from [offset] (offset > rows
    is out of bounds), else as many as the vector holds (reading past the last row is an HDF5 error, unless nothing is read).
    [honour] = false IS THE CODE: the call passes a literal [true] whatever the caller said, i.e. it always resizes and
    returns every row from the offset.  The documentation of ticks<T> promises [honour] = true ("if false, the size of
    the vector is taken as the number of ticks to read"); that rule is kept here only for the remark theorem
    [ticks_documented_rule_differs] - a documentation discrepancy, not part of what C13 demands. *)
Definition frame_ticks (honour : bool) (fs : list frame) (fo : option nat) (ci col : option Z)
                       (resize : bool) (vsize offset : Z) : res (list cellv) :=
  bind (frame_of fs fo) (fun fr =>
    match pick_col ci col with
    | None => Err E_OutOfBounds
    | Some c =>
        match nth_col fr c with
        | None => Err E_OutOfBounds
        | Some x =>
            if (if honour then resize else true) then
              if fr_rows fr <? offset then Err E_OutOfBounds else Ok (cells (snd x) c offset (fr_rows fr - offset))
            else
              if (0 <? vsize) && (fr_rows fr <? offset + vsize) then Err E_H5     (* a selection of nothing has no bound *)
              else Ok (cells (snd x) c offset vsize)
        end
    end).

Definition olabels (l : option (list string)) : list string := match l with Some x => x | None => [] end.

(** every getter of one descriptor; the alias answers with the array's label, unit and data *)
Definition dobs_of (lab un : option string) (data : list F64) (fs : list frame) (d : dimdesc) : dobs :=
  match d with
  | DSampled x off u l => OSampled l u x off
  | DSet ls l => OSet l (olabels ls)
  | DRange t u l => ORange false l u t
  | DAlias => ORange true lab un data
  | DFrame fo ci => OFrame ci (fq_name fs fo) (fq_label fs fo ci None) (fq_unit fs fo ci None) (fq_type fs fo ci None) (fq_size fs fo)
  end.

Definition zrange (n : Z) : list Z := map Z.of_nat (seq 1 (Z.to_nat n)).

Definition dobserve (s : state) : obs :=
  let n := count s in
  mkObs n
    (map (fun i => (i, match lookup i (dims s) with
                       | Some d => Some (i, dobs_of (a_label s) (a_unit s) (data_dbl s) (frames s) d)
                       | None => None end)) (zrange n))
    (opt_is_some (lookup 0 (dims s)))
    (opt_is_some (lookup (n + 1) (dims s)))
    (a_label s) (a_unit s)
    (if (Nat.eqb (a_rank s) 1) && is_numeric (a_ty s) then Some (data_dbl s) else None).

(** the ticks of a range descriptor; [data] = the array read as doubles (what an alias hands out) *)
Definition gen_ticks (data : list F64) (d : dimdesc) : list F64 :=
  match d with DRange t _ _ => t | DAlias => data | _ => [] end.
Definition ticks_of (s : state) (d : dimdesc) : list F64 := gen_ticks (data_dbl s) d.

(** std::vector<double>::max_size() *)
Definition vec_max : Z := 1152921504606846975.

(** RangeDimensionHDF5::ticks(start, count) *)
Definition ticks_sc (t : list F64) (start cnt : Z) : res (list F64) :=
  if vec_max <? cnt then Err E_OutOfBounds else
  let s0 := zlen t in
  if (s0 <? start) || (s0 <? cnt) || (s0 <? u64_add start cnt) then Err E_OutOfBounds
  else Ok (firstn (Z.to_nat cnt) (skipn (Z.to_nat start) t)).

(* ------------------------------------------------------------------------------------------ *)
(** * Mutators *)

Definition R := (state * res ans)%type.

(** DataArrayHDF5::createDimensionGroup(index): the "dimensions" group is opened (created), the index
    is checked against count+1, an existing group of that name is REPLACED (removed, created anew) *)
Definition create_group (s : state) (k : Z) : res dmap :=
  if ro s then Err E_H5 else
  if (count s + 1 <? k) || (k <=? 0) then Err E_Runtime
  else Ok (remove_key k (dims s)).

Definition add_dim (s : state) (m : dmap) (k : Z) (d : dimdesc) : state := with_dims s (List.app m [(k, d)]).

Definition unit_bad (u : string) : bool := negb (sempty u) && negb (is_si u).

Definition append_set (s : state) (labels : list string) : R :=
  let k := count s + 1 in
  match create_group s k with
  | Ok m => (add_dim s m k (DSet (if lempty labels then None else Some labels) None), Ok (AIndex k))
  | Err e => (s, Err e)
  | UB w => (s, UB w)
  end.

Definition append_range (b : behaviour) (s : state) (ticks : list F64) (label unit : string) : R :=
  if lempty ticks then (s, Err E_InvalidDimension) else
  if check_sorted_on_append b && negb (ticks_ok b ticks) then (s, Err E_UnsortedTicks) else        (* SWITCH *)
  if validate_unit_first b && unit_bad unit then (s, Err E_InvalidUnit) else                        (* SWITCH *)
  let k := count s + 1 in
  match create_group s k with
  | Ok m =>
      (* group + ticks exist; dim.label(label); dim.unit(unit) - the unit setter may throw *)
      if unit_bad unit then (add_dim s m k (DRange ticks None (opt_ne label)), Err E_InvalidUnit)
      else (add_dim s m k (DRange ticks (opt_ne unit) (opt_ne label)), Ok (AIndex k))
  | Err e => (s, Err e)
  | UB w => (s, UB w)
  end.

Definition append_offset (b : behaviour) (off : F64) : option F64 :=
  if (if keep_negative_offset b then fne off fzero else fgt off fzero) then Some off else None.     (* SWITCH *)

Definition append_sampled (b : behaviour) (s : state) (x : F64) (label unit : string) (off : F64) : R :=
  if check_interval_on_append b && negb (interval_ok b x) then (s, Err E_Runtime) else              (* SWITCH *)
  if validate_unit_first b && unit_bad unit then (s, Err E_InvalidUnit) else                        (* SWITCH *)
  let k := count s + 1 in
  match create_group s k with
  | Ok m =>
      if unit_bad unit then (add_dim s m k (DSampled x None None (opt_ne label)), Err E_InvalidUnit)
      else (add_dim s m k (DSampled x (append_offset b off) (opt_ne unit) (opt_ne label)), Ok (AIndex k))
  | Err e => (s, Err e)
  | UB w => (s, UB w)
  end.

Definition alias_unit_ok (u : string) : bool := is_si u || is_compound u.

Definition append_alias (s : state) : R :=
  if Nat.ltb 1 (a_rank s) then (s, Err E_InvalidDimension) else
  if negb (is_numeric (a_ty s)) then (s, Err E_InvalidDimension) else
  if 0 <? count s then (s, Err E_InvalidDimension) else
  if match a_unit s with Some u => negb (alias_unit_ok u) | None => false end then (s, Err E_InvalidUnit) else
  match create_group s 1 with
  | Ok m => (add_dim s m 1 DAlias, Ok (AIndex 1))
  | Err e => (s, Err e)
  | UB w => (s, UB w)
  end.

Fixpoint index_of (n : string) (l : list string) (i : Z) : option Z :=
  match l with
  | [] => None
  | x :: r => if String.eqb x n then Some i else index_of n r (i + 1)
  end.

Definition col_names (fr : frame) : list string := map (fun c => fst (fst c)) (fr_cols fr).

(** backend createDataFrameDimension: group first, then the constructor looks the frame up in the block *)
Definition append_frame_be (b : behaviour) (s : state) (f : fref) (col : option Z) : R :=
  let k := count s + 1 in
  match f with
  | FNone => (s, Err E_Uninit)
  | FForeign _ =>
      (* the frame is looked up in the array's block BY ID: a frame of another block or a stale handle is not
         there, whatever its name *)
      if validate_frame_first b then (s, Err E_Runtime) else                                         (* SWITCH *)
      match create_group s k with
      | Ok m => (add_dim s m k (DFrame None None), Err E_Runtime)      (* type attribute written, no link *)
      | Err e => (s, Err e)
      | UB w => (s, UB w)
      end
  | FOrd n =>
      match create_group s k with
      | Ok m => (add_dim s m k (DFrame (Some n) col), Ok (AIndex k))
      | Err e => (s, Err e)
      | UB w => (s, UB w)
      end
  end.

Definition fref_cols (s : state) (f : fref) : res (list string) :=
  match f with
  | FNone => Err E_Uninit
  | FForeign n => match nth_error (foreign s) n with Some (Some (fr, _)) => Ok (col_names fr) | _ => Err E_Uninit end
  | FOrd n => match nth_error (frames s) n with Some fr => Ok (col_names fr) | None => Err E_Uninit end
  end.

Definition append_frame_idx (b : behaviour) (s : state) (f : fref) (col : Z) : R :=
  match fref_cols s f with
  | Ok cs => if (if frame_col_strict b then zlen cs <=? col else zlen cs <? col)                       (* SWITCH *)
             then (s, Err E_OutOfBounds)       (* head: [>], col = #columns passes *)
             else append_frame_be b s f (Some col)
  | Err e => (s, Err e)
  | UB w => (s, UB w)
  end.

Definition append_frame_name (b : behaviour) (s : state) (f : fref) (name : string) : R :=
  match fref_cols s f with
  | Ok cs => match index_of name cs 0 with
             | Some c => append_frame_be b s f (Some c)
             | None => (s, Err E_OutOfBounds)
             end
  | Err e => (s, Err e)
  | UB w => (s, UB w)
  end.

Definition append_frame (b : behaviour) (s : state) (f : fref) : R :=
  match fref_cols s f with
  | Ok _ => append_frame_be b s f None
  | Err e => (s, Err e)
  | UB w => (s, UB w)
  end.

(** DataArrayHDF5::deleteDimensions: for i = count .. 1: remove group i if present; returns true.
    removeGroup ignores the result of H5Gunlink: on a read-only file nothing happens, silently *)
Definition delete_dims (b : behaviour) (s : state) : R :=
  if ro s then
    (if ro_delete_throws b && (0 <? count s) then (s, Err E_H5) else (s, Ok (ABool true)))           (* SWITCH *)
  else (with_dims s (fold_left (fun m i => remove_key i m) (rev (zrange (count s))) (dims s)), Ok (ABool true)).

(** getDimension(i).as<Kind>Dimension() *)
Definition with_dim (s : state) (i : Z) (k : kind) (f : dimdesc -> R) : R :=
  match lookup i (dims s) with
  | None => (s, Err E_Uninit)
  | Some d => if kind_eqb (kind_of d) k then f d else (s, Err E_Incompatible)
  end.

Definition set_dim (s : state) (i : Z) (d : dimdesc) : state := with_dims s (update i d (dims s)).

(** write a string attribute / dataset on the descriptor: refused on a read-only file, nothing changes *)
Definition wr (s : state) (s' : state) : R := if ro s then (s, Err E_H5) else (s', Ok ADone).
(** remove an attribute / dataset: nothing to do (and no error, even read-only) when it is absent *)
Definition rm {A} (s : state) (cur : option A) (s' : state) : R :=
  match cur with None => (s, Ok ADone) | Some _ => wr s s' end.

Definition s_label (s : state) (i : Z) (l : option string) : R :=
  with_dim s i KSampled (fun d => match d with
    | DSampled x off u cur =>
        match l with
        | Some v => if sempty v then (s, Err E_EmptyString) else wr s (set_dim s i (DSampled x off u (Some v)))
        | None => rm s cur (set_dim s i (DSampled x off u None))
        end
    | _ => (s, Err E_Incompatible) end).

Definition s_unit (s : state) (i : Z) (u : option string) : R :=
  with_dim s i KSampled (fun d => match d with
    | DSampled x off cur l =>
        match u with
        | Some v => if sempty v then (s, Err E_EmptyString) else
                    if negb (is_si v) then (s, Err E_InvalidUnit) else wr s (set_dim s i (DSampled x off (Some v) l))
        | None => rm s cur (set_dim s i (DSampled x off None l))
        end
    | _ => (s, Err E_Incompatible) end).

Definition s_interval (b : behaviour) (s : state) (i : Z) (x : F64) : R :=
  with_dim s i KSampled (fun d => match d with
    | DSampled _ off u l =>
        if negb (interval_ok b x) then (s, Err E_Runtime) else wr s (set_dim s i (DSampled x off u l))
    | _ => (s, Err E_Incompatible) end).

Definition s_offset (s : state) (i : Z) (o : option F64) : R :=
  with_dim s i KSampled (fun d => match d with
    | DSampled x cur u l =>
        match o with
        | Some v => wr s (set_dim s i (DSampled x (Some v) u l))
        | None => rm s cur (set_dim s i (DSampled x None u l))
        end
    | _ => (s, Err E_Incompatible) end).

Definition t_labels (s : state) (i : Z) (ls : option (list string)) : R :=
  with_dim s i KSet (fun d => match d with
    | DSet cur l =>
        match ls with
        | Some v => wr s (set_dim s i (DSet (Some v) l))
        | None => rm s cur (set_dim s i (DSet None l))
        end
    | _ => (s, Err E_Incompatible) end).

Definition t_label (s : state) (i : Z) (l : option string) : R :=
  with_dim s i KSet (fun d => match d with
    | DSet ls cur =>
        match l with
        | Some v => if sempty v then (s, Err E_EmptyString) else wr s (set_dim s i (DSet ls (Some v)))
        | None => rm s cur (set_dim s i (DSet ls None))
        end
    | _ => (s, Err E_Incompatible) end).

(** RangeDimension::ticks(v): sortedness in the front end; an alias resizes the array and writes (converted) *)
Definition r_ticks (b : behaviour) (s : state) (i : Z) (t : list F64) : R :=
  with_dim s i KRange (fun d =>
    if negb (ticks_ok b t) then (s, Err E_UnsortedTicks) else
    match d with
    | DRange _ u l => wr s (set_dim s i (DRange t u l))
    | DAlias =>
        if ro s then (s, Err E_H5) else
        match from_dbls (a_ty s) t with
        | Ok vs => (with_data s vs, Ok ADone)
        | Err e => (s, Err e)
        | UB w => (s, UB w)
        end
    | _ => (s, Err E_Incompatible) end).

Definition r_label (s : state) (i : Z) (l : option string) : R :=
  with_dim s i KRange (fun d =>
    match l with
    | Some v =>
        if sempty v then (s, Err E_EmptyString) else
        match d with
        | DRange t u _ => wr s (set_dim s i (DRange t u (Some v)))
        | DAlias => wr s (with_label s (Some v))
        | _ => (s, Err E_Incompatible) end
    | None =>
        match d with
        | DRange t u cur => rm s cur (set_dim s i (DRange t u None))
        | DAlias => rm s (a_label s) (with_label s None)
        | _ => (s, Err E_Incompatible) end
    end).

Definition r_unit (s : state) (i : Z) (u : option string) : R :=
  with_dim s i KRange (fun d =>
    match u with
    | Some v =>
        if sempty v then (s, Err E_EmptyString) else
        if negb (is_si v) then (s, Err E_InvalidUnit) else
        match d with
        | DRange t _ l => wr s (set_dim s i (DRange t (Some v) l))
        | DAlias => wr s (with_unit s (Some v))
        | _ => (s, Err E_Incompatible) end
    | None =>
        match d with
        | DRange t cur l => rm s cur (set_dim s i (DRange t None l))
        | DAlias => rm s (a_unit s) (with_unit s None)
        | _ => (s, Err E_Incompatible) end
    end).

Definition r_tick_at (s : state) (i k : Z) : R :=
  with_dim s i KRange (fun d =>
    match ticks_sc (ticks_of s d) k 1 with
    | Ok (x :: _) => (s, Ok (ATick x))
    | Ok [] => (s, UB "ticks[0] of an empty vector")
    | Err e => (s, Err e)
    | UB w => (s, UB w)
    end).

Definition r_ticks_sc (s : state) (i start cnt : Z) : R :=
  with_dim s i KRange (fun d =>
    match ticks_sc (ticks_of s d) start cnt with
    | Ok l => (s, Ok (ATicks l))
    | Err e => (s, Err e)
    | UB w => (s, UB w)
    end).

Definition f_query (s : state) (i : Z) (q : fq) (col : option Z) : R :=
  with_dim s i KFrame (fun d => match d with
    | DFrame fo ci =>
        match q with
        | QLabel => (s, bind (fq_label (frames s) fo ci col) (fun x => Ok (AStr x)))
        | QUnit => (s, bind (fq_unit (frames s) fo ci col) (fun x => Ok (AStr x)))
        | QType => (s, bind (fq_type (frames s) fo ci col) (fun x => Ok (AType x)))
        end
    | _ => (s, Err E_Incompatible) end).

(** DataArray::label / unit: every setter ends in forceUpdatedAt(), so even removing an absent attribute
    fails on a read-only file *)
Definition arr_label (s : state) (l : option string) : R :=
  match l with
  | Some v => if sempty v then (s, Err E_EmptyString) else wr s (with_label s (Some v))
  | None => wr s (with_label s None)
  end.

(** DataArray::unit(u): deblanked for the checks, stored as given; with exactly one dimension that is an
    alias range dimension the unit must be SI or a compound of SI units *)
Definition arr_unit (s : state) (u : option string) : R :=
  match u with
  | Some v =>
      let d := deblank v in
      if sempty d then (s, Err E_EmptyString) else
      if count s =? 1 then
        match lookup 1 (dims s) with
        | None => (s, Err E_Uninit)
        | Some DAlias => if negb (alias_unit_ok d) then (s, Err E_InvalidUnit) else wr s (with_unit s (Some v))
        | Some _ => wr s (with_unit s (Some v))
        end
      else wr s (with_unit s (Some v))
  | None => wr s (with_unit s None)
  end.

(** DataArray::setData(std::vector<double>): dataExtent({n}) (rank must stay), then write with conversion *)
Definition arr_data (s : state) (v : list F64) : R :=
  if negb (Nat.eqb (a_rank s) 1) then (s, Err E_InvalidRank) else
  if ro s then (s, Err E_H5) else
  match from_dbls (a_ty s) v with
  | Ok vs => (with_data s vs, Ok ADone)
  | Err e => (with_data s (repeat (NDArr.zero_of (a_ty s)) (List.length v)), Err e)   (* resized, then no conversion path *)
  | UB w => (s, UB w)
  end.

(** a handle survives close; open only if its frame is still in the file *)
Definition keep_persistent (e : option (frame * bool)) : option (frame * bool) :=
  match e with Some (fr, true) => Some (fr, true) | _ => None end.
Definition unpersist (e : option (frame * bool)) : option (frame * bool) :=
  match e with Some (fr, _) => Some (fr, false) | None => None end.

(** close; open: everything observed here lives in the file *)
Definition reopen (s : state) (r : bool) : R :=
  (mkState (dims s) (a_label s) (a_unit s) (a_data s) (a_ty s) (a_rank s) (frames s) r
           (map keep_persistent (foreign s)) (b2_alive s), Ok ADone).

(** File::deleteBlock("b2"): the handles of its frames stay usable until the file is closed *)
Definition drop_foreign (s : state) : R :=
  if ro s then (s, Err E_Logic) else
  if b2_alive s then
    (mkState (dims s) (a_label s) (a_unit s) (a_data s) (a_ty s) (a_rank s) (frames s) (ro s)
             (map unpersist (foreign s)) false, Ok (ABool true))
  else (s, Ok (ABool false)).

(** deleteDataFrame removes EVERY link to the frame (removeAllLinks), also the "data_frame" link of a
    descriptor; the frame created anew under the same name is another object *)
Definition detach (k : nat) (d : dimdesc) : dimdesc :=
  match d with DFrame (Some j) c => if Nat.eqb j k then DFrame None c else d | _ => d end.

Definition recreate_frame (s : state) (k : nat) : R :=
  if ro s then (s, Err E_Logic) else
  match nth_error (frames s) k with
  | None => (s, Err E_Logic)
  | Some fr =>
      (mkState (map (fun p => (fst p, detach k (snd p))) (dims s)) (a_label s) (a_unit s) (a_data s) (a_ty s) (a_rank s)
               (frames s) (ro s) (List.app (foreign s) [Some (fr, false)]) (b2_alive s), Ok ADone)
  end.

(** SampledDimension::operator[](k) = positionAt(k) = k * interval + offset (no offset: 0.0) *)
Definition s_at (s : state) (i k : Z) : R :=
  with_dim s i KSampled (fun d => match d with
    | DSampled x off _ _ => (s, Ok (ATick (fadd (fmul (ofZ k) x) (match off with Some o => o | None => fzero end))))
    | _ => (s, Err E_Incompatible) end).

Definition f_ticks (s : state) (i : Z) (col : option Z) (resize : bool) (vsize offset : Z) : R :=
  with_dim s i KFrame (fun d => match d with
    | DFrame fo ci => (s, bind (frame_ticks false (frames s) fo ci col resize vsize offset) (fun l => Ok (ACells l)))
    | _ => (s, Err E_Incompatible) end).

(** RangeDimension(const DataArray&): more than one dimension -> InvalidRank, otherwise an EMPTY handle *)
Definition range_of_array (s : state) : R :=
  if Nat.ltb 1 (a_rank s) then (s, Err E_InvalidRank) else (s, Ok (AKind None)).

Definition get_dim (s : state) (i : Z) : R :=
  (s, Ok (AKind (match lookup i (dims s) with Some d => Some (kind_of d, i) | None => None end))).

(** DataArray::dimensions(): getDimension(i+1) for i < count, absent ones are skipped *)
Definition all_dims (s : state) : R :=
  (s, Ok (ADims (flat_map (fun i => match lookup i (dims s) with Some d => [(i, kind_of d)] | None => [] end)
                          (zrange (count s))))).

(** dimensions(filter): the same walk, the filter applied to every descriptor found *)
Definition dims_of_kind (s : state) (k : kind) : R :=
  (s, Ok (ADims (flat_map (fun i => match lookup i (dims s) with
                                    | Some d => if kind_eqb (kind_of d) k then [(i, kind_of d)] else []
                                    | None => [] end)
                          (zrange (count s))))).

Definition dstep (b : behaviour) (o : op) (s : state) : R :=
  match o with
  | AppendSet l => append_set s l
  | AppendRange t l u => append_range b s t l u
  | AppendSampled x l u off => append_sampled b s x l u off
  | AppendAlias => append_alias s
  | AppendFrameIdx f c => append_frame_idx b s f c
  | AppendFrameName f n => append_frame_name b s f n
  | AppendFrame f => append_frame b s f
  | CreateSet _ => append_set s []
  | CreateRange _ t => append_range b s t "" ""
  | CreateSampled _ x => append_sampled b s x "" "" fzero
  | CreateAlias => append_alias s
  | DeleteDims => delete_dims b s
  | Count => (s, Ok (ACount (count s)))
  | GetDim i => get_dim s i
  | Dims => all_dims s
  | SLabel i l => s_label s i l
  | SUnit i u => s_unit s i u
  | SInterval i x => s_interval b s i x
  | SOffset i x => s_offset s i x
  | TLabels i l => t_labels s i l
  | TLabel i l => t_label s i l
  | RTicks i t => r_ticks b s i t
  | RLabel i l => r_label s i l
  | RUnit i u => r_unit s i u
  | RTickAt i k => r_tick_at s i k
  | RTicksSC i st c => r_ticks_sc s i st c
  | RAxis i c st => r_ticks_sc s i st c
  | FQuery i q c => f_query s i q c
  | ALabel l => arr_label s l
  | AUnit u => arr_unit s u
  | AData v => arr_data s v
  | SAt i k => s_at s i k
  | DimsOfKind k => dims_of_kind s k
  | RangeOfArray => range_of_array s
  | FTicks i c rs vs off => f_ticks s i c rs vs off
  | Reopen r => reopen s r
  | DropForeignBlock => drop_foreign s
  | RecreateFrame k => recreate_frame s k
  | Observe => (s, Ok (AObs (dobserve s)))
  end.

Fixpoint drun (b : behaviour) (ops : list op) (s : state) : state * list (res ans) :=
  match ops with
  | [] => (s, [])
  | o :: r => let '(s1, a) := dstep b o s in let '(s2, l) := drun b r s1 in (s2, a :: l)
  end.

Definition dfinal (b : behaviour) (ops : list op) (s : state) : state := fst (drun b ops s).

(* ------------------------------------------------------------------------------------------ *)
(** * Specification: what the property demands, stated on a PLAIN list of descriptors
      (the index IS the position), as "legal? then effect" - no storage, no order of backend calls. *)

Record sstate := mkS {
  q_dims : list dimdesc;
  q_label : option string;
  q_unit : option string;
  q_data : list V;
  q_ty : dtype;
  q_rank : nat;
  q_frames : list frame;
  q_ro : bool;
  q_foreign : list (option (frame * bool));
  q_b2 : bool }.

Inductive sres := SOk (a : ans) | SReject | SAny.     (* demanded answer / must be refused / unconstrained *)

Definition sinit (t : dtype) (rank : nat) (len : nat) (fs ffs : list frame) : sstate :=
  mkS [] None None (repeat (NDArr.zero_of t) len) t rank fs false (map (fun fr => Some (fr, true)) ffs) true.

Definition s_with_dims (s : sstate) (l : list dimdesc) : sstate :=
  mkS l (q_label s) (q_unit s) (q_data s) (q_ty s) (q_rank s) (q_frames s) (q_ro s) (q_foreign s) (q_b2 s).

Definition s_count (s : sstate) : Z := zlen (q_dims s).
Definition q_data_dbl (s : sstate) : list F64 := map (to_dbl (q_ty s)) (q_data s).

(** descriptor number i (1-based) *)
Definition s_get (i : Z) (l : list dimdesc) : option dimdesc :=
  if (1 <=? i) && (i <=? zlen l) then nth_error l (Z.to_nat (i - 1)) else None.
Fixpoint set_nth {A} (n : nat) (x : A) (l : list A) : list A :=
  match l, n with
  | [], _ => []
  | _ :: r, O => x :: r
  | y :: r, S k => y :: set_nth k x r
  end.
Definition s_set (i : Z) (d : dimdesc) (l : list dimdesc) : list dimdesc :=
  if (1 <=? i) && (i <=? zlen l) then set_nth (Z.to_nat (i - 1)) d l else l.

(** legality of the values, as the property states it *)
Definition legal_ticks (t : list F64) : bool := ascending t.
Definition legal_interval (x : F64) : bool := fgt x fzero.
Definition legal_unit (u : string) : bool := is_si u.

Definition s_append (s : sstate) (d : dimdesc) : sstate * sres :=
  if q_ro s then (s, SReject)
  else (s_with_dims s (List.app (q_dims s) [d]), SOk (AIndex (s_count s + 1))).

Definition s_fref_cols (s : sstate) (f : fref) : option (list string) :=
  match f with
  | FNone => None
  | FForeign n => match nth_error (q_foreign s) n with Some (Some (fr, _)) => Some (col_names fr) | _ => None end
  | FOrd n => match nth_error (q_frames s) n with Some fr => Some (col_names fr) | None => None end
  end.
Definition s_append_frame (s : sstate) (f : fref) (col : option Z) : sstate * sres :=
  match f with
  | FOrd n => s_append s (DFrame (Some n) col)
  | _ => (s, SReject)                       (* no frame, or a frame that is not in the array's block *)
  end.

(** a setter on descriptor i of kind k: [upd] gives the new descriptor or refuses *)
Definition s_modify (s : sstate) (i : Z) (k : kind) (upd : dimdesc -> option (option dimdesc)) : sstate * sres :=
  match s_get i (q_dims s) with
  | None => (s, SReject)
  | Some d =>
      if negb (kind_eqb (kind_of d) k) then (s, SReject) else
      match upd d with
      | None => (s, SReject)                       (* illegal value *)
      | Some None => (s, SOk ADone)                (* nothing to do (remove what is not there) *)
      | Some (Some d') => if q_ro s then (s, SReject) else (s_with_dims s (s_set i d' (q_dims s)), SOk ADone)
      end
  end.

Definition set_opt_str (v : option string) (legal : string -> bool) (cur : option string)
           (mk : option string -> dimdesc) : option (option dimdesc) :=
  match v with
  | Some x => if sempty x || negb (legal x) then None else Some (Some (mk (Some x)))
  | None => match cur with None => Some None | Some _ => Some (Some (mk None)) end
  end.

Definition s_with_label (s : sstate) (l : option string) : sstate :=
  mkS (q_dims s) l (q_unit s) (q_data s) (q_ty s) (q_rank s) (q_frames s) (q_ro s) (q_foreign s) (q_b2 s).
Definition s_with_unit (s : sstate) (u : option string) : sstate :=
  mkS (q_dims s) (q_label s) u (q_data s) (q_ty s) (q_rank s) (q_frames s) (q_ro s) (q_foreign s) (q_b2 s).
Definition s_with_data (s : sstate) (d : list V) : sstate :=
  mkS (q_dims s) (q_label s) (q_unit s) d (q_ty s) (q_rank s) (q_frames s) (q_ro s) (q_foreign s) (q_b2 s).

(** a write to the ARRAY (its label, unit or data), possibly through the alias *)
Definition s_arr_write (s : sstate) (legal : bool) (noop : bool) (s' : sstate) : sstate * sres :=
  if negb legal then (s, SReject) else
  if noop then (s, SOk ADone) else
  if q_ro s then (s, SReject) else (s', SOk ADone).

Definition s_is_alias (s : sstate) (i : Z) : bool :=
  match s_get i (q_dims s) with Some DAlias => true | _ => false end.

Definition s_observe (s : sstate) : obs :=
  let n := s_count s in
  mkObs n
    (map (fun p => (fst p, Some (fst p, dobs_of (q_label s) (q_unit s) (q_data_dbl s) (q_frames s) (snd p))))
         (combine (zrange n) (q_dims s)))
    false false (q_label s) (q_unit s)
    (if (Nat.eqb (q_rank s) 1) && is_numeric (q_ty s) then Some (q_data_dbl s) else None).

Definition s_ticks_of (s : sstate) (d : dimdesc) : list F64 := gen_ticks (q_data_dbl s) d.

Definition s_read (s : sstate) (i : Z) (k : kind) (f : dimdesc -> res ans) : sstate * sres :=
  match s_get i (q_dims s) with
  | None => (s, SReject)
  | Some d => if negb (kind_eqb (kind_of d) k) then (s, SReject) else
              match f d with Ok a => (s, SOk a) | Err _ => (s, SReject) | UB _ => (s, SAny) end
  end.

Definition sp_step (o : op) (s : sstate) : sstate * sres :=
  match o with
  | AppendSet l => s_append s (DSet (if lempty l then None else Some l) None)
  | CreateSet _ => s_append s (DSet None None)
  | AppendRange t l u =>
      if lempty t || negb (legal_ticks t) || (negb (sempty u) && negb (legal_unit u)) then (s, SReject)
      else s_append s (DRange t (opt_ne u) (opt_ne l))
  | CreateRange _ t =>
      if lempty t || negb (legal_ticks t) then (s, SReject) else s_append s (DRange t None None)
  | AppendSampled x l u off =>
      if negb (legal_interval x) || (negb (sempty u) && negb (legal_unit u)) then (s, SReject)
      else s_append s (DSampled x (if fne off fzero then Some off else None) (opt_ne u) (opt_ne l))
  | CreateSampled _ x =>
      if negb (legal_interval x) then (s, SReject) else s_append s (DSampled x None None None)
  | AppendAlias | CreateAlias =>
      if Nat.ltb 1 (q_rank s) || negb (is_numeric (q_ty s)) || negb (lempty (q_dims s))
         || match q_unit s with Some u => negb (alias_unit_ok u) | None => false end
      then (s, SReject) else s_append s DAlias
  | AppendFrameIdx f c =>
      match s_fref_cols s f with
      | Some cs => if zlen cs <=? c then (s, SReject) else s_append_frame s f (Some c)     (* the column has to exist *)
      | None => (s, SReject)
      end
  | AppendFrameName f n =>
      match s_fref_cols s f with
      | Some cs => match index_of n cs 0 with Some c => s_append_frame s f (Some c) | None => (s, SReject) end
      | None => (s, SReject)
      end
  | AppendFrame f =>
      match s_fref_cols s f with Some _ => s_append_frame s f None | None => (s, SReject) end
  | DeleteDims =>
      if q_ro s then (if lempty (q_dims s) then (s, SOk (ABool true)) else (s, SReject))   (* nothing to delete / refused *)
      else (s_with_dims s [], SOk (ABool true))
  | Count => (s, SOk (ACount (s_count s)))
  | GetDim i => (s, SOk (AKind (match s_get i (q_dims s) with Some d => Some (kind_of d, i) | None => None end)))
  | Dims => (s, SOk (ADims (map (fun p => (fst p, kind_of (snd p))) (combine (zrange (s_count s)) (q_dims s)))))
  | SLabel i l => s_modify s i KSampled (fun d => match d with
      | DSampled x off u cur => set_opt_str l (fun _ => true) cur (fun v => DSampled x off u v) | _ => None end)
  | SUnit i u => s_modify s i KSampled (fun d => match d with
      | DSampled x off cur l => set_opt_str u legal_unit cur (fun v => DSampled x off v l) | _ => None end)
  | SInterval i x => s_modify s i KSampled (fun d => match d with
      | DSampled _ off u l => if legal_interval x then Some (Some (DSampled x off u l)) else None | _ => None end)
  | SOffset i o => s_modify s i KSampled (fun d => match d with
      | DSampled x cur u l =>
          match o with
          | Some v => Some (Some (DSampled x (Some v) u l))
          | None => match cur with None => Some None | Some _ => Some (Some (DSampled x None u l)) end
          end
      | _ => None end)
  | TLabels i ls => s_modify s i KSet (fun d => match d with
      | DSet cur l =>
          match ls with
          | Some v => Some (Some (DSet (Some v) l))
          | None => match cur with None => Some None | Some _ => Some (Some (DSet None l)) end
          end
      | _ => None end)
  | TLabel i l => s_modify s i KSet (fun d => match d with
      | DSet ls cur => set_opt_str l (fun _ => true) cur (fun v => DSet ls v) | _ => None end)
  | RTicks i t =>
      if s_is_alias s i then
        match from_dbls (q_ty s) t with
        | Ok vs => s_arr_write s (legal_ticks t) false (s_with_data s vs)
        | Err _ => (s, SReject)
        | UB _ => if legal_ticks t && negb (q_ro s) then (s, SAny) else (s, SReject)
        end
      else s_modify s i KRange (fun d => match d with
        | DRange _ u l => if legal_ticks t then Some (Some (DRange t u l)) else None | _ => None end)
  | RLabel i l =>
      if s_is_alias s i then
        match l with
        | Some v => s_arr_write s (negb (sempty v)) false (s_with_label s (Some v))
        | None => s_arr_write s true (negb (opt_is_some (q_label s))) (s_with_label s None)
        end
      else s_modify s i KRange (fun d => match d with
        | DRange t u cur => set_opt_str l (fun _ => true) cur (fun v => DRange t u v) | _ => None end)
  | RUnit i u =>
      if s_is_alias s i then
        match u with
        | Some v => s_arr_write s (negb (sempty v) && legal_unit v) false (s_with_unit s (Some v))
        | None => s_arr_write s true (negb (opt_is_some (q_unit s))) (s_with_unit s None)
        end
      else s_modify s i KRange (fun d => match d with
        | DRange t cur l => set_opt_str u legal_unit cur (fun v => DRange t v l) | _ => None end)
  | RTickAt i k => s_read s i KRange (fun d =>
      match ticks_sc (s_ticks_of s d) k 1 with
      | Ok (x :: _) => Ok (ATick x) | Ok [] => UB "" | Err e => Err e | UB w => UB w end)
  | RTicksSC i st c | RAxis i c st => s_read s i KRange (fun d =>
      bind (ticks_sc (s_ticks_of s d) st c) (fun l => Ok (ATicks l)))
  | FQuery i q col => s_read s i KFrame (fun d => match d with
      | DFrame fo ci =>
          match q with
          | QLabel => bind (fq_label (q_frames s) fo ci col) (fun x => Ok (AStr x))
          | QUnit => bind (fq_unit (q_frames s) fo ci col) (fun x => Ok (AStr x))
          | QType => bind (fq_type (q_frames s) fo ci col) (fun x => Ok (AType x))
          end
      | _ => Err "" end)
  | ALabel l =>
      match l with
      | Some v => s_arr_write s (negb (sempty v)) false (s_with_label s (Some v))
      | None => s_arr_write s true false (s_with_label s None)
      end
  | AUnit u =>
      match u with
      | Some v =>
          let legal := negb (sempty (deblank v)) &&
                       (negb ((s_count s =? 1) && s_is_alias s 1) || alias_unit_ok (deblank v)) in
          s_arr_write s legal false (s_with_unit s (Some v))
      | None => s_arr_write s true false (s_with_unit s None)
      end
  | AData v =>
      if negb (Nat.eqb (q_rank s) 1) || q_ro s then (s, SReject) else
      match from_dbls (q_ty s) v with
      | Ok vs => (s_with_data s vs, SOk ADone)
      | Err _ => (s_with_data s (repeat (NDArr.zero_of (q_ty s)) (List.length v)), SReject)
      | UB _ => (s, SAny)
      end
  | SAt i k => s_read s i KSampled (fun d => match d with
      | DSampled x off _ _ => Ok (ATick (fadd (fmul (ofZ k) x) (match off with Some o => o | None => fzero end)))
      | _ => Err "" end)
  | DimsOfKind k =>
      (s, SOk (ADims (filter (fun p => kind_eqb (snd p) k)
                             (map (fun p => (fst p, kind_of (snd p))) (combine (zrange (s_count s)) (q_dims s))))))
  | RangeOfArray => if Nat.ltb 1 (q_rank s) then (s, SReject) else (s, SOk (AKind None))
  | FTicks i col rs vs off => s_read s i KFrame (fun d => match d with
      | DFrame fo ci => bind (frame_ticks false (q_frames s) fo ci col rs vs off) (fun l => Ok (ACells l))   (* as implemented *)
      | _ => Err "" end)
  | Reopen r => (mkS (q_dims s) (q_label s) (q_unit s) (q_data s) (q_ty s) (q_rank s) (q_frames s) r
                     (map keep_persistent (q_foreign s)) (q_b2 s), SOk ADone)
  | DropForeignBlock =>
      if q_ro s then (s, SReject) else
      if q_b2 s then (mkS (q_dims s) (q_label s) (q_unit s) (q_data s) (q_ty s) (q_rank s) (q_frames s) (q_ro s)
                          (map unpersist (q_foreign s)) false, SOk (ABool true))
      else (s, SOk (ABool false))
  | RecreateFrame k =>
      if q_ro s then (s, SReject) else
      match nth_error (q_frames s) k with
      | None => (s, SReject)
      | Some fr => (mkS (map (detach k) (q_dims s)) (q_label s) (q_unit s) (q_data s) (q_ty s) (q_rank s) (q_frames s) (q_ro s)
                        (List.app (q_foreign s) [Some (fr, false)]) (q_b2 s), SOk ADone)
      end
  | Observe => (s, SOk (AObs (s_observe s)))
  end.

Fixpoint sp_run (ops : list op) (s : sstate) : sstate * list sres :=
  match ops with
  | [] => (s, [])
  | o :: r => let '(s1, a) := sp_step o s in let '(s2, l) := sp_run r s1 in (s2, a :: l)
  end.

(** what a model answer is to the specification *)
Definition forget (r : res ans) : sres := match r with Ok a => SOk a | Err _ => SReject | UB _ => SAny end.

(** the part of the model state the specification talks about *)
Definition abs (s : state) : sstate :=
  mkS (map snd (dims s)) (a_label s) (a_unit s) (a_data s) (a_ty s) (a_rank s) (frames s) (ro s) (foreign s) (b2_alive s).

(* ------------------------------------------------------------------------------------------ *)
(** * The observation checker [dims_ok]: judged on what the getters returned, nothing else *)

Definition opt_str_eqb (a b : option string) : bool :=
  match a, b with Some x, Some y => String.eqb x y | None, None => true | _, _ => false end.

(** bit-for-bit equality of doubles (one NaN) *)
Definition f64_same (x y : F64) : bool :=
  match x, y with
  | B754_zero a, B754_zero b => Bool.eqb a b
  | B754_infinity a, B754_infinity b => Bool.eqb a b
  | B754_nan, B754_nan => true
  | B754_finite a m e _, B754_finite b n f _ => Bool.eqb a b && Pos.eqb m n && Z.eqb e f
  | _, _ => false
  end.
Fixpoint list_same (a b : list F64) : bool :=
  match a, b with
  | [], [] => true
  | x :: r, y :: t => f64_same x y && list_same r t
  | _, _ => false
  end.

Definition dim_ok (o : obs) (p : Z * option (Z * dobs)) : bool :=
  match snd p with
  | None => false                                      (* a gap *)
  | Some (idx, d) =>
      (idx =? fst p) &&
      match d with
      | OSampled _ _ x _ => fgt x fzero                 (* sampling interval positive *)
      | ORange false _ _ t => ascending t               (* ticks ascending *)
      | ORange true l u t =>                            (* the alias mirrors its array *)
          opt_str_eqb l (o_label o) && opt_str_eqb u (o_unit o) &&
          match o_data o with Some dd => list_same t dd | None => false end
      | _ => true
      end
  end.

Fixpoint keys_from (k : Z) (l : list (Z * option (Z * dobs))) : bool :=
  match l with
  | [] => true
  | p :: r => (fst p =? k) && keys_from (k + 1) r
  end.

Definition dims_ok (o : obs) : bool :=
  (zlen (o_dims o) =? o_count o) && keys_from 1 (o_dims o) && negb (o_zero o) && negb (o_next o) &&
  forallb (dim_ok o) (o_dims o).
