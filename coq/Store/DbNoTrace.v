(** * Store/DbNoTrace.v — preservation of the invariant by every step, and C08: a rejected step leaves no trace

    Both are read off [DbShape.step_shape].  [fresh s] (the next id of the supply is not a name in use) is the
    hypothesis on the id supply that the create step needs; reachability carries it along. *)
From Coq Require Import List ZArith Bool String Ascii Arith Lia.
Require Import NixV.Base.Prelude NixV.Store.Db NixV.Store.DbOps NixV.Store.DbObserve NixV.Store.DbInv NixV.Store.DbShape.
Import ListNotations.

Section NoTrace.
Variable ids : nat -> string.
Hypothesis ids_inj : forall a b, ids a = ids b -> a = b.
Variable N : nat.
Hypothesis ids_uuid : forall a, a < N -> looksLikeUUID (ids a) = true.
Variable sanitize : string -> string.
Variable unit_ok : string -> bool.

Notation Inv := (Inv ids N).
Notation fresh := (fresh ids N).
Notation stepR := (step ids sanitize unit_ok repaired).

Theorem inv_step s o : Inv s -> fresh s -> Inv (fst (stepR s o)).
Proof.
  intros H F. pose proof (step_shape ids ids_inj N ids_uuid sanitize unit_ok s o H F) as S. unfold shape in S.
  destruct (stepR s o) as [s' r]. simpl in *. destruct r.
  - eapply trans_inv; eauto.
  - destruct S; subst; auto. apply inv_bump; auto. apply F.
  - contradiction.
Qed.

Theorem step_never_ub s o w : Inv s -> fresh s -> snd (stepR s o) <> UB w.
Proof.
  intros H F. pose proof (step_shape ids ids_inj N ids_uuid sanitize unit_ok s o H F) as S. unfold shape in S.
  destruct (stepR s o) as [s' r]. simpl in *. destruct r; try discriminate. contradiction.
Qed.

Lemma observe_bump s : observe (bump s) = observe s.
Proof. reflexivity. Qed.

(** C08 *)
Theorem rejected_no_trace s o s' e : Inv s -> fresh s -> stepR s o = (s', Err e) -> observe s' = observe s.
Proof.
  intros H F E. pose proof (step_shape ids ids_inj N ids_uuid sanitize unit_ok s o H F) as S. unfold shape in S.
  rewrite E in S. simpl in S. destruct S; subst; auto.
Qed.

(** a rejected call does not even change the state, except that an id of the supply may have been consumed *)
Theorem rejected_state s o s' e : Inv s -> fresh s -> stepR s o = (s', Err e) -> s' = s \/ s' = bump s.
Proof.
  intros H F E. pose proof (step_shape ids ids_inj N ids_uuid sanitize unit_ok s o H F) as S. unfold shape in S.
  rewrite E in S. exact S.
Qed.

(** ** reachable states *)
Inductive reachable : db -> Prop :=
| R_init : reachable empty_db
| R_step s o : reachable s -> fresh s -> reachable (fst (stepR s o)).

Theorem inv_init : Inv empty_db.
Proof. apply inv_empty. Qed.

Theorem inv_reachable s : reachable s -> Inv s.
Proof. induction 1; [apply inv_init|apply inv_step; auto]. Qed.

Theorem rejected_no_trace_reachable s o s' e :
  reachable s -> fresh s -> stepR s o = (s', Err e) -> observe s' = observe s.
Proof. intros R. apply rejected_no_trace. apply inv_reachable; auto. Qed.

(** the same as a fold over the history *)
Fixpoint fresh_along (s : db) (l : list op) : Prop :=
  match l with
  | [] => True
  | o :: r => fresh s /\ fresh_along (fst (stepR s o)) r
  end.

(** the same hypothesis as a boolean, to discharge it by computation for concrete histories *)
Definition freshb (s : db) : bool :=
  Nat.ltb (next s) N && forallb (fun x => negb (String.eqb (e_name x) (ids (next s)))) (ents s).
Fixpoint fresh_alongb (s : db) (l : list op) : bool :=
  match l with
  | [] => true
  | o :: r => freshb s && fresh_alongb (fst (stepR s o)) r
  end.

Lemma freshb_ok s : freshb s = true -> fresh s.
Proof.
  unfold freshb. intros H. apply andb_true_iff in H. destruct H as [H1 H2]. split.
  - apply Nat.ltb_lt; auto.
  - intros x Hx E. rewrite forallb_forall in H2. specialize (H2 x Hx). rewrite E, String.eqb_refl in H2. discriminate.
Qed.

Lemma fresh_alongb_ok s l : fresh_alongb s l = true -> fresh_along s l.
Proof.
  revert s. induction l as [|o r IH]; simpl; intros s H; auto.
  apply andb_true_iff in H. destruct H as [H1 H2]. split; [apply freshb_ok; auto|apply IH; auto].
Qed.

Theorem inv_run s l : Inv s -> fresh_along s l -> Inv (run ids sanitize unit_ok repaired s l).
Proof.
  revert s. induction l as [|o r IH]; simpl; intros s H F; auto.
  destruct F as [F1 F2]. apply IH; auto. apply inv_step; auto.
Qed.

End NoTrace.
