(** * Store/DbRoutes.v — further public routes to the same state: enumerations with a filter, MultiTag::hasPositions /
    positionCount, DataFrame::colIndex(names) / colName(indices)

    A route only changes how a request is made.  [list_filtered] is ImplContainer::getEntities with a non-default filter:
    the loop over get(index) that keeps the candidates the predicate accepts — i.e. the filter of the enumeration.
    The theorems relate it to the enumeration ([OList]) and to the lookups by id / by name: a filter by id (by name) yields
    exactly the member that get by id (by name) finds. *)
From Coq Require Import List ZArith Bool String Ascii Arith Lia.
Require Import NixV.Base.Prelude NixV.Store.Db NixV.Store.DbOps NixV.Store.DbObserve NixV.Store.DbInv NixV.Store.DbShape
        NixV.Store.DbNoTrace NixV.Store.DbLookup.
Import ListNotations.

(** util::NameFilter, a lambda negating it, util::IdFilter, util::TypeFilter (an exact type), util::MetadataFilter,
    util::SourceFilter *)
Inductive efilter :=
| FName (s : string) | FNotName (s : string) | FId (s : string) | FType (s : string)
| FMeta (sec : option nat) | FSrc (src : option nat).

Section Routes.
Variable ids : nat -> string.

Definition ematch (f : efilter) (e : ent) : bool :=
  match f with
  | FName s => String.eqb (e_name e) s
  | FNotName s => negb (String.eqb (e_name e) s)
  | FId s => String.eqb (eid ids e) s
  | FType s => String.eqb (e_type e) s
  | FMeta (Some t) => opt_nat_eqb (l_meta (e_links e)) (Some t)
  | FMeta None => false                               (* the id of a section that is not in the file *)
  | FSrc (Some t) => memn t (l_srcs (e_links e))
  | FSrc None => false
  end.

(** X::ys(filter) of a child container, Y::zs(filter) of a link container *)
Definition list_filtered (s : db) (p : option nat) (k : kind) (f : efilter) : list nat :=
  map e_oid (filter (ematch f) (children s p k)).
Definition members_filtered (s : db) (h : nat) (sl : lslot) (f : efilter) : list nat :=
  match find_ent s h with
  | Some he => map e_oid (filter (ematch f) (members s he sl))
  | None => []
  end.

(** DataArray::dimensions(filter) with a predicate on the descriptor kind: (index from 1, descriptor) *)
Fixpoint number_from {A} (i : nat) (l : list A) : list (nat * A) :=
  match l with [] => [] | x :: r => (i, x) :: number_from (S i) r end.
Definition dims_filtered (s : db) (a : nat) (P : dimd -> bool) : list (nat * dimd) :=
  match find_ent s a with
  | Some e => filter (fun id => P (snd id)) (number_from 1 (l_dims (e_links e)))
  | None => []
  end.

(** MultiTag::hasPositions, MultiTag::positionCount = positions().dataExtent()[0] (None: it throws) *)
Definition has_positions (s : db) (m : nat) : bool :=
  match find_ent s m with Some e => match l_pos (e_links e) with Some _ => true | None => false end | None => false end.
Definition position_count (s : db) (m : nat) : option Z :=
  match find_ent s m with
  | Some e => match extent_of s (l_pos (e_links e)) with Some (n :: _) => Some n | _ => None end
  | None => None
  end.

(** DataFrame::colIndex(names): the position of each name among the columns; colName(indices) *)
Fixpoint col_index (cols : list column) (i : nat) (name : string) : option nat :=
  match cols with [] => None | c :: r => if String.eqb (c_name c) name then Some i else col_index r (S i) name end.
Definition col_indices (cols : list column) (names : list string) : list (option nat) := map (col_index cols 0) names.
Definition col_names (cols : list column) (idx : list nat) : list (option string) :=
  map (fun i => option_map c_name (nth_error cols i)) idx.

Hypothesis ids_inj : forall a b, ids a = ids b -> a = b.
Variable N : nat.
Hypothesis ids_uuid : forall a, a < N -> looksLikeUUID (ids a) = true.
Variable sanitize : string -> string.
Variable unit_ok : string -> bool.
Notation Inv := (Inv ids N).
Notation stepR := (step ids sanitize unit_ok repaired).

(** the filtered enumeration is the enumeration, filtered (same order) *)
Theorem filtered_is_filter_of_enumeration s p k pk f : Inv s -> container s p k pk ->
  exists l, stepR s (OList p k) = (s, Ok (VEnts l)) /\
            list_filtered s p k f = filter (fun o => match find_ent s o with Some e => ematch f e | None => false end) l.
Proof.
  intros H C. exists (map e_oid (children s p k)). split; [eapply enumeration_is_container; eauto|].
  unfold list_filtered.
  assert (Hall : forall x, In x (children s p k) -> find_ent s (e_oid x) = Some x).
  { intros x Hx. eapply find_ent_in; eauto. eapply children_ents; eauto. }
  induction (children s p k) as [|a l IH]; simpl; auto.
  rewrite (Hall a (or_introl eq_refl)). destruct (ematch f a); simpl; rewrite IH; auto; intros x Hx; apply Hall; right; auto.
Qed.

Lemma filter_unique {A} (g : A -> string) (l : list A) (e : A) :
  NoDup (map g l) -> In e l -> filter (fun x => String.eqb (g x) (g e)) l = [e].
Proof.
  induction l as [|a l IH]; simpl; [tauto|]. intros Nd [Ha|Hin]; inversion Nd; subst.
  - rewrite String.eqb_refl. f_equal.
    assert (Hn : forall x, In x l -> String.eqb (g x) (g e) = false).
    { intros x Hx. apply String.eqb_neq. intro E. apply H1. rewrite <- E. apply in_map; auto. }
    clear -Hn. induction l as [|b l IH]; simpl; auto. rewrite (Hn b (or_introl eq_refl)). apply IH. intros x Hx. apply Hn. right; auto.
  - destruct (String.eqb (g a) (g e)) eqn:E.
    + exfalso. apply String.eqb_eq in E. apply H1. rewrite E. apply in_map; auto.
    + apply IH; auto.
Qed.

(** a filter by id yields exactly the member that get by id finds ... *)
Theorem filtered_by_id s p k pk e : Inv s -> container s p k pk -> In e (children s p k) ->
  list_filtered s p k (FId (eid ids e)) = [e_oid e] /\
  stepR s (OGet p k (eid ids e)) = (s, Ok (VEnt (Some (e_oid e)))).
Proof.
  intros H C He. split; [|eapply get_by_id; eauto].
  unfold list_filtered.
  rewrite (filter_ext (ematch (FId (eid ids e))) (fun x => String.eqb (eid ids x) (eid ids e))) by (intros; reflexivity).
  rewrite (filter_unique (eid ids) (children s p k) e); auto.
  assert (Nd : NoDup (map (eid ids) (ents s))) by (eapply ids_unique; eauto).
  unfold children. apply NoDup_map_filter. exact Nd.
Qed.

(** ... and a filter by name the member that get by name finds *)
Theorem filtered_by_name s p k pk e : Inv s -> container s p k pk -> In e (children s p k) -> k <> KFeature ->
  list_filtered s p k (FName (e_name e)) = [e_oid e] /\
  stepR s (OGet p k (e_name e)) = (s, Ok (VEnt (Some (e_oid e)))).
Proof.
  intros H C He K. split; [|eapply get_by_name; eauto].
  unfold list_filtered.
  rewrite (filter_ext (ematch (FName (e_name e))) (fun x => String.eqb (e_name x) (e_name e))) by (intros; reflexivity).
  rewrite (filter_unique e_name (children s p k) e); auto.
  eapply names_unique; eauto.
Qed.

(** whatever the filter: what it returns are members, in enumeration order, each found by its id *)
Theorem filtered_members s p k pk f o : Inv s -> container s p k pk -> In o (list_filtered s p k f) ->
  exists e, In e (children s p k) /\ e_oid e = o /\ ematch f e = true /\
            stepR s (OGet p k (eid ids e)) = (s, Ok (VEnt (Some o))).
Proof.
  intros H C Ho. unfold list_filtered in Ho. apply in_map_iff in Ho. destruct Ho as [e [Eo He]]. apply filter_In in He.
  destruct He as [He M]. exists e. repeat split; auto. subst o. eapply get_by_id; eauto.
Qed.

End Routes.
