(** * Store/DbReopen.v — C02: close and reopen preserves the complete entity tree

    The model of a session is in DbSession.v.  The statements hold for EVERY behaviour [B] (today's code as
    well as the repaired one): they rest only on the fact that the library keeps no write-back state, which the
    model says by construction ([sstep] of [SClose] / [SOpen] / [SFlush] does not touch [s_db]) — the weight of C02
    is on the correspondence run, which dumps everything the property lists before the close and after the reopen
    (harness/hist_common.hpp [rawdump]).

    - [observe_file_only]        the observation reads the file and no session state
    - [close_reopen_observe]     after any history, close followed by open in either mode (same or another
                                 process: a process owns nothing but its session) shows the same tree
    - [intermediate_reopen]      inserting close; open ReadWrite anywhere in a history changes neither the final
                                 file nor any later answer (handles are object identities, re-obtained by id
                                 or name after the reopen: [reopen_rebinds_by_id / _by_name])
    - [ro_session_observes_same] a read-only session never changes the file; [query_pure]: no query does
    - [flush_identity]           flush changes nothing that can be observed
    - [reopen_valid]             after a reopen exactly the entities of the file have valid handles (repaired rule) *)
From Coq Require Import List ZArith Bool String Ascii Arith Lia.
Require Import NixV.Base.Prelude NixV.Store.Db NixV.Store.DbOps NixV.Store.DbObserve NixV.Store.DbInv NixV.Store.DbShape
        NixV.Store.DbNoTrace NixV.Store.DbLookup NixV.Store.DbSession.
Import ListNotations.

Section Reopen.
Variable ids : nat -> string.
Variable sanitize : string -> string.
Variable unit_ok : string -> bool.
Variable B : behaviour.
Notation sstep := (sstep ids sanitize unit_ok B).
Notation srun := (srun ids sanitize unit_ok B).
Notation strace := (strace ids sanitize unit_ok B).
Notation step := (step ids sanitize unit_ok B).

Theorem observe_file_only st st' : s_db st = s_db st' -> sobserve st = sobserve st'.
Proof. unfold sobserve. intros E. rewrite E. reflexivity. Qed.

Lemma srun_app st l1 l2 : srun st (l1 ++ l2) = srun (srun st l1) l2.
Proof. unfold DbSession.srun. apply fold_left_app. Qed.

Lemma close_open st m :
  srun st [SClose; SOpen m] = mkSess (s_db st) (Some m) (close_ghosts (s_ghosts st)).
Proof. reflexivity. Qed.

Theorem close_reopen_observe st l m : sobserve (srun (srun st l) [SClose; SOpen m]) = sobserve (srun st l).
Proof. rewrite close_open. reflexivity. Qed.

Theorem close_reopen_file st l m : s_db (srun st (l ++ [SClose; SOpen m])) = s_db (srun st l) /\ s_mode (srun st (l ++ [SClose; SOpen m])) = Some m.
Proof. rewrite srun_app, close_open. split; reflexivity. Qed.

Theorem flush_identity st : fst (sstep st SFlush) = st.
Proof. reflexivity. Qed.

(** ** nothing depends on the session but the mode *)
Definition same_file (a b : sess) : Prop := s_db a = s_db b /\ s_mode a = s_mode b.

Lemma sstep_same_file a b x : same_file a b ->
  same_file (fst (sstep a x)) (fst (sstep b x)) /\ snd (sstep a x) = snd (sstep b x).
Proof.
  intros [D M]. destruct a as [da ma ga], b as [db' mb gb]. cbn [s_db s_mode] in D, M. subst db' mb.
  destruct x as [o| |m|]; unfold DbSession.sstep, same_file; cbn [fst snd s_db s_mode].
  - destruct ma as [[|]|]; cbn [fst snd s_db s_mode]; auto.
    destruct (mutates o); cbn [fst snd s_db s_mode]; auto.
  - auto.
  - destruct ma; cbn [fst snd s_db s_mode]; auto.
  - auto.
Qed.

Lemma srun_same_file a b l : same_file a b -> same_file (srun a l) (srun b l).
Proof.
  revert a b. induction l as [|x l IH]; intros a b S; auto. cbn [DbSession.srun fold_left]. apply IH. apply sstep_same_file; auto.
Qed.

Lemma strace_same_file a b l : same_file a b -> strace a l = strace b l.
Proof.
  revert a b. induction l as [|x l IH]; intros a b S; auto. cbn [DbSession.strace].
  destruct (sstep_same_file a b x S) as [S' R]. rewrite R. f_equal. apply IH; auto.
Qed.

Theorem intermediate_reopen st l1 l2 : s_mode (srun st l1) = Some MRW ->
  s_db (srun st (l1 ++ SClose :: SOpen MRW :: l2)) = s_db (srun st (l1 ++ l2)) /\
  strace (srun st (l1 ++ [SClose; SOpen MRW])) l2 = strace (srun st l1) l2.
Proof.
  intros M.
  assert (S : same_file (srun (srun st l1) [SClose; SOpen MRW]) (srun st l1)) by (rewrite close_open; split; auto).
  split.
  - change (SClose :: SOpen MRW :: l2) with ([SClose; SOpen MRW] ++ l2). rewrite !srun_app. apply srun_same_file; auto.
  - rewrite srun_app. apply strace_same_file; auto.
Qed.

(** every later observation is the same, too *)
Corollary intermediate_reopen_observe st l1 l2 : s_mode (srun st l1) = Some MRW ->
  sobserve (srun st (l1 ++ SClose :: SOpen MRW :: l2)) = sobserve (srun st (l1 ++ l2)).
Proof. intros M. apply observe_file_only. apply intermediate_reopen; auto. Qed.

(** ** read-only sessions *)
Lemma ro_step st x : s_mode st = Some MRO -> plain x = true -> s_db (fst (sstep st x)) = s_db st /\ s_mode (fst (sstep st x)) = Some MRO.
Proof.
  intros M P. destruct x as [o| |m|]; try discriminate; unfold DbSession.sstep; rewrite ?M.
  - destruct (mutates o); auto.
  - auto.
Qed.

Theorem ro_session_observes_same st l : s_mode st = Some MRO -> forallb plain l = true ->
  s_db (srun st l) = s_db st /\ sobserve (srun st l) = sobserve st.
Proof.
  intros M P. assert (D : s_db (srun st l) = s_db st).
  { revert st M. induction l as [|x l IH]; intros st M; auto. cbn [forallb] in P. apply andb_true_iff in P. destruct P as [P1 P2].
    cbn [DbSession.srun fold_left]. destruct (ro_step st x M P1) as [D1 M1]. fold (srun (fst (sstep st x)) l). rewrite IH; auto. }
  split; auto. apply observe_file_only; auto.
Qed.

(** ** a query does not change the file *)
Lemma fst_with_container s p k f : (forall pk, fst (f pk) = s) -> fst (with_container s p k f) = s.
Proof. intros H. unfold with_container. destruct (parent_kind s p); auto. destruct (container_ok o k); auto. Qed.

Lemma fst_res_value s r f : fst (res_value s r f) = s.
Proof. destruct r; reflexivity. Qed.

Lemma fst_get_idx s pk p k i : fst (get_idx ids B s pk p k i) = s.
Proof.
  unfold get_idx. destruct (nth_error _ i); auto. destruct k; try (destruct pk as [[]|]; reflexivity). apply fst_res_value.
Qed.

Theorem query_pure s o : mutates o = false -> fst (step s o) = s.
Proof.
  intros Q. destruct o; try discriminate Q; cbn [DbOps.step].
  - apply fst_with_container. intros pk. apply fst_res_value.
  - apply fst_with_container. intros pk. destruct (hent s a); auto. apply fst_res_value.
  - apply fst_with_container. intros pk. destruct pk as [[]|]; destruct k; try apply fst_res_value;
      (destruct (is_empty_str key); [reflexivity|apply fst_res_value]).
  - apply fst_with_container. intros pk. apply fst_get_idx.
  - apply fst_with_container. intros pk. reflexivity.
  - apply fst_with_container. intros pk. reflexivity.
  - unfold do_link_op. destruct (find_ent s h); auto. destruct (negb _); auto. destruct (block_of_ent s e); auto.
    destruct sl; try (destruct (hent s a); reflexivity). destruct a; reflexivity.
  - unfold do_link_op. destruct (find_ent s h); auto. destruct (negb _); auto. destruct (block_of_ent s e); auto.
    destruct sl; reflexivity.
  - unfold do_link_op. destruct (find_ent s h); auto. destruct (negb _); auto. destruct (block_of_ent s e); auto.
    destruct sl; reflexivity.
  - unfold do_link_op. destruct (find_ent s h); auto. destruct (negb _); auto. destruct (block_of_ent s e); auto.
    destruct (nth_error _ i); reflexivity.
  - unfold do_link_op. destruct (find_ent s h); auto. destruct (negb _); auto. destruct (block_of_ent s e); auto.
  - unfold do_link_op. destruct (find_ent s h); auto. destruct (negb _); auto. destruct (block_of_ent s e); auto.
  - reflexivity.
Qed.

(** so a read-only session answers its queries exactly as a read-write session on the same file would *)
Theorem ro_query_answers d g g' o : mutates o = false ->
  snd (sstep (mkSess d (Some MRO) g) (SOp o)) = snd (sstep (mkSess d (Some MRW) g') (SOp o)) /\
  s_db (fst (sstep (mkSess d (Some MRW) g') (SOp o))) = d.
Proof.
  intros Q. unfold DbSession.sstep. cbn [s_mode s_db]. rewrite Q. cbn [fst snd s_db]. split; auto. apply query_pure; auto.
Qed.

(** ** handles after a reopen: with the repaired validity rule exactly the entities of the file have valid handles *)
Theorem reopen_valid st m a : b_valid_reachable B = true ->
  svalid B (srun st [SClose; SOpen m]) a = match a with HNone => false | HEnt o => alive (s_db st) o end.
Proof.
  intros V. rewrite close_open. unfold svalid, handle_valid. cbn [s_db s_ghosts]. destruct a; auto. rewrite V. cbn [negb andb].
  rewrite orb_false_r. reflexivity.
Qed.

(** whatever the rule: an entity of the file has a valid handle, before and after *)
Theorem reopen_live_valid st m o : alive (s_db st) o = true -> svalid B (srun st [SClose; SOpen m]) (HEnt o) = true.
Proof. intros A. rewrite close_open. unfold svalid, handle_valid. cbn [s_db]. rewrite A. reflexivity. Qed.

End Reopen.

(** after the reopen the drivers obtain their handles again by id (or by name): that finds the same objects *)
Section Rebind.
Variable ids : nat -> string.
Hypothesis ids_inj : forall a b, ids a = ids b -> a = b.
Variable N : nat.
Hypothesis ids_uuid : forall a, a < N -> looksLikeUUID (ids a) = true.
Variable sanitize : string -> string.
Variable unit_ok : string -> bool.

Theorem reopen_rebinds_by_id s p k pk e : Inv ids N s -> container s p k pk -> In e (children s p k) ->
  step ids sanitize unit_ok repaired s (OGet p k (eid ids e)) = (s, Ok (VEnt (Some (e_oid e)))).
Proof. intros; eapply get_by_id; eauto. Qed.

Theorem reopen_rebinds_by_name s p k pk e : Inv ids N s -> container s p k pk -> In e (children s p k) -> k <> KFeature ->
  step ids sanitize unit_ok repaired s (OGet p k (e_name e)) = (s, Ok (VEnt (Some (e_oid e)))).
Proof. intros; eapply get_by_name; eauto. Qed.

End Rebind.
