(** * Store/Db.v — the entity database (spec-layer state of a NIX file)

    Used by C03 (names/lookups/order), C08 (rejected calls leave no trace), C04 (deletion: [remove_subtree],
    proofs in DbDelete.v) and C02 (close/reopen: sessions in DbSession.v, proofs in DbReopen.v).
    Definitions only; proofs are in DbInv*.v.

    ** Representation (a deliberate simplification of DESIGN.md appendix C)

    The file is a FLAT list of entities in creation order.  Every entity carries
    - [h_oid]   its object identity (a creation counter; what a handle and every link holds — a hard
                link to the HDF5 object, so a re-created entity of the same name is a different target),
    - [h_idx]   the index of its id in the id supply: the entity's id string is [ids (h_idx e)].
                In every state the repaired library can reach [h_idx = h_oid]; the two are distinct only
                because today's [createDataFrame] can RE-IDENTIFY an existing object (defect #7),
    - [h_kind], [h_parent] (None = the file root: "/data" for blocks, "/metadata" for sections),
    - name / type / definition,
    - [links]   every link kind by target oid (metadata, section link, multi-tag positions / extents,
                feature data; lists: tag references, entity sources, the four group member lists;
                [l_dims]: the dimension descriptors of an array — kind only, plus the frame a data-frame
                dimension links to; [DimAlias] is the alias range dimension, whose group links to the array
                ITSELF, see DbSession.v),
    - [payload] per-kind stubs (array element type and extent, property type and value count, frame
                columns and rows, tag position / extent / units, feature link type).

    A *container* is not stored: the children of parent [p] of kind [k] are the entities with that
    parent and kind, in list order — which is creation order, and is exactly what HDF5 gives with
    creation-order tracked groups (H5Lget_name_by_idx(H5_INDEX_CRT_ORDER, H5_ITER_INC, i)).
    Link containers (references, entity sources, group members) ARE stored, as lists of target oids in
    the order the links were added (their HDF5 groups track creation order too); their link names are
    the ids of the targets.

    Timestamps are not modelled (never observed by the checks that use this file). *)
From Coq Require Import List ZArith Bool String Ascii Arith Lia.
Require Import NixV.Base.Prelude.
Import ListNotations.

(** ** kinds, element types *)
Inductive kind := KBlock | KSection | KProperty | KArray | KFrame | KTag | KMTag | KGroup | KSource | KFeature.

Definition kind_eqb (a b : kind) : bool :=
  match a, b with
  | KBlock, KBlock | KSection, KSection | KProperty, KProperty | KArray, KArray | KFrame, KFrame
  | KTag, KTag | KMTag, KMTag | KGroup, KGroup | KSource, KSource | KFeature, KFeature => true
  | _, _ => false
  end.

(** nix::DataType *)
Inductive dtype := DBool | DChar | DFloat | DDouble | DInt8 | DInt16 | DInt32 | DInt64
                 | DUInt8 | DUInt16 | DUInt32 | DUInt64 | DString | DOpaque | DNothing.

Definition dtype_eqb (a b : dtype) : bool :=
  match a, b with
  | DBool, DBool | DChar, DChar | DFloat, DFloat | DDouble, DDouble | DInt8, DInt8 | DInt16, DInt16
  | DInt32, DInt32 | DInt64, DInt64 | DUInt8, DUInt8 | DUInt16, DUInt16 | DUInt32, DUInt32
  | DUInt64, DUInt64 | DString, DString | DOpaque, DOpaque | DNothing, DNothing => true
  | _, _ => false
  end.

(** data_type_to_h5_filetype: every type but Char and Nothing can be stored *)
Definition h5_storable (d : dtype) : bool := match d with DChar | DNothing => false | _ => true end.
(** Variant::supports_type — note that it accepts Nothing *)
Definition variant_supports (d : dtype) : bool :=
  match d with DBool | DInt32 | DUInt32 | DInt64 | DUInt64 | DDouble | DString | DNothing => true | _ => false end.

Record column := mkCol { c_name : string; c_dtype : dtype; c_unit : string }.

(** ** entities *)
Record hdr := mkHdr { h_oid : nat; h_idx : nat; h_kind : kind; h_parent : option nat;
                      h_name : string; h_type : string; h_def : option string }.

(** dimension descriptors: only the kind and the link a descriptor holds (the descriptor fields are C13's) *)
Inductive dimd := DimSet | DimRange | DimSampled | DimAlias | DimFrame (f : option nat).

Record links := mkLinks {
  l_meta : option nat;   (* EntityWithMetadata: link "metadata" -> section *)
  l_link : option nat;   (* Section: link "link" -> section *)
  l_pos  : option nat;   (* MultiTag: link "positions" -> array *)
  l_ext  : option nat;   (* MultiTag: link "extents" -> array *)
  l_data : option nat;   (* Feature: link "data" -> array *)
  l_refs : list nat;     (* Tag / MultiTag: references/<array id> *)
  l_srcs : list nat;     (* EntityWithSources: sources/<source id> *)
  l_garr : list nat;     (* Group: data_arrays/<id> *)
  l_gfrm : list nat;     (* Group: data_frame/<id> *)
  l_gtag : list nat;     (* Group: tags/<id> *)
  l_gmtg : list nat;     (* Group: multi_tags/<id> *)
  l_dims : list dimd     (* DataArray: dimensions/<1..n>; a data-frame dimension holds a link "data_frame" -> frame,
                            an alias range dimension a link <array id> -> the array itself *)
}.

Record payload := mkPay {
  p_dtype  : dtype;                   (* array / property element type (DNothing: no dataset) *)
  p_extent : list Z;                  (* array extent; property: [value count]; frame: [rows] *)
  p_tpos   : list string;             (* tag position (doubles as opaque tokens) *)
  p_text   : option (list string);    (* tag extent *)
  p_units  : option (list string);    (* tag / multi-tag units (already sanitized) *)
  p_cols   : list column;             (* frame columns *)
  p_ltype  : string                   (* feature link type *)
}.

Record ent := mkEnt { e_hdr : hdr; e_links : links; e_pay : payload }.

Record db := mkDb { ents : list ent; next : nat }.

Definition no_links : links := mkLinks None None None None None [] [] [] [] [] [] [].
Definition no_payload : payload := mkPay DNothing [] [] None None [] EmptyString.

Definition e_oid (e : ent) : nat := h_oid (e_hdr e).
Definition e_idx (e : ent) : nat := h_idx (e_hdr e).
Definition e_kind (e : ent) : kind := h_kind (e_hdr e).
Definition e_parent (e : ent) : option nat := h_parent (e_hdr e).
Definition e_name (e : ent) : string := h_name (e_hdr e).
Definition e_type (e : ent) : string := h_type (e_hdr e).
Definition e_def (e : ent) : option string := h_def (e_hdr e).

Definition empty_db : db := mkDb [] 0.

(** ** slots: uniform access to the link fields *)
Inductive lslot := LRefs | LSrcs | LGArr | LGFrm | LGTag | LGMtg.
Inductive oslot := OMeta | OLink | OPos | OExt | OData.

Definition get_l (sl : lslot) (l : links) : list nat :=
  match sl with
  | LRefs => l_refs l | LSrcs => l_srcs l | LGArr => l_garr l | LGFrm => l_gfrm l | LGTag => l_gtag l | LGMtg => l_gmtg l
  end.
Definition set_l (sl : lslot) (v : list nat) (l : links) : links :=
  match sl with
  | LRefs => mkLinks (l_meta l) (l_link l) (l_pos l) (l_ext l) (l_data l) v (l_srcs l) (l_garr l) (l_gfrm l) (l_gtag l) (l_gmtg l) (l_dims l)
  | LSrcs => mkLinks (l_meta l) (l_link l) (l_pos l) (l_ext l) (l_data l) (l_refs l) v (l_garr l) (l_gfrm l) (l_gtag l) (l_gmtg l) (l_dims l)
  | LGArr => mkLinks (l_meta l) (l_link l) (l_pos l) (l_ext l) (l_data l) (l_refs l) (l_srcs l) v (l_gfrm l) (l_gtag l) (l_gmtg l) (l_dims l)
  | LGFrm => mkLinks (l_meta l) (l_link l) (l_pos l) (l_ext l) (l_data l) (l_refs l) (l_srcs l) (l_garr l) v (l_gtag l) (l_gmtg l) (l_dims l)
  | LGTag => mkLinks (l_meta l) (l_link l) (l_pos l) (l_ext l) (l_data l) (l_refs l) (l_srcs l) (l_garr l) (l_gfrm l) v (l_gmtg l) (l_dims l)
  | LGMtg => mkLinks (l_meta l) (l_link l) (l_pos l) (l_ext l) (l_data l) (l_refs l) (l_srcs l) (l_garr l) (l_gfrm l) (l_gtag l) v (l_dims l)
  end.
Definition get_o (sl : oslot) (l : links) : option nat :=
  match sl with OMeta => l_meta l | OLink => l_link l | OPos => l_pos l | OExt => l_ext l | OData => l_data l end.
Definition set_o (sl : oslot) (v : option nat) (l : links) : links :=
  match sl with
  | OMeta => mkLinks v (l_link l) (l_pos l) (l_ext l) (l_data l) (l_refs l) (l_srcs l) (l_garr l) (l_gfrm l) (l_gtag l) (l_gmtg l) (l_dims l)
  | OLink => mkLinks (l_meta l) v (l_pos l) (l_ext l) (l_data l) (l_refs l) (l_srcs l) (l_garr l) (l_gfrm l) (l_gtag l) (l_gmtg l) (l_dims l)
  | OPos  => mkLinks (l_meta l) (l_link l) v (l_ext l) (l_data l) (l_refs l) (l_srcs l) (l_garr l) (l_gfrm l) (l_gtag l) (l_gmtg l) (l_dims l)
  | OExt  => mkLinks (l_meta l) (l_link l) (l_pos l) v (l_data l) (l_refs l) (l_srcs l) (l_garr l) (l_gfrm l) (l_gtag l) (l_gmtg l) (l_dims l)
  | OData => mkLinks (l_meta l) (l_link l) (l_pos l) (l_ext l) v (l_refs l) (l_srcs l) (l_garr l) (l_gfrm l) (l_gtag l) (l_gmtg l) (l_dims l)
  end.

Definition set_dims (v : list dimd) (l : links) : links :=
  mkLinks (l_meta l) (l_link l) (l_pos l) (l_ext l) (l_data l) (l_refs l) (l_srcs l) (l_garr l) (l_gfrm l) (l_gtag l) (l_gmtg l) v.
(** the frames the data-frame dimensions link to *)
Definition dim_frames (l : links) : list nat := flat_map (fun d => match d with DimFrame (Some f) => [f] | _ => [] end) (l_dims l).
Definition has_alias (l : links) : bool := existsb (fun d => match d with DimAlias => true | _ => false end) (l_dims l).

Definition all_lslots : list lslot := [LRefs; LSrcs; LGArr; LGFrm; LGTag; LGMtg].
Definition all_oslots : list oslot := [OMeta; OLink; OPos; OExt; OData].

(** the kind of entity a link slot points to *)
Definition lslot_target (sl : lslot) : kind :=
  match sl with LRefs => KArray | LSrcs => KSource | LGArr => KArray | LGFrm => KFrame | LGTag => KTag | LGMtg => KMTag end.

(** entity updates that leave the header alone *)
Definition with_links (f : links -> links) (e : ent) : ent := mkEnt (e_hdr e) (f (e_links e)) (e_pay e).
Definition with_pay (f : payload -> payload) (e : ent) : ent := mkEnt (e_hdr e) (e_links e) (f (e_pay e)).
Definition with_type (t : string) (e : ent) : ent :=
  let h := e_hdr e in mkEnt (mkHdr (h_oid h) (h_idx h) (h_kind h) (h_parent h) (h_name h) t (h_def h)) (e_links e) (e_pay e).
Definition with_def (d : option string) (e : ent) : ent :=
  let h := e_hdr e in mkEnt (mkHdr (h_oid h) (h_idx h) (h_kind h) (h_parent h) (h_name h) (h_type h) d) (e_links e) (e_pay e).
(** re-identification (only today's duplicate createDataFrame does this) *)
Definition with_idx (i : nat) (e : ent) : ent :=
  let h := e_hdr e in mkEnt (mkHdr (h_oid h) i (h_kind h) (h_parent h) (h_name h) (h_type h) (h_def h)) (e_links e) (e_pay e).

Definition set_dtype (d : dtype) (p : payload) : payload := mkPay d (p_extent p) (p_tpos p) (p_text p) (p_units p) (p_cols p) (p_ltype p).
Definition set_extent (x : list Z) (p : payload) : payload := mkPay (p_dtype p) x (p_tpos p) (p_text p) (p_units p) (p_cols p) (p_ltype p).
Definition set_tpos (x : list string) (p : payload) : payload := mkPay (p_dtype p) (p_extent p) x (p_text p) (p_units p) (p_cols p) (p_ltype p).
Definition set_text (x : option (list string)) (p : payload) : payload := mkPay (p_dtype p) (p_extent p) (p_tpos p) x (p_units p) (p_cols p) (p_ltype p).
Definition set_units (x : option (list string)) (p : payload) : payload := mkPay (p_dtype p) (p_extent p) (p_tpos p) (p_text p) x (p_cols p) (p_ltype p).

(** ** primitive state operations *)
Definition opt_nat_eqb (a b : option nat) : bool :=
  match a, b with Some x, Some y => Nat.eqb x y | None, None => true | _, _ => false end.

Definition find_ent (s : db) (o : nat) : option ent := find (fun e => Nat.eqb (e_oid e) o) (ents s).
Definition alive (s : db) (o : nat) : bool := match find_ent s o with Some _ => true | None => false end.

(** the container (parent [p], kind [k]) in creation order *)
Definition in_container (p : option nat) (k : kind) (e : ent) : bool := opt_nat_eqb (e_parent e) p && kind_eqb (e_kind e) k.
Definition children (s : db) (p : option nat) (k : kind) : list ent := filter (in_container p k) (ents s).

(** createId(): the supply counter advances *)
Definition bump (s : db) : db := mkDb (ents s) (S (next s)).
(** a new object: appended, so that list order stays creation order *)
Definition add_ent (s : db) (e : ent) : db := mkDb (ents s ++ [e]) (S (next s)).
(** change one entity in place *)
Definition upd (s : db) (o : nat) (f : ent -> ent) : db :=
  mkDb (map (fun e => if Nat.eqb (e_oid e) o then f e else e) (ents s)) (next s).

Definition memn (x : nat) (l : list nat) : bool := existsb (Nat.eqb x) l.
Definition in_opt (o : option nat) (l : list nat) : bool := match o with Some x => memn x l | None => false end.

(** the oids of the subtree rooted at [x]: one pass suffices because a parent always precedes its
    children in [ents] (creation order) *)
Definition dead_step (x : nat) (dead : list nat) (e : ent) : list nat :=
  if Nat.eqb (e_oid e) x || in_opt (e_parent e) dead then e_oid e :: dead else dead.
Definition subtree (s : db) (x : nat) : list nat := fold_left (dead_step x) (ents s) [].

(** H5Group::removeAllLinks: every link to a removed object disappears, whoever holds it *)
Definition scrub_o (dead : list nat) (o : option nat) : option nat := if in_opt o dead then None else o.
Definition scrub_l (dead : list nat) (l : list nat) : list nat := filter (fun t => negb (memn t dead)) l.
Definition scrub_d (dead : list nat) (d : dimd) : dimd := match d with DimFrame f => DimFrame (scrub_o dead f) | x => x end.
Definition scrub_links (dead : list nat) (l : links) : links :=
  mkLinks (scrub_o dead (l_meta l)) (scrub_o dead (l_link l)) (scrub_o dead (l_pos l)) (scrub_o dead (l_ext l))
          (scrub_o dead (l_data l)) (scrub_l dead (l_refs l)) (scrub_l dead (l_srcs l)) (scrub_l dead (l_garr l))
          (scrub_l dead (l_gfrm l)) (scrub_l dead (l_gtag l)) (scrub_l dead (l_gmtg l)) (map (scrub_d dead) (l_dims l)).

(** delete the entity [x] together with its subtree and every link to a member of it *)
Definition remove_subtree (s : db) (x : nat) : db :=
  let dead := subtree s x in
  mkDb (map (with_links (scrub_links dead)) (filter (fun e => negb (memn (e_oid e) dead)) (ents s))) (next s).

(** ** strings *)
Definition slash : ascii := "/"%char.
Fixpoint has_slash (s : string) : bool :=
  match s with EmptyString => false | String c r => Ascii.eqb c slash || has_slash r end.
Definition is_empty_str (s : string) : bool := match s with EmptyString => true | _ => false end.

Definition dash : ascii := "-"%char.
Definition char_at (n : nat) (s : string) : option ascii := String.get n s.
Definition is_dash_at (n : nat) (s : string) : bool :=
  match char_at n s with Some c => Ascii.eqb c dash | None => false end.
(** util::looksLikeUUID: length 36 and '-' at 8, 13, 18, 23 *)
Definition looksLikeUUID (s : string) : bool :=
  Nat.eqb (String.length s) 36 && is_dash_at 8 s && is_dash_at 13 s && is_dash_at 18 s && is_dash_at 23 s.
