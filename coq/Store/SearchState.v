(** C20 — replaying a case script on the model's file: construction, deletion and lookup helpers used by
    ocaml/drv_C20.ml (definitions only; the searches themselves are in Search.v).  The script only applies
    these operations to live entities (the drivers refuse references to deleted ones before calling anything). *)
From Coq Require Import List ZArith Bool String Ascii.
Require Import NixV.Base.Prelude NixV.Store.Search.
Import ListNotations.
Local Open Scope Z_scope.

(** the five filters of the case language *)
Inductive fkind := FAll | FId (id : string) | FName (name : string) | FType (type : string) | FIds (ids : list string)
                 | FTypeLoose (type : string) | FMeta (sec_id : string) | FHasSrc (src_id : string).
(** the filter as the code evaluates it ([roots] = the file's sections, needed by MetadataFilter) *)
Definition apply_filter (roots : list tree) (k : fkind) : tree -> bool :=
  match k with
  | FAll => AcceptAll
  | FId id => IdFilter id
  | FName n => NameFilter n
  | FType t => TypeFilter t
  | FIds ids => IdsFilter ids
  | FTypeLoose t => TypeFilterLoose t
  | FMeta sec_id => SourceMetadataFilter roots sec_id
  | FHasSrc src_id => SourceSourceFilter src_id
  end.
(** the filter as the specification reads it (pointwise link tests) *)
Definition spec_filter (k : fkind) : tree -> bool :=
  match k with
  | FMeta sec_id => spec_meta_filter sec_id
  | FHasSrc src_id => has_kid src_id
  | k => apply_filter [] k
  end.

(** filters over data arrays / tags / multi-tags *)
Inductive ekind := EAll | EId (id : string) | EMeta (sec_id : string) | ESrc (src_id : string).
Definition apply_efilter (roots : list tree) (k : ekind) : ent -> bool :=
  match k with
  | EAll => fun _ => true
  | EId id => EntIdFilter id
  | EMeta sec_id => EntMetadataFilter roots sec_id
  | ESrc src_id => SourceFilter src_id
  end.
Definition spec_efilter (k : ekind) : ent -> bool :=
  match k with
  | EAll => fun _ => true
  | EId id => fun e => String.eqb (e_id e) id
  | EMeta sec_id => fun e => opt_is (e_meta e) sec_id
  | ESrc src_id => fun e => existsb (String.eqb src_id) (e_srcs e)
  end.
Definition apply_bfilter (roots : list tree) (k : ekind) : block -> bool :=
  match k with
  | EId id => BlockIdFilter id
  | EMeta sec_id => BlockMetadataFilter roots sec_id
  | _ => fun _ => true
  end.
Definition spec_bfilter (k : ekind) : block -> bool :=
  match k with
  | EId id => fun b => String.eqb (b_id b) id
  | EMeta sec_id => fun b => opt_is (b_meta b) sec_id
  | _ => fun _ => true
  end.

Definition empty_file : file := mkFile [] [].

(** ** trees *)
Fixpoint add_child (pid : string) (c : tree) (t : tree) : tree :=
  match t with
  | Node l ks => if String.eqb (n_id l) pid then Node l (ks ++ [c]) else Node l (map (add_child pid c) ks)
  end.

Fixpoint map_tree (g : node -> node) (t : tree) : tree :=
  match t with Node l ks => Node (g l) (map (map_tree g) ks) end.

Definition update_node (id : string) (g : node -> node) (t : tree) : tree :=
  map_tree (fun n => if String.eqb (n_id n) id then g n else n) t.

Fixpoint remove_t (id : string) (t : tree) : tree :=
  match t with
  | Node l ks =>
    Node l ((fix go (ks : list tree) : list tree :=
               match ks with
               | [] => []
               | k :: r => if String.eqb (tid k) id then go r else remove_t id k :: go r
               end) ks)
  end.
Definition remove_f (id : string) (ts : list tree) : list tree :=
  map (remove_t id) (filter (fun k => negb (String.eqb (tid k) id)) ts).

Definition first_some {A} (l : list (option A)) : option A :=
  fold_right (fun o acc => match o with Some x => Some x | None => acc end) None l.

(** the subtree with the given id together with its ancestors (nearest first) *)
Fixpoint locate (id : string) (anc : list tree) (t : tree) : option (tree * list tree) :=
  match t with
  | Node l ks =>
    if String.eqb (n_id l) id then Some (Node l ks, anc)
    else first_some (map (locate id (Node l ks :: anc)) ks)
  end.
Definition locate_f (id : string) (ts : list tree) : option (tree * list tree) :=
  first_some (map (locate id []) ts).

Definition in_ids (ids : list string) (o : option string) : bool :=
  match o with Some x => existsb (String.eqb x) ids | None => false end.
Definition clear_opt (dead : list string) (o : option string) : option string := if in_ids dead o then None else o.

(** ** construction *)
Definition new_node (id name type : string) : node := mkNode id name type [] None None.

Definition add_section (f : file) (parent : option string) (n : node) : file :=
  match parent with
  | None => mkFile (f_sections f ++ [Node n []]) (f_blocks f)
  | Some pid => mkFile (map (add_child pid (Node n [])) (f_sections f)) (f_blocks f)
  end.

Definition add_prop (f : file) (sec_id : string) (p : string * string) : file :=
  mkFile (map (update_node sec_id (fun n => mkNode (n_id n) (n_name n) (n_type n) (n_props n ++ [p]) (n_link n) (n_meta n)))
              (f_sections f)) (f_blocks f).

Definition set_link (f : file) (sec_id target : string) : file :=
  mkFile (map (update_node sec_id (fun n => mkNode (n_id n) (n_name n) (n_type n) (n_props n) (Some target) (n_meta n)))
              (f_sections f)) (f_blocks f).

Definition add_block (f : file) (id : string) : file :=
  mkFile (f_sections f) (f_blocks f ++ [mkBlock id None [] [] [] []]).

Definition map_block (bid : string) (g : block -> block) (f : file) : file :=
  mkFile (f_sections f) (map (fun b => if String.eqb (b_id b) bid then g b else b) (f_blocks f)).

Definition add_source (f : file) (bid : string) (parent : option string) (n : node) : file :=
  map_block bid (fun b =>
    let srcs := match parent with
                | None => b_sources b ++ [Node n []]
                | Some pid => map (add_child pid (Node n [])) (b_sources b)
                end in
    mkBlock (b_id b) (b_meta b) srcs (b_arrays b) (b_tags b) (b_mtags b)) f.

Definition add_array (f : file) (bid id : string) : file :=
  map_block bid (fun b => mkBlock (b_id b) (b_meta b) (b_sources b) (b_arrays b ++ [mkEnt id None []]) (b_tags b) (b_mtags b)) f.
Definition add_tag (f : file) (bid id : string) : file :=
  map_block bid (fun b => mkBlock (b_id b) (b_meta b) (b_sources b) (b_arrays b) (b_tags b ++ [mkEnt id None []]) (b_mtags b)) f.
Definition add_mtag (f : file) (bid id : string) : file :=
  map_block bid (fun b => mkBlock (b_id b) (b_meta b) (b_sources b) (b_arrays b) (b_tags b) (b_mtags b ++ [mkEnt id None []])) f.

(** apply [ge] to the entity (array, tag, multi-tag) with id [id], [gn] to the source node with that id and
    [gb] to the block with that id *)
Definition update_entity (id : string) (ge : ent -> ent) (gn : node -> node) (gb : block -> block) (f : file) : file :=
  let ue := map (fun e => if String.eqb (e_id e) id then ge e else e) in
  mkFile (f_sections f)
         (map (fun b =>
                 let b' := mkBlock (b_id b) (b_meta b) (map (update_node id gn) (b_sources b))
                                   (ue (b_arrays b)) (ue (b_tags b)) (ue (b_mtags b)) in
                 if String.eqb (b_id b) id then gb b' else b') (f_blocks f)).

(** EntityWithMetadataHDF5::metadata(id) on a live section: the link now points to it *)
Definition set_meta (f : file) (id sec_id : string) : file :=
  update_entity id
    (fun e => mkEnt (e_id e) (Some sec_id) (e_srcs e))
    (fun n => mkNode (n_id n) (n_name n) (n_type n) (n_props n) (n_link n) (Some sec_id))
    (fun b => mkBlock (b_id b) (Some sec_id) (b_sources b) (b_arrays b) (b_tags b) (b_mtags b)) f.

Definition block_of_entity (f : file) (id : string) : option block :=
  hd_error (filter (fun b => existsb (fun e => String.eqb (e_id e) id) (b_arrays b ++ b_tags b ++ b_mtags b)) (f_blocks f)).
Definition entity_by_id (f : file) (id : string) : option ent :=
  hd_error (filter (fun e => String.eqb (e_id e) id) (flat_map (fun b => b_arrays b ++ b_tags b ++ b_mtags b) (f_blocks f))).

(** EntityWithSourcesHDF5::addSource(id): the source must be found by block.findSources(IdFilter(id)) in the
    entity's own block, else std::runtime_error; a second link of the same name is refused by HDF5 *)
Definition add_src (f : file) (id src_id : string) : res file :=
  match block_of_entity f id, entity_by_id f id with
  | Some b, Some e =>
    bind (Block_findSources (IdFilter src_id) size_max (b_sources b)) (fun found =>
    match found with
    | [] => Err "std::runtime_error"
    | _ => if existsb (String.eqb src_id) (e_srcs e) then Err "nix::hdf5::H5Error"
           else Ok (update_entity id (fun e => mkEnt (e_id e) (e_meta e) (e_srcs e ++ [src_id])) (fun n => n) (fun b => b) f)
    end)
  | _, _ => Err "std::logic_error"
  end.

(** ** deletion: the subtree goes, and with it every link to one of its members (H5Group::removeAllLinks) *)
Definition clear_section_links (dead : list string) (f : file) : file :=
  let cn := fun n => mkNode (n_id n) (n_name n) (n_type n) (n_props n) (clear_opt dead (n_link n)) (clear_opt dead (n_meta n)) in
  let ce := map (fun e => mkEnt (e_id e) (clear_opt dead (e_meta e)) (e_srcs e)) in
  mkFile (map (map_tree cn) (f_sections f))
         (map (fun b => mkBlock (b_id b) (clear_opt dead (b_meta b)) (map (map_tree cn) (b_sources b))
                                (ce (b_arrays b)) (ce (b_tags b)) (ce (b_mtags b))) (f_blocks f)).

Definition delete_section (f : file) (id : string) : file :=
  match locate_f id (f_sections f) with
  | None => f
  | Some (t, _) =>
    let dead := map tid (all_nodes t) in
    clear_section_links dead (mkFile (remove_f id (f_sections f)) (f_blocks f))
  end.

Definition delete_source (f : file) (id : string) : file :=
  mkFile (f_sections f)
         (map (fun b =>
                 match locate_f id (b_sources b) with
                 | None => b
                 | Some (t, _) =>
                   let dead := map tid (all_nodes t) in
                   let ce := map (fun e => mkEnt (e_id e) (e_meta e)
                                                 (filter (fun s => negb (existsb (String.eqb s) dead)) (e_srcs e))) in
                   mkBlock (b_id b) (b_meta b) (remove_f id (b_sources b)) (ce (b_arrays b)) (ce (b_tags b)) (ce (b_mtags b))
                 end) (f_blocks f)).

(** ** lookups for the queries *)
Definition locate_section (f : file) (id : string) : option (tree * list tree) := locate_f id (f_sections f).
Definition locate_source (f : file) (id : string) : option (tree * block) :=
  first_some (map (fun b => match locate_f id (b_sources b) with Some (t, _) => Some (t, b) | None => None end) (f_blocks f)).
Definition block_by_id (f : file) (id : string) : option block :=
  hd_error (filter (fun b => String.eqb (b_id b) id) (f_blocks f)).
