(** * Store/DbWitness.v — a concrete id supply (the hypotheses of the theorems are satisfiable) and the witness
    histories on which TODAY's behaviour ([code_today]) violates C08 / C03: one per behaviour switch. *)
From Coq Require Import List ZArith Bool String Ascii Arith Lia.
Require Import NixV.Base.Prelude NixV.Store.Db NixV.Store.DbOps NixV.Store.DbObserve NixV.Store.DbInv NixV.Store.DbShape
        NixV.Store.DbNoTrace.
Import ListNotations.
Local Open Scope string_scope.

(** ** an id supply: the first 256 ids are uuid-shaped (first byte = the ordinal), the others are not *)
Definition wtail : string := "0000000-0000-4000-8000-000000000000".
Fixpoint xs (k : nat) : string := match k with O => EmptyString | S m => String "x"%char (xs m) end.
Definition wid (n : nat) : string := if Nat.ltb n 256 then String (ascii_of_nat n) wtail else xs n.

Lemma xs_length n : String.length (xs n) = n.
Proof. induction n; simpl; auto. Qed.

Lemma wid_inj a b : wid a = wid b -> a = b.
Proof.
  unfold wid. destruct (Nat.ltb a 256) eqn:A, (Nat.ltb b 256) eqn:B; intros E.
  - apply Nat.ltb_lt in A. apply Nat.ltb_lt in B. inversion E.
    rewrite <- (nat_ascii_embedding a A), <- (nat_ascii_embedding b B). congruence.
  - apply Nat.ltb_ge in B. apply (f_equal String.length) in E. rewrite xs_length in E. simpl in E. lia.
  - apply Nat.ltb_ge in A. apply (f_equal String.length) in E. rewrite xs_length in E. simpl in E. lia.
  - apply (f_equal String.length) in E. rewrite !xs_length in E. auto.
Qed.

Lemma wid_uuid a : a < 256 -> looksLikeUUID (wid a) = true.
Proof. intros H. unfold wid. apply Nat.ltb_lt in H. rewrite H. reflexivity. Qed.

Definition wsan (u : string) : string := u.
Definition wunit (u : string) : bool := negb (String.eqb u "notaunit").

Definition stepW (b : behaviour) := step wid wsan wunit b.
Definition runW (b : behaviour) := run wid wsan wunit b.

(** the theorems instantiated: not vacuous *)
Theorem inv_step_wid s o : Inv wid 256 s -> fresh wid 256 s -> Inv wid 256 (fst (stepW repaired s o)).
Proof. apply (inv_step wid wid_inj 256 wid_uuid). Qed.

Theorem rejected_no_trace_wid s o s' e :
  Inv wid 256 s -> fresh wid 256 s -> stepW repaired s o = (s', Err e) -> observe s' = observe s.
Proof. apply (rejected_no_trace wid wid_inj 256 wid_uuid). Qed.

(** ** a small populated file *)
Definition col (n : string) (d : dtype) : column := mkCol n d "".
Definition base_ops : list op :=
  [ OCreate None KBlock "b" "t" XNone;                                   (* 0 *)
    OCreate (Some 0) KArray "a" "t" (XArray DDouble [3%Z]);              (* 1 *)
    OCreate (Some 0) KFrame "f" "t" (XFrame [col "c" DInt32]);           (* 2 *)
    OCreate (Some 0) KTag "tg" "t" (XTag ["d:0"]);                       (* 3 *)
    OCreate (Some 0) KMTag "m" "t" (XMTag (HEnt 1));                     (* 4 *)
    OCreate (Some 0) KGroup "g" "t" XNone;                               (* 5 *)
    OCreate (Some 0) KSource "r" "t" XNone;                              (* 6 *)
    OCreate (Some 6) KSource "kid" "t" XNone;                            (* 7 *)
    OCreate None KSection "s" "t" XNone;                                 (* 8 *)
    OCreate (Some 8) KProperty "p" "" (XPropV [DInt64; DInt64]);         (* 9 *)
    OCreate None KBlock "b2" "t" XNone;                                  (* 10 *)
    OCreate (Some 10) KArray "a" "t" (XArray DDouble [3%Z]);             (* 11: an array of another block *)
    OCreate (Some 0) KArray "e" "t" (XArray DDouble [2%Z; 2%Z]);         (* 12: wrong shape for extents *)
    OCreate (Some 0) KArray "12345678-1234-1234-1234-123456789abc" "t" (XArray DDouble [3%Z]); (* 13: uuid-shaped name *)
    OSetMeta 1 (HEnt 8);
    OSetLink 8 (HEnt 8);
    OSetExt 4 (HEnt 1);
    OLAdd 3 LRefs (HEnt 1);
    OLAdd 1 LSrcs (HEnt 7);
    OLAdd 3 LRefs (HEnt 13);
    OLAdd 5 LGArr (HEnt 13);
    OCreate (Some 3) KFeature "" "" (XFeatH (HEnt 12) "tagged") ].       (* 14 *)

Definition base (b : behaviour) : db := runW b empty_db base_ops.

(** the witness of a trace: the step is rejected and the observation differs *)
Definition leaves_trace (b : behaviour) (o : op) : Prop :=
  exists s' e, stepW b (base b) o = (s', Err e) /\ observe s' <> observe (base b).

Ltac trace := eexists; eexists; split; [vm_compute; reflexivity | vm_compute; let E := fresh "E" in intro E; discriminate E].

(** #7  duplicate createDataFrame re-identifies and re-types the existing frame *)
Example refuted_df_checks : leaves_trace code_today (OCreate (Some 0) KFrame "f" "t2" (XFrame [col "c" DInt32])).
Proof. trace. Qed.
(** #26 createDataFrame without columns / with a column of type Nothing leaves a frame without data *)
Example refuted_df_cols : leaves_trace code_today (OCreate (Some 0) KFrame "f2" "t" (XFrame [])).
Proof. trace. Qed.
Example refuted_df_cols_nothing : leaves_trace code_today (OCreate (Some 0) KFrame "f2" "t" (XFrame [col "c" DNothing])).
Proof. trace. Qed.
(** #8  createMultiTag with positions of another block leaves a multi-tag without positions *)
Example refuted_mtag_pos : leaves_trace code_today (OCreate (Some 0) KMTag "m2" "t" (XMTag (HEnt 11))).
Proof. trace. Qed.
(** #9 #32 createDataArray with an unstorable element type / a rank-0 shape leaves an array without data *)
Example refuted_array_dtype : leaves_trace code_today (OCreate (Some 0) KArray "a2" "t" (XArray DNothing [3%Z])).
Proof. trace. Qed.
Example refuted_array_rank0 : leaves_trace code_today (OCreate (Some 0) KArray "a2" "t" (XArray DDouble [])).
Proof. trace. Qed.
(** #10 metadata(id) / link(id) / extents(id) drop the old link before they validate the new one *)
Example refuted_meta : leaves_trace code_today (OSetMetaS 1 "nosuchid").
Proof. trace. Qed.
Example refuted_link : leaves_trace code_today (OSetLinkS 8 "nosuchid").
Proof. trace. Qed.
Example refuted_extents : leaves_trace code_today (OSetExt 4 (HEnt 12)).
Proof. trace. Qed.
(** replace-all: references(vector) with a none handle drops every reference before it throws *)
Example refuted_replace_all : leaves_trace code_today (OLSet 3 LRefs [HEnt 1; HNone]).
Proof. trace. Qed.

(** the behaviour of /repo dc32f83: every earlier defect repaired, the four below still there *)
Definition before_c08b : behaviour :=
  mkBeh true true true true true true true true true true true true true true true true false false false false false.
(** setData(value) / appendData with elements that cannot be converted into the array's type resize the array first *)
Example refuted_setdata_type : leaves_trace before_c08b (OSetDataT 1 DString [5%Z]).
Proof. trace. Qed.
Example refuted_append_type : leaves_trace before_c08b (OAppendData 1 DString [2%Z] 0).
Proof. trace. Qed.
(** createDataFrame with an empty column name / createDataArray with more than 32 dimensions leave the entity's group *)
Example refuted_df_colname : leaves_trace before_c08b (OCreate (Some 0) KFrame "f2" "t" (XFrame [col "c" DInt32; col "" DDouble])).
Proof. trace. Qed.
Example refuted_array_rank33 : leaves_trace before_c08b (OCreate (Some 0) KArray "a2" "t" (XArray DDouble (repeat 1%Z 33))).
Proof. trace. Qed.

(** the template createDataArray(name, type, data, data_type) creates the array, then fails to write data it cannot convert *)
Example refuted_create_typed : leaves_trace before_c08b (OCreate (Some 0) KArray "a2" "t" (XArrayT DDouble 3%Z DString)).
Proof. trace. Qed.

(** the three property defects that are already repaired in /repo, shown on the model of the old code *)
Definition old_props : behaviour :=
  mkBeh true true true true true true true false false false true true true true true true true true true true true.
Example refuted_values : leaves_trace old_props (OSetValues 9 [DInt64; DInt64; DString]).
Proof. trace. Qed.
Example refuted_prop_values : leaves_trace old_props (OCreate (Some 8) KProperty "q" "" (XPropV [DInt64; DString])).
Proof. trace. Qed.
(** #27: the old code ACCEPTS a value type no Variant can hold; the repaired model rejects it *)
Example refuted_prop_type :
  snd (stepW old_props (base old_props) (OCreate (Some 8) KProperty "q" "" (XPropT DInt8))) = Ok (VEnt (Some 15)) /\
  snd (stepW repaired (base repaired) (OCreate (Some 8) KProperty "q" "" (XPropT DInt8))) = Err EInvArg.
Proof. split; vm_compute; reflexivity. Qed.

(** C03 *)
(** #24 hasSource(name) is false although the source is attached and getSource(name) finds it *)
Example refuted_esrc_has :
  snd (stepW code_today (base code_today) (OLHasS 1 LSrcs "kid")) = Ok (VBool false) /\
  snd (stepW code_today (base code_today) (OLGet 1 LSrcs "kid")) = Ok (VEnt (Some 7)) /\
  snd (stepW repaired (base repaired) (OLHasS 1 LSrcs "kid")) = Ok (VBool true).
Proof. repeat split; vm_compute; reflexivity. Qed.
(** #25 getSource(name) resolves the name to the first source of that name anywhere in the block *)
Definition ops25 : list op :=
  base_ops ++ [OCreate (Some 0) KSource "kid" "t" XNone;      (* 15: a root source with the name of the nested one *)
               OLAdd 12 LSrcs (HEnt 15)].
Example refuted_esrc_get :
  snd (stepW code_today (runW code_today empty_db ops25) (OLGet 12 LSrcs "kid")) = Ok (VEnt None) /\
  snd (stepW repaired (runW repaired empty_db ops25) (OLGet 12 LSrcs "kid")) = Ok (VEnt (Some 15)).
Proof. split; vm_compute; reflexivity. Qed.
(** a referenced / grouped array with a uuid-shaped NAME is not found by that name *)
Example refuted_uuid_name_links :
  snd (stepW code_today (base code_today) (OLHasS 3 LRefs "12345678-1234-1234-1234-123456789abc")) = Ok (VBool false) /\
  snd (stepW code_today (base code_today) (OLHas 3 LRefs (HEnt 13))) = Ok (VBool false) /\
  snd (stepW code_today (base code_today) (OLHasS 5 LGArr "12345678-1234-1234-1234-123456789abc")) = Ok (VBool false) /\
  snd (stepW repaired (base repaired) (OLHasS 3 LRefs "12345678-1234-1234-1234-123456789abc")) = Ok (VBool true) /\
  snd (stepW repaired (base repaired) (OLHas 3 LRefs (HEnt 13))) = Ok (VBool true) /\
  snd (stepW repaired (base repaired) (OLHasS 5 LGArr "12345678-1234-1234-1234-123456789abc")) = Ok (VBool true).
Proof. repeat split; vm_compute; reflexivity. Qed.
(** #14 getFeature by the data array's name dereferences null once a feature's data array was deleted *)
Example refuted_feature_null :
  is_ub (snd (stepW code_today (fst (stepW code_today (base code_today) (ODelete (Some 0) KArray "e"))) (OHas (Some 3) KFeature "a"))) = true /\
  snd (stepW repaired (fst (stepW repaired (base repaired) (ODelete (Some 0) KArray "e"))) (OHas (Some 3) KFeature "a")) = Ok (VBool false).
Proof. split; vm_compute; reflexivity. Qed.
(** (C04) Block::deleteSource(handle of a NESTED source) deletes the ROOT source of the same name *)
Definition ops_ds : list op :=
  [ OCreate None KBlock "b" "t" XNone; OCreate (Some 0) KSource "a" "t" XNone; OCreate (Some 1) KSource "x" "t" XNone;
    OCreate (Some 0) KSource "x" "t" XNone ].
Example refuted_delsource_by_name :
  map e_oid (ents (fst (stepW code_today (runW code_today empty_db ops_ds) (ODeleteH (Some 0) KSource (HEnt 2))))) = [0; 1; 2] /\
  map e_oid (ents (fst (stepW repaired (runW repaired empty_db ops_ds) (ODeleteH (Some 0) KSource (HEnt 2))))) = [0; 1; 2; 3].
Proof. split; vm_compute; reflexivity. Qed.

(** #7 breaks the invariant itself: after the duplicate create the frame's id is no longer its own *)
Example refuted_df_reidentified :
  exists e, find_ent (fst (stepW code_today (base code_today) (OCreate (Some 0) KFrame "f" "t2" (XFrame [col "c" DInt32])))) 2 = Some e /\
            e_idx e <> e_oid e.
Proof. eexists. split; [vm_compute; reflexivity|vm_compute; discriminate]. Qed.

(** the base file is a reachable state of the repaired model: [Inv] holds there (computed, as a sanity check of
    the hypotheses: every id the history consumed is fresh) *)
Example base_fresh_along : fresh_along wid 256 wsan wunit empty_db base_ops.
Proof. apply fresh_alongb_ok. vm_compute. reflexivity. Qed.

Example base_inv : Inv wid 256 (base repaired).
Proof. apply (inv_run wid wid_inj 256 wid_uuid); [apply inv_empty|apply base_fresh_along]. Qed.
