(** C20 — proofs about the search model of Search.v. *)
From Coq Require Import List ZArith Bool String Ascii Lia Permutation ZifyBool.
Require Import NixV.Base.Prelude NixV.Store.Search.
Import ListNotations.
Local Open Scope Z_scope.

(** * Induction over rose trees *)
Section TreeInd.
  Variable P : tree -> Prop.
  Hypothesis H : forall l ks, Forall P ks -> P (Node l ks).
  Fixpoint tree_ind' (t : tree) : P t :=
    match t with
    | Node l ks =>
      H l ks ((fix go (ks : list tree) : Forall P ks :=
                 match ks with
                 | [] => Forall_nil _
                 | k :: r => Forall_cons _ (tree_ind' k) (go r)
                 end) ks)
    end.
End TreeInd.

(** * Sizes *)
Lemma list_sum_app : forall a b, list_sum (a ++ b) = (list_sum a + list_sum b)%nat.
Proof. induction a as [|x a IH]; intros b; cbn [list_sum app fold_right] in *. reflexivity. unfold list_sum in *. rewrite IH. lia. Qed.

Lemma fsize_app : forall a b, fsize (a ++ b) = (fsize a + fsize b)%nat.
Proof. intros. unfold fsize. rewrite map_app. apply list_sum_app. Qed.

Lemma fsize_cons : forall t l, fsize (t :: l) = (tsize t + fsize l)%nat.
Proof. reflexivity. Qed.

Lemma fsize_nil : fsize [] = 0%nat.
Proof. reflexivity. Qed.

Lemma tsize_kids : forall t, tsize t = S (fsize (kids t)).
Proof. destruct t; reflexivity. Qed.

Lemma tsize_pos : forall t, (1 <= tsize t)%nat.
Proof. intros t. rewrite tsize_kids. lia. Qed.

Lemma fsize_zero : forall ts, fsize ts = 0%nat -> ts = [].
Proof. destruct ts as [|t ts]; intros Hs. reflexivity. rewrite fsize_cons in Hs. pose proof (tsize_pos t). lia. Qed.

Lemma fsize_kids : forall ts, (fsize (flat_map kids ts) + List.length ts = fsize ts)%nat.
Proof.
  induction ts as [|t ts IH]. reflexivity.
  cbn [flat_map List.length]. rewrite fsize_app, fsize_cons, tsize_kids. lia.
Qed.

(** * The work list of Section::findSections computes level order *)

Lemma sec_loop_acc : forall fuel f m todo acc,
  sec_loop fuel f m todo acc = bind (sec_loop fuel f m todo []) (fun r => Ok (acc ++ r)).
Proof.
  induction fuel as [|fuel IH]; intros f m todo acc; cbn [sec_loop].
  - reflexivity.
  - destruct todo as [|cur todo].
    + cbn [bind]. now rewrite app_nil_r.
    + destruct (f (fst cur)) eqn:Hf.
      * rewrite IH. rewrite (IH f m _ ([] ++ [fst cur])).
        destruct (sec_loop fuel f m (add_children cur todo m) []); cbn [bind app]; try reflexivity.
        now rewrite <- app_assoc.
      * apply IH.
Qed.

Definition tag (d : Z) (l : list tree) : list entry := map (fun t => (t, d)) l.

Lemma tag_app : forall d a b, tag d (a ++ b) = tag d a ++ tag d b.
Proof. intros. apply map_app. Qed.

Lemma u64_add_small : forall d m, 0 <= d -> d < m -> m < two64 -> u64_add d 1 = d + 1.
Proof. intros d m H0 H1 H2. unfold u64_add, u64_wrap. apply Z.mod_small. lia. Qed.

Lemma levels_from_nil : forall k, levels_from k [] = [].
Proof. induction k as [|k IH]. reflexivity. cbn [levels_from flat_map app]. exact IH. Qed.

(** Invariant of the loop: the queue holds the rest [l1] of level d followed by the part [l2] of level d+1
    already generated. Nested induction: fuel outside, remaining depth inside (re-reading an exhausted level
    costs no fuel). *)
Lemma tag_cons : forall d t l, tag d (t :: l) = (t, d) :: tag d l.
Proof. reflexivity. Qed.
Lemma tag_nil : forall d, tag d [] = [].
Proof. reflexivity. Qed.

Lemma sec_step : forall fuel f maxd t d todo,
  sec_loop (S fuel) f maxd ((t, d) :: todo) [] =
  bind (sec_loop fuel f maxd (add_children (t, d) todo maxd) []) (fun r => Ok ((if f t then [t] else []) ++ r)).
Proof.
  intros. cbn [sec_loop fst snd]. rewrite sec_loop_acc. destruct (f t); reflexivity.
Qed.

Lemma run_inv : forall f maxd, 0 <= maxd < two64 ->
  forall fuel k d l1 l2,
    k = Z.to_nat (maxd - d) -> 0 <= d <= maxd -> (d = maxd -> l2 = []) ->
    (fsize l1 + fsize l2 < fuel)%nat ->
    sec_loop fuel f maxd (tag d l1 ++ tag (d + 1) l2) [] =
    Ok (filter f l1 ++ filter f (levels_from k (l2 ++ flat_map kids l1))).
Proof.
  intros f maxd Hm. induction fuel as [|fuel IHf].
  - intros; lia.
  - induction k as [|k IHk]; intros d l1 l2 Hk Hd Hl2 Hsz.
    + assert (d = maxd) as Hdm by lia. rewrite (Hl2 Hdm) in *. rewrite tag_nil, app_nil_r.
      destruct l1 as [|t l1].
      * reflexivity.
      * rewrite tag_cons, sec_step. unfold add_children. cbn [fst snd].
        destruct (d <? maxd) eqn:Hlt; [lia|].
        rewrite fsize_cons in Hsz. pose proof (tsize_pos t) as Ht.
        specialize (IHf 0%nat d l1 [] Hk Hd (fun _ => eq_refl)).
        rewrite tag_nil, app_nil_r in IHf. rewrite IHf by (rewrite fsize_nil in *; lia).
        cbn [bind levels_from filter]. rewrite !app_nil_r.
        destruct (f t); reflexivity.
    + assert (d < maxd) as Hdm by lia.
      destruct l1 as [|t l1].
      * rewrite tag_nil. cbn [app filter flat_map]. rewrite app_nil_r.
        specialize (IHk (d + 1) l2 []).
        rewrite tag_nil, app_nil_r in IHk.
        rewrite IHk by first [lia | intros _; reflexivity | (rewrite fsize_nil in *; lia)].
        cbn [levels_from app]. now rewrite filter_app.
      * rewrite tag_cons. cbn [app]. rewrite sec_step. unfold add_children. cbn [fst snd].
        destruct (d <? maxd) eqn:Hlt; [|lia].
        rewrite (u64_add_small d maxd) by lia.
        fold (tag (d + 1) (kids t)).
        rewrite <- app_assoc, <- tag_app.
        rewrite fsize_cons in Hsz. rewrite tsize_kids in Hsz.
        rewrite (IHf (S k) d l1 (l2 ++ kids t) Hk Hd) by (try rewrite fsize_app; try lia; intros; lia).
        cbn [bind filter flat_map]. rewrite <- !app_assoc.
        destruct (f t); reflexivity.
Qed.

Theorem findSections_bfs : forall f maxd t, 0 <= maxd < two64 ->
  Section_findSections f maxd t = Ok (filter f (levels_from (Z.to_nat maxd) (kids t))).
Proof.
  intros f maxd t Hm. unfold Section_findSections, add_children. cbn [fst snd app].
  destruct (0 <? maxd) eqn:Hlt.
  - rewrite (u64_add_small 0 maxd) by lia.
    pose proof (run_inv f maxd Hm (S (tsize t)) (Z.to_nat maxd) 0 [] (kids t)) as Hr.
    cbn [tag map app filter flat_map] in Hr. rewrite app_nil_r in Hr. apply Hr.
    + f_equal. lia.
    + lia.
    + intros; lia.
    + rewrite fsize_nil, tsize_kids. lia.
  - assert (maxd = 0) by lia. subst. reflexivity.
Qed.

Theorem findSections_fuel_suffices : forall f maxd t, 0 <= maxd < two64 -> is_ok (Section_findSections f maxd t) = true.
Proof. intros. now rewrite findSections_bfs. Qed.

(** * Source::findSources *)
Lemma src_loop_eq : forall fuel f m todo acc, src_loop fuel f m todo acc = sec_loop fuel f m todo acc.
Proof.
  induction fuel as [|fuel IH]; intros; cbn [src_loop sec_loop]. reflexivity.
  destruct todo as [|cur todo]. reflexivity.
  unfold add_children. cbv zeta. apply IH.
Qed.

Lemma levels_from_single : forall k t, levels_from (S k) [t] = t :: levels_from k (kids t).
Proof. intros. cbn [levels_from flat_map app]. now rewrite app_nil_r. Qed.

Theorem findSources_bfs : forall f maxd t, 0 <= maxd < two64 ->
  Source_findSources f maxd t = Ok (filter f (levels_from (S (Z.to_nat maxd)) [t])).
Proof.
  intros f maxd t Hm. unfold Source_findSources. rewrite src_loop_eq.
  pose proof (run_inv f maxd Hm (S (tsize t)) (Z.to_nat maxd) 0 [t] []) as Hr.
  rewrite tag_nil, app_nil_r in Hr. cbn [tag map] in Hr. rewrite Hr.
  - rewrite levels_from_single. cbn [flat_map app filter]. rewrite app_nil_r.
    destruct (f t); reflexivity.
  - f_equal; lia.
  - lia.
  - reflexivity.
  - rewrite fsize_cons, fsize_nil. lia.
Qed.

(** * File::findSections and Block::findSources: per-root concatenation *)
Lemma u64_sub_small : forall m, 0 < m < two64 -> u64_sub m 1 = m - 1.
Proof. intros. unfold u64_sub, u64_wrap. apply Z.mod_small. lia. Qed.

Lemma file_roots_loop_spec : forall f maxd, 0 < maxd < two64 -> forall roots acc,
  file_roots_loop f maxd roots acc =
  Ok (acc ++ flat_map (fun r => filter f (levels_from (Z.to_nat maxd) [r])) roots).
Proof.
  intros f maxd Hm. induction roots as [|r roots IH]; intros acc; cbn [file_roots_loop flat_map].
  - now rewrite app_nil_r.
  - rewrite u64_sub_small by lia. rewrite findSections_bfs by lia. cbn [bind]. rewrite IH.
    replace (Z.to_nat maxd) with (S (Z.to_nat (maxd - 1))) by lia.
    rewrite levels_from_single. cbn [filter].
    destruct (f r); cbn [app]; rewrite <- !app_assoc; reflexivity.
Qed.

Theorem file_findSections_spec : forall f maxd roots, 0 <= maxd < two64 ->
  File_findSections f maxd roots = Ok (flat_map (fun r => filter f (levels_from (Z.to_nat maxd) [r])) roots).
Proof.
  intros f maxd roots Hm. unfold File_findSections. destruct (maxd =? 0) eqn:Hz.
  - assert (maxd = 0) by lia. subst. cbn [Z.to_nat levels_from filter].
    induction roots as [|r roots IH]; cbn [flat_map app]; congruence.
  - rewrite file_roots_loop_spec by lia. reflexivity.
Qed.

Lemma block_probes_loop_spec : forall f maxd, 0 <= maxd < two64 -> forall roots acc,
  block_probes_loop f maxd roots acc =
  Ok (acc ++ flat_map (fun r => filter f (levels_from (S (Z.to_nat maxd)) [r])) roots).
Proof.
  intros f maxd Hm. induction roots as [|r roots IH]; intros acc; cbn [block_probes_loop flat_map].
  - now rewrite app_nil_r.
  - rewrite findSources_bfs by lia. cbn [bind]. rewrite IH. now rewrite <- app_assoc.
Qed.

Theorem block_findSources_spec : forall f maxd roots, 0 <= maxd < two64 ->
  Block_findSources f maxd roots = Ok (flat_map (fun r => filter f (levels_from (S (Z.to_nat maxd)) [r])) roots).
Proof. intros. unfold Block_findSources. now rewrite block_probes_loop_spec. Qed.

(** * Level order versus brute-force traversal *)

Lemma flat_map_flat_map : forall {A B C} (g : B -> list C) (h : A -> list B) l,
  flat_map g (flat_map h l) = flat_map (fun x => flat_map g (h x)) l.
Proof. induction l as [|x l IH]; cbn [flat_map]. reflexivity. now rewrite flat_map_app, IH. Qed.

Lemma perm_flat_cons : forall {A} (g : A -> list A) ts,
  Permutation (flat_map (fun t => t :: g t) ts) (ts ++ flat_map g ts).
Proof.
  induction ts as [|t ts IH]; cbn [flat_map app]. constructor.
  apply perm_skip. rewrite IH. rewrite !app_assoc. apply Permutation_app_tail, Permutation_app_comm.
Qed.

Lemma all_nodes_eq : forall t, all_nodes t = t :: flat_map all_nodes (kids t).
Proof. destruct t; reflexivity. Qed.

Lemma all_nodes_perm : forall ts,
  Permutation (flat_map all_nodes ts) (ts ++ flat_map all_nodes (flat_map kids ts)).
Proof.
  intros ts. rewrite (flat_map_ext all_nodes (fun t => t :: flat_map all_nodes (kids t)) all_nodes_eq).
  rewrite perm_flat_cons. now rewrite flat_map_flat_map.
Qed.

Lemma dfs_within_pos : forall d t, 0 < d -> dfs_within d t = t :: flat_map (dfs_within (d - 1)) (kids t).
Proof. intros d [l ks] Hd. cbn [dfs_within kids]. destruct (d <=? 0) eqn:E; [lia|reflexivity]. Qed.

Lemma dfs_within_nonpos : forall d ts, d <= 0 -> flat_map (dfs_within d) ts = [].
Proof.
  intros d ts Hd. induction ts as [|[l ks] ts IH]; cbn [flat_map dfs_within]. reflexivity.
  destruct (d <=? 0) eqn:E; [|lia]. exact IH.
Qed.

Lemma levels_from_dfs_nat : forall k ts, Permutation (levels_from k ts) (flat_map (dfs_within (Z.of_nat k)) ts).
Proof.
  induction k as [|k IH]; intros ts.
  - cbn [levels_from]. rewrite dfs_within_nonpos by lia. constructor.
  - cbn [levels_from].
    rewrite (flat_map_ext (dfs_within (Z.of_nat (S k))) (fun t => t :: flat_map (dfs_within (Z.of_nat k)) (kids t))).
    + rewrite perm_flat_cons. apply Permutation_app_head. rewrite IH. now rewrite flat_map_flat_map.
    + intros t. rewrite dfs_within_pos by lia. do 3 f_equal. lia.
Qed.

Theorem levels_from_dfs : forall d ts, Permutation (levels_from (Z.to_nat d) ts) (flat_map (dfs_within d) ts).
Proof.
  intros d ts. destruct (Z_le_gt_dec d 0) as [Hd|Hd].
  - rewrite dfs_within_nonpos by lia. replace (Z.to_nat d) with 0%nat by lia. constructor.
  - rewrite levels_from_dfs_nat. now rewrite Z2Nat.id by lia.
Qed.

(** heights *)
Lemma fheight_cons : forall t ts, fheight (t :: ts) = Nat.max (theight t) (fheight ts).
Proof. reflexivity. Qed.
Lemma theight_kids : forall t, theight t = S (fheight (kids t)).
Proof. destruct t; reflexivity. Qed.
Lemma fheight_app : forall a b, fheight (a ++ b) = Nat.max (fheight a) (fheight b).
Proof. induction a as [|t a IH]; intros b. reflexivity. cbn [app]. rewrite !fheight_cons, IH. lia. Qed.
Lemma fheight_kids_eq : forall ts, fheight (flat_map kids ts) = Nat.pred (fheight ts).
Proof.
  induction ts as [|t ts IH]. reflexivity.
  cbn [flat_map]. rewrite fheight_app, fheight_cons, theight_kids. lia.
Qed.
Lemma fheight_kids : forall ts, (fheight (flat_map kids ts) <= Nat.pred (fheight ts))%nat.
Proof. intros. rewrite fheight_kids_eq. lia. Qed.
Lemma fheight_zero : forall ts, fheight ts = 0%nat -> ts = [].
Proof. destruct ts as [|t ts]; intros Hh. reflexivity. rewrite fheight_cons, theight_kids in Hh. lia. Qed.

Lemma fheight_le_fsize : forall ts, (fheight ts <= fsize ts)%nat.
Proof.
  intros ts. remember (fsize ts) as n eqn:Hn. revert ts Hn.
  induction n as [n IH] using lt_wf_ind. intros ts Hn.
  destruct ts as [|t ts]. cbn. lia.
  pose proof (fheight_kids_eq (t :: ts)) as Hk. pose proof (fsize_kids (t :: ts)) as Hs. cbn [List.length] in Hs.
  assert (fheight (flat_map kids (t :: ts)) <= fsize (flat_map kids (t :: ts)))%nat as Hi.
  { apply (IH (fsize (flat_map kids (t :: ts)))); [lia|reflexivity]. }
  lia.
Qed.

Theorem levels_all : forall k ts, (fheight ts <= k)%nat -> Permutation (levels_from k ts) (flat_map all_nodes ts).
Proof.
  induction k as [|k IH]; intros ts Hh.
  - rewrite (fheight_zero ts) by lia. constructor.
  - cbn [levels_from]. rewrite all_nodes_perm. apply Permutation_app_head. apply IH.
    pose proof (fheight_kids ts). lia.
Qed.

(** * The extracted level-order oracle equals [levels_from] *)
Lemma firstnZ_firstn : forall {A} (l : list A) d, firstnZ d l = firstn (Z.to_nat d) l.
Proof.
  induction l as [|x l IH]; intros d; cbn [firstnZ].
  - now rewrite firstn_nil.
  - destruct (d <=? 0) eqn:E.
    + replace (Z.to_nat d) with 0%nat by lia. reflexivity.
    + replace (Z.to_nat d) with (S (Z.to_nat (d - 1))) by lia. cbn [firstn]. now rewrite IH.
Qed.

Lemma level_list_levels_from : forall n k ts, (fsize ts <= n)%nat ->
  List.concat (firstn k (level_list n ts)) = levels_from k ts.
Proof.
  induction n as [|n IH]; intros k ts Hs.
  - rewrite (fsize_zero ts) by lia. rewrite levels_from_nil. cbn [level_list]. now rewrite firstn_nil.
  - destruct ts as [|t ts].
    + rewrite levels_from_nil. cbn [level_list]. now rewrite firstn_nil.
    + cbn [level_list]. destruct k as [|k]. reflexivity.
      cbn [firstn List.concat levels_from]. f_equal. apply IH.
      pose proof (fsize_kids (t :: ts)) as Hk. cbn [List.length] in Hk. lia.
Qed.

Theorem within_levels_from : forall d ts, within d ts = levels_from (Z.to_nat d) ts.
Proof. intros. unfold within, levels. rewrite firstnZ_firstn. now apply level_list_levels_from. Qed.

(** level-wise reading of [levels_from] *)
Lemma level_snoc : forall i ts, level (S i) ts = flat_map kids (level i ts).
Proof. induction i as [|i IH]; intros ts. reflexivity. cbn [level] in *. now rewrite <- IH. Qed.

Lemma levels_from_snoc : forall k ts, levels_from (S k) ts = levels_from k ts ++ level k ts.
Proof.
  induction k as [|k IH]; intros ts.
  - cbn [levels_from level app]. now rewrite app_nil_r.
  - change (levels_from (S (S k)) ts) with (ts ++ levels_from (S k) (flat_map kids ts)).
    rewrite IH. cbn [levels_from level]. now rewrite app_assoc.
Qed.

Theorem levels_from_concat : forall k ts, levels_from k ts = List.concat (map (fun i => level i ts) (seq 0 k)).
Proof.
  induction k as [|k IH]; intros ts. reflexivity.
  rewrite levels_from_snoc, IH. rewrite seq_S, map_app, concat_app. cbn [map List.concat plus]. now rewrite app_nil_r.
Qed.

(** * Each entity once *)
Lemma nodup_app_inv : forall {A} (a b : list A), NoDup (a ++ b) -> NoDup a /\ NoDup b /\ (forall x, In x a -> ~ In x b).
Proof.
  induction a as [|x a IH]; intros b Hn; cbn [app] in *.
  - repeat split; [constructor|assumption|intros ? []].
  - inversion Hn as [|? ? Hx Hr]; subst. destruct (IH b Hr) as (Ha & Hb & Hd). repeat split.
    + constructor; [|assumption]. intros Hi. apply Hx. apply in_or_app. now left.
    + assumption.
    + intros y [Hy|Hy]; [subst; intros Hi; apply Hx; apply in_or_app; now right | now apply Hd].
Qed.

Lemma nodup_app_intro : forall {A} (a b : list A), NoDup a -> NoDup b -> (forall x, In x a -> ~ In x b) -> NoDup (a ++ b).
Proof.
  induction a as [|x a IH]; intros b Ha Hb Hd; cbn [app]. assumption.
  inversion Ha as [|? ? Hx Hr]; subst. constructor.
  - intros Hi. apply in_app_or in Hi. destruct Hi as [Hi|Hi]; [now apply Hx|]. apply (Hd x); [now left|assumption].
  - apply IH; try assumption. intros y Hy. apply Hd. now right.
Qed.

Lemma levels_incl : forall k ts, incl (levels_from k ts) (flat_map all_nodes ts).
Proof.
  induction k as [|k IH]; intros ts x Hx. destruct Hx.
  cbn [levels_from] in Hx. apply (Permutation_in x (Permutation_sym (all_nodes_perm ts))).
  apply in_app_or in Hx. apply in_or_app. destruct Hx as [Hx|Hx]; [now left|right]. now apply IH.
Qed.

Lemma levels_nodup : forall k ts, NoDup (map tid (flat_map all_nodes ts)) -> NoDup (map tid (levels_from k ts)).
Proof.
  induction k as [|k IH]; intros ts Hn. constructor.
  cbn [levels_from]. rewrite map_app.
  assert (NoDup (map tid ts ++ map tid (flat_map all_nodes (flat_map kids ts)))) as Hn'.
  { rewrite <- map_app. eapply Permutation_NoDup; [|exact Hn]. apply Permutation_map, all_nodes_perm. }
  destruct (nodup_app_inv _ _ Hn') as (Ha & Hb & Hd).
  apply nodup_app_intro; [assumption|now apply IH|].
  intros x Hx Hi. apply (Hd x Hx). revert Hi. apply incl_map, levels_incl.
Qed.

Lemma nodup_map_filter : forall {A B} (g : A -> B) (f : A -> bool) l, NoDup (map g l) -> NoDup (map g (filter f l)).
Proof.
  induction l as [|x l IH]; intros Hn; cbn [filter map] in *. constructor.
  inversion Hn as [|? ? Hx Hr]; subst. destruct (f x); cbn [map]; [constructor|]; auto.
  intros Hi. apply Hx. apply in_map_iff in Hi. destruct Hi as (y & Hy & Hin). apply in_map_iff. exists y. split; [assumption|].
  apply filter_In in Hin. tauto.
Qed.

Theorem section_each_once : forall f maxd t r, 0 <= maxd < two64 ->
  NoDup (map tid (all_nodes t)) -> Section_findSections f maxd t = Ok r -> NoDup (map tid r).
Proof.
  intros f maxd t r Hm Hn Hr. rewrite findSections_bfs in Hr by assumption. injection Hr as <-.
  apply nodup_map_filter, levels_nodup. rewrite all_nodes_eq in Hn. cbn [map] in Hn. now inversion Hn.
Qed.

Theorem source_each_once : forall f maxd t r, 0 <= maxd < two64 ->
  NoDup (map tid (all_nodes t)) -> Source_findSources f maxd t = Ok r -> NoDup (map tid r).
Proof.
  intros f maxd t r Hm Hn Hr. rewrite findSources_bfs in Hr by assumption.
  assert (r = filter f (levels_from (S (Z.to_nat maxd)) [t])) as -> by congruence.
  apply nodup_map_filter, levels_nodup. cbn [flat_map]. now rewrite app_nil_r.
Qed.

(** * Exactly the brute-force traversal; unlimited depth = every descendant *)
Lemma perm_filter : forall {A} (f : A -> bool) l l', Permutation l l' -> Permutation (filter f l) (filter f l').
Proof.
  intros A f l l' Hp. induction Hp as [|x l l' Hp IH|x y l|l l' l'' H1 IH1 H2 IH2]; cbn [filter].
  - constructor.
  - destruct (f x); [now apply perm_skip|assumption].
  - destruct (f x), (f y); try apply perm_swap; try apply Permutation_refl.
  - now apply Permutation_trans with (filter f l').
Qed.

Lemma perm_flat_map_pointwise : forall {A B} (g h : A -> list B) l,
  (forall x, In x l -> Permutation (g x) (h x)) -> Permutation (flat_map g l) (flat_map h l).
Proof.
  induction l as [|x l IH]; intros Hp; cbn [flat_map]. constructor.
  apply Permutation_app; [apply Hp; now left|apply IH; intros y Hy; apply Hp; now right].
Qed.

Lemma filter_flat_map : forall {A B} (f : B -> bool) (g : A -> list B) l,
  filter f (flat_map g l) = flat_map (fun x => filter f (g x)) l.
Proof. induction l as [|x l IH]; cbn [flat_map filter]. reflexivity. now rewrite filter_app, IH. Qed.

Theorem section_bruteforce : forall f maxd t, 0 <= maxd < two64 ->
  exists r, Section_findSections f maxd t = Ok r /\ Permutation r (filter f (flat_map (dfs_within maxd) (kids t))).
Proof.
  intros f maxd t Hm. eexists. split. now apply findSections_bfs. apply perm_filter, levels_from_dfs.
Qed.

Theorem source_bruteforce : forall f maxd t, 0 <= maxd < two64 ->
  exists r, Source_findSources f maxd t = Ok r /\ Permutation r (filter f (dfs_within (maxd + 1) t)).
Proof.
  intros f maxd t Hm. eexists. split. now apply findSources_bfs. apply perm_filter.
  replace (S (Z.to_nat maxd)) with (Z.to_nat (maxd + 1)) by lia.
  eapply Permutation_trans. apply levels_from_dfs. cbn [flat_map]. now rewrite app_nil_r.
Qed.

Theorem section_unlimited : forall f maxd t, 0 <= maxd < two64 -> Z.of_nat (fheight (kids t)) <= maxd ->
  exists r, Section_findSections f maxd t = Ok r /\ Permutation r (filter f (descendants t)).
Proof.
  intros f maxd t Hm Hh. eexists. split. now apply findSections_bfs. apply perm_filter. apply levels_all. lia.
Qed.

Theorem source_unlimited : forall f maxd t, 0 <= maxd < two64 -> Z.of_nat (theight t) <= maxd + 1 ->
  exists r, Source_findSources f maxd t = Ok r /\ Permutation r (filter f (all_nodes t)).
Proof.
  intros f maxd t Hm Hh. eexists. split. now apply findSources_bfs. apply perm_filter.
  eapply Permutation_trans. apply levels_all. cbn [fheight fold_right]. lia.
  cbn [flat_map]. now rewrite app_nil_r.
Qed.

Lemma theight_le_fheight : forall t ts, In t ts -> (theight t <= fheight ts)%nat.
Proof.
  induction ts as [|x ts IH]; intros Hi. destruct Hi.
  rewrite fheight_cons. destruct Hi as [->|Hi]; [lia|]. specialize (IH Hi). lia.
Qed.

Lemma per_root_perm_dfs : forall d roots,
  Permutation (flat_map (fun r => levels_from (Z.to_nat d) [r]) roots) (flat_map (dfs_within d) roots).
Proof.
  intros d roots. apply perm_flat_map_pointwise. intros r _.
  eapply Permutation_trans. apply levels_from_dfs. cbn [flat_map]. now rewrite app_nil_r.
Qed.

Lemma per_root_perm_all : forall k roots, (fheight roots <= k)%nat ->
  Permutation (flat_map (fun r => levels_from k [r]) roots) (flat_map all_nodes roots).
Proof.
  intros k roots Hh. apply perm_flat_map_pointwise. intros r Hr.
  eapply Permutation_trans. apply levels_all. cbn [fheight fold_right]. pose proof (theight_le_fheight r roots Hr). lia.
  cbn [flat_map]. now rewrite app_nil_r.
Qed.

(** File::findSections: per-root level order; as a set, the brute-force traversal of the forest to that depth *)
Theorem file_level_is_union : forall f maxd roots, 0 <= maxd < two64 ->
  exists r, File_findSections f maxd roots = Ok r /\
            r = flat_map (fun root => filter f (levels_from (Z.to_nat maxd) [root])) roots /\
            Permutation r (filter f (levels_from (Z.to_nat maxd) roots)) /\
            Permutation r (filter f (flat_map (dfs_within maxd) roots)).
Proof.
  intros f maxd roots Hm. eexists. split. now apply file_findSections_spec. split. reflexivity.
  rewrite <- filter_flat_map.
  assert (Permutation (filter f (flat_map (fun x => levels_from (Z.to_nat maxd) [x]) roots))
                      (filter f (flat_map (dfs_within maxd) roots))) as Hp by apply perm_filter, per_root_perm_dfs.
  split; [|exact Hp].
  eapply Permutation_trans. exact Hp. apply perm_filter, Permutation_sym, levels_from_dfs.
Qed.

Theorem block_level_is_union : forall f maxd roots, 0 <= maxd < two64 ->
  exists r, Block_findSources f maxd roots = Ok r /\
            r = flat_map (fun root => filter f (levels_from (S (Z.to_nat maxd)) [root])) roots /\
            Permutation r (filter f (flat_map (dfs_within (maxd + 1)) roots)).
Proof.
  intros f maxd roots Hm. eexists. split. now apply block_findSources_spec. split. reflexivity.
  rewrite <- filter_flat_map. apply perm_filter.
  replace (S (Z.to_nat maxd)) with (Z.to_nat (maxd + 1)) by lia. apply per_root_perm_dfs.
Qed.

Theorem file_unlimited : forall f maxd roots, 0 <= maxd < two64 -> Z.of_nat (fheight roots) <= maxd ->
  exists r, File_findSections f maxd roots = Ok r /\ Permutation r (filter f (flat_map all_nodes roots)).
Proof.
  intros f maxd roots Hm Hh. eexists. split. now apply file_findSections_spec.
  rewrite <- filter_flat_map. apply perm_filter, per_root_perm_all. lia.
Qed.

Theorem block_unlimited : forall f maxd roots, 0 <= maxd < two64 -> Z.of_nat (fheight roots) <= maxd + 1 ->
  exists r, Block_findSources f maxd roots = Ok r /\ Permutation r (filter f (flat_map all_nodes roots)).
Proof.
  intros f maxd roots Hm Hh. eexists. split. now apply block_findSources_spec.
  rewrite <- filter_flat_map. apply perm_filter, per_root_perm_all. lia.
Qed.

(** * findRelated *)
Lemma tree_depth_fold : forall ks a, 0 <= a ->
  Forall (fun k => Section_tree_depth k = Z.of_nat (fheight (kids k))) ks ->
  fold_left (fun depth child => Z.max depth (Section_tree_depth child)) ks a = Z.max a (Z.of_nat (Nat.pred (fheight ks))).
Proof.
  induction ks as [|k ks IH]; intros a Ha Hf; cbn [fold_left].
  - cbn. lia.
  - inversion Hf as [|? ? Hk Hr]; subst. rewrite IH by (try assumption; lia). rewrite Hk.
    rewrite fheight_cons, theight_kids. lia.
Qed.

Theorem tree_depth_height : forall t, Section_tree_depth t = Z.of_nat (fheight (kids t)).
Proof.
  induction t as [l ks IH] using tree_ind'. cbn [Section_tree_depth kids].
  rewrite tree_depth_fold by (try assumption; lia).
  destruct ks as [|k ks]. reflexivity.
  unfold zlen. cbn [List.length]. destruct (0 <? Z.of_nat (S (List.length ks))) eqn:E; [|lia].
  rewrite fheight_cons, theight_kids. lia.
Qed.

Lemma first_level_nil : forall f k, first_level f k [] = [].
Proof. induction k as [|k IH]. reflexivity. cbn [first_level filter flat_map]. exact IH. Qed.

Lemma first_level_stable : forall f k k' ts, (fheight ts <= k)%nat -> (fheight ts <= k')%nat ->
  first_level f k ts = first_level f k' ts.
Proof.
  induction k as [|k IH]; intros k' ts Hk Hk'.
  - rewrite (fheight_zero ts) by lia. now rewrite !first_level_nil.
  - destruct k' as [|k'].
    + rewrite (fheight_zero ts) by lia. now rewrite !first_level_nil.
    + cbn [first_level]. destruct (filter f ts); [|reflexivity].
      pose proof (fheight_kids ts). apply IH; lia.
Qed.

Lemma findSections_one : forall f p, Section_findSections f 1 p = Ok (filter f (kids p)).
Proof.
  intros. rewrite findSections_bfs by (unfold two64; lia).
  change (Z.to_nat 1) with 1%nat. cbn [levels_from]. now rewrite app_nil_r.
Qed.

Lemma downstream_loop_spec : forall f t D, 0 <= D < two64 -> forall n a fuel,
  1 <= a -> a + Z.of_nat n = D + 1 -> (n < fuel)%nat ->
  filter f (levels_from (Z.to_nat (a - 1)) (kids t)) = [] ->
  downstream_loop fuel f t D [] a = Ok (first_level f n (level (Z.to_nat (a - 1)) (kids t))).
Proof.
  intros f t D HD. induction n as [|n IH]; intros a fuel Ha Han Hfuel Hempty.
  - destruct fuel as [|fuel]; [lia|]. cbn [downstream_loop]. unfold zlen. cbn [List.length].
    destruct (a <=? D) eqn:E; [lia|]. reflexivity.
  - destruct fuel as [|fuel]; [lia|]. cbn [downstream_loop]. unfold zlen at 1. cbn [List.length].
    destruct (a <=? D) eqn:E; [|lia]. cbn [Z.eqb andb].
    rewrite findSections_bfs by lia. cbn [bind].
    replace (Z.to_nat a) with (S (Z.to_nat (a - 1))) by lia.
    rewrite levels_from_snoc, filter_app, Hempty. cbn [app first_level].
    destruct (filter f (level (Z.to_nat (a - 1)) (kids t))) as [|x r] eqn:Hr.
    + rewrite IH; try lia.
      * replace (a + 1 - 1) with a by lia. replace (Z.to_nat a) with (S (Z.to_nat (a - 1))) by lia.
        now rewrite level_snoc.
      * replace (a + 1 - 1) with a by lia. replace (Z.to_nat a) with (S (Z.to_nat (a - 1))) by lia.
        now rewrite levels_from_snoc, filter_app, Hempty, Hr.
    + destruct fuel as [|fuel]; [lia|]. cbn [downstream_loop]. unfold zlen. cbn [List.length].
      destruct (Z.of_nat (S (List.length r)) =? 0) eqn:E2; [lia|]. reflexivity.
Qed.

Theorem findDownstream_spec : forall f t, Z.of_nat (fheight (kids t)) < two64 ->
  Section_findDownstream f t = Ok (related_down f t).
Proof.
  intros f t Hh. unfold Section_findDownstream, related_down. rewrite tree_depth_height.
  rewrite (downstream_loop_spec f t (Z.of_nat (fheight (kids t))) ltac:(lia) (fheight (kids t)) 1); try lia.
  - cbn [Z.sub Z.to_nat level]. f_equal. apply first_level_stable; [lia|apply fheight_le_fsize].
  - pose proof (fheight_le_fsize (kids t)). rewrite tsize_kids. lia.
  - reflexivity.
Qed.

Lemma findAmongParents_spec : forall f anc,
  Section_findAmongParents f anc = match related_up f anc with Some p => [p] | None => [] end.
Proof. induction anc as [|p up IH]; cbn. reflexivity. destruct (f p); [reflexivity|exact IH]. Qed.

Lemma findSideways_spec : forall f c anc, Section_findSideways f c anc = Ok (related_side f c anc).
Proof.
  induction anc as [|p up IH]; cbn [Section_findSideways related_side]. reflexivity.
  rewrite findSections_one. cbn [bind].
  destruct (filter f (kids p)) as [|x r]; [exact IH|reflexivity].
Qed.

Lemma erase_noop : forall l id, (forall s, In s l -> tid s <> id) -> erase_section_with_id l id = l.
Proof.
  induction l as [|x l IH]; intros id Hn; cbn [erase_section_with_id filter]. reflexivity.
  assert (String.eqb id (tid x) = false) as -> by (apply String.eqb_neq; intros He; apply (Hn x); [now left|now symmetry]).
  cbn [negb]. f_equal. apply IH. intros s Hs. apply Hn. now right.
Qed.

Lemma first_level_incl : forall f k ts, incl (first_level f k ts) (flat_map all_nodes ts).
Proof.
  induction k as [|k IH]; intros ts x Hx. destruct Hx.
  cbn [first_level] in Hx. apply (Permutation_in x (Permutation_sym (all_nodes_perm ts))). apply in_or_app.
  destruct (filter f ts) as [|y r] eqn:Hf.
  - right. now apply (IH (flat_map kids ts)).
  - left. rewrite <- Hf in Hx. apply filter_In in Hx. tauto.
Qed.

Lemma related_up_in : forall f anc p, related_up f anc = Some p -> In p anc.
Proof.
  induction anc as [|a up IH]; intros p Hp; cbn [related_up] in Hp. discriminate.
  destruct (f a); [injection Hp as <-; now left|right; now apply IH].
Qed.

(** findRelated = nearest downstream level with matches, else the nearest matching ancestor, else the matching
    children of the nearest ancestor that has any (without the caller) — given that no other section on the way
    carries the caller's id. *)
Theorem findRelated_spec : forall f anc t,
  Z.of_nat (fheight (kids t)) < two64 ->
  (forall s, In s (descendants t) -> tid s <> tid t) ->
  (forall a, In a anc -> tid a <> tid t) ->
  Section_findRelated f anc t = Ok (related_spec f anc t).
Proof.
  intros f anc t Hh Hdesc Hanc. unfold Section_findRelated, related_spec.
  rewrite findDownstream_spec by assumption. cbn [bind].
  assert (erase_section_with_id (related_down f t) (tid t) = related_down f t) as He.
  { apply erase_noop. intros s Hs. apply Hdesc. revert Hs. apply first_level_incl. }
  rewrite He. destruct (related_down f t) as [|x r] eqn:Hr.
  - cbn [zlen List.length Z.of_nat Z.eqb]. rewrite findAmongParents_spec.
    destruct (related_up f anc) as [p|] eqn:Hu.
    + rewrite erase_noop.
      * reflexivity.
      * intros s [<-|[]]. apply Hanc. eapply related_up_in; eassumption.
    + cbn [erase_section_with_id filter zlen List.length Z.of_nat Z.eqb]. apply findSideways_spec.
  - assert (zlen (x :: r) =? 0 = false) as Hz by (unfold zlen; cbn [List.length]; lia).
    rewrite Hz, He, Hz. reflexivity.
Qed.

(** * Links resolved through the search *)
Definition height_ok (roots : list tree) : Prop := Z.of_nat (fheight roots) < two64.

Lemma size_max_range : 0 <= size_max < two64.
Proof. unfold size_max, two64. lia. Qed.

Lemma file_search_all : forall f roots, height_ok roots ->
  exists r, File_findSections f size_max roots = Ok r /\ Permutation r (filter f (flat_map all_nodes roots)).
Proof. intros f roots Hh. apply file_unlimited. apply size_max_range. unfold height_ok, size_max in *. lia. Qed.

Lemma block_search_all : forall f roots, height_ok roots ->
  exists r, Block_findSources f size_max roots = Ok r /\ Permutation r (filter f (flat_map all_nodes roots)).
Proof. intros f roots Hh. apply block_unlimited. apply size_max_range. unfold height_ok, size_max in *. lia. Qed.

Lemma hd_error_in : forall {A} (l : list A) x, hd_error l = Some x -> In x l.
Proof. destruct l; cbn; intros x Hx; [discriminate|injection Hx as <-; now left]. Qed.

Lemma hd_error_none : forall {A} (l : list A), hd_error l = None -> l = [].
Proof. destruct l; cbn; intros Hx; [reflexivity|discriminate]. Qed.

(** the resolved target carries the requested id; nothing is found only if no section has that id *)
Lemma resolve_section_some : forall roots x, height_ok roots ->
  exists o, resolve_section roots (Some x) = Ok o /\
            (forall s, o = Some s -> tid s = x /\ In s (flat_map all_nodes roots)) /\
            (o = None -> ~ In x (map tid (flat_map all_nodes roots))).
Proof.
  intros roots x Hh. unfold resolve_section.
  destruct (file_search_all (IdFilter x) roots Hh) as (r & -> & Hp). cbn [bind].
  eexists. split. reflexivity. split.
  - intros s Hs. apply hd_error_in in Hs. apply (Permutation_in _ Hp) in Hs. apply filter_In in Hs.
    destruct Hs as [Hi He]. unfold IdFilter in He. apply String.eqb_eq in He. tauto.
  - intros Hn Hi. apply hd_error_none in Hn. subst r. apply in_map_iff in Hi. destruct Hi as (s & Hs & Hi).
    apply Permutation_nil in Hp.
    assert (In s (filter (IdFilter x) (flat_map all_nodes roots))) as Hf.
    { apply filter_In. split; [assumption|]. unfold IdFilter. now apply String.eqb_eq. }
    rewrite Hp in Hf. destruct Hf.
Qed.

(** * Back references are exact *)
Theorem MetadataFilter_exact : forall roots sec_id m, height_ok roots ->
  In sec_id (map tid (flat_map all_nodes roots)) ->
  MetadataFilter roots sec_id m = opt_is m sec_id.
Proof.
  intros roots sec_id m Hh Hin. unfold MetadataFilter, metadata_id, opt_is.
  destruct m as [x|]; [|reflexivity].
  destruct (resolve_section_some roots x Hh) as (o & -> & Hs & Hn).
  destruct o as [s|].
  - destruct (Hs s eq_refl) as [-> _]. reflexivity.
  - symmetry. apply String.eqb_neq. intros ->. now apply Hn.
Qed.

Theorem referring_arrays_exact : forall f sec_id, height_ok (f_sections f) ->
  In sec_id (map tid (flat_map all_nodes (f_sections f))) ->
  Section_referringDataArrays f sec_id = spec_ref_ents b_arrays f sec_id /\
  Section_referringTags f sec_id = spec_ref_ents b_tags f sec_id /\
  Section_referringMultiTags f sec_id = spec_ref_ents b_mtags f sec_id /\
  Section_referringBlocks f sec_id = spec_ref_blocks f sec_id.
Proof.
  intros f sec_id Hh Hin.
  unfold Section_referringDataArrays, Section_referringTags, Section_referringMultiTags, Section_referringBlocks,
         spec_ref_ents, spec_ref_blocks.
  repeat split; try (apply flat_map_ext; intros b); apply filter_ext; intros e; now apply MetadataFilter_exact.
Qed.

Lemma referringSources_loop_spec : forall f sec_id, height_ok (f_sections f) ->
  In sec_id (map tid (flat_map all_nodes (f_sections f))) ->
  forall blocks acc, (forall b, In b blocks -> height_ok (b_sources b)) ->
  exists r, referringSources_loop f sec_id blocks acc = Ok (acc ++ r) /\
            Permutation r (flat_map (fun b => filter (fun s => opt_is (n_meta (label s)) sec_id) (flat_map all_nodes (b_sources b))) blocks).
Proof.
  intros f sec_id Hh Hin. induction blocks as [|b blocks IH]; intros acc Hb; cbn [referringSources_loop flat_map].
  - exists []. rewrite app_nil_r. split; constructor.
  - unfold Section_referringSources_in.
    destruct (block_search_all (fun s => MetadataFilter (f_sections f) sec_id (n_meta (label s))) (b_sources b)) as (r1 & -> & Hp1).
    { apply Hb. now left. }
    cbn [bind]. destruct (IH (acc ++ r1)) as (r2 & -> & Hp2). { intros b' Hb'. apply Hb. now right. }
    exists (r1 ++ r2). rewrite app_assoc. split; [reflexivity|]. apply Permutation_app; [|assumption].
    rewrite (filter_ext _ (fun s => opt_is (n_meta (label s)) sec_id)) in Hp1; [assumption|].
    intros s. now apply MetadataFilter_exact.
Qed.

Theorem referring_sources_exact : forall f sec_id, height_ok (f_sections f) ->
  (forall b, In b (f_blocks f) -> height_ok (b_sources b)) ->
  In sec_id (map tid (flat_map all_nodes (f_sections f))) ->
  exists r, Section_referringSources f sec_id = Ok r /\ Permutation r (spec_ref_sources f sec_id).
Proof.
  intros f sec_id Hh Hb Hin. unfold Section_referringSources.
  destruct (referringSources_loop_spec f sec_id Hh Hin (f_blocks f) [] Hb) as (r & -> & Hp). now exists r.
Qed.

Theorem source_referring_exact : forall b src_id,
  Source_referringDataArrays b src_id = spec_src_ents b_arrays b src_id /\
  Source_referringTags b src_id = spec_src_ents b_tags b src_id /\
  Source_referringMultiTags b src_id = spec_src_ents b_mtags b src_id.
Proof. intros. repeat split. Qed.

Lemma spec_src_ents_in : forall sel b src_id e, In e (spec_src_ents sel b src_id) <-> In e (sel b) /\ In src_id (e_srcs e).
Proof.
  intros. unfold spec_src_ents. rewrite filter_In. rewrite existsb_exists. split.
  - intros [Hi (x & Hx & He)]. apply String.eqb_eq in He. subst. tauto.
  - intros [Hi Hs]. split; [assumption|]. exists src_id. split; [assumption|apply String.eqb_refl].
Qed.

Lemma spec_ref_ents_in : forall sel f sec_id e,
  In e (spec_ref_ents sel f sec_id) <-> exists b, In b (f_blocks f) /\ In e (sel b) /\ e_meta e = Some sec_id.
Proof.
  intros. unfold spec_ref_ents. rewrite in_flat_map. split.
  - intros (b & Hb & He). apply filter_In in He. destruct He as [Hi Ho]. exists b. repeat split; try assumption.
    unfold opt_is in Ho. destruct (e_meta e) as [x|]; [|discriminate]. apply String.eqb_eq in Ho. now subst.
  - intros (b & Hb & Hi & Hm). exists b. split; [assumption|]. apply filter_In. split; [assumption|].
    unfold opt_is. rewrite Hm. apply String.eqb_refl.
Qed.

(** * Unique ids: at most one hit *)
Lemma nodup_map_inj : forall {A B} (g : A -> B) l a b, NoDup (map g l) -> In a l -> In b l -> g a = g b -> a = b.
Proof.
  induction l as [|x l IH]; intros a b Hn Ha Hb Hg. destruct Ha.
  cbn [map] in Hn. inversion Hn as [|? ? Hx Hr]; subst.
  destruct Ha as [->|Ha], Hb as [->|Hb]; try reflexivity.
  - exfalso. apply Hx. rewrite Hg. now apply in_map.
  - exfalso. apply Hx. rewrite <- Hg. now apply in_map.
  - now apply IH.
Qed.

Lemma nodup_of_map : forall {A B} (g : A -> B) l, NoDup (map g l) -> NoDup l.
Proof.
  induction l as [|x l IH]; intros Hn. constructor.
  cbn [map] in Hn. inversion Hn as [|? ? Hx Hr]; subst. constructor; [|now apply IH].
  intros Hi. apply Hx. now apply in_map.
Qed.

Lemma at_most_one : forall {A} (l : list A), NoDup l -> (forall a b, In a l -> In b l -> a = b) ->
  l = [] \/ exists x, l = [x].
Proof.
  intros A [|a [|b l]] Hn Heq. now left. right. now exists a.
  exfalso. assert (a = b) as -> by (apply Heq; cbn; tauto). inversion Hn as [|? ? Hx _]. apply Hx. now left.
Qed.

Lemma perm_hd_unique : forall {A} (l l' : list A), Permutation l l' -> (l' = [] \/ exists x, l' = [x]) -> l = l'.
Proof.
  intros A l l' Hp [->|(x & ->)].
  - now apply Permutation_sym, Permutation_nil in Hp.
  - now apply Permutation_sym, Permutation_length_1_inv in Hp.
Qed.

Lemma filter_id_unique : forall x D, NoDup (map tid D) ->
  filter (IdFilter x) D = [] \/ exists s, filter (IdFilter x) D = [s].
Proof.
  intros x D Hn. apply at_most_one.
  - apply NoDup_filter. eapply nodup_of_map; eassumption.
  - intros a b Ha Hb. apply filter_In in Ha, Hb. destruct Ha as [Ha Hea], Hb as [Hb Heb].
    unfold IdFilter in *. apply String.eqb_eq in Hea, Heb. eapply nodup_map_inj; try eassumption. congruence.
Qed.

Theorem resolve_section_find : forall roots x, height_ok roots -> NoDup (map tid (flat_map all_nodes roots)) ->
  resolve_section roots (Some x) = Ok (find_section roots x).
Proof.
  intros roots x Hh Hn. unfold resolve_section, find_section.
  destruct (file_search_all (IdFilter x) roots Hh) as (r & -> & Hp). cbn [bind]. do 2 f_equal.
  apply perm_hd_unique; [assumption|]. now apply filter_id_unique.
Qed.

(** * inheritedProperties *)
Lemma inherited_fold : forall linked acc, NoDup (map snd linked) ->
  fold_left (fun (own : list (string * string)) linked_prop =>
               if existsb (fun own_prop => String.eqb (snd linked_prop) (snd own_prop)) own
               then own else own ++ [linked_prop]) linked acc =
  acc ++ filter (fun lp => negb (existsb (fun op => String.eqb (snd lp) (snd op)) acc)) linked.
Proof.
  induction linked as [|lp linked IH]; intros acc Hn; cbn [fold_left filter].
  - now rewrite app_nil_r.
  - cbn [map] in Hn. inversion Hn as [|? ? Hx Hr]; subst.
    destruct (existsb (fun own_prop => String.eqb (snd lp) (snd own_prop)) acc) eqn:He; cbn [negb].
    + now apply IH.
    + rewrite IH by assumption. rewrite <- app_assoc. cbn [app]. do 2 f_equal.
      apply filter_ext_in. intros lp' Hi. f_equal. rewrite existsb_app. cbn [existsb].
      assert (String.eqb (snd lp') (snd lp) = false) as ->.
      { apply String.eqb_neq. intros Heq. apply Hx. rewrite <- Heq. now apply in_map. }
      now rewrite !orb_false_r.
Qed.

Theorem inherited_spec : forall roots self, height_ok roots -> NoDup (map tid (flat_map all_nodes roots)) ->
  (forall s, In s (flat_map all_nodes roots) -> NoDup (map snd (n_props (label s)))) ->
  Section_inheritedProperties roots self = Ok (spec_inherited roots self).
Proof.
  intros roots self Hh Hn Hp. unfold Section_inheritedProperties, Section_link, spec_inherited.
  destruct (n_link (label self)) as [x|]; [|reflexivity].
  rewrite resolve_section_find by assumption. cbn [bind].
  destruct (find_section roots x) as [lk|] eqn:Hf; [|reflexivity].
  rewrite inherited_fold. reflexivity.
  apply Hp. unfold find_section in Hf. apply hd_error_in in Hf. apply filter_In in Hf. tauto.
Qed.

Theorem spec_inherited_in : forall roots self p, In p (spec_inherited roots self) <->
  In p (n_props (label self)) \/
  (exists x lk, n_link (label self) = Some x /\ find_section roots x = Some lk /\ In p (n_props (label lk)) /\
                forall q, In q (n_props (label self)) -> snd q <> snd p).
Proof.
  intros roots self p. unfold spec_inherited.
  destruct (n_link (label self)) as [x|].
  - destruct (find_section roots x) as [lk|] eqn:Hfs.
    + rewrite in_app_iff, filter_In. split.
      * intros [Ho|[Hl Hs]]; [now left|right]. exists x, lk. split; [reflexivity|]. split; [assumption|]. split; [assumption|].
        intros q Hq Heq. apply negb_true_iff in Hs.
        assert (existsb (fun op => String.eqb (snd p) (snd op)) (n_props (label self)) = true) as Ht.
        { apply existsb_exists. exists q. split; [assumption|]. apply String.eqb_eq. now symmetry. }
        congruence.
      * intros [Ho|(x' & lk' & Hx & Hl & Hi & Hs)]; [now left|right]. injection Hx as <-. rewrite Hfs in Hl. injection Hl as <-.
        split; [assumption|]. apply negb_true_iff. apply not_true_is_false. intros Ht. apply existsb_exists in Ht.
        destruct Ht as (q & Hq & Heq). apply String.eqb_eq in Heq. apply (Hs q Hq). now symmetry.
    + split; [now left|]. intros [Ho|(x' & lk' & Hx & Hl & _)]; [assumption|]. injection Hx as <-. congruence.
  - split; [now left|]. intros [Ho|(x' & lk' & Hx & _)]; [assumption|discriminate].
Qed.

(** * parentSource *)
Lemma kids_all_swap : forall t, Permutation (flat_map all_nodes (kids t)) (flat_map kids (all_nodes t)).
Proof.
  induction t as [l ks IH] using tree_ind'. cbn [kids all_nodes flat_map].
  eapply Permutation_trans. apply all_nodes_perm. apply Permutation_app_head.
  rewrite !flat_map_flat_map. apply perm_flat_map_pointwise. intros k Hk.
  rewrite Forall_forall in IH. now apply IH.
Qed.

Lemma all_nodes_kids_perm : forall ts,
  Permutation (flat_map all_nodes ts) (ts ++ flat_map kids (flat_map all_nodes ts)).
Proof.
  intros ts. eapply Permutation_trans. apply all_nodes_perm. apply Permutation_app_head.
  rewrite !flat_map_flat_map. apply perm_flat_map_pointwise. intros k _. apply kids_all_swap.
Qed.

Lemma kid_in_all : forall ts s c, In s (flat_map all_nodes ts) -> In c (kids s) -> In c (flat_map all_nodes ts).
Proof.
  intros ts s c Hs Hc. apply (Permutation_in c (Permutation_sym (all_nodes_kids_perm ts))).
  apply in_or_app. right. apply in_flat_map. now exists s.
Qed.

Lemma flat_map_key_unique : forall {A B C} (g : B -> C) (h : A -> list B) L p1 p2 c1 c2,
  NoDup (map g (flat_map h L)) -> In p1 L -> In p2 L -> In c1 (h p1) -> In c2 (h p2) -> g c1 = g c2 -> p1 = p2.
Proof.
  induction L as [|a L IH]; intros p1 p2 c1 c2 Hn H1 H2 Hc1 Hc2 Hg. destruct H1.
  cbn [flat_map] in Hn. rewrite map_app in Hn. destruct (nodup_app_inv _ _ Hn) as (Ha & Hb & Hd).
  destruct H1 as [->|H1], H2 as [->|H2]; try reflexivity.
  - exfalso. apply (Hd (g c1)). now apply in_map. rewrite Hg. apply in_map. apply in_flat_map. now exists p2.
  - exfalso. apply (Hd (g c2)). now apply in_map. rewrite <- Hg. apply in_map. apply in_flat_map. now exists p1.
  - eapply IH; eassumption.
Qed.

Lemma has_kid_true : forall id p, has_kid id p = true <-> exists c, In c (kids p) /\ tid c = id.
Proof.
  intros. unfold has_kid. rewrite existsb_exists. split; intros (c & Hc & He); exists c; split; try assumption.
  now apply String.eqb_eq. now apply String.eqb_eq.
Qed.

Lemma parent_unique : forall ts id p1 p2, NoDup (map tid (flat_map all_nodes ts)) ->
  In p1 (flat_map all_nodes ts) -> In p2 (flat_map all_nodes ts) ->
  has_kid id p1 = true -> has_kid id p2 = true -> p1 = p2.
Proof.
  intros ts id p1 p2 Hn H1 H2 Hk1 Hk2.
  apply has_kid_true in Hk1, Hk2. destruct Hk1 as (c1 & Hc1 & He1), Hk2 as (c2 & Hc2 & He2).
  assert (NoDup (map tid (flat_map kids (flat_map all_nodes ts)))) as Hnk.
  { assert (NoDup (map tid (ts ++ flat_map kids (flat_map all_nodes ts)))) as Hn'.
    { eapply Permutation_NoDup; [|exact Hn]. apply Permutation_map, all_nodes_kids_perm. }
    rewrite map_app in Hn'. now destruct (nodup_app_inv _ _ Hn') as (_ & Hb & _). }
  eapply (flat_map_key_unique tid kids); try eassumption. congruence.
Qed.

Lemma existsb_false : forall {A} (f : A -> bool) l, (forall x, In x l -> f x = false) -> existsb f l = false.
Proof. induction l as [|x l IH]; intros Hf; cbn [existsb]. reflexivity. rewrite Hf by now left. apply IH. intros y Hy. apply Hf. now right. Qed.

Lemma Source_hasSource_exact : forall s id, looksLikeUUID id = true ->
  (forall c, In c (kids s) -> n_name (label c) <> id) -> Source_hasSource s id = has_kid id s.
Proof.
  intros s id Hu Hnm. unfold Source_hasSource, has_kid. rewrite Hu.
  rewrite existsb_false. reflexivity. intros c Hc. apply String.eqb_neq. now apply Hnm.
Qed.

(** parentSource returns exactly the node one of whose children carries the id (none for a root source) *)
Theorem parent_exact : forall b id, height_ok (b_sources b) ->
  NoDup (map tid (flat_map all_nodes (b_sources b))) -> looksLikeUUID id = true ->
  (forall s, In s (flat_map all_nodes (b_sources b)) -> n_name (label s) <> id) ->
  Source_parentSource b id = Ok (spec_parent (b_sources b) id).
Proof.
  intros b id Hh Hn Hu Hnm. unfold Source_parentSource, spec_parent.
  destruct (block_search_all (fun s => Source_hasSource s id) (b_sources b) Hh) as (r & -> & Hp). cbn [bind]. do 2 f_equal.
  rewrite (filter_ext_in _ (has_kid id)) in Hp.
  - apply perm_hd_unique; [assumption|]. apply at_most_one.
    + apply NoDup_filter. eapply nodup_of_map; eassumption.
    + intros p1 p2 H1 H2. apply filter_In in H1, H2. destruct H1 as [H1 K1], H2 as [H2 K2].
      now apply (parent_unique (b_sources b) id).
  - intros s Hs. apply Source_hasSource_exact; [assumption|]. intros c Hc. apply Hnm. eapply kid_in_all; eassumption.
Qed.

Theorem spec_parent_sound : forall roots id p, spec_parent roots id = Some p ->
  In p (flat_map all_nodes roots) /\ exists c, In c (kids p) /\ tid c = id.
Proof.
  intros roots id p Hp. unfold spec_parent in Hp. apply hd_error_in in Hp. apply filter_In in Hp.
  destruct Hp as [Hi Hk]. split; [assumption|]. now apply has_kid_true.
Qed.

Theorem spec_parent_complete : forall roots id, spec_parent roots id = None ->
  forall p c, In p (flat_map all_nodes roots) -> In c (kids p) -> tid c <> id.
Proof.
  intros roots id Hp p c Hi Hc He. unfold spec_parent in Hp. apply hd_error_none in Hp.
  assert (In p (filter (has_kid id) (flat_map all_nodes roots))) as Hf.
  { apply filter_In. split; [assumption|]. apply has_kid_true. now exists c. }
  rewrite Hp in Hf. destruct Hf.
Qed.

Lemma nodup_self_not_below : forall t, NoDup (map tid (all_nodes t)) -> forall s, In s (descendants t) -> tid s <> tid t.
Proof.
  intros t Hn s Hs He. rewrite all_nodes_eq in Hn. cbn [map] in Hn. inversion Hn as [|? ? Hx _]. apply Hx.
  rewrite <- He. now apply in_map.
Qed.

(** * The extracted oracles *)
Theorem section_oracle : forall f d t, 0 <= d < two64 -> Section_findSections f d t = Ok (spec_section_find f d t).
Proof. intros. unfold spec_section_find. rewrite within_levels_from. now apply findSections_bfs. Qed.

Theorem source_oracle : forall f d t, 0 <= d < two64 -> Source_findSources f d t = Ok (spec_source_find f d t).
Proof.
  intros. unfold spec_source_find. rewrite within_levels_from. rewrite findSources_bfs by assumption.
  do 3 f_equal. lia.
Qed.

Theorem file_oracle : forall f d roots, 0 <= d < two64 ->
  exists r, File_findSections f d roots = Ok r /\ Permutation r (spec_file_find f d roots).
Proof. intros f d roots Hd. destruct (file_level_is_union f d roots Hd) as (r & Hr & _ & _ & Hp). now exists r. Qed.

Theorem block_oracle : forall f d roots, 0 <= d < two64 ->
  exists r, Block_findSources f d roots = Ok r /\ Permutation r (spec_block_find f d roots).
Proof. intros f d roots Hd. destruct (block_level_is_union f d roots Hd) as (r & Hr & _ & Hp). now exists r. Qed.

Theorem section_all_oracle : forall f t, height_ok (kids t) ->
  exists r, Section_findSections f size_max t = Ok r /\ Permutation r (spec_section_all f t).
Proof. intros f t Hh. apply section_unlimited. apply size_max_range. unfold height_ok, size_max in *. lia. Qed.

Theorem source_all_oracle : forall f t, height_ok [t] ->
  exists r, Source_findSources f size_max t = Ok r /\ Permutation r (spec_source_all f t).
Proof.
  intros f t Hh. apply source_unlimited. apply size_max_range.
  unfold height_ok, size_max in *. cbn [fheight fold_right] in Hh. lia.
Qed.

(** membership reading of the brute-force traversals *)
Lemma in_all_nodes_self : forall t, In t (all_nodes t).
Proof. intros. rewrite all_nodes_eq. now left. Qed.

Lemma dfs_within_in : forall t d s, In s (dfs_within d t) <->
  0 < d /\ (s = t \/ exists c, In c (kids t) /\ In s (dfs_within (d - 1) c)).
Proof.
  intros t d s. destruct (Z_le_gt_dec d 0) as [Hd|Hd].
  - pose proof (dfs_within_nonpos d [t] Hd) as Hn. cbn [flat_map] in Hn. rewrite app_nil_r in Hn. rewrite Hn.
    split; [intros []|lia].
  - rewrite dfs_within_pos by lia. cbn [In]. rewrite in_flat_map. split.
    + intros [<-|H]; split; try lia; [now left|now right].
    + intros [_ [->|H]]; [now left|now right].
Qed.

(** file / block level: each entity once *)
Theorem file_each_once : forall f maxd roots r, 0 <= maxd < two64 ->
  NoDup (map tid (flat_map all_nodes roots)) -> File_findSections f maxd roots = Ok r -> NoDup (map tid r).
Proof.
  intros f maxd roots r Hm Hn Hr.
  destruct (file_level_is_union f maxd roots Hm) as (r' & Hr' & _ & Hp & _).
  assert (r = r') as -> by congruence.
  eapply Permutation_NoDup. apply Permutation_map, Permutation_sym, Hp.
  now apply nodup_map_filter, levels_nodup.
Qed.

Theorem block_each_once : forall f maxd roots r, 0 <= maxd < two64 ->
  NoDup (map tid (flat_map all_nodes roots)) -> Block_findSources f maxd roots = Ok r -> NoDup (map tid r).
Proof.
  intros f maxd roots r Hm Hn Hr.
  destruct (block_level_is_union f maxd roots Hm) as (r' & Hr' & _ & Hp).
  assert (r = r') as -> by congruence.
  eapply Permutation_NoDup. apply Permutation_map, Permutation_sym, Hp.
  apply nodup_map_filter.
  eapply Permutation_NoDup. apply Permutation_map, levels_from_dfs.
  now apply levels_nodup.
Qed.

(** * Further public routes: filtered enumerations, block-restricted overloads, more filter constructors *)
Theorem sections_is_depth1 : forall f t, Section_findSections f 1 t = Ok (Section_sections f t).
Proof. exact findSections_one. Qed.

Lemma flat_map_filter_single : forall {A} (f : A -> bool) l, flat_map (fun r => filter f [r]) l = filter f l.
Proof.
  induction l as [|x l IH]. reflexivity.
  cbn [flat_map]. rewrite IH. cbn [filter]. destruct (f x); reflexivity.
Qed.

Theorem file_sections_is_depth1 : forall f roots, File_findSections f 1 roots = Ok (File_sections f roots).
Proof.
  intros. rewrite file_findSections_spec by (unfold two64; lia). change (Z.to_nat 1) with 1%nat.
  unfold File_sections, getEntities. rewrite <- flat_map_filter_single. apply f_equal. apply flat_map_ext. intros r.
  cbn [levels_from]. now rewrite app_nil_r.
Qed.

Theorem sources_is_depth1 : forall f t, Source_findSources f 1 t = Ok (filter f [t] ++ Source_sources f t).
Proof.
  intros. rewrite findSources_bfs by (unfold two64; lia). change (Z.to_nat 1) with 1%nat.
  rewrite levels_from_single. cbn [levels_from]. rewrite app_nil_r. cbn [filter].
  unfold Source_sources, getEntities. destruct (f t); reflexivity.
Qed.

Theorem block_sources_is_depth0 : forall f b, Block_findSources f 0 (b_sources b) = Ok (Block_sources f b).
Proof.
  intros. rewrite block_findSources_spec by (unfold two64; lia). change (Z.to_nat 0) with 0%nat.
  unfold Block_sources, getEntities. rewrite <- flat_map_filter_single. apply f_equal. apply flat_map_ext. intros r.
  cbn [levels_from]. now rewrite app_nil_r.
Qed.

Theorem referring_whole_file_is_per_block : forall f sec_id,
  Section_referringDataArrays f sec_id = flat_map (fun b => Section_referringDataArrays_in f sec_id (Some b)) (f_blocks f) /\
  Section_referringTags f sec_id = flat_map (fun b => Section_referringTags_in f sec_id (Some b)) (f_blocks f) /\
  Section_referringMultiTags f sec_id = flat_map (fun b => Section_referringMultiTags_in f sec_id (Some b)) (f_blocks f).
Proof. intros. repeat split. Qed.

Theorem referring_in_exact : forall f sec_id ob, height_ok (f_sections f) ->
  In sec_id (map tid (flat_map all_nodes (f_sections f))) ->
  Section_referringDataArrays_in f sec_id ob = spec_ref_ents_block b_arrays sec_id ob /\
  Section_referringTags_in f sec_id ob = spec_ref_ents_block b_tags sec_id ob /\
  Section_referringMultiTags_in f sec_id ob = spec_ref_ents_block b_mtags sec_id ob.
Proof.
  intros f sec_id [b|] Hh Hin; [|repeat split].
  unfold Section_referringDataArrays_in, Section_referringTags_in, Section_referringMultiTags_in, spec_ref_ents_block,
         Block_dataArrays, Block_tags, Block_multiTags, getEntities, EntMetadataFilter.
  repeat split; apply filter_ext; intros e; now apply MetadataFilter_exact.
Qed.

Theorem SourceMetadataFilter_exact : forall roots sec_id s, height_ok roots ->
  In sec_id (map tid (flat_map all_nodes roots)) -> SourceMetadataFilter roots sec_id s = spec_meta_filter sec_id s.
Proof. intros. unfold SourceMetadataFilter, spec_meta_filter. now apply MetadataFilter_exact. Qed.

Theorem referring_sources_in_exact : forall f sec_id ob, height_ok (f_sections f) ->
  (forall b, ob = Some b -> height_ok (b_sources b)) ->
  In sec_id (map tid (flat_map all_nodes (f_sections f))) ->
  exists r, Section_referringSources_opt f sec_id ob = Ok r /\ Permutation r (spec_ref_sources_block sec_id ob).
Proof.
  intros f sec_id [b|] Hh Hb Hin; [|exists []; split; constructor].
  unfold Section_referringSources_opt, Section_referringSources_in, spec_ref_sources_block.
  destruct (block_search_all (fun s => MetadataFilter (f_sections f) sec_id (n_meta (label s))) (b_sources b)) as (r & -> & Hp).
  { now apply Hb. }
  exists r. split; [reflexivity|].
  rewrite (filter_ext _ (spec_meta_filter sec_id)) in Hp; [assumption|].
  intros s. unfold spec_meta_filter. now apply MetadataFilter_exact.
Qed.

Theorem source_referring_is_enumeration : forall b src_id,
  Source_referringDataArrays b src_id = Block_dataArrays (SourceFilter src_id) b /\
  Source_referringTags b src_id = Block_tags (SourceFilter src_id) b /\
  Source_referringMultiTags b src_id = Block_multiTags (SourceFilter src_id) b.
Proof. intros. repeat split. Qed.

Lemma prefix_refl : forall s, String.prefix s s = true.
Proof. induction s as [|c s IH]; cbn. reflexivity. destruct (ascii_dec c c); [assumption|congruence]. Qed.

Lemma contains_refl : forall s, contains s s = true.
Proof. intros s. destruct s; cbn [contains]; now rewrite prefix_refl. Qed.

(** an exact type match is also a loose (case-insensitive substring) match *)
Theorem TypeFilter_implies_loose : forall ty e, TypeFilter ty e = true -> TypeFilterLoose ty e = true.
Proof.
  intros ty e He. unfold TypeFilter in He. apply String.eqb_eq in He. unfold TypeFilterLoose. rewrite He. apply contains_refl.
Qed.
