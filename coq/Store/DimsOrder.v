(** C13 — order facts behind the "ascending" invariant: [fle] is transitive on all doubles (NaN is not
    below or above anything), hence neighbour-wise ascending ticks are ordered between ANY two positions. *)
From Coq Require Import List ZArith Bool String Lia Reals Lra.
From Flocq Require Import Core BinarySingleNaN.
Require Import NixV.Base.Prelude NixV.Base.F64 NixV.Base.F64Facts.
Require Import NixV.Store.Dims.
Import ListNotations.
Local Open Scope Z_scope.

Lemma fle_trans : forall x y z : F64, fle x y = true -> fle y z = true -> fle x z = true.
Proof.
  intros x y z.
  destruct (is_finite x) eqn:Fx, (is_finite y) eqn:Fy, (is_finite z) eqn:Fz.
  1: { intros A B. apply (fle_true x y Fx Fy) in A. apply (fle_true y z Fy Fz) in B. apply (fle_true x z Fx Fz).
       eapply Rle_trans; eassumption. }
  all: destruct x, y, z; try discriminate; unfold fle, Bleb, SpecFloat.SFleb; cbn [B2SF SpecFloat.SFcompare];
       repeat match goal with s : bool |- _ => destruct s end; intros; try reflexivity; try discriminate.
Qed.

Lemma fle_nan_l : forall y, fle B754_nan y = false. Proof. reflexivity. Qed.

(** adjacent order is order between any two positions *)
Lemma ascending_cons : forall a l, ascending (a :: l) = true -> ascending l = true /\ (forall b, In b l -> fle a b = true).
Proof.
  intros a l. revert a. induction l as [|b l IH]; intros a H.
  - split; [reflexivity|]. intros b [].
  - unfold ascending in *. cbn [adjacent] in H. apply andb_prop in H. destruct H as [H1 H2].
    split; [exact H2|]. intros c [E|I]; [now subst|].
    destruct (IH b H2) as [_ K]. apply (fle_trans a b c H1). now apply K.
Qed.

Theorem ascending_pairs : forall l, ascending l = true ->
  forall i j a b, (i < j)%nat -> nth_error l i = Some a -> nth_error l j = Some b -> fle a b = true.
Proof.
  induction l as [|x l IH]; intros H i j a b L A B; [destruct i; discriminate|].
  destruct (ascending_cons x l H) as [H1 H2].
  destruct i, j; try lia; cbn [nth_error] in *.
  - inversion A. subst. apply H2. eapply nth_error_In; eassumption.
  - apply (IH H1 i j a b); auto. lia.
Qed.
