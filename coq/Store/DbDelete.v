(** * Store/DbDelete.v — C04: deleting an entity leaves no dangling reference and harms nothing else

    [remove_subtree s x] (Db.v) is the deletion semantics of the repaired library: the entity [x] and everything
    below it leave the file, and every link to a removed entity disappears from every holder, whatever its kind
    (metadata, section link, positions, extents, feature data, references, entity sources, the four group member
    lists, the frame of a data-frame dimension).  This file proves, for every state that satisfies [Inv] (hence
    for every reachable state, DbNoTrace.inv_reachable):

    - [delete_no_dangling]     afterwards no entity holds a link of any kind to a removed entity, and every link
                               that is left points to an entity that is in the file
    - [delete_handle_invalid]  handles to the removed entities report themselves invalid (repaired behaviour)
    - [subtree_desc], [delete_subtree]  what is removed is exactly [x] and its descendants (for a source or a
                               section: its entire subtree); everything else stays in the file
    - [delete_frame]           the observation of the file afterwards is the observation before with the removed
                               entities' lines taken out and their ordinals erased from every list and reference
                               of the other lines ([scrub_obs]) — the precise reading of "every entity that was not
                               deleted is left exactly as it was"; [delete_untouched]: an entity that held no link
                               to a removed one is the very same record afterwards
    - [delete_by_name], [delete_by_id], [delete_by_handle], [delete_step_sound]  the delete calls of the API
                               remove exactly the member they address, and nothing when they address none
    The invariant carries the tree closure ([inv_parent]: the parent of every entity is in the file). *)
From Coq Require Import List ZArith Bool String Ascii Arith Lia Sorting.Sorted.
Require Import NixV.Base.Prelude NixV.Store.Db NixV.Store.DbOps NixV.Store.DbObserve NixV.Store.DbInv NixV.Store.DbShape
        NixV.Store.DbNoTrace NixV.Store.DbLookup NixV.Store.DbSession.
Import ListNotations.

(** ** every link target of an entity *)
Definition opt_list (o : option nat) : list nat := match o with Some t => [t] | None => [] end.
Definition targets (l : links) : list nat :=
  flat_map (fun sl => opt_list (get_o sl l)) all_oslots ++ flat_map (fun sl => get_l sl l) all_lslots ++ dim_frames l.

Lemma in_dim_frames t l : In t (dim_frames l) <-> In (DimFrame (Some t)) (l_dims l).
Proof.
  unfold dim_frames. rewrite in_flat_map. split.
  - intros [d [Hd Ht]]. destruct d as [| | | |[u|]]; simpl in Ht; try contradiction. destruct Ht as [Ht|[]]. subst; auto.
  - intros H. exists (DimFrame (Some t)). split; auto. left; auto.
Qed.

Lemma in_targets t l :
  In t (targets l) <-> (exists sl, get_o sl l = Some t) \/ (exists sl, In t (get_l sl l)) \/ In (DimFrame (Some t)) (l_dims l).
Proof.
  unfold targets. rewrite !in_app_iff, !in_flat_map, in_dim_frames. split.
  - intros [[sl [_ H]]|[[sl [_ H]]|H]]; auto.
    left. exists sl. destruct (get_o sl l); simpl in H; [destruct H as [H|[]]; subst; auto|contradiction].
    right. left. eauto.
  - intros [[sl H]|[[sl H]|H]]; auto.
    + left. exists sl. split; [destruct sl; simpl; tauto|]. rewrite H. left; auto.
    + right. left. exists sl. split; [destruct sl; simpl; tauto|auto].
Qed.

(** the observation restricted to the survivors, the removed ordinals erased *)
Definition scrub_field (dead : list nat) (f : field) : field :=
  match f with
  | FRef l v => FRef l (scrub_o dead v)
  | FRefs l v => FRefs l (scrub_l dead v)
  | FDims l v => FDims l (map (scrub_d dead) v)
  | x => x
  end.
Definition scrub_line (dead : list nat) (ln : line) : line :=
  mkLine (ln_oid ln) (ln_kind ln) (ln_parent ln) (ln_id_ok ln) (map (scrub_field dead) (ln_fields ln)).
Definition scrub_obs (dead : list nat) (ob : list field * list line) : list field * list line :=
  (map (scrub_field dead) (fst ob), map (scrub_line dead) (filter (fun ln => negb (memn (ln_oid ln) dead)) (snd ob))).

(** [o] is [x] or lies below it *)
Inductive desc (s : db) (x : nat) : nat -> Prop :=
| desc_root : alive s x = true -> desc s x x
| desc_child e p : In e (ents s) -> e_parent e = Some p -> desc s x p -> desc s x (e_oid e).

Section Delete.
Variable ids : nat -> string.
Hypothesis ids_inj : forall a b, ids a = ids b -> a = b.
Variable N : nat.
Hypothesis ids_uuid : forall a, a < N -> looksLikeUUID (ids a) = true.
Variable sanitize : string -> string.
Variable unit_ok : string -> bool.
Notation Inv := (Inv ids N).
Notation eid := (eid ids).
Notation stepR := (step ids sanitize unit_ok repaired).
Notation container := (container).

(** ** no dangling reference *)
Definition no_dangling (s : db) : Prop := forall e t, In e (ents s) -> In t (targets (e_links e)) -> alive s t = true.

Theorem inv_no_dangling s : Inv s -> no_dangling s.
Proof.
  intros H e t He Ht. destruct (inv_links _ _ _ H _ He) as [A1 [A2 A3]]. apply in_targets in Ht.
  destruct Ht as [[sl G]|[[sl G]|G]].
  - eapply A2; eauto.
  - destruct (A1 sl) as [_ T]. auto.
  - auto.
Qed.

Theorem delete_no_dangling s x : Inv s -> forall e t, In e (ents (remove_subtree s x)) -> In t (targets (e_links e)) ->
  ~ In t (subtree s x) /\ alive (remove_subtree s x) t = true.
Proof.
  intros H e t He Ht. assert (HR : Inv (remove_subtree s x)) by (eapply inv_remove; eauto).
  pose proof (inv_no_dangling _ HR e t He Ht) as A. split; auto.
  rewrite alive_remove in A. apply andb_true_iff in A. destruct A as [_ A]. apply negb_true_iff in A.
  apply memn_false in A. exact A.
Qed.

(** ** handles *)
Theorem delete_handle_invalid s x gh o : In o (subtree s x) -> handle_valid repaired (remove_subtree s x) gh (HEnt o) = false.
Proof.
  intros Ho. unfold handle_valid. rewrite alive_remove. apply memn_In in Ho. rewrite Ho. simpl. rewrite andb_false_r. reflexivity.
Qed.

Theorem survivor_handle_valid B s x gh o : alive s o = true -> ~ In o (subtree s x) -> handle_valid B (remove_subtree s x) gh (HEnt o) = true.
Proof.
  intros A Ho. unfold handle_valid. rewrite alive_remove, A. apply memn_false in Ho. rewrite Ho. reflexivity.
Qed.

(** ** the subtree *)
Theorem subtree_desc s x o : Inv s -> (In o (subtree s x) <-> desc s x o).
Proof.
  intros H. split.
  - revert o. intros o. induction o as [o IH] using lt_wf_ind. intros Ho.
    destruct (subtree_sound s x o Ho) as [e [He [Eo D]]]. destruct D as [D|[p [Hp Hin]]].
    + subst. apply desc_root. apply alive_iff. eauto.
    + destruct (inv_parent _ _ _ H _ _ He Hp) as [_ Lt]. rewrite <- Eo. eapply desc_child; eauto. apply IH; auto. lia.
  - induction 1 as [A|e p He Hp D IH].
    + apply (subtree_root ids ids_inj); auto.
    + eapply subtree_closed; eauto.
Qed.

Theorem delete_subtree s x o : Inv s -> desc s x o -> alive (remove_subtree s x) o = false.
Proof.
  intros H D. apply (subtree_desc s x o H) in D. rewrite alive_remove. apply memn_In in D. rewrite D. apply andb_false_r.
Qed.

Theorem delete_keeps_others s x o : Inv s -> alive s o = true -> ~ desc s x o -> alive (remove_subtree s x) o = true.
Proof.
  intros H A D. rewrite alive_remove, A. simpl. apply negb_true_iff. apply memn_false. intro Hin. apply D. apply subtree_desc; auto.
Qed.

(** the root itself goes, and with it every child, grandchild, ... *)
Corollary delete_root s x : Inv s -> alive s x = true -> alive (remove_subtree s x) x = false.
Proof. intros H A. apply delete_subtree; auto. apply desc_root; auto. Qed.

Corollary delete_children s x e : Inv s -> alive s x = true -> In e (ents s) -> e_parent e = Some x -> alive (remove_subtree s x) (e_oid e) = false.
Proof. intros H A He Hp. apply delete_subtree; auto. eapply desc_child; eauto. apply desc_root; auto. Qed.

(** tree closure (in every state that satisfies the invariant, so before and after every deletion) *)
Theorem tree_closed s e p : Inv s -> In e (ents s) -> e_parent e = Some p -> alive s p = true.
Proof. intros H He Hp. apply (inv_parent _ _ _ H _ _ He Hp). Qed.

(** ** the frame condition on the observation *)
Lemma kids_remove s x o k : kids (remove_subtree s x) o k = scrub_l (subtree s x) (kids s o k).
Proof. unfold kids. apply delete_preserves_relative_order. Qed.

Lemma fields_remove s x e :
  fields_of (remove_subtree s x) (with_links (scrub_links (subtree s x)) e) = map (scrub_field (subtree s x)) (fields_of s e).
Proof.
  unfold fields_of. change (e_kind (with_links (scrub_links (subtree s x)) e)) with (e_kind e).
  change (e_oid (with_links (scrub_links (subtree s x)) e)) with (e_oid e).
  destruct (e_kind e); rewrite ?kids_remove; simpl; reflexivity.
Qed.

Lemma line_remove s x e :
  line_of (remove_subtree s x) (with_links (scrub_links (subtree s x)) e) = scrub_line (subtree s x) (line_of s e).
Proof. unfold line_of, scrub_line. cbn [ln_oid ln_kind ln_parent ln_id_ok ln_fields]. rewrite fields_remove. reflexivity. Qed.

Lemma filter_map_swap {A B} (f : A -> B) (P : B -> bool) (l : list A) : filter P (map f l) = map f (filter (fun a => P (f a)) l).
Proof. induction l as [|a l IH]; simpl; auto. destruct (P (f a)); simpl; rewrite IH; auto. Qed.

Theorem delete_frame s x : observe (remove_subtree s x) = scrub_obs (subtree s x) (observe s).
Proof.
  unfold observe, scrub_obs. cbn [fst snd]. f_equal.
  - unfold root_fields. cbn [map scrub_field]. rewrite !delete_preserves_relative_order. reflexivity.
  - rewrite ents_remove, filter_map_swap, !map_map. cbn [ln_oid line_of]. unfold survives.
    apply map_ext. intros e. apply line_remove.
Qed.

(** an entity that held no link to a removed entity is the same record afterwards *)
Lemma scrub_o_id dead o : (forall t, o = Some t -> ~ In t dead) -> scrub_o dead o = o.
Proof.
  intros H. unfold scrub_o. destruct o as [t|]; simpl; auto. specialize (H t eq_refl). apply memn_false in H. rewrite H. reflexivity.
Qed.
Lemma scrub_l_id dead l : (forall t, In t l -> ~ In t dead) -> scrub_l dead l = l.
Proof.
  unfold scrub_l. induction l as [|a l IH]; simpl; intros H; auto.
  assert (Ha : memn a dead = false) by (apply memn_false; apply H; left; auto). rewrite Ha. simpl. rewrite IH; auto.
Qed.
Lemma scrub_dims_id dead l : (forall t, In (DimFrame (Some t)) l -> ~ In t dead) -> map (scrub_d dead) l = l.
Proof.
  induction l as [|d l IH]; simpl; intros H; auto. rewrite IH by (intros t Ht; apply H; right; auto). f_equal.
  destruct d as [| | | |f]; simpl; auto. rewrite scrub_o_id; auto. intros t E. subst. apply H. left; auto.
Qed.

Lemma scrub_links_id dead l : (forall t, In t (targets l) -> ~ In t dead) -> scrub_links dead l = l.
Proof.
  intros H. destruct l as [a b c d e f g h i j k m]. unfold scrub_links. cbn [l_meta l_link l_pos l_ext l_data l_refs l_srcs l_garr l_gfrm l_gtag l_gmtg l_dims].
  assert (O : forall sl t, get_o sl (mkLinks a b c d e f g h i j k m) = Some t -> ~ In t dead)
    by (intros sl t E; apply H, in_targets; left; eauto).
  assert (L : forall sl t, In t (get_l sl (mkLinks a b c d e f g h i j k m)) -> ~ In t dead)
    by (intros sl t E; apply H, in_targets; right; left; eauto).
  assert (D : forall t, In (DimFrame (Some t)) m -> ~ In t dead) by (intros t E; apply H, in_targets; right; right; auto).
  rewrite (scrub_o_id dead a (O OMeta)), (scrub_o_id dead b (O OLink)), (scrub_o_id dead c (O OPos)), (scrub_o_id dead d (O OExt)),
    (scrub_o_id dead e (O OData)), (scrub_l_id dead f (L LRefs)), (scrub_l_id dead g (L LSrcs)), (scrub_l_id dead h (L LGArr)),
    (scrub_l_id dead i (L LGFrm)), (scrub_l_id dead j (L LGTag)), (scrub_l_id dead k (L LGMtg)), (scrub_dims_id dead m D).
  reflexivity.
Qed.

Theorem delete_untouched s x e :
  In e (ents s) -> ~ In (e_oid e) (subtree s x) -> (forall t, In t (targets (e_links e)) -> ~ In t (subtree s x)) ->
  In e (ents (remove_subtree s x)).
Proof.
  intros He Hs Ht. rewrite ents_remove. apply in_map_iff. exists e. split.
  - unfold with_links. rewrite scrub_links_id; auto. destruct e; reflexivity.
  - apply filter_In. split; auto. unfold survives. apply negb_true_iff. apply memn_false. auto.
Qed.

(** every survivor keeps its header and payload, and loses exactly its links to the removed entities *)
Theorem delete_survivor s x e :
  In e (ents s) -> ~ In (e_oid e) (subtree s x) -> In (with_links (scrub_links (subtree s x)) e) (ents (remove_subtree s x)).
Proof.
  intros He Hs. rewrite ents_remove. apply in_map. apply filter_In. split; auto.
  unfold survives. apply negb_true_iff. apply memn_false. auto.
Qed.

(** ** the delete calls *)
Theorem delete_by_id s p k pk e : Inv s -> container s p k pk -> In e (children s p k) ->
  stepR s (ODelete p k (eid e)) = (remove_subtree s (e_oid e), Ok (VBool true)).
Proof.
  intros H C He. cbn [step]. rewrite (with_container_ok _ _ _ _ _ C).
  assert (L : lookup ids repaired s pk p k (eid e) = Ok (Some e)) by (eapply lookup_by_id; eauto).
  rewrite L. reflexivity.
Qed.

Theorem delete_by_name s p k pk e : Inv s -> container s p k pk -> In e (children s p k) -> k <> KFeature ->
  stepR s (ODelete p k (e_name e)) = (remove_subtree s (e_oid e), Ok (VBool true)).
Proof.
  intros H C He K. cbn [step]. rewrite (with_container_ok _ _ _ _ _ C).
  assert (Ke : e_kind e <> KFeature) by (apply children_in in He; destruct He as [_ [_ Ke]]; congruence).
  rewrite <- (named_link_name ids e Ke).
  assert (L : lookup ids repaired s pk p k (link_name ids e) = Ok (Some e)) by (eapply lookup_by_link_name; eauto).
  rewrite L. reflexivity.
Qed.

Theorem delete_by_handle s p k pk e : Inv s -> container s p k pk -> In e (children s p k) ->
  stepR s (ODeleteH p k (HEnt (e_oid e))) = (remove_subtree s (e_oid e), Ok (VBool true)).
Proof.
  intros H C He. cbn [step]. rewrite (with_container_ok _ _ _ _ _ C).
  assert (Hin : In e (ents s)) by (eapply children_ents; eauto).
  cbn [hent]. rewrite (find_ent_in ids N s e H Hin). unfold lookup_h.
  assert (L : forall pk', lookup ids repaired s pk' p k (eid e) = Ok (Some e)) by (intros; eapply lookup_by_id; eauto).
  destruct pk as [[]|] eqn:P; try (rewrite L; reflexivity).
  assert (K : k <> KFeature) by (destruct C as [_ C]; eapply block_container_no_feature; eauto).
  assert (Ke : e_kind e <> KFeature) by (apply children_in in He; destruct He as [_ [_ Ke]]; congruence).
  cbn [repaired b_delsource_by_id andb]. destruct (kind_eqb k KSource) eqn:KS; cbn [andb].
  - assert (L2 : block_find_key ids (children s p k) (eid e) = Some e) by (eapply block_find_key_by_id; eauto).
    rewrite L2. reflexivity.
  - assert (L2 : block_find ids (children s p k) (e_name e) (eid e) = Some e) by (eapply block_find_by_handle; eauto).
    rewrite L2. reflexivity.
Qed.

(** whatever a delete call removes is a member of the container it addresses *)
Lemma feature_scan_in s fs key f : feature_scan ids repaired s fs key = Ok (Some f) -> In f fs.
Proof.
  induction fs as [|a r IH]; simpl; [discriminate|]. destruct (l_data (e_links a)); cbn [repaired b_feature_null_guard].
  - destruct (find_ent s n).
    + destruct (_ || _); [intros E; inversion E; auto|auto].
    + auto.
  - auto.
Qed.

Lemma lookup_in s pk p k key e : lookup ids repaired s pk p k key = Ok (Some e) -> In e (children s p k).
Proof.
  unfold lookup. intros E.
  assert (Nm : Ok (lookup_named ids pk (children s p k) key) = Ok (Some e) -> In e (children s p k)).
  { intros E'. inversion E' as [E'']. eapply lookup_named_in; eauto. }
  destruct k; auto.
  unfold lookup_feature in E. destruct (find_link ids (children s p KFeature) key) eqn:F.
  - inversion E; subst. apply find_link_in in F. tauto.
  - eapply feature_scan_in; eauto.
Qed.

Lemma lookup_h_in s pk p k x d e : lookup_h ids repaired s pk p k x d = Ok (Some e) -> In e (children s p k).
Proof.
  unfold lookup_h. destruct pk as [[]|]; try apply lookup_in.
  destruct (d && kind_eqb k KSource); intros E; inversion E as [E'].
  - eapply block_find_key_in; eauto.
  - eapply block_find_in; eauto.
Qed.

Lemma do_delete_found_sound s r s' v : do_delete_found s r = (s', Ok v) ->
  (s' = s /\ v = VBool false /\ r = Ok None) \/ exists e, r = Ok (Some e) /\ s' = remove_subtree s (e_oid e) /\ v = VBool true.
Proof.
  unfold do_delete_found. destruct r as [[e|]| |]; unfold ret, fail; intros E; inversion E; subst; eauto.
Qed.

Theorem delete_step_sound s p k key s' v : stepR s (ODelete p k key) = (s', Ok v) ->
  (s' = s /\ v = VBool false) \/ exists e, In e (children s p k) /\ s' = remove_subtree s (e_oid e) /\ v = VBool true.
Proof.
  cbn [step]. unfold with_container. destruct (parent_kind s p) as [pk|]; [|discriminate].
  destruct (container_ok pk k); [|discriminate]. intros E. apply do_delete_found_sound in E.
  destruct E as [[E1 [E2 _]]|[e [L [E1 E2]]]]; auto. right. exists e. split; auto. eapply lookup_in; eauto.
Qed.

Theorem delete_handle_step_sound s p k a s' v : stepR s (ODeleteH p k a) = (s', Ok v) ->
  (s' = s /\ v = VBool false) \/ exists e, In e (children s p k) /\ s' = remove_subtree s (e_oid e) /\ v = VBool true.
Proof.
  cbn [step]. unfold with_container. destruct (parent_kind s p) as [pk|]; [|discriminate].
  destruct (container_ok pk k); [|discriminate]. destruct (hent s a) as [x|].
  - intros E. apply do_delete_found_sound in E.
    destruct E as [[E1 [E2 _]]|[e [L [E1 E2]]]]; auto. right. exists e. split; auto. eapply lookup_h_in; eauto.
  - unfold ret. intros E. inversion E; subst. auto.
Qed.

(** ** all of it in every reachable state *)
Notation reachable := (reachable ids N sanitize unit_ok).

Theorem reachable_no_dangling s : reachable s -> no_dangling s.
Proof. intros R. apply inv_no_dangling. eapply inv_reachable; eauto. Qed.

Theorem reachable_tree_closed s e p : reachable s -> In e (ents s) -> e_parent e = Some p -> alive s p = true.
Proof. intros R. apply tree_closed. eapply inv_reachable; eauto. Qed.

Theorem reachable_delete_no_dangling s x : reachable s -> forall e t, In e (ents (remove_subtree s x)) -> In t (targets (e_links e)) ->
  ~ In t (subtree s x) /\ alive (remove_subtree s x) t = true.
Proof. intros R. apply delete_no_dangling. eapply inv_reachable; eauto. Qed.

Theorem reachable_delete_subtree s x o : reachable s -> desc s x o -> alive (remove_subtree s x) o = false.
Proof. intros R. apply delete_subtree. eapply inv_reachable; eauto. Qed.

End Delete.
