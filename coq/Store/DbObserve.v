(** * Store/DbObserve.v — the canonical observation of a file

    [observe s] is everything the public getters expose, as a list of structured lines: one for the file
    root and one per entity, in creation order.  A line names the entity (by oid; the drivers print the
    creation ordinal of the script instead), its parent, its attributes, the ORDER of each of its child
    containers and link containers, and every single link by target.  Two files with equal observations
    cannot be told apart through the calls modelled in DbOps.v.  Timestamps are not part of it.

    The text form (printed identically by ocaml/hist_common.ml and harness/hist_common.hpp):
      F B=[..] S=[..]
      <K><ord> p=<F|ord> <label>=<value> ...         K in B S P A D T M G R X
    values: strings s:<hex> or -, references <ord> or -, lists [a b c]. *)
From Coq Require Import List ZArith Bool String.
Require Import NixV.Base.Prelude NixV.Store.Db.
Import ListNotations.

Inductive field :=
| FStr  (label : string) (v : option string)
| FRef  (label : string) (v : option nat)
| FRefs (label : string) (v : list nat)
| FStrs (label : string) (v : option (list string))
| FRaws (label : string) (v : option (list string))     (* printed verbatim (tokens of doubles) *)
| FZs   (label : string) (v : list Z)
| FDt   (label : string) (v : dtype)
| FCols (label : string) (v : list column)
| FDims (label : string) (v : list dimd).               (* set | range | sampled | alias | frame:<ord or -> *)

(** [ln_id_ok]: the entity's id is the one it was created with (false only after a re-identification) *)
Record line := mkLine { ln_oid : nat; ln_kind : kind; ln_parent : option nat; ln_id_ok : bool; ln_fields : list field }.

(** an empty extent / unit list reads back like an absent one *)
Definition norm_empty {A} (o : option (list A)) : option (list A) := match o with Some [] => None | x => x end.

Definition kids (s : db) (o : nat) (k : kind) : list nat := map e_oid (children s (Some o) k).

Definition fields_of (s : db) (e : ent) : list field :=
  let o := e_oid e in
  let l := e_links e in
  let p := e_pay e in
  let named := [FStr "n" (Some (e_name e)); FStr "t" (Some (e_type e)); FStr "d" (e_def e)] in
  let tail := [FRef "meta" (l_meta l); FRefs "src" (l_srcs l)] in
  match e_kind e with
  | KBlock => named ++ [FRef "meta" (l_meta l); FRefs "A" (kids s o KArray); FRefs "D" (kids s o KFrame);
                        FRefs "T" (kids s o KTag); FRefs "M" (kids s o KMTag); FRefs "G" (kids s o KGroup);
                        FRefs "R" (kids s o KSource)]
  | KSection => named ++ [FRef "link" (l_link l); FRefs "S" (kids s o KSection); FRefs "P" (kids s o KProperty)]
  | KProperty => [FStr "n" (Some (e_name e)); FStr "d" (e_def e); FDt "dt" (p_dtype p); FZs "cnt" (p_extent p)]
  | KArray => named ++ [FDt "dt" (p_dtype p); FZs "ext" (p_extent p); FDims "dims" (l_dims l)] ++ tail
  | KFrame => named ++ [FCols "cols" (p_cols p); FZs "rows" (p_extent p)] ++ tail
  | KTag => named ++ [FRaws "pos" (Some (p_tpos p)); FRaws "ext" (norm_empty (p_text p)); FStrs "units" (norm_empty (p_units p));
                      FRefs "refs" (l_refs l); FRefs "X" (kids s o KFeature)] ++ tail
  | KMTag => named ++ [FRef "pos" (l_pos l); FRef "ext" (l_ext l); FStrs "units" (norm_empty (p_units p));
                       FRefs "refs" (l_refs l); FRefs "X" (kids s o KFeature)] ++ tail
  | KGroup => named ++ [FRefs "ga" (l_garr l); FRefs "gd" (l_gfrm l); FRefs "gt" (l_gtag l); FRefs "gm" (l_gmtg l)] ++ tail
  | KSource => named ++ [FRef "meta" (l_meta l); FRefs "R" (kids s o KSource)]
  | KFeature => [FStr "lt" (Some (p_ltype p)); FRef "data" (l_data l)]
  end.

Definition line_of (s : db) (e : ent) : line :=
  mkLine (e_oid e) (e_kind e) (e_parent e) (Nat.eqb (e_idx e) (e_oid e)) (fields_of s e).

(** the file root: its two containers *)
Definition root_fields (s : db) : list field :=
  [FRefs "B" (map e_oid (children s None KBlock)); FRefs "S" (map e_oid (children s None KSection))].

Definition observe (s : db) : list field * list line := (root_fields s, map (line_of s) (ents s)).
