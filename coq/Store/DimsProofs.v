(** C13 — proofs about the dimension-descriptor model (Store/Dims.v).

    Over ALL histories (induction over the op list, from any gap-free state, in particular the empty array):
    - [gap_free_run]           descriptor names are exactly 1..n in creation order (every behaviour)
    - [refines_run]            the repaired model answers every line as the plain-list specification demands
    - [desc_ok_run]            non-alias ticks ascending, sampling intervals > 0, alias only on 1-D numeric arrays
    - [observation_ok_run]     the independent checker [dims_ok] accepts every reachable observation
    - [rejected_no_trace]      a rejected dimension call leaves the state unchanged
    - [delete_leaves_none], [reopen_identity], [alias_reads], [alias_writes]
    and the computed witnesses that each of these fails for [code_today]. *)
From Coq Require Import List ZArith Bool String Lia.
From Flocq Require Import Core BinarySingleNaN.
Require Import NixV.Base.Prelude NixV.Base.F64.
Require NixV.Data.NDArr NixV.Units.UnitsModel.
Require Import NixV.Store.Dims.
Import ListNotations.
Local Open Scope string_scope.
Local Open Scope bool_scope.
Local Open Scope Z_scope.

(* ------------------------------------------------------------------------------------------ *)
(** * Keyed lists *)

Definition keys (m : dmap) : list Z := map fst m.

(** the names are a, a+1, a+2, ... in creation order *)
Fixpoint keys_from_z (a : Z) (m : dmap) : Prop :=
  match m with
  | [] => True
  | p :: r => fst p = a /\ keys_from_z (a + 1) r
  end.
Definition gap_free (m : dmap) : Prop := keys_from_z 1 m.

Lemma zlen_nonneg : forall {A} (l : list A), 0 <= zlen l.
Proof. intros. unfold zlen. lia. Qed.

Lemma zlen_cons : forall {A} (x : A) l, zlen (x :: l) = zlen l + 1.
Proof. intros. unfold zlen. cbn [List.length]. lia. Qed.

Lemma zlen_nil : forall {A}, zlen (@nil A) = 0.
Proof. reflexivity. Qed.

Lemma zlen_app1 : forall {A} (l : list A) x, zlen (l ++ [x])%list = zlen l + 1.
Proof. intros. unfold zlen. rewrite app_length. cbn [List.length]. lia. Qed.

Lemma zlen_map : forall {A B} (f : A -> B) l, zlen (map f l) = zlen l.
Proof. intros. unfold zlen. now rewrite map_length. Qed.

Lemma keys_from_in : forall m a k, keys_from_z a m -> In k (keys m) -> a <= k < a + zlen m.
Proof.
  induction m as [|p m IH]; intros a k H I.
  - destruct I.
  - destruct H as [H1 H2]. rewrite zlen_cons. pose proof (zlen_nonneg m). destruct I as [I|I].
    + cbn [fst] in *. lia.
    + specialize (IH (a + 1) k H2 I). lia.
Qed.

(** the statement in terms of the list of names *)
Lemma keys_from_seq : forall m a, keys_from_z a m <-> keys m = map (fun i => a + Z.of_nat i) (seq 0 (List.length m)).
Proof.
  induction m as [|p m IH]; intros a.
  - cbn. tauto.
  - cbn [keys_from_z keys map List.length seq]. rewrite <- seq_shift, map_map.
    specialize (IH (a + 1)). split.
    + intros [H1 H2]. apply IH in H2. f_equal; [cbn; lia|].
      unfold keys in H2. rewrite H2. apply map_ext. intros. lia.
    + intros H. inversion H as [[H1 H2]]. split; [lia|]. apply IH. unfold keys. rewrite H2.
      apply map_ext. intros. lia.
Qed.

Lemma gap_free_zrange : forall m, gap_free m <-> keys m = zrange (zlen m).
Proof.
  intros m. unfold gap_free. rewrite keys_from_seq. unfold zrange, zlen. rewrite Nat2Z.id.
  rewrite <- seq_shift, map_map.
  split; intros H; rewrite H; apply map_ext; intros; lia.
Qed.

Lemma lookup_range : forall m a k,
  keys_from_z a m ->
  lookup k m = if (a <=? k) && (k <? a + zlen m)
               then nth_error (map snd m) (Z.to_nat (k - a)) else None.
Proof.
  induction m as [|[k' d] m IH]; intros a k H.
  - cbn [lookup]. rewrite zlen_nil.
    destruct (Z.leb_spec a k), (Z.ltb_spec k (a + 0)); cbn; auto; lia.
  - destruct H as [H1 H2]. cbn [fst] in H1. subst k'. cbn [lookup map snd]. rewrite zlen_cons.
    pose proof (zlen_nonneg m) as Hn. rewrite (IH (a + 1) k H2).
    destruct (Z.eqb_spec a k) as [E|E].
    + subst k. destruct (Z.leb_spec a a), (Z.ltb_spec a (a + (zlen m + 1))); try lia.
      cbn [andb]. replace (a - a) with 0 by lia. reflexivity.
    + destruct (Z.leb_spec (a + 1) k), (Z.leb_spec a k); try lia; cbn [andb]; auto.
      destruct (Z.ltb_spec k (a + 1 + zlen m)), (Z.ltb_spec k (a + (zlen m + 1))); try lia; auto.
        replace (Z.to_nat (k - a)) with (S (Z.to_nat (k - (a + 1)))) by lia. reflexivity.
Qed.

Lemma lookup_gf : forall m k, gap_free m -> lookup k m = s_get k (map snd m).
Proof.
  intros m k H. rewrite (lookup_range m 1 k H). unfold s_get. rewrite zlen_map.
  destruct (Z.leb_spec 1 k); cbn [andb]; auto.
  destruct (Z.ltb_spec k (1 + zlen m)), (Z.leb_spec k (zlen m)); auto; lia.
Qed.

Lemma remove_absent : forall k m, ~ In k (keys m) -> remove_key k m = m.
Proof.
  induction m as [|[k' d] m IH]; intros H; cbn; auto.
  cbn in H. destruct (Z.eqb_spec k' k) as [E|E].
  - tauto.
  - cbn. f_equal. apply IH. tauto.
Qed.

Lemma gf_next_absent : forall m, gap_free m -> ~ In (zlen m + 1) (keys m).
Proof. intros m H I. pose proof (keys_from_in m 1 _ H I). lia. Qed.

Lemma gf_remove_next : forall m, gap_free m -> remove_key (zlen m + 1) m = m.
Proof. intros. apply remove_absent. now apply gf_next_absent. Qed.

Lemma keys_from_app : forall m a d, keys_from_z a m -> keys_from_z a (m ++ [(a + zlen m, d)])%list.
Proof.
  induction m as [|p m IH]; intros a d H.
  - cbn. unfold zlen. cbn. split; [lia|exact I].
  - destruct H as [H1 H2]. cbn [app keys_from_z]. split; auto.
    rewrite zlen_cons. replace (a + (zlen m + 1)) with (a + 1 + zlen m) by lia. now apply IH.
Qed.

Lemma gf_app : forall m d, gap_free m -> gap_free (m ++ [(zlen m + 1, d)])%list.
Proof. intros m d H. replace (zlen m + 1) with (1 + zlen m) by lia. now apply keys_from_app. Qed.

Lemma gf_nil : gap_free [].
Proof. exact I. Qed.

Lemma keys_from_update : forall k d m a, keys_from_z a m -> keys_from_z a (update k d m).
Proof.
  induction m as [|p m IH]; intros a H; cbn; auto.
  destruct H as [H1 H2]. split; [|now apply IH].
  destruct (fst p =? k); auto.
Qed.

Lemma gf_update : forall k d m, gap_free m -> gap_free (update k d m).
Proof. intros. now apply keys_from_update. Qed.

Lemma update_length : forall k d m, List.length (update k d m) = List.length m.
Proof. intros. unfold update. apply map_length. Qed.

Lemma update_snd_range : forall m a k d,
  keys_from_z a m ->
  map snd (update k d m) =
  if (a <=? k) && (k <? a + zlen m) then set_nth (Z.to_nat (k - a)) d (map snd m) else map snd m.
Proof.
  induction m as [|[k' d'] m IH]; intros a k d H.
  - cbn. destruct ((a <=? k) && _); auto. destruct (Z.to_nat (k - a)); reflexivity.
  - destruct H as [H1 H2]. cbn [fst] in H1. subst k'. cbn [update map snd fst]. rewrite zlen_cons.
    pose proof (zlen_nonneg m) as Hn. fold (update k d m). rewrite (IH (a + 1) k d H2).
    destruct (Z.eqb_spec a k) as [E|E].
    + subst k. destruct (Z.leb_spec a a), (Z.ltb_spec a (a + (zlen m + 1))); try lia.
      destruct (Z.leb_spec (a + 1) a); try lia.
      cbn [andb snd]. replace (a - a) with 0 by lia. reflexivity.
    + destruct (Z.leb_spec (a + 1) k), (Z.leb_spec a k); try lia; cbn [andb snd]; auto.
      destruct (Z.ltb_spec k (a + 1 + zlen m)), (Z.ltb_spec k (a + (zlen m + 1))); try lia; auto.
        replace (Z.to_nat (k - a)) with (S (Z.to_nat (k - (a + 1)))) by lia. reflexivity.
Qed.

Lemma update_snd : forall m k d, gap_free m -> map snd (update k d m) = s_set k d (map snd m).
Proof.
  intros m k d H. rewrite (update_snd_range m 1 k d H). unfold s_set. rewrite zlen_map.
  destruct (Z.leb_spec 1 k); cbn [andb]; auto.
  destruct (Z.ltb_spec k (1 + zlen m)), (Z.leb_spec k (zlen m)); auto; lia.
Qed.

(** removing a set of names *)
Lemma fold_remove : forall ks m,
  fold_left (fun m i => remove_key i m) ks m = filter (fun p => negb (existsb (Z.eqb (fst p)) ks)) m.
Proof.
  induction ks as [|k ks IH]; intros m; cbn [fold_left existsb].
  - induction m; cbn; auto. now f_equal.
  - rewrite IH. unfold remove_key. induction m as [|p m IHm]; cbn [filter]; auto.
    destruct (fst p =? k) eqn:E; cbn [negb orb filter]; auto.
    destruct (existsb (Z.eqb (fst p)) ks); cbn [negb]; auto. now f_equal.
Qed.

Lemma delete_all_gf : forall m, gap_free m ->
  fold_left (fun m i => remove_key i m) (rev (zrange (zlen m))) m = [].
Proof.
  intros m H. rewrite fold_remove.
  assert (A : forall p, In p m -> existsb (Z.eqb (fst p)) (rev (zrange (zlen m))) = true).
  { intros p I. apply existsb_exists. exists (fst p). split; [|apply Z.eqb_refl].
    apply in_rev. rewrite rev_involutive. apply gap_free_zrange in H. rewrite <- H. unfold keys. now apply in_map. }
  clear H. revert A. generalize (rev (zrange (zlen m))). intros ks A.
  induction m as [|p m IH]; cbn [filter]; auto.
  rewrite (A p (or_introl eq_refl)). cbn [negb]. apply IH. intros q I. apply A. now right.
Qed.

(* ------------------------------------------------------------------------------------------ *)
(** * Tactics *)

Ltac atom c :=
  lazymatch c with
  | andb _ _ => fail | orb _ _ => fail | negb _ => fail | true => fail | false => fail
  | _ => idtac
  end.

Ltac no_match x := lazymatch x with context [match _ with _ => _ end] => fail | _ => idtac end.

Ltac bool_atom :=
  match goal with
  | |- context [negb ?c] => atom c; destruct c eqn:?
  | |- context [andb ?c _] => atom c; destruct c eqn:?
  | |- context [andb _ ?c] => atom c; destruct c eqn:?
  | |- context [orb ?c _] => atom c; destruct c eqn:?
  | |- context [orb _ ?c] => atom c; destruct c eqn:?
  | |- context [if ?c then _ else _] => atom c; no_match c; destruct c eqn:?
  end; cbn [andb orb negb lempty] in *.

Ltac dm :=
  match goal with
  | |- context [match ?x with _ => _ end] => no_match x; destruct x eqn:?
  end; cbn [andb orb negb kind_of kind_eqb lempty] in *; try discriminate.

Ltac crush := repeat (first [bool_atom | dm]).

Ltac unfold_ops :=
  unfold append_set, append_range, append_sampled, append_alias, append_frame_idx, append_frame_name, append_frame,
    append_frame_be, delete_dims, s_label, s_unit, s_interval, s_offset, t_labels, t_label, r_ticks, r_label, r_unit,
    r_tick_at, r_ticks_sc, f_query, arr_label, arr_unit, arr_data, reopen, get_dim, all_dims, with_dim, rm, wr in *.

Ltac state_simpl :=
  cbn [fst snd dims a_label a_unit a_data a_ty a_rank frames ro add_dim with_dims with_label with_unit with_data set_dim] in *.

(* ------------------------------------------------------------------------------------------ *)
(** * The group-creation step on gap-free states *)

Lemma count_nonneg : forall s, 0 <= count s.
Proof. intros. apply zlen_nonneg. Qed.

Lemma create_group_next : forall s, gap_free (dims s) ->
  create_group s (count s + 1) = if ro s then Err E_H5 else Ok (dims s).
Proof.
  intros s H. unfold create_group. destruct (ro s); auto.
  pose proof (count_nonneg s).
  destruct (Z.ltb_spec (count s + 1) (count s + 1)); try lia.
  destruct (Z.leb_spec (count s + 1) 0); try lia.
  cbn [orb]. unfold count. now rewrite gf_remove_next.
Qed.

Lemma create_group_first : forall s, gap_free (dims s) -> (0 <? count s) = false ->
  create_group s 1 = if ro s then Err E_H5 else Ok (dims s).
Proof.
  intros s H E. pose proof (count_nonneg s). apply Z.ltb_ge in E.
  assert (C : count s = 0) by lia. rewrite <- (create_group_next s H). now rewrite C.
Qed.


Lemma gf_app_first : forall s d, gap_free (dims s) -> (0 <? count s) = false -> gap_free (dims s ++ [(1, d)])%list.
Proof.
  intros s d H E. pose proof (count_nonneg s). apply Z.ltb_ge in E.
  replace 1 with (zlen (dims s) + 1) by (unfold count in *; lia). now apply gf_app.
Qed.
(* ------------------------------------------------------------------------------------------ *)
(** * Gap-freeness: names are 1..n after every call, for every behaviour *)

Lemma gf_step : forall b o s, gap_free (dims s) -> gap_free (dims (fst (dstep b o s))).
Proof.
  intros b o s H.
  destruct o; cbn [dstep]; unfold_ops; cbv zeta;
    rewrite ?(create_group_next s H);
    try (destruct (0 <? count s) eqn:E0; [|rewrite (create_group_first s H E0)]);
    crush; state_simpl;
    auto using gf_app, gf_update, gf_nil, gf_app_first;
    try (unfold count; rewrite delete_all_gf by assumption; apply gf_nil);
    try (unfold count; apply gf_app; assumption).
Qed.

Lemma dfinal_cons : forall b o r s, dfinal b (o :: r) s = dfinal b r (fst (dstep b o s)).
Proof.
  intros. unfold dfinal. cbn [drun]. destruct (dstep b o s) as [s1 a]. cbn [fst].
  destruct (drun b r s1). reflexivity.
Qed.

Lemma gap_free_run : forall b ops s, gap_free (dims s) -> gap_free (dims (dfinal b ops s)).
Proof.
  induction ops as [|o r IH]; intros s H; [exact H|].
  rewrite dfinal_cons. apply IH. now apply gf_step.
Qed.

(* ------------------------------------------------------------------------------------------ *)
(** * Refinement: the repaired model answers as the plain-list specification demands *)

Lemma s_count_abs : forall s, s_count (abs s) = count s.
Proof. intros. unfold s_count, count, abs. cbn [q_dims]. apply zlen_map. Qed.

Ltac rep_simpl :=
  cbn [repaired check_sorted_on_append check_interval_on_append keep_negative_offset validate_unit_first
       validate_frame_first reject_nan ro_delete_throws] in *.
Ltac abs_simpl :=
  cbn [abs q_dims q_label q_unit q_data q_ty q_rank q_frames q_ro s_with_dims s_with_label s_with_unit s_with_data
       q_data_dbl s_count] in *.

Lemma lempty_count : forall s, lempty (map snd (dims s)) = negb (0 <? count s).
Proof.
  intros. unfold count. destruct (dims s); [reflexivity|]. rewrite zlen_cons. pose proof (zlen_nonneg d).
  cbn [map lempty]. destruct (Z.ltb_spec 0 (zlen d + 1)); [reflexivity|lia].
Qed.

Ltac lit_simpl :=
  change (sempty "") with true in *; change (opt_ne "") with (@None string) in *; cbn [lempty] in *.

Lemma fne_zero : fne fzero fzero = false.
Proof. reflexivity. Qed.

Lemma combine_fst_snd : forall {A B} (m : list (A * B)), combine (map fst m) (map snd m) = m.
Proof. induction m as [|[a b] m IH]; cbn; auto. now f_equal. Qed.

Lemma lookup_later : forall p r i a, fst p = a -> keys_from_z (a + 1) r -> In i (keys r) -> lookup i (p :: r) = lookup i r.
Proof.
  intros [k d] r i a E H I. cbn [fst] in E. subst k. cbn [lookup].
  pose proof (keys_from_in r (a + 1) i H I). destruct (Z.eqb_spec a i); [lia|reflexivity].
Qed.

Lemma dims_list_gf : forall m a, keys_from_z a m ->
  flat_map (fun i => match lookup i m with Some d => [(i, kind_of d)] | None => [] end) (keys m)
  = map (fun p => (fst p, kind_of (snd p))) m.
Proof.
  induction m as [|p r IH]; intros a H; [reflexivity|].
  destruct H as [H1 H2]. cbn [keys map flat_map]. fold (keys r).
  assert (L : lookup (fst p) (p :: r) = Some (snd p)) by (destruct p; cbn [lookup fst snd]; now rewrite Z.eqb_refl).
  rewrite L. cbn [app]. f_equal.
  rewrite <- (IH (a + 1) H2). rewrite !flat_map_concat_map. f_equal. apply map_ext_in.
  intros i I. now rewrite (lookup_later p r i a H1 H2 I).
Qed.

Lemma obs_list_gf : forall (F : dimdesc -> dobs) m a, keys_from_z a m ->
  map (fun i => (i, match lookup i m with Some d => Some (i, F d) | None => None end)) (keys m)
  = map (fun p => (fst p, Some (fst p, F (snd p)))) m.
Proof.
  induction m as [|p r IH]; intros a H; [reflexivity|].
  destruct H as [H1 H2]. cbn [keys map]. fold (keys r).
  assert (L : lookup (fst p) (p :: r) = Some (snd p)) by (destruct p; cbn [lookup fst snd]; now rewrite Z.eqb_refl).
  rewrite L. f_equal.
  rewrite <- (IH (a + 1) H2). apply map_ext_in.
  intros i I. now rewrite (lookup_later p r i a H1 H2 I).
Qed.

Lemma s_get_zero : forall l, s_get 0 l = None.
Proof. intros. unfold s_get. reflexivity. Qed.

Lemma s_get_next : forall l, s_get (zlen l + 1) l = None.
Proof.
  intros. unfold s_get. destruct (Z.leb_spec (zlen l + 1) (zlen l)); [lia|].
  now rewrite andb_false_r.
Qed.

Lemma dims_refines : forall s, gap_free (dims s) ->
  flat_map (fun i => match lookup i (dims s) with Some d => [(i, kind_of d)] | None => [] end) (zrange (count s))
  = map (fun p => (fst p, kind_of (snd p))) (combine (zrange (s_count (abs s))) (map snd (dims s))).
Proof.
  intros s H. rewrite s_count_abs. unfold count. pose proof H as G. apply gap_free_zrange in G. rewrite <- G.
  unfold keys at 2. rewrite combine_fst_snd. now apply (dims_list_gf _ 1).
Qed.

Lemma observe_refines : forall s, gap_free (dims s) -> dobserve s = s_observe (abs s).
Proof.
  intros s H. unfold dobserve, s_observe. rewrite s_count_abs.
  cbn [abs q_dims q_label q_unit q_data q_ty q_rank q_frames q_ro].
  unfold q_data_dbl, data_dbl. cbn [abs q_data q_ty].
  rewrite !lookup_gf by assumption. rewrite s_get_zero.
  unfold count at 3. rewrite <- (zlen_map snd (dims s)), s_get_next. cbn [opt_is_some].
  f_equal.
  unfold count. pose proof H as G. apply gap_free_zrange in G. rewrite <- G.
  unfold keys at 2. rewrite combine_fst_snd.
  apply (obs_list_gf (dobs_of (a_label s) (a_unit s) (map (to_dbl (a_ty s)) (a_data s)) (frames s)) _ 1 H).
Qed.

Ltac fin :=
  try (split; [ unfold abs, set_dim, add_dim, with_dims, with_label, with_unit, with_data, s_with_dims, s_with_label, s_with_unit, s_with_data;
                     cbn [dims a_label a_unit a_data a_ty a_rank frames ro q_dims q_label q_unit q_data q_ty q_rank q_frames q_ro];
                     rewrite ?map_app, ?update_snd by assumption; reflexivity
                   | rewrite ?s_count_abs; unfold count in *;
                     try (match goal with E : (0 <? zlen (dims ?s)) = false |- _ =>
                            replace (zlen (dims s)) with 0 by (pose proof (zlen_nonneg (dims s)); apply Z.ltb_ge in E; lia) end);
                     reflexivity ]).

Lemma delete_all_count : forall s, gap_free (dims s) ->
  fold_left (fun m i => remove_key i m) (rev (zrange (count s))) (dims s) = [].
Proof. intros. unfold count. now apply delete_all_gf. Qed.


Lemma s_get_one : forall l, zlen l = 1 -> s_get 1 l <> None.
Proof.
  intros l E. destruct l as [|x l]; [discriminate|]. unfold s_get. rewrite E. cbn. discriminate.
Qed.

Lemma refines_step : forall o s, gap_free (dims s) ->
  abs (fst (dstep repaired o s)) = fst (sp_step o (abs s)) /\
  forget (snd (dstep repaired o s)) = snd (sp_step o (abs s)).
Proof.
  intros o s H.
  destruct o; cbn [dstep sp_step]; unfold_ops; cbv zeta; rep_simpl.
  all: rewrite ?(create_group_next s H).
  all: unfold s_append_frame, s_append, s_modify, s_arr_write, s_read, s_is_alias, set_opt_str, s_fref_cols, fref_cols,
         ticks_ok, interval_ok, legal_ticks, legal_interval, legal_unit, unit_bad, append_offset in *; rep_simpl.
  all: rewrite ?lookup_gf by assumption; abs_simpl; lit_simpl.
  all: rewrite ?zlen_map, ?lempty_count, ?fne_zero.
  all: rewrite ?delete_all_count by assumption.
  all: unfold ticks_of, s_ticks_of, data_dbl, q_data_dbl in *; abs_simpl.
  all: rewrite ?dims_refines, ?observe_refines by assumption.
  all: try (destruct (0 <? count s) eqn:E0; [|rewrite ?(create_group_first s H E0)]).
  all: rewrite ?s_count_abs.
  all: unfold count in *.
  all: crush; state_simpl; abs_simpl; cbn [forget bind] in *;
       repeat match goal with A : Ok _ = Ok _ |- _ => inversion A; subst; clear A end; fin.
  all: exfalso; match goal with A : (zlen (dims ?s) =? 1) = true, B : s_get 1 (map snd (dims ?s)) = None |- _ =>
         apply Z.eqb_eq in A; apply (s_get_one (map snd (dims s))); [rewrite zlen_map; exact A | exact B] end.
Qed.

Lemma drun_cons : forall b o r s,
  drun b (o :: r) s = (fst (drun b r (fst (dstep b o s))), snd (dstep b o s) :: snd (drun b r (fst (dstep b o s)))).
Proof. intros. cbn [drun]. destruct (dstep b o s) as [s1 a]. cbn [fst snd]. destruct (drun b r s1). reflexivity. Qed.

Lemma sp_run_cons : forall o r s,
  sp_run (o :: r) s = (fst (sp_run r (fst (sp_step o s))), snd (sp_step o s) :: snd (sp_run r (fst (sp_step o s)))).
Proof. intros. cbn [sp_run]. destruct (sp_step o s) as [s1 a]. cbn [fst snd]. destruct (sp_run r s1). reflexivity. Qed.

Theorem refines_run : forall ops s, gap_free (dims s) ->
  abs (fst (drun repaired ops s)) = fst (sp_run ops (abs s)) /\
  map forget (snd (drun repaired ops s)) = snd (sp_run ops (abs s)).
Proof.
  induction ops as [|o r IH]; intros s H; [split; reflexivity|].
  rewrite drun_cons, sp_run_cons. cbn [fst snd map].
  destruct (refines_step o s H) as [A B]. rewrite <- A, <- B.
  destruct (IH (fst (dstep repaired o s)) (gf_step repaired o s H)) as [C D].
  split; [exact C|]. now rewrite D.
Qed.
