(** C13 — proofs about the dimension-descriptor model (Store/Dims.v).

    Over ALL histories (induction over the op list, from any gap-free state, in particular the empty array):
    - [gap_free_run]           descriptor names are exactly 1..n in creation order (every behaviour)
    - [refines_run]            the repaired model answers every line as the plain-list specification demands
    - [desc_ok_run]            non-alias ticks ascending, sampling intervals > 0, alias only on 1-D numeric arrays
    - [observation_ok_run]     the independent checker [dims_ok] accepts every reachable observation
    - [rejected_no_trace]      a rejected dimension call leaves the state unchanged
    - [delete_leaves_none], [reopen_identity], [alias_reads], [alias_writes]
    and the computed witnesses that each of these fails for [code_today]. *)
From Coq Require Import List ZArith Bool String Lia.
From Flocq Require Import Core BinarySingleNaN.
Require Import NixV.Base.Prelude NixV.Base.F64.
Require NixV.Data.NDArr NixV.Units.UnitsModel.
Require Import NixV.Store.Dims.
Import ListNotations.
Local Open Scope string_scope.
Local Open Scope bool_scope.
Local Open Scope Z_scope.

(* ------------------------------------------------------------------------------------------ *)
(** * Keyed lists *)

Definition keys (m : dmap) : list Z := map fst m.

(** the names are a, a+1, a+2, ... in creation order *)
Fixpoint keys_from_z (a : Z) (m : dmap) : Prop :=
  match m with
  | [] => True
  | p :: r => fst p = a /\ keys_from_z (a + 1) r
  end.
Definition gap_free (m : dmap) : Prop := keys_from_z 1 m.

Lemma zlen_nonneg : forall {A} (l : list A), 0 <= zlen l.
Proof. intros. unfold zlen. lia. Qed.

Lemma zlen_cons : forall {A} (x : A) l, zlen (x :: l) = zlen l + 1.
Proof. intros. unfold zlen. cbn [List.length]. lia. Qed.

Lemma zlen_nil : forall {A}, zlen (@nil A) = 0.
Proof. reflexivity. Qed.

Lemma zlen_app1 : forall {A} (l : list A) x, zlen (l ++ [x])%list = zlen l + 1.
Proof. intros. unfold zlen. rewrite app_length. cbn [List.length]. lia. Qed.

Lemma zlen_map : forall {A B} (f : A -> B) l, zlen (map f l) = zlen l.
Proof. intros. unfold zlen. now rewrite map_length. Qed.

Lemma keys_from_in : forall m a k, keys_from_z a m -> In k (keys m) -> a <= k < a + zlen m.
Proof.
  induction m as [|p m IH]; intros a k H I.
  - destruct I.
  - destruct H as [H1 H2]. rewrite zlen_cons. pose proof (zlen_nonneg m). destruct I as [I|I].
    + cbn [fst] in *. lia.
    + specialize (IH (a + 1) k H2 I). lia.
Qed.

(** the statement in terms of the list of names *)
Lemma keys_from_seq : forall m a, keys_from_z a m <-> keys m = map (fun i => a + Z.of_nat i) (seq 0 (List.length m)).
Proof.
  induction m as [|p m IH]; intros a.
  - cbn. tauto.
  - cbn [keys_from_z keys map List.length seq]. rewrite <- seq_shift, map_map.
    specialize (IH (a + 1)). split.
    + intros [H1 H2]. apply IH in H2. f_equal; [cbn; lia|].
      unfold keys in H2. rewrite H2. apply map_ext. intros. lia.
    + intros H. inversion H as [[H1 H2]]. split; [lia|]. apply IH. unfold keys. rewrite H2.
      apply map_ext. intros. lia.
Qed.

Lemma gap_free_zrange : forall m, gap_free m <-> keys m = zrange (zlen m).
Proof.
  intros m. unfold gap_free. rewrite keys_from_seq. unfold zrange, zlen. rewrite Nat2Z.id.
  rewrite <- seq_shift, map_map.
  split; intros H; rewrite H; apply map_ext; intros; lia.
Qed.

Lemma lookup_range : forall m a k,
  keys_from_z a m ->
  lookup k m = if (a <=? k) && (k <? a + zlen m)
               then nth_error (map snd m) (Z.to_nat (k - a)) else None.
Proof.
  induction m as [|[k' d] m IH]; intros a k H.
  - cbn [lookup]. rewrite zlen_nil.
    destruct (Z.leb_spec a k), (Z.ltb_spec k (a + 0)); cbn; auto; lia.
  - destruct H as [H1 H2]. cbn [fst] in H1. subst k'. cbn [lookup map snd]. rewrite zlen_cons.
    pose proof (zlen_nonneg m) as Hn. rewrite (IH (a + 1) k H2).
    destruct (Z.eqb_spec a k) as [E|E].
    + subst k. destruct (Z.leb_spec a a), (Z.ltb_spec a (a + (zlen m + 1))); try lia.
      cbn [andb]. replace (a - a) with 0 by lia. reflexivity.
    + destruct (Z.leb_spec (a + 1) k), (Z.leb_spec a k); try lia; cbn [andb]; auto.
      destruct (Z.ltb_spec k (a + 1 + zlen m)), (Z.ltb_spec k (a + (zlen m + 1))); try lia; auto.
        replace (Z.to_nat (k - a)) with (S (Z.to_nat (k - (a + 1)))) by lia. reflexivity.
Qed.

Lemma lookup_gf : forall m k, gap_free m -> lookup k m = s_get k (map snd m).
Proof.
  intros m k H. rewrite (lookup_range m 1 k H). unfold s_get. rewrite zlen_map.
  destruct (Z.leb_spec 1 k); cbn [andb]; auto.
  destruct (Z.ltb_spec k (1 + zlen m)), (Z.leb_spec k (zlen m)); auto; lia.
Qed.

Lemma remove_absent : forall k m, ~ In k (keys m) -> remove_key k m = m.
Proof.
  induction m as [|[k' d] m IH]; intros H; cbn; auto.
  cbn in H. destruct (Z.eqb_spec k' k) as [E|E].
  - tauto.
  - cbn. f_equal. apply IH. tauto.
Qed.

Lemma gf_next_absent : forall m, gap_free m -> ~ In (zlen m + 1) (keys m).
Proof. intros m H I. pose proof (keys_from_in m 1 _ H I). lia. Qed.

Lemma gf_remove_next : forall m, gap_free m -> remove_key (zlen m + 1) m = m.
Proof. intros. apply remove_absent. now apply gf_next_absent. Qed.

Lemma keys_from_app : forall m a d, keys_from_z a m -> keys_from_z a (m ++ [(a + zlen m, d)])%list.
Proof.
  induction m as [|p m IH]; intros a d H.
  - cbn. unfold zlen. cbn. split; [lia|exact I].
  - destruct H as [H1 H2]. cbn [app keys_from_z]. split; auto.
    rewrite zlen_cons. replace (a + (zlen m + 1)) with (a + 1 + zlen m) by lia. now apply IH.
Qed.

Lemma gf_app : forall m d, gap_free m -> gap_free (m ++ [(zlen m + 1, d)])%list.
Proof. intros m d H. replace (zlen m + 1) with (1 + zlen m) by lia. now apply keys_from_app. Qed.

Lemma gf_nil : gap_free [].
Proof. exact I. Qed.

Lemma keys_from_update : forall k d m a, keys_from_z a m -> keys_from_z a (update k d m).
Proof.
  induction m as [|p m IH]; intros a H; cbn; auto.
  destruct H as [H1 H2]. split; [|now apply IH].
  destruct (fst p =? k); auto.
Qed.

Lemma gf_update : forall k d m, gap_free m -> gap_free (update k d m).
Proof. intros. now apply keys_from_update. Qed.

(** relinking descriptors (a deleted frame) keeps the names *)
Lemma keys_from_map_snd : forall (f : dimdesc -> dimdesc) m a,
  keys_from_z a m -> keys_from_z a (map (fun p => (fst p, f (snd p))) m).
Proof. induction m as [|p m IH]; intros a H; cbn; auto. destruct H as [H1 H2]. split; auto. Qed.

Lemma gf_map_snd : forall (f : dimdesc -> dimdesc) m, gap_free m -> gap_free (map (fun p => (fst p, f (snd p))) m).
Proof. intros. now apply keys_from_map_snd. Qed.

Lemma map_snd_map : forall (f : dimdesc -> dimdesc) (m : dmap),
  map snd (map (fun p => (fst p, f (snd p))) m) = map f (map snd m).
Proof. intros. rewrite !map_map. reflexivity. Qed.

Lemma update_length : forall k d m, List.length (update k d m) = List.length m.
Proof. intros. unfold update. apply map_length. Qed.

Lemma update_snd_range : forall m a k d,
  keys_from_z a m ->
  map snd (update k d m) =
  if (a <=? k) && (k <? a + zlen m) then set_nth (Z.to_nat (k - a)) d (map snd m) else map snd m.
Proof.
  induction m as [|[k' d'] m IH]; intros a k d H.
  - cbn. destruct ((a <=? k) && _); auto. destruct (Z.to_nat (k - a)); reflexivity.
  - destruct H as [H1 H2]. cbn [fst] in H1. subst k'. cbn [update map snd fst]. rewrite zlen_cons.
    pose proof (zlen_nonneg m) as Hn. fold (update k d m). rewrite (IH (a + 1) k d H2).
    destruct (Z.eqb_spec a k) as [E|E].
    + subst k. destruct (Z.leb_spec a a), (Z.ltb_spec a (a + (zlen m + 1))); try lia.
      destruct (Z.leb_spec (a + 1) a); try lia.
      cbn [andb snd]. replace (a - a) with 0 by lia. reflexivity.
    + destruct (Z.leb_spec (a + 1) k), (Z.leb_spec a k); try lia; cbn [andb snd]; auto.
      destruct (Z.ltb_spec k (a + 1 + zlen m)), (Z.ltb_spec k (a + (zlen m + 1))); try lia; auto.
        replace (Z.to_nat (k - a)) with (S (Z.to_nat (k - (a + 1)))) by lia. reflexivity.
Qed.

Lemma update_snd : forall m k d, gap_free m -> map snd (update k d m) = s_set k d (map snd m).
Proof.
  intros m k d H. rewrite (update_snd_range m 1 k d H). unfold s_set. rewrite zlen_map.
  destruct (Z.leb_spec 1 k); cbn [andb]; auto.
  destruct (Z.ltb_spec k (1 + zlen m)), (Z.leb_spec k (zlen m)); auto; lia.
Qed.

(** removing a set of names *)
Lemma fold_remove : forall ks m,
  fold_left (fun m i => remove_key i m) ks m = filter (fun p => negb (existsb (Z.eqb (fst p)) ks)) m.
Proof.
  induction ks as [|k ks IH]; intros m; cbn [fold_left existsb].
  - induction m; cbn; auto. now f_equal.
  - rewrite IH. unfold remove_key. induction m as [|p m IHm]; cbn [filter]; auto.
    destruct (fst p =? k) eqn:E; cbn [negb orb filter]; auto.
    destruct (existsb (Z.eqb (fst p)) ks); cbn [negb]; auto. now f_equal.
Qed.

Lemma delete_all_gf : forall m, gap_free m ->
  fold_left (fun m i => remove_key i m) (rev (zrange (zlen m))) m = [].
Proof.
  intros m H. rewrite fold_remove.
  assert (A : forall p, In p m -> existsb (Z.eqb (fst p)) (rev (zrange (zlen m))) = true).
  { intros p I. apply existsb_exists. exists (fst p). split; [|apply Z.eqb_refl].
    apply in_rev. rewrite rev_involutive. apply gap_free_zrange in H. rewrite <- H. unfold keys. now apply in_map. }
  clear H. revert A. generalize (rev (zrange (zlen m))). intros ks A.
  induction m as [|p m IH]; cbn [filter]; auto.
  rewrite (A p (or_introl eq_refl)). cbn [negb]. apply IH. intros q I. apply A. now right.
Qed.

(* ------------------------------------------------------------------------------------------ *)
(** * Tactics *)

Ltac atom c :=
  lazymatch c with
  | andb _ _ => fail | orb _ _ => fail | negb _ => fail | true => fail | false => fail
  | _ => idtac
  end.

Ltac no_match x := lazymatch x with context [match _ with _ => _ end] => fail | _ => idtac end.

Ltac bool_atom :=
  match goal with
  | |- context [negb ?c] => atom c; destruct c eqn:?
  | |- context [andb ?c _] => atom c; destruct c eqn:?
  | |- context [andb _ ?c] => atom c; destruct c eqn:?
  | |- context [orb ?c _] => atom c; destruct c eqn:?
  | |- context [orb _ ?c] => atom c; destruct c eqn:?
  | |- context [if ?c then _ else _] => atom c; no_match c; destruct c eqn:?
  end; cbn [andb orb negb lempty] in *.

Ltac dm :=
  match goal with
  | |- context [match ?x with _ => _ end] => no_match x; destruct x eqn:?
  end; cbn [andb orb negb kind_of kind_eqb lempty] in *; try discriminate.

Ltac crush := repeat (first [bool_atom | dm]).

Ltac unfold_ops :=
  unfold append_set, append_range, append_sampled, append_alias, append_frame_idx, append_frame_name, append_frame,
    append_frame_be, delete_dims, s_label, s_unit, s_interval, s_offset, t_labels, t_label, r_ticks, r_label, r_unit,
    r_tick_at, r_ticks_sc, f_query, s_at, f_ticks, range_of_array, dims_of_kind, arr_label, arr_unit, arr_data, reopen, drop_foreign, recreate_frame, get_dim, all_dims, with_dim, rm, wr in *.

Ltac state_simpl :=
  cbn [fst snd dims a_label a_unit a_data a_ty a_rank frames ro foreign b2_alive add_dim with_dims with_label with_unit with_data set_dim] in *.

(* ------------------------------------------------------------------------------------------ *)
(** * The group-creation step on gap-free states *)

Lemma count_nonneg : forall s, 0 <= count s.
Proof. intros. apply zlen_nonneg. Qed.

Lemma create_group_next : forall s, gap_free (dims s) ->
  create_group s (count s + 1) = if ro s then Err E_H5 else Ok (dims s).
Proof.
  intros s H. unfold create_group. destruct (ro s); auto.
  pose proof (count_nonneg s).
  destruct (Z.ltb_spec (count s + 1) (count s + 1)); try lia.
  destruct (Z.leb_spec (count s + 1) 0); try lia.
  cbn [orb]. unfold count. now rewrite gf_remove_next.
Qed.

Lemma create_group_first : forall s, gap_free (dims s) -> (0 <? count s) = false ->
  create_group s 1 = if ro s then Err E_H5 else Ok (dims s).
Proof.
  intros s H E. pose proof (count_nonneg s). apply Z.ltb_ge in E.
  assert (C : count s = 0) by lia. rewrite <- (create_group_next s H). now rewrite C.
Qed.


Lemma gf_app_first : forall s d, gap_free (dims s) -> (0 <? count s) = false -> gap_free (dims s ++ [(1, d)])%list.
Proof.
  intros s d H E. pose proof (count_nonneg s). apply Z.ltb_ge in E.
  replace 1 with (zlen (dims s) + 1) by (unfold count in *; lia). now apply gf_app.
Qed.
(* ------------------------------------------------------------------------------------------ *)
(** * Gap-freeness: names are 1..n after every call, for every behaviour *)

Lemma gf_step : forall b o s, gap_free (dims s) -> gap_free (dims (fst (dstep b o s))).
Proof.
  intros b o s H.
  destruct o; cbn [dstep]; unfold_ops; cbv zeta;
    rewrite ?(create_group_next s H);
    try (destruct (0 <? count s) eqn:E0; [|rewrite (create_group_first s H E0)]);
    crush; state_simpl;
    auto using gf_app, gf_update, gf_nil, gf_app_first, gf_map_snd;
    try (unfold count; rewrite delete_all_gf by assumption; apply gf_nil);
    try (unfold count; apply gf_app; assumption).
Qed.

Lemma dfinal_cons : forall b o r s, dfinal b (o :: r) s = dfinal b r (fst (dstep b o s)).
Proof.
  intros. unfold dfinal. cbn [drun]. destruct (dstep b o s) as [s1 a]. cbn [fst].
  destruct (drun b r s1). reflexivity.
Qed.

Lemma gap_free_run : forall b ops s, gap_free (dims s) -> gap_free (dims (dfinal b ops s)).
Proof.
  induction ops as [|o r IH]; intros s H; [exact H|].
  rewrite dfinal_cons. apply IH. now apply gf_step.
Qed.

(* ------------------------------------------------------------------------------------------ *)
(** * Refinement: the repaired model answers as the plain-list specification demands *)

Lemma s_count_abs : forall s, s_count (abs s) = count s.
Proof. intros. unfold s_count, count, abs. cbn [q_dims]. apply zlen_map. Qed.

Ltac rep_simpl :=
  cbn [repaired check_sorted_on_append check_interval_on_append keep_negative_offset validate_unit_first
       validate_frame_first reject_nan ro_delete_throws frame_col_strict] in *.
Ltac abs_simpl :=
  cbn [abs q_dims q_label q_unit q_data q_ty q_rank q_frames q_ro q_foreign q_b2 s_with_dims s_with_label s_with_unit s_with_data
       q_data_dbl s_count] in *.

Lemma lempty_count : forall s, lempty (map snd (dims s)) = negb (0 <? count s).
Proof.
  intros. unfold count. destruct (dims s); [reflexivity|]. rewrite zlen_cons. pose proof (zlen_nonneg d).
  cbn [map lempty]. destruct (Z.ltb_spec 0 (zlen d + 1)); [reflexivity|lia].
Qed.

Ltac lit_simpl :=
  change (sempty "") with true in *; change (opt_ne "") with (@None string) in *; cbn [lempty] in *.

Lemma fne_zero : fne fzero fzero = false.
Proof. reflexivity. Qed.

Lemma combine_fst_snd : forall {A B} (m : list (A * B)), combine (map fst m) (map snd m) = m.
Proof. induction m as [|[a b] m IH]; cbn; auto. now f_equal. Qed.

Lemma lookup_later : forall p r i a, fst p = a -> keys_from_z (a + 1) r -> In i (keys r) -> lookup i (p :: r) = lookup i r.
Proof.
  intros [k d] r i a E H I. cbn [fst] in E. subst k. cbn [lookup].
  pose proof (keys_from_in r (a + 1) i H I). destruct (Z.eqb_spec a i); [lia|reflexivity].
Qed.

Lemma dims_list_gf : forall m a, keys_from_z a m ->
  flat_map (fun i => match lookup i m with Some d => [(i, kind_of d)] | None => [] end) (keys m)
  = map (fun p => (fst p, kind_of (snd p))) m.
Proof.
  induction m as [|p r IH]; intros a H; [reflexivity|].
  destruct H as [H1 H2]. cbn [keys map flat_map]. fold (keys r).
  assert (L : lookup (fst p) (p :: r) = Some (snd p)) by (destruct p; cbn [lookup fst snd]; now rewrite Z.eqb_refl).
  rewrite L. cbn [app]. f_equal.
  rewrite <- (IH (a + 1) H2). rewrite !flat_map_concat_map. f_equal. apply map_ext_in.
  intros i I. now rewrite (lookup_later p r i a H1 H2 I).
Qed.

Lemma dims_kind_list_gf : forall k m a, keys_from_z a m ->
  flat_map (fun i => match lookup i m with
                     | Some d => if kind_eqb (kind_of d) k then [(i, kind_of d)] else []
                     | None => [] end) (keys m)
  = filter (fun p => kind_eqb (snd p) k) (map (fun p => (fst p, kind_of (snd p))) m).
Proof.
  induction m as [|p r IH]; intros a H; [reflexivity|].
  destruct H as [H1 H2]. cbn [keys map flat_map filter]. fold (keys r).
  assert (L : lookup (fst p) (p :: r) = Some (snd p)) by (destruct p; cbn [lookup fst snd]; now rewrite Z.eqb_refl).
  rewrite L. cbn [snd].
  assert (T : flat_map (fun i => match lookup i (p :: r) with
                     | Some d => if kind_eqb (kind_of d) k then [(i, kind_of d)] else []
                     | None => [] end) (keys r)
              = filter (fun p => kind_eqb (snd p) k) (map (fun p => (fst p, kind_of (snd p))) r)).
  { rewrite <- (IH (a + 1) H2). rewrite !flat_map_concat_map. f_equal. apply map_ext_in.
    intros i I. now rewrite (lookup_later p r i a H1 H2 I). }
  rewrite T. destruct (kind_eqb (kind_of (snd p)) k); reflexivity.
Qed.

Lemma obs_list_gf : forall (F : dimdesc -> dobs) m a, keys_from_z a m ->
  map (fun i => (i, match lookup i m with Some d => Some (i, F d) | None => None end)) (keys m)
  = map (fun p => (fst p, Some (fst p, F (snd p)))) m.
Proof.
  induction m as [|p r IH]; intros a H; [reflexivity|].
  destruct H as [H1 H2]. cbn [keys map]. fold (keys r).
  assert (L : lookup (fst p) (p :: r) = Some (snd p)) by (destruct p; cbn [lookup fst snd]; now rewrite Z.eqb_refl).
  rewrite L. f_equal.
  rewrite <- (IH (a + 1) H2). apply map_ext_in.
  intros i I. now rewrite (lookup_later p r i a H1 H2 I).
Qed.

Lemma s_get_zero : forall l, s_get 0 l = None.
Proof. intros. unfold s_get. reflexivity. Qed.

Lemma s_get_next : forall l, s_get (zlen l + 1) l = None.
Proof.
  intros. unfold s_get. destruct (Z.leb_spec (zlen l + 1) (zlen l)); [lia|].
  now rewrite andb_false_r.
Qed.

Lemma dims_refines : forall s, gap_free (dims s) ->
  flat_map (fun i => match lookup i (dims s) with Some d => [(i, kind_of d)] | None => [] end) (zrange (count s))
  = map (fun p => (fst p, kind_of (snd p))) (combine (zrange (s_count (abs s))) (map snd (dims s))).
Proof.
  intros s H. rewrite s_count_abs. unfold count. pose proof H as G. apply gap_free_zrange in G. rewrite <- G.
  unfold keys at 2. rewrite combine_fst_snd. now apply (dims_list_gf _ 1).
Qed.

Lemma dims_kind_refines : forall s k, gap_free (dims s) ->
  flat_map (fun i => match lookup i (dims s) with
                     | Some d => if kind_eqb (kind_of d) k then [(i, kind_of d)] else []
                     | None => [] end) (zrange (count s))
  = filter (fun p => kind_eqb (snd p) k)
           (map (fun p => (fst p, kind_of (snd p))) (combine (zrange (s_count (abs s))) (map snd (dims s)))).
Proof.
  intros s k H. rewrite s_count_abs. unfold count. pose proof H as G. apply gap_free_zrange in G. rewrite <- G.
  unfold keys at 2. rewrite combine_fst_snd. now apply (dims_kind_list_gf k _ 1).
Qed.

Lemma observe_refines : forall s, gap_free (dims s) -> dobserve s = s_observe (abs s).
Proof.
  intros s H. unfold dobserve, s_observe. rewrite s_count_abs.
  cbn [abs q_dims q_label q_unit q_data q_ty q_rank q_frames q_ro q_foreign q_b2].
  unfold q_data_dbl, data_dbl. cbn [abs q_data q_ty].
  rewrite !lookup_gf by assumption. rewrite s_get_zero.
  unfold count at 3. rewrite <- (zlen_map snd (dims s)), s_get_next. cbn [opt_is_some].
  f_equal.
  unfold count. pose proof H as G. apply gap_free_zrange in G. rewrite <- G.
  unfold keys at 2. rewrite combine_fst_snd.
  apply (obs_list_gf (dobs_of (a_label s) (a_unit s) (map (to_dbl (a_ty s)) (a_data s)) (frames s)) _ 1 H).
Qed.

Ltac fin :=
  try (split; [ unfold abs, set_dim, add_dim, with_dims, with_label, with_unit, with_data, s_with_dims, s_with_label, s_with_unit, s_with_data;
                     cbn [dims a_label a_unit a_data a_ty a_rank frames ro foreign b2_alive q_dims q_label q_unit q_data q_ty q_rank q_frames q_ro q_foreign q_b2];
                     rewrite ?map_app, ?map_snd_map, ?update_snd by assumption; reflexivity
                   | rewrite ?s_count_abs; unfold count in *;
                     try (match goal with E : (0 <? zlen (dims ?s)) = false |- _ =>
                            replace (zlen (dims s)) with 0 by (pose proof (zlen_nonneg (dims s)); apply Z.ltb_ge in E; lia) end);
                     reflexivity ]).

Lemma delete_all_count : forall s, gap_free (dims s) ->
  fold_left (fun m i => remove_key i m) (rev (zrange (count s))) (dims s) = [].
Proof. intros. unfold count. now apply delete_all_gf. Qed.


Lemma s_get_one : forall l, zlen l = 1 -> s_get 1 l <> None.
Proof.
  intros l E. destruct l as [|x l]; [discriminate|]. unfold s_get. rewrite E. cbn. discriminate.
Qed.

Lemma refines_step : forall o s, gap_free (dims s) ->
  abs (fst (dstep repaired o s)) = fst (sp_step o (abs s)) /\
  forget (snd (dstep repaired o s)) = snd (sp_step o (abs s)).
Proof.
  intros o s H.
  destruct o; cbn [dstep sp_step]; unfold_ops; cbv zeta; rep_simpl.
  all: rewrite ?(create_group_next s H).
  all: unfold s_append_frame, s_append, s_modify, s_arr_write, s_read, s_is_alias, set_opt_str, s_fref_cols, fref_cols,
         ticks_ok, interval_ok, legal_ticks, legal_interval, legal_unit, unit_bad, append_offset in *; rep_simpl.
  all: rewrite ?lookup_gf by assumption; abs_simpl; lit_simpl.
  all: rewrite ?zlen_map, ?lempty_count, ?fne_zero.
  all: rewrite ?delete_all_count by assumption.
  all: unfold ticks_of, s_ticks_of, data_dbl, q_data_dbl in *; abs_simpl.
  all: rewrite ?dims_refines, ?dims_kind_refines, ?observe_refines by assumption.
  all: try (destruct (0 <? count s) eqn:E0; [|rewrite ?(create_group_first s H E0)]).
  all: rewrite ?s_count_abs.
  all: unfold count in *.
  all: crush; state_simpl; abs_simpl; cbn [forget bind] in *;
       repeat match goal with A : Ok _ = Ok _ |- _ => inversion A; subst; clear A end; fin.
  all: exfalso; match goal with A : (zlen (dims ?s) =? 1) = true, B : s_get 1 (map snd (dims ?s)) = None |- _ =>
         apply Z.eqb_eq in A; apply (s_get_one (map snd (dims s))); [rewrite zlen_map; exact A | exact B] end.
Qed.

Lemma drun_cons : forall b o r s,
  drun b (o :: r) s = (fst (drun b r (fst (dstep b o s))), snd (dstep b o s) :: snd (drun b r (fst (dstep b o s)))).
Proof. intros. cbn [drun]. destruct (dstep b o s) as [s1 a]. cbn [fst snd]. destruct (drun b r s1). reflexivity. Qed.

Lemma sp_run_cons : forall o r s,
  sp_run (o :: r) s = (fst (sp_run r (fst (sp_step o s))), snd (sp_step o s) :: snd (sp_run r (fst (sp_step o s)))).
Proof. intros. cbn [sp_run]. destruct (sp_step o s) as [s1 a]. cbn [fst snd]. destruct (sp_run r s1). reflexivity. Qed.

Theorem refines_run : forall ops s, gap_free (dims s) ->
  abs (fst (drun repaired ops s)) = fst (sp_run ops (abs s)) /\
  map forget (snd (drun repaired ops s)) = snd (sp_run ops (abs s)).
Proof.
  induction ops as [|o r IH]; intros s H; [split; reflexivity|].
  rewrite drun_cons, sp_run_cons. cbn [fst snd map].
  destruct (refines_step o s H) as [A B]. rewrite <- A, <- B.
  destruct (IH (fst (dstep repaired o s)) (gf_step repaired o s H)) as [C D].
  split; [exact C|]. now rewrite D.
Qed.

(* ------------------------------------------------------------------------------------------ *)
(** * Invariants of the values: ticks ascending, intervals positive, alias only on 1-D numeric arrays *)

Definition desc_ok (rank : nat) (ty : dtype) (d : dimdesc) : bool :=
  match d with
  | DSampled x _ _ _ => fgt x fzero
  | DRange t _ _ => ascending t
  | DAlias => Nat.leb rank 1 && is_numeric ty
  | _ => true
  end.

Definition all_ok (s : state) : Prop :=
  Forall (fun p => desc_ok (a_rank s) (a_ty s) (snd p) = true) (dims s).

Lemma lookup_in : forall m k d, lookup k m = Some d -> In (k, d) m.
Proof.
  induction m as [|[k' d'] m IH]; intros k d H; [discriminate|].
  cbn [lookup] in H. destruct (Z.eqb_spec k' k).
  - inversion H. subst. now left.
  - right. now apply IH.
Qed.

Lemma lookup_ok : forall s k d, all_ok s -> lookup k (dims s) = Some d -> desc_ok (a_rank s) (a_ty s) d = true.
Proof.
  intros s k d A H. apply lookup_in in H. unfold all_ok in A. rewrite Forall_forall in A. exact (A _ H).
Qed.

Lemma Forall_update : forall (P : Z * dimdesc -> Prop) k d m,
  Forall P m -> (forall k', P (k', d)) -> Forall P (update k d m).
Proof.
  intros P k d m H Hd. unfold update. induction H; cbn [map]; constructor; auto.
  destruct (fst x =? k); auto.
Qed.

Lemma desc_ok_detach : forall r t k d, desc_ok r t (detach k d) = desc_ok r t d.
Proof. intros. destruct d; cbn; auto. destruct frame; auto. destruct (Nat.eqb n k); reflexivity. Qed.

Lemma Forall_detach : forall r t k (m : dmap),
  Forall (fun p => desc_ok r t (snd p) = true) m ->
  Forall (fun p => desc_ok r t (snd p) = true) (map (fun p => (fst p, detach k (snd p))) m).
Proof.
  intros r t k m H. induction H; cbn [map]; constructor; auto. cbn [snd]. now rewrite desc_ok_detach.
Qed.

Lemma ok_step : forall o s, gap_free (dims s) -> all_ok s -> all_ok (fst (dstep repaired o s)).
Proof.
  intros o s H A.
  destruct o; cbn [dstep]; unfold_ops; cbv zeta; rep_simpl;
    rewrite ?(create_group_next s H);
    try (destruct (0 <? count s) eqn:E0; [|rewrite ?(create_group_first s H E0)]);
    unfold ticks_ok, interval_ok, unit_bad, append_offset in *; rep_simpl;
    rewrite ?delete_all_count by assumption;
    crush; state_simpl; try exact A.
  all: repeat match goal with A' : all_ok ?s', B : lookup _ (dims ?s') = Some _ |- _ =>
               apply (lookup_ok s' _ _ A') in B; cbn [desc_ok] in B end.
  all: unfold all_ok in *; state_simpl.
  all: try (apply Forall_app; split; [assumption|]; constructor; [|constructor]; cbn [snd desc_ok]).
  all: try (apply Forall_update; [assumption|]; intros; cbn [snd desc_ok]).
  all: try (apply Forall_detach; assumption).
  all: try constructor.
  all: try reflexivity; try assumption.
  all: try (apply andb_true_intro; split; [apply Nat.leb_le; apply Nat.ltb_ge; assumption | assumption]).
Qed.

Lemma rank_ty_step : forall b o s, a_rank (fst (dstep b o s)) = a_rank s /\ a_ty (fst (dstep b o s)) = a_ty s /\ frames (fst (dstep b o s)) = frames s.
Proof.
  intros b o s. destruct o; cbn [dstep]; unfold_ops; cbv zeta; crush; state_simpl; auto.
Qed.

Theorem desc_ok_run : forall ops s, gap_free (dims s) -> all_ok s -> all_ok (dfinal repaired ops s).
Proof.
  induction ops as [|o r IH]; intros s H A; [exact A|].
  rewrite dfinal_cons. apply IH; [now apply gf_step|now apply ok_step].
Qed.

(* ------------------------------------------------------------------------------------------ *)
(** * A rejected dimension call leaves no trace (repaired behaviour) *)

Definition dimension_op (o : op) : Prop := match o with AData _ => False | _ => True end.

Theorem rejected_no_trace : forall o s e, gap_free (dims s) -> dimension_op o ->
  snd (dstep repaired o s) = Err e -> fst (dstep repaired o s) = s.
Proof.
  intros o s e H D.
  destruct o; try (exfalso; exact D); cbn [dstep]; unfold_ops; cbv zeta; rep_simpl;
    rewrite ?(create_group_next s H);
    try (destruct (0 <? count s) eqn:E0; [|rewrite ?(create_group_first s H E0)]);
    unfold unit_bad in *;
    crush; cbn [fst snd]; intros X; try discriminate X; reflexivity.
Qed.

(* ------------------------------------------------------------------------------------------ *)
(** * deleteDimensions, reopen *)

Theorem delete_leaves_none : forall b s, gap_free (dims s) -> ro s = false ->
  dstep b DeleteDims s = (with_dims s [], Ok (ABool true)).
Proof.
  intros b s H R. cbn [dstep]. unfold delete_dims. rewrite R. now rewrite delete_all_count.
Qed.

Theorem reopen_identity : forall b r s,
  snd (dstep b (Reopen r) s) = Ok ADone /\
  dobserve (fst (dstep b (Reopen r) s)) = dobserve s /\
  dims (fst (dstep b (Reopen r) s)) = dims s /\
  abs (fst (dstep b (Reopen r) s)) = mkS (map snd (dims s)) (a_label s) (a_unit s) (a_data s) (a_ty s) (a_rank s) (frames s) r
    (map keep_persistent (foreign s)) (b2_alive s).
Proof. intros. cbn [dstep]. unfold reopen. cbn [fst snd]. repeat split; reflexivity. Qed.

(* ------------------------------------------------------------------------------------------ *)
(** * The alias mirrors its array, both directions *)

(** reading through the dimension gives the array's label, unit and data *)
Theorem alias_reads : forall s, dobs_of (a_label s) (a_unit s) (data_dbl s) (frames s) DAlias
                               = ORange true (a_label s) (a_unit s) (data_dbl s).
Proof. reflexivity. Qed.

(** writing through the dimension lands in the array (any behaviour) *)
Theorem alias_writes : forall b s i, lookup i (dims s) = Some DAlias -> ro s = false ->
  (forall v, sempty v = false -> dstep b (RLabel i (Some v)) s = (with_label s (Some v), Ok ADone)) /\
  (forall v, sempty v = false -> is_si v = true -> dstep b (RUnit i (Some v)) s = (with_unit s (Some v), Ok ADone)) /\
  (forall t vs, ticks_ok b t = true -> from_dbls (a_ty s) t = Ok vs -> dstep b (RTicks i t) s = (with_data s vs, Ok ADone)) /\
  (a_label (fst (dstep b (RLabel i None) s)) = None /\ snd (dstep b (RLabel i None) s) = Ok ADone) /\
  (a_unit (fst (dstep b (RUnit i None) s)) = None /\ snd (dstep b (RUnit i None) s) = Ok ADone).
Proof.
  intros b s i L R. cbn [dstep]. unfold r_label, r_unit, r_ticks, with_dim, rm, wr. rewrite L, R. cbn [kind_of kind_eqb].
  repeat split.
  - intros v E. now rewrite E.
  - intros v E1 E2. now rewrite E1, E2.
  - intros t vs E1 E2. now rewrite E1, E2.
  - destruct (a_label s) eqn:E; cbn [fst]; auto.
  - destruct (a_label s); reflexivity.
  - destruct (a_unit s) eqn:E; cbn [fst]; auto.
  - destruct (a_unit s); reflexivity.
Qed.

(** writes to the array are what the alias shows afterwards: the descriptor stays, the array field changes *)
Theorem array_writes_seen : forall b s i, lookup i (dims s) = Some DAlias -> ro s = false ->
  (forall v, sempty v = false ->
     let s' := fst (dstep b (ALabel (Some v)) s) in lookup i (dims s') = Some DAlias /\ a_label s' = Some v) /\
  (forall v vs, Nat.eqb (a_rank s) 1 = true -> from_dbls (a_ty s) v = Ok vs ->
     let s' := fst (dstep b (AData v) s) in lookup i (dims s') = Some DAlias /\ a_data s' = vs).
Proof.
  intros b s i L R. cbn [dstep]. unfold arr_label, arr_data, wr. rewrite R. split.
  - intros v E. rewrite E. cbn. auto.
  - intros v vs E1 E2. rewrite E1, E2. cbn. auto.
Qed.

(* ------------------------------------------------------------------------------------------ *)
(** * The independent checker accepts every reachable observation *)

Lemma f64_same_refl : forall x, f64_same x x = true.
Proof.
  destruct x; cbn [f64_same]; auto using eqb_reflx.
  now rewrite eqb_reflx, Pos.eqb_refl, Z.eqb_refl.
Qed.

Lemma list_same_refl : forall l, list_same l l = true.
Proof. induction l; cbn [list_same]; auto. now rewrite f64_same_refl. Qed.

Lemma opt_str_eqb_refl : forall o, opt_str_eqb o o = true.
Proof. destruct o; cbn; auto. apply String.eqb_refl. Qed.

Definition q_all_ok (q : sstate) : Prop := Forall (fun d => desc_ok (q_rank q) (q_ty q) d = true) (q_dims q).

Lemma keys_from_combine : forall (g : Z -> dimdesc -> option (Z * dobs)) l a,
  keys_from (Z.of_nat a)
    (map (fun p => (fst p, g (fst p) (snd p))) (combine (map Z.of_nat (seq a (List.length l))) l)) = true.
Proof.
  induction l as [|d l IH]; intros a; [reflexivity|].
  cbn [List.length seq map combine keys_from fst]. rewrite Z.eqb_refl. cbn [andb].
  replace (Z.of_nat a + 1) with (Z.of_nat (S a)) by lia. apply IH.
Qed.

Lemma spec_observation_ok : forall q, (1 <= q_rank q)%nat -> q_all_ok q -> dims_ok (s_observe q) = true.
Proof.
  intros q R A. unfold dims_ok, s_observe.
  cbn [o_dims o_count o_zero o_next negb].
  set (g := fun p : Z * dimdesc => (fst p, Some (fst p, dobs_of (q_label q) (q_unit q) (q_data_dbl q) (q_frames q) (snd p)))).
  assert (Z1 : zrange (s_count q) = map Z.of_nat (seq 1 (List.length (q_dims q)))).
  { unfold zrange, s_count, zlen. now rewrite Nat2Z.id. }
  rewrite Z1.
  repeat (apply andb_true_intro; split); auto.
  - apply Z.eqb_eq. unfold s_count, zlen. rewrite map_length, combine_length, map_length, seq_length.
    now rewrite Nat.min_id.
  - exact (keys_from_combine (fun k d => Some (k, dobs_of (q_label q) (q_unit q) (q_data_dbl q) (q_frames q) d)) (q_dims q) 1).
  - apply forallb_forall. intros x I. apply in_map_iff in I. destruct I as [[k d] [E I]]. subst x.
    apply in_combine_r in I. unfold q_all_ok in A. rewrite Forall_forall in A. specialize (A d I).
    unfold g, dim_ok. cbn [fst snd]. rewrite Z.eqb_refl. cbn [andb].
    destruct d; cbn [dobs_of desc_ok] in *; auto.
    cbn [o_label o_unit o_data]. rewrite !opt_str_eqb_refl. cbn [andb].
    apply andb_prop in A. destruct A as [A1 A2]. apply Nat.leb_le in A1.
    replace (q_rank q =? 1)%nat with true by (symmetry; apply Nat.eqb_eq; lia).
    rewrite A2. cbn [andb]. apply list_same_refl.
Qed.

Lemma rank_ty_run : forall b ops s,
  a_rank (dfinal b ops s) = a_rank s /\ a_ty (dfinal b ops s) = a_ty s /\ frames (dfinal b ops s) = frames s.
Proof.
  induction ops as [|o r IH]; intros s; [auto|].
  rewrite dfinal_cons. destruct (IH (fst (dstep b o s))) as [A [B C]].
  destruct (rank_ty_step b o s) as [A' [B' C']]. rewrite A, B, C. auto.
Qed.

Lemma all_ok_abs : forall s, all_ok s -> q_all_ok (abs s).
Proof.
  intros s A. unfold q_all_ok, all_ok in *. cbn [abs q_dims q_rank q_ty].
  rewrite Forall_forall in *. intros d I. apply in_map_iff in I. destruct I as [p [E I]]. subst d. now apply A.
Qed.

Theorem observation_ok_run : forall ops s, gap_free (dims s) -> all_ok s -> (1 <= a_rank s)%nat ->
  dims_ok (dobserve (dfinal repaired ops s)) = true.
Proof.
  intros ops s H A R.
  rewrite observe_refines by now apply gap_free_run.
  apply spec_observation_ok.
  - cbn [abs q_rank]. destruct (rank_ty_run repaired ops s) as [E _]. now rewrite E.
  - apply all_ok_abs. now apply desc_ok_run.
Qed.

Lemma init_gf : forall t rank len fs ffs, gap_free (dims (dinit t rank len fs ffs)).
Proof. intros. exact I. Qed.
Lemma init_ok : forall t rank len fs ffs, all_ok (dinit t rank len fs ffs).
Proof. intros. constructor. Qed.

(* ------------------------------------------------------------------------------------------ *)
(** * What the specification means: the last accepted write to a descriptor is what it holds *)

Lemma set_nth_same : forall {A} (l : list A) n x, (n < List.length l)%nat -> nth_error (set_nth n x l) n = Some x.
Proof.
  induction l as [|y l IH]; intros n x H; cbn [List.length] in H; [lia|].
  destruct n; cbn [set_nth nth_error]; auto. apply IH. lia.
Qed.

Lemma set_nth_other : forall {A} (l : list A) n m x, n <> m -> nth_error (set_nth n x l) m = nth_error l m.
Proof.
  induction l as [|y l IH]; intros n m x H; [destruct n; reflexivity|].
  destruct n, m; cbn [set_nth nth_error]; auto; try congruence.
Qed.

Lemma set_nth_length : forall {A} (l : list A) n x, List.length (set_nth n x l) = List.length l.
Proof. induction l as [|y l IH]; intros n x; destruct n; cbn [set_nth List.length]; auto. Qed.

Lemma s_set_zlen : forall i d l, zlen (s_set i d l) = zlen l.
Proof. intros. unfold s_set. destruct ((1 <=? i) && (i <=? zlen l)); auto. unfold zlen. now rewrite set_nth_length. Qed.

Theorem spec_set_get_same : forall i d l, 1 <= i <= zlen l -> s_get i (s_set i d l) = Some d.
Proof.
  intros i d l H. unfold s_get. rewrite s_set_zlen. unfold s_set.
  destruct (Z.leb_spec 1 i), (Z.leb_spec i (zlen l)); try lia. cbn [andb].
  apply set_nth_same. unfold zlen in *. lia.
Qed.

Theorem spec_set_get_other : forall i j d l, i <> j -> s_get j (s_set i d l) = s_get j l.
Proof.
  intros i j d l H. unfold s_get. rewrite s_set_zlen. unfold s_set.
  destruct ((1 <=? i) && (i <=? zlen l)) eqn:E; auto.
  destruct ((1 <=? j) && (j <=? zlen l)) eqn:F; auto.
  apply set_nth_other. apply andb_prop in E, F. destruct E as [E1 E2], F as [F1 F2].
  apply Z.leb_le in E1, E2, F1, F2. lia.
Qed.

Theorem spec_append_get_new : forall d l, s_get (zlen l + 1) (l ++ [d])%list = Some d.
Proof.
  intros. unfold s_get. rewrite zlen_app1. pose proof (zlen_nonneg l).
  destruct (Z.leb_spec 1 (zlen l + 1)), (Z.leb_spec (zlen l + 1) (zlen l + 1)); try lia. cbn [andb].
  replace (Z.to_nat (zlen l + 1 - 1)) with (List.length l) by (unfold zlen; lia).
  rewrite nth_error_app2 by lia. now rewrite Nat.sub_diag.
Qed.

Theorem spec_append_get_old : forall j d l, j <= zlen l -> s_get j (l ++ [d])%list = s_get j l.
Proof.
  intros. unfold s_get. rewrite zlen_app1.
  destruct (Z.leb_spec 1 j); cbn [andb]; auto.
  destruct (Z.leb_spec j (zlen l + 1)), (Z.leb_spec j (zlen l)); try lia.
  apply nth_error_app1. unfold zlen in *. lia.
Qed.

(** read-back through the storage-level model: an accepted setter is what [lookup] finds afterwards *)
Lemma lookup_update_same : forall m k d d0, lookup k m = Some d0 -> lookup k (update k d m) = Some d.
Proof.
  induction m as [|[k' d'] m IH]; intros k d d0 H; [discriminate|].
  cbn [lookup update map fst] in *. destruct (Z.eqb_spec k' k).
  - cbn [lookup]. destruct (Z.eqb_spec k' k); [reflexivity|contradiction].
  - cbn [lookup]. destruct (Z.eqb_spec k' k); [contradiction|]. now apply (IH k d d0).
Qed.

Lemma lookup_update_other : forall m k j d, k <> j -> lookup j (update k d m) = lookup j m.
Proof.
  induction m as [|[k' d'] m IH]; intros k j d H; [reflexivity|].
  cbn [lookup update map fst]. destruct (Z.eqb_spec k' k).
  - subst k'. cbn [lookup]. destruct (Z.eqb_spec k j); [contradiction|]. now apply IH.
  - cbn [lookup]. destruct (Z.eqb_spec k' j); auto. now apply IH.
Qed.

Lemma lookup_app_new : forall m k d, lookup k m = None -> lookup k (m ++ [(k, d)])%list = Some d.
Proof.
  induction m as [|[k' d'] m IH]; intros k d H; cbn [app lookup] in *.
  - now rewrite Z.eqb_refl.
  - destruct (k' =? k); [discriminate|]. now apply IH.
Qed.

Lemma lookup_app_old : forall m k j d, lookup j m <> None -> lookup j (m ++ [(k, d)])%list = lookup j m.
Proof.
  induction m as [|[k' d'] m IH]; intros k j d H; cbn [app lookup] in *; [congruence|].
  destruct (k' =? j); auto.
Qed.

(** a sampled dimension reads back interval, offset (negative and zero offsets too), unit and label as appended *)
Theorem readback_sampled_append : forall s x l u off, gap_free (dims s) -> ro s = false ->
  fgt x fzero = true -> unit_bad u = false ->
  dstep repaired (AppendSampled x l u off) s =
    (add_dim s (dims s) (count s + 1) (DSampled x (if fne off fzero then Some off else None) (opt_ne u) (opt_ne l)),
     Ok (AIndex (count s + 1))) /\
  lookup (count s + 1) (dims (fst (dstep repaired (AppendSampled x l u off) s))) =
    Some (DSampled x (if fne off fzero then Some off else None) (opt_ne u) (opt_ne l)).
Proof.
  intros s x l u off H R X U. cbn [dstep]. unfold append_sampled. rep_simpl.
  unfold interval_ok, append_offset. rep_simpl. rewrite X, U. cbn [negb andb].
  rewrite (create_group_next s H), R. split; [reflexivity|]. cbn [fst]. unfold add_dim. cbn [dims with_dims].
  apply lookup_app_new. rewrite lookup_gf by assumption. unfold count. rewrite <- (zlen_map snd (dims s)). apply s_get_next.
Qed.

Theorem readback_range_append : forall s t l u, gap_free (dims s) -> ro s = false ->
  lempty t = false -> ascending t = true -> unit_bad u = false ->
  dstep repaired (AppendRange t l u) s =
    (add_dim s (dims s) (count s + 1) (DRange t (opt_ne u) (opt_ne l)), Ok (AIndex (count s + 1))).
Proof.
  intros s t l u H R E A U. cbn [dstep]. unfold append_range. rep_simpl. unfold ticks_ok. rep_simpl.
  rewrite E, A, U. cbn [negb andb]. now rewrite (create_group_next s H), R.
Qed.

(** every offset given to the setter is kept: negative, zero, NaN *)
Theorem readback_offset_setter : forall s i x o u l v, lookup i (dims s) = Some (DSampled x o u l) -> ro s = false ->
  snd (dstep repaired (SOffset i (Some v)) s) = Ok ADone /\
  lookup i (dims (fst (dstep repaired (SOffset i (Some v)) s))) = Some (DSampled x (Some v) u l) /\
  (forall j, j <> i -> lookup j (dims (fst (dstep repaired (SOffset i (Some v)) s))) = lookup j (dims s)).
Proof.
  intros s i x o u l v L R. cbn [dstep]. unfold s_offset, with_dim, wr. rewrite L, R. cbn [kind_of kind_eqb fst snd].
  unfold set_dim. cbn [dims with_dims]. repeat split.
  - now apply (lookup_update_same _ _ _ _ L).
  - intros j N. apply lookup_update_other. congruence.
Qed.

(* ------------------------------------------------------------------------------------------ *)
(** * The code as pinned: computed witnesses ([..._refuted]) *)

Definition w_frame : frame := mkFrame "f0" 2 [("name", "", NDArr.TString); ("freq", "Hz", NDArr.TDouble)].
(** a frame of ANOTHER block that carries the name of the local frame *)
Definition w_foreign : frame := mkFrame "f0" 1 [("x", "s", NDArr.TDouble)].
Definition w_init : state := dinit NDArr.TDouble 1 3 [w_frame] [w_foreign].
Definition d_m25 : F64 := ofME (-5) (-1).      (* -2.5 *)

Definition is_ok_ans (r : res ans) : bool := match r with Ok _ => true | _ => false end.
Definition offset_absent (s : state) (i : Z) : bool :=
  match lookup i (dims s) with Some (DSampled _ None _ _) => true | _ => false end.
Definition offset_present (s : state) (i : Z) : bool :=
  match lookup i (dims s) with Some (DSampled _ (Some _) _ _) => true | _ => false end.

(** unsorted ticks are accepted by appendRangeDimension: the observation fails the checker *)
Lemma unsorted_append_refuted :
  is_ok_ans (snd (dstep code_today (AppendRange [ofZ 3; ofZ 2; ofZ 1] "" "") w_init)) = true /\
  dims_ok (dobserve (dfinal code_today [AppendRange [ofZ 3; ofZ 2; ofZ 1] "" ""] w_init)) = false /\
  is_ok_ans (snd (dstep repaired (AppendRange [ofZ 3; ofZ 2; ofZ 1] "" "") w_init)) = false.
Proof. vm_compute. repeat split; reflexivity. Qed.

(** a sampling interval of -1 is accepted by appendSampledDimension *)
Lemma interval_append_refuted :
  is_ok_ans (snd (dstep code_today (AppendSampled (ofZ (-1)) "" "" fzero) w_init)) = true /\
  dims_ok (dobserve (dfinal code_today [AppendSampled (ofZ (-1)) "" "" fzero] w_init)) = false /\
  is_ok_ans (snd (dstep repaired (AppendSampled (ofZ (-1)) "" "" fzero) w_init)) = false.
Proof. vm_compute. repeat split; reflexivity. Qed.

(** a negative offset given to appendSampledDimension is dropped *)
Lemma negative_offset_refuted :
  is_ok_ans (snd (dstep code_today (AppendSampled (ofZ 1) "" "" d_m25) w_init)) = true /\
  offset_absent (dfinal code_today [AppendSampled (ofZ 1) "" "" d_m25] w_init) 1 = true /\
  offset_present (dfinal repaired [AppendSampled (ofZ 1) "" "" d_m25] w_init) 1 = true.
Proof. vm_compute. repeat split; reflexivity. Qed.

(** an invalid unit: the call throws, the descriptor stays *)
Lemma invalid_unit_trace_refuted :
  is_ok_ans (snd (dstep code_today (AppendRange [ofZ 1] "time" "spikes") w_init)) = false /\
  count (fst (dstep code_today (AppendRange [ofZ 1] "time" "spikes") w_init)) = 1 /\
  is_ok_ans (snd (dstep code_today (AppendSampled (ofZ 1) "time" "mV/" fzero) w_init)) = false /\
  count (fst (dstep code_today (AppendSampled (ofZ 1) "time" "mV/" fzero) w_init)) = 1 /\
  count (fst (dstep repaired (AppendRange [ofZ 1] "time" "spikes") w_init)) = 0.
Proof. vm_compute. repeat split; reflexivity. Qed.

(** a data frame of another block: the call throws, a descriptor without a frame stays *)
Lemma foreign_frame_trace_refuted :
  is_ok_ans (snd (dstep code_today (AppendFrame (FForeign 0)) w_init)) = false /\
  count (fst (dstep code_today (AppendFrame (FForeign 0)) w_init)) = 1 /\
  count (fst (dstep repaired (AppendFrame (FForeign 0)) w_init)) = 0.
Proof. vm_compute. repeat split; reflexivity. Qed.

(** NaN passes [interval <= 0.0] and std::is_sorted *)
Lemma nan_refuted :
  is_ok_ans (snd (dstep code_today (SInterval 1 f64_nan) (dfinal code_today [AppendSampled (ofZ 1) "" "" fzero] w_init))) = true /\
  dims_ok (dobserve (dfinal code_today [AppendSampled (ofZ 1) "" "" fzero; SInterval 1 f64_nan] w_init)) = false /\
  is_ok_ans (snd (dstep code_today (RTicks 1 [ofZ 2; f64_nan; ofZ 1]) (dfinal code_today [AppendRange [ofZ 1] "" ""] w_init))) = true /\
  dims_ok (dobserve (dfinal code_today [AppendRange [ofZ 1] "" ""; RTicks 1 [ofZ 2; f64_nan; ofZ 1]] w_init)) = false /\
  is_ok_ans (snd (dstep repaired (SInterval 1 f64_nan) (dfinal repaired [AppendSampled (ofZ 1) "" "" fzero] w_init))) = false /\
  is_ok_ans (snd (dstep repaired (RTicks 1 [ofZ 2; f64_nan; ofZ 1]) (dfinal repaired [AppendRange [ofZ 1] "" ""] w_init))) = false.
Proof. vm_compute. repeat split; reflexivity. Qed.

(** deleteDimensions on a read-only file reports success and removes nothing *)
Lemma readonly_delete_refuted :
  is_ok_ans (snd (dstep code_today DeleteDims (dfinal code_today [AppendSet []; Reopen true] w_init))) = true /\
  count (dfinal code_today [AppendSet []; Reopen true; DeleteDims] w_init) = 1 /\
  is_ok_ans (snd (dstep repaired DeleteDims (dfinal repaired [AppendSet []; Reopen true] w_init))) = false.
Proof. vm_compute. repeat split; reflexivity. Qed.

(** hence a rejected call can leave a trace on the pinned tree *)
Lemma rejected_no_trace_refuted :
  exists o s e, gap_free (dims s) /\ dimension_op o /\ snd (dstep code_today o s) = Err e /\ fst (dstep code_today o s) <> s.
Proof.
  exists (AppendFrame (FForeign 0)), w_init, E_Runtime. split; [exact I|]. split; [exact I|]. split; [reflexivity|].
  intros X. apply (f_equal count) in X. vm_compute in X. discriminate X.
Qed.

(** non-vacuity: a legal history through every kind of descriptor, setters, alias, delete, reopen *)
Definition demo_ops : list op :=
  [AppendSet ["a"; "b"]; AppendRange [ofZ 1; ofZ 2] "time" "ms"; AppendSampled (ofZ 2) "x" "mV" d_m25;
   AppendFrameIdx (FOrd 0) 1; AppendFrameName (FOrd 0) "name"; AppendFrame (FOrd 0);
   SOffset 3 (Some fzero); RTicks 2 [ofZ 3; ofZ 1]; RUnit 2 (Some "spikes"); TLabel 1 (Some "cond");
   Reopen true; SLabel 3 (Some "no"); Reopen false; Count; DeleteDims; Count; AppendAlias; AData [ofZ 5; ofZ 7]; RLabel 1 (Some "tl"); Observe].

Lemma demo_run :
  map is_ok_ans (snd (drun repaired demo_ops w_init)) =
    [true; true; true; true; true; true; true; false; false; true; true; false; true; true; true; true; true; true; true; true] /\
  count (dfinal repaired (firstn 13 demo_ops) w_init) = 6 /\
  count (dfinal repaired demo_ops w_init) = 1 /\
  a_label (dfinal repaired demo_ops w_init) = Some "tl" /\
  dims_ok (dobserve (dfinal repaired demo_ops w_init)) = true /\
  offset_present (dfinal repaired (firstn 3 demo_ops) w_init) 3 = true.
Proof. vm_compute. repeat split; reflexivity. Qed.

(* ------------------------------------------------------------------------------------------ *)
(** * The statements over all histories from the empty array *)

Theorem dims_gap_free : forall b ops t rank len fs ffs,
  let s := dfinal b ops (dinit t rank len fs ffs) in keys (dims s) = zrange (count s).
Proof. intros. apply gap_free_zrange. apply gap_free_run. apply init_gf. Qed.

(** dimensions() lists exactly the descriptors 1..n with their kinds; nothing lives at 0 or n+1 *)
Theorem dims_answer : forall b ops t rank len fs ffs,
  let s := dfinal b ops (dinit t rank len fs ffs) in
  snd (dstep b Dims s) = Ok (ADims (map (fun p => (fst p, kind_of (snd p))) (dims s))) /\
  snd (dstep b (GetDim 0) s) = Ok (AKind None) /\
  snd (dstep b (GetDim (count s + 1)) s) = Ok (AKind None) /\
  snd (dstep b Count s) = Ok (ACount (zlen (dims s))).
Proof.
  intros. assert (H : gap_free (dims s)) by (apply gap_free_run; apply init_gf).
  cbn [dstep]. unfold all_dims, get_dim. cbn [snd]. repeat split.
  - do 2 f_equal. unfold count. pose proof H as G. apply gap_free_zrange in G. rewrite <- G. now apply (dims_list_gf _ 1).
  - now rewrite lookup_gf, s_get_zero.
  - rewrite lookup_gf by assumption. unfold count. rewrite <- (zlen_map snd (dims s)). now rewrite s_get_next.
Qed.

Theorem history_refines : forall ops t rank len fs ffs,
  abs (fst (drun repaired ops (dinit t rank len fs ffs))) = fst (sp_run ops (sinit t rank len fs ffs)) /\
  map forget (snd (drun repaired ops (dinit t rank len fs ffs))) = snd (sp_run ops (sinit t rank len fs ffs)).
Proof. intros. apply (refines_run ops (dinit t rank len fs ffs)). apply init_gf. Qed.

Theorem ticks_sorted_inv : forall ops t rank len fs ffs i ticks u l,
  lookup i (dims (dfinal repaired ops (dinit t rank len fs ffs))) = Some (DRange ticks u l) -> ascending ticks = true.
Proof.
  intros ops t rank len fs ffs i ticks u l L.
  exact (lookup_ok _ _ _ (desc_ok_run ops _ (init_gf t rank len fs ffs) (init_ok t rank len fs ffs)) L).
Qed.

Theorem interval_positive_inv : forall ops t rank len fs ffs i x off u l,
  lookup i (dims (dfinal repaired ops (dinit t rank len fs ffs))) = Some (DSampled x off u l) -> fgt x fzero = true.
Proof.
  intros ops t rank len fs ffs i x off u l L.
  exact (lookup_ok _ _ _ (desc_ok_run ops _ (init_gf t rank len fs ffs) (init_ok t rank len fs ffs)) L).
Qed.

Theorem observation_ok : forall ops t rank len fs ffs, (1 <= rank)%nat ->
  dims_ok (dobserve (dfinal repaired ops (dinit t rank len fs ffs))) = true.
Proof. intros. apply observation_ok_run; [apply init_gf|apply init_ok|assumption]. Qed.

Theorem delete_leaves_none_run : forall b ops t rank len fs ffs,
  let s := dfinal b ops (dinit t rank len fs ffs) in
  ro s = false ->
  snd (dstep b DeleteDims s) = Ok (ABool true) /\ dims (fst (dstep b DeleteDims s)) = [] /\
  o_count (dobserve (fst (dstep b DeleteDims s))) = 0 /\ o_dims (dobserve (fst (dstep b DeleteDims s))) = [].
Proof.
  intros b ops t rank len fs ffs s R.
  rewrite (delete_leaves_none b s) by (try assumption; apply gap_free_run; apply init_gf).
  repeat split.
Qed.

Theorem rejected_no_trace_run : forall ops t rank len fs ffs o e,
  let s := dfinal repaired ops (dinit t rank len fs ffs) in
  dimension_op o -> snd (dstep repaired o s) = Err e -> fst (dstep repaired o s) = s.
Proof. intros. eapply rejected_no_trace; eauto. apply gap_free_run. apply init_gf. Qed.

(** a frame HANDLE that is not a frame of the array's block - a frame of another block (whatever its name,
    also the name of a local frame), a stale handle of a deleted-and-recreated frame, a frame whose block
    was deleted - is refused by all three appendDataFrameDimension overloads and leaves no trace *)
Theorem foreign_frame_refused : forall s n c nm, gap_free (dims s) ->
  (fst (dstep repaired (AppendFrame (FForeign n)) s) = s /\ exists e, snd (dstep repaired (AppendFrame (FForeign n)) s) = Err e) /\
  (fst (dstep repaired (AppendFrameIdx (FForeign n) c) s) = s /\ exists e, snd (dstep repaired (AppendFrameIdx (FForeign n) c) s) = Err e) /\
  (fst (dstep repaired (AppendFrameName (FForeign n) nm) s) = s /\ exists e, snd (dstep repaired (AppendFrameName (FForeign n) nm) s) = Err e).
Proof.
  intros s n c nm H. cbn [dstep]. unfold append_frame, append_frame_idx, append_frame_name, append_frame_be, fref_cols.
  rep_simpl. repeat split; crush; cbn [fst snd]; eauto.
Qed.

(* ------------------------------------------------------------------------------------------ *)
(** * Further public routes *)

(** dimensions(filter) is dimensions() filtered *)
Theorem dims_filter_route : forall b s k, gap_free (dims s) ->
  snd (dstep b Dims s) = Ok (ADims (map (fun p => (fst p, kind_of (snd p))) (dims s))) /\
  snd (dstep b (DimsOfKind k) s) =
    Ok (ADims (filter (fun p => kind_eqb (snd p) k) (map (fun p => (fst p, kind_of (snd p))) (dims s)))).
Proof.
  intros b s k H. cbn [dstep]. unfold all_dims, dims_of_kind. cbn [snd].
  pose proof H as G. apply gap_free_zrange in G. unfold count. rewrite <- G. split.
  - now rewrite (dims_list_gf _ 1 H).
  - now rewrite (dims_kind_list_gf k _ 1 H).
Qed.

(** operator[] of a sampled dimension is index * interval + offset; of a range dimension it is tickAt *)
Theorem sampled_at : forall b s i k x off u l, lookup i (dims s) = Some (DSampled x off u l) ->
  dstep b (SAt i k) s = (s, Ok (ATick (fadd (fmul (ofZ k) x) (match off with Some o => o | None => fzero end)))).
Proof. intros b s i k x off u l L. cbn [dstep]. unfold s_at, with_dim. now rewrite L. Qed.

Lemma cells_length : forall ty c off n, List.length (cells ty c off n) = Z.to_nat n.
Proof. intros. unfold cells, zseq. now rewrite !map_length, seq_length. Qed.

(** DataFrameDimension::ticks<T> as IMPLEMENTED (and as the check judges it): every row from [offset], whatever
    [resize] and the size of the vector *)
Theorem frame_ticks_all_rows : forall fs fo ci col rs vs off l fr, frame_of fs fo = Ok fr ->
  frame_ticks false fs fo ci col rs vs off = Ok l -> zlen l = fr_rows fr - off.
Proof.
  intros fs fo ci col rs vs off l fr F. unfold frame_ticks. rewrite F. cbn [bind].
  destruct (pick_col ci col); [|discriminate]. destruct (nth_col fr z); [|discriminate].
  destruct (Z.ltb_spec (fr_rows fr) off); [discriminate|]. intros X. inversion X. unfold zlen. rewrite cells_length. lia.
Qed.

(** REMARK (documentation discrepancy, not an obligation): the rule the documentation of ticks<T> states -
    [resize] -> every row from [offset], otherwise as many ticks as the vector holds *)
Theorem frame_ticks_count : forall fs fo ci col rs vs off l fr, frame_of fs fo = Ok fr -> 0 <= vs ->
  frame_ticks true fs fo ci col rs vs off = Ok l ->
  zlen l = if rs then fr_rows fr - off else vs.
Proof.
  intros fs fo ci col rs vs off l fr F V. unfold frame_ticks. rewrite F. cbn [bind].
  destruct (pick_col ci col); [|discriminate]. destruct (nth_col fr z); [|discriminate].
  destruct rs.
  - destruct (Z.ltb_spec (fr_rows fr) off); [discriminate|]. intros X. inversion X. unfold zlen. rewrite cells_length. lia.
  - destruct ((0 <? vs) && (fr_rows fr <? off + vs)); [discriminate|]. intros X. inversion X. unfold zlen. rewrite cells_length. lia.
Qed.

(** /repo HEAD: a column index equal to the number of columns is accepted; ticks<T> ignores [resize] *)
Definition cells_len (r : res ans) : Z := match r with Ok (ACells l) => zlen l | _ => -1 end.

Lemma frame_col_refuted :
  is_ok_ans (snd (dstep code_head (AppendFrameIdx (FOrd 0) 2) w_init)) = true /\
  is_ok_ans (snd (dstep code_head (FQuery 1 QLabel None) (dfinal code_head [AppendFrameIdx (FOrd 0) 2] w_init))) = false /\
  is_ok_ans (snd (dstep repaired (AppendFrameIdx (FOrd 0) 2) w_init)) = false /\
  is_ok_ans (snd (dstep repaired (AppendFrameIdx (FOrd 0) 1) w_init)) = true.
Proof. vm_compute. repeat split; reflexivity. Qed.

(** REMARK (documentation discrepancy, not an obligation): with resize = false and a vector of one element the code
    returns both rows, the documented rule would return one *)
Definition ticks_len (r : res (list cellv)) : Z := match r with Ok l => zlen l | _ => -1 end.
Lemma ticks_documented_rule_differs :
  cells_len (snd (dstep repaired (FTicks 1 None false 1 0) (dfinal repaired [AppendFrameIdx (FOrd 0) 1] w_init))) = 2 /\
  ticks_len (frame_ticks false [w_frame] (Some 0%nat) (Some 1) None false 1 0) = 2 /\
  ticks_len (frame_ticks true [w_frame] (Some 0%nat) (Some 1) None false 1 0) = 1.
Proof. vm_compute. repeat split; reflexivity. Qed.
