(** C09 — File open modes: ReadOnly never writes, ReadWrite preserves, Overwrite empties; a missing path in
    ReadOnly mode and every file without the NIX format / version / id header is refused.
    Statements only; each closed by [exact].  The model ([Modes.v]) follows [File::open] and the [FileHDF5]
    constructor statement by statement over [checkHeader] of C10 (whose version operators are regenerated from
    the source on every run).  All statements hold for EVERY content type, mutator set and file system. *)
From Coq Require Import ZArith Bool String List.
Require Import NixV.Base.Prelude NixV.Gen.GenVersion NixV.Gen.GenTables NixV.FileIO.Version
               NixV.FileIO.Modes NixV.FileIO.ModesProofs NixV.FileIO.Tree NixV.FileIO.Script.
Import ListNotations.
Local Open Scope string_scope.

Section C09.
  Variables content mut val : Type.
  Variable empty : content.
  Variable apply : mut -> content -> res (content * val).
  Variable cls : mut -> mclass.
  Variable unlink_checked : bool.

  Notation fsys := (fsys content).
  Notation file_open := (file_open content empty).
  Notation whole_session := (whole_session content mut val empty apply cls unlink_checked).

  (** ReadOnly: for every file system, every path, both compression defaults, with or without Force and every
      list of operations (mutating calls, reads, flushes) a whole session leaves the file system EXACTLY as it
      was; and every mutating call in it fails with an exception, provided the library looks at the failing
      HDF5 write of each call (class MChecked, or H5Group::removeGroup checks its unlink) *)
  Theorem C09_ro_no_write : forall (s : fsys) name comp force ops s' outs,
    whole_session s name ReadOnly comp force ops = Ok (s', outs) ->
    s' = s /\
    ((forall m, In (SMut m) ops -> cls m = MChecked \/ unlink_checked = true) ->
     (forall m c w, apply m c <> UB w) ->
     Forall2 (mut_failed mut val) ops outs).
  Proof. exact (ro_no_write content mut val empty apply cls unlink_checked). Qed.

  (** the constructor itself performs no write on a file the library produced: it comes back unchanged, the
      session shows the file's own tree *)
  Theorem C09_ro_open_no_write : forall (s : fsys) name f comp force,
    s name = Some (H5 f) -> lib_produced content f = true ->
    file_open s name ReadOnly comp force = Ok (s, mkSess content name ReadOnly (resolve_comp comp) f).
  Proof. exact (ro_open_no_write content empty). Qed.

  (** ReadWrite opens an existing file with all prior content intact, and a session without mutating call
      leaves every path as it was *)
  Theorem C09_rw_preserves : forall (s : fsys) name f comp force ops s' outs,
    s name = Some (H5 f) -> lib_produced content f = true -> Forall (no_mut mut) ops ->
    file_open s name ReadWrite comp force = Ok (s, mkSess content name ReadWrite (resolve_comp comp) f) /\
    (whole_session s name ReadWrite comp force ops = Ok (s', outs) -> forall q, s' q = s q).
  Proof. exact (rw_preserves content mut val empty apply cls unlink_checked). Qed.

  (** ... and creates it if absent: an empty, complete NIX file (the session reports mode Overwrite) *)
  Theorem C09_rw_creates : forall (s : fsys) name comp force,
    s name = None ->
    exists s1 ss, file_open s name ReadWrite comp force = Ok (s1, ss) /\
      s_mode _ ss = Overwrite /\ s_img _ ss = fresh_file content empty /\
      close content s1 ss name = Some (H5 (fresh_file content empty)) /\
      (forall q, q <> name -> close content s1 ss q = s q).
  Proof. exact (rw_creates content empty). Qed.

  (** Overwrite: for EVERY prior content of the path an empty tree, a header that passes checkHeader in every
      mode, and a file that reopens in every mode *)
  Theorem C09_overwrite_empty_valid : forall (s : fsys) name comp force,
    exists s1 ss, file_open s name Overwrite comp force = Ok (s1, ss) /\
      s_mode _ ss = Overwrite /\ s_img _ ss = fresh_file content empty /\ f_tree _ (s_img _ ss) = empty /\
      close content s1 ss name = Some (H5 (fresh_file content empty)) /\
      (forall q, q <> name -> close content s1 ss q = s q) /\
      hdr_complete (f_hdr _ (fresh_file content empty)) = true /\
      (forall mode thr, checkHeader (f_hdr _ (fresh_file content empty)) mode thr = Ok true) /\
      (forall mode comp' force', exists s2 ss2,
          file_open (close content s1 ss) name mode comp' force' = Ok (s2, ss2) /\ f_tree _ (s_img _ ss2) = empty).
  Proof. exact (overwrite_empty_valid content mut val empty apply cls unlink_checked). Qed.

  Theorem C09_ro_missing_refused : forall (s : fsys) name comp force,
    s name = None -> file_open s name ReadOnly comp force = Err "std::runtime_error".
  Proof. exact (ro_missing_refused content empty). Qed.

  (** every header defect, ReadOnly and ReadWrite: an error, no session *)
  Theorem C09_bad_header_refused : forall (s : fsys) name fc mode comp,
    s name = Some fc -> lacks_header content fc = true -> mode <> Overwrite ->
    exists e, file_open s name mode comp false = Err e.
  Proof. exact (bad_header_refused content empty). Qed.

  Theorem C09_refused_missing_format : forall (s : fsys) name f mode comp,
    s name = Some (H5 f) -> h_format (f_hdr _ f) = None -> mode <> Overwrite ->
    exists e, file_open s name mode comp false = Err e.
  Proof. exact (refused_missing_format content empty). Qed.

  Theorem C09_refused_wrong_format : forall (s : fsys) name f fmt mode comp,
    s name = Some (H5 f) -> h_format (f_hdr _ f) = Some fmt -> fmt <> FILE_FORMAT -> mode <> Overwrite ->
    exists e, file_open s name mode comp false = Err e.
  Proof. exact (refused_wrong_format content empty). Qed.

  Theorem C09_refused_missing_version : forall (s : fsys) name f mode comp,
    s name = Some (H5 f) -> h_version (f_hdr _ f) = None -> mode <> Overwrite ->
    exists e, file_open s name mode comp false = Err e.
  Proof. exact (refused_missing_version content empty). Qed.

  Theorem C09_refused_missing_id : forall (s : fsys) name f x y z mode comp,
    s name = Some (H5 f) -> h_id (f_hdr _ f) = None -> h_version (f_hdr _ f) = Some [x; y; z] ->
    lexltb (MkFormatVersion x y z) (MkFormatVersion 1 2 0) = false -> mode <> Overwrite ->
    exists e, file_open s name mode comp false = Err e.
  Proof. exact (refused_missing_id content empty). Qed.

  Theorem C09_refused_plain_hdf5 : forall (s : fsys) name f mode comp,
    s name = Some (H5 f) -> f_hdr _ f = {| h_format := None; h_version := None; h_id := None |} -> mode <> Overwrite ->
    exists e, file_open s name mode comp false = Err e.
  Proof. exact (refused_plain_hdf5 content empty). Qed.

  (** a non-HDF5 file (text, empty file) is refused also with Force *)
  Theorem C09_refused_not_hdf5 : forall (s : fsys) name mode comp force,
    s name = Some NotH5 -> mode <> Overwrite -> file_open s name mode comp force = Err "nix::hdf5::H5Exception".
  Proof. exact (refused_not_hdf5 content empty). Qed.


  (** a refused open changes nothing on disk — except that HDF5 has initialised a zero-length file that was
      opened for writing before checkHeader refused it; a refused ReadOnly open never changes anything *)
  Theorem C09_refused_open_fs : forall (s : fsys) name mode comp force e,
    file_open s name mode comp force = Err e ->
    file_open_fs content empty s name mode comp force = (fopen_init content empty s name mode, Err e) /\
    (mode = ReadOnly \/ s name <> Some EmptyFile -> fopen_init content empty s name mode = s).
  Proof. exact (refused_open_fs content empty). Qed.

  (** a zero-length file is refused in ReadOnly and ReadWrite mode; only ReadWrite + Force opens it *)
  Theorem C09_empty_file : forall (s : fsys) name comp,
    s name = Some EmptyFile ->
    (forall mode force, mode <> Overwrite -> (mode = ReadOnly \/ force = false) ->
        exists e, file_open s name mode comp force = Err e) /\
    file_open s name ReadWrite comp true =
      Ok (upd content s name (H5 (blank content empty)),
          mkSess content name ReadWrite (resolve_comp comp) (mkH5 content (f_hdr _ (blank content empty)) true true true true empty)).
  Proof. exact (empty_file_opens content empty). Qed.


  (** a library-shaped file with a complete header of ANY format version opens (unchanged) exactly when the
      version gate of C10 lets its version through; otherwise InvalidFile *)
  Theorem C09_open_complete_header : forall (s : fsys) name f x y z mode comp,
    s name = Some (H5 f) -> hdr_complete (f_hdr _ f) = true -> h_version (f_hdr _ f) = Some [x; y; z] ->
    shaped content f = true -> mode <> Overwrite ->
    file_open s name mode comp false =
      if gate_specb x y z mode false then Ok (s, mkSess content name mode (resolve_comp comp) f)
      else Err "nix::InvalidFile".
  Proof. exact (open_complete_header content empty). Qed.

  (** exactly what Force does: ReadWrite opens ANY HDF5 file (header left defective, missing groups and time
      stamps created); ReadOnly opens it only when nothing has to be created *)
  Theorem C09_force_rw : forall (s : fsys) name f comp,
    s name = Some (H5 f) -> (forall vv, h_version (f_hdr _ f) = Some vv -> List.length vv = 3%nat) ->
    file_open s name ReadWrite comp true =
      Ok (s, mkSess content name ReadWrite (resolve_comp comp) (mkH5 content (f_hdr _ f) true true true true (f_tree _ f))).
  Proof. exact (force_opens_defective_rw content empty). Qed.

  Theorem C09_force_ro : forall (s : fsys) name f comp,
    s name = Some (H5 f) -> (forall vv, h_version (f_hdr _ f) = Some vv -> List.length vv = 3%nat) ->
    if f_meta _ f && f_data _ f && f_cat _ f && f_uat _ f
    then file_open s name ReadOnly comp true = Ok (s, mkSess content name ReadOnly (resolve_comp comp) f)
    else file_open s name ReadOnly comp true = Err "nix::hdf5::H5Exception".
  Proof. exact (force_opens_defective_ro content empty). Qed.

  (** the extracted pointwise specification (the oracle of the correspondence run) is met by the model on
      every input *)
  Theorem C09_open_meets_spec : forall (s : fsys) name mode comp force,
    meets content (file_open s name mode comp force) (open_spec content empty (s name) mode force).
  Proof. exact (open_meets_spec content mut val empty apply cls unlink_checked). Qed.

  (** "every mutating call fails" needs the checked unlink: while H5Group::removeGroup ignores the result of
      H5Gunlink, a mutating call whose only write is that unlink returns normally from a ReadOnly session and
      one that first empties a container by such unlinks never returns *)
  Theorem C09_ro_unchecked_unlink_refuted : forall (ss : session content) m c v,
    unlink_checked = false -> is_ro (s_mode _ ss) = true -> apply m (f_tree _ (s_img _ ss)) = Ok (c, v) ->
    (cls m = MUnlinkOnly -> mutate content mut val apply cls unlink_checked ss m = Ok (ss, v)) /\
    (cls m = MUnlinkLoop -> exists w, mutate content mut val apply cls unlink_checked ss m = UB w).
  Proof. exact (ro_unlink_unchecked content mut val apply cls unlink_checked). Qed.

  (** OPEN FINDING (known-findings.json, C09 second-file / ro-while-rw-open): for a SECOND File object on a path the
      same process has open ReadWrite, "every mutating call on a ReadOnly File fails" is refuted — HDF5 decides by the
      intent of the first open: the ReadOnly open succeeds, reports ReadOnly, and the call is accepted and changes the
      shared image.  [C09_ro_no_write] is the statement for a File that is the only one of its process on the path
      (the partial statement); the other order is refused. *)
  Theorem C09_second_ro_file_refuted : forall (ss : session content) m c v comp,
    is_ro (s_mode _ ss) = false ->
    checkHeader (f_hdr _ (s_img _ ss)) ReadOnly true = Ok true ->
    apply m (f_tree _ (s_img _ ss)) = Ok (c, v) ->
    second_open content ss ReadOnly comp false = Ok (ReadOnly, resolve_comp comp) /\
    mutate_second content mut val apply cls unlink_checked ss m = Ok (set_tree content ss c, v).
  Proof. exact (second_ro_file_accepts_refuted content mut val apply cls unlink_checked). Qed.

  Theorem C09_second_rw_after_ro_refused : forall (ss : session content) mode comp force,
    is_ro (s_mode _ ss) = true -> mode <> ReadOnly ->
    second_open content ss mode comp force = Err "nix::hdf5::H5Exception".
  Proof. exact (second_rw_after_ro_refused content). Qed.
End C09.

(** the section is closed: every theorem above is now quantified over content, mutators and file systems *)
Print Assumptions C09_ro_no_write.
Print Assumptions C09_ro_open_no_write.
Print Assumptions C09_rw_preserves.
Print Assumptions C09_rw_creates.
Print Assumptions C09_overwrite_empty_valid.
Print Assumptions C09_ro_missing_refused.
Print Assumptions C09_bad_header_refused.
Print Assumptions C09_refused_missing_format.
Print Assumptions C09_refused_wrong_format.
Print Assumptions C09_refused_missing_version.
Print Assumptions C09_refused_missing_id.
Print Assumptions C09_refused_plain_hdf5.
Print Assumptions C09_refused_not_hdf5.
Print Assumptions C09_refused_open_fs.
Print Assumptions C09_empty_file.
Print Assumptions C09_open_complete_header.
Print Assumptions C09_force_rw.
Print Assumptions C09_force_ro.
Print Assumptions C09_open_meets_spec.
Print Assumptions C09_ro_unchecked_unlink_refuted.
Print Assumptions C09_second_ro_file_refuted.
Print Assumptions C09_second_rw_after_ro_refused.


(** the header check used by the model and all gate theorems is the function regenerated from
    backend/hdf5/FileHDF5.cpp on every run *)
Require NixV.FileIO.HeaderBridge NixV.Gen.GenFile.
Theorem C09_checkHeader_is_generated : forall h m throw_error,
  NixV.FileIO.Version.checkHeader h m throw_error =
  NixV.Gen.GenFile.checkHeader (NixV.FileIO.HeaderBridge.mode_of m) throw_error (NixV.FileIO.HeaderBridge.attrs_of h)
    NixV.FileIO.Version.my_version NixV.FileIO.Version.my_version.
Proof. exact NixV.FileIO.HeaderBridge.checkHeader_is_generated. Qed.
Print Assumptions C09_checkHeader_is_generated.

(** non-vacuity on the instance the scripts run (small tree, named mutators of the public API): a read-only
    session on a library-produced file opens; a checked mutator fails in it; an unlink-only mutator fails
    exactly when the unlink is checked; Overwrite empties; a header without format is refused. *)
Example C09_nonvacuous :
  let f := mkH5 tree lib_header true true true true (mkTree [mkBlk "b" 0 []] []) in
  let s : fsys tree := fun p => if String.eqb p "f" then Some (H5 f) else None in
  let outs uc m := match whole_session tree smut Z empty_tree s_apply s_cls uc s "f" ReadOnly CompAuto false [SMut (MNamed m)] with
                   | Ok (_, [Some (Err _)]) => 1 | Ok (_, [Some (Ok _)]) => 2 | Ok (_, [Some (UB _)]) => 3 | _ => 0 end in
  outs true "File.createBlock" = 1 /\ outs false "File.createBlock" = 1 /\
  outs true "Tag.removeReference.id" = 1 /\ outs false "Tag.removeReference.id" = 2 /\
  outs true "Group.tags.vector" = 1 /\ outs false "Group.tags.vector" = 3 /\
  (exists s1 ss, file_open tree empty_tree s "f" Overwrite CompNone false = Ok (s1, ss) /\ f_tree _ (s_img _ ss) = empty_tree) /\
  (exists e, file_open tree empty_tree
       (fun _ => Some (H5 (mkH5 tree {| h_format := None; h_version := h_version lib_header; h_id := Some "x" |} true true true true empty_tree)))
       "f" ReadWrite CompNone false = Err e).
Proof. vm_compute. repeat split; eauto. Qed.
