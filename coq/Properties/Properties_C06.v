(** C06 — MultiTag retrieval returns exactly region i for position index i.
    Model: Access/Retrieval.v (getOffsetAndCount(MultiTag ...) with its three phases, taggedData, featureData).
    Specification: Access/RetrievalSpec.v ([mtag_wants]: row i of positions / extents; [region_is]; [spec_answer_mtag]).
    Proofs: Access/RetrievalMTag.v (the list retrieval is judged index by index), RetrievalProofs.v, RetrievalClosed.v.

    [repaired] / [repaired_except_pinned] / the pinned defect: see Properties_C05.v.  [mtag_ok], [mtag_index_ok]
    are the domain of the statement (decidable, checked by the extracted oracle). *)
From Coq Require Import ZArith Bool String List.
Require NixV.Gen.GenAccess NixV.Access.AccessBridgeModels NixV.Gen.GenPairs NixV.Axis.PairBridge NixV.Axis.RangeModel NixV.Gen.GenScale NixV.Access.ScaleBridge.
Require Import NixV.Base.Prelude NixV.Base.F64 NixV.Gen.GenDimensions.
Require Import NixV.Access.Retrieval NixV.Access.RetrievalSpec NixV.Access.RetrievalAxis NixV.Access.RetrievalDomain
               NixV.Access.RetrievalAssemble NixV.Access.RetrievalTag NixV.Access.RetrievalMTag
               NixV.Access.RetrievalProofs NixV.Access.RetrievalClosed.
Import ListNotations.
Local Open Scope Z_scope.

(** retrieval for position index i returns exactly the region whose start is row i of the positions array and
    whose size is row i of the extents array *)
Theorem mtag_exact mt a m i off cnt : mtag_ok mt a -> mtag_index_ok mt a i ->
  (taggedData_mtag1 repaired mt i a m = Ok (off, cnt) <-> mtag_region (incl_of m) mt a i off cnt).
Proof. exact (mtag_exact_c mt a m i off cnt). Qed.
Print Assumptions mtag_exact.

Theorem mtag_exact_partial mt a m i off cnt : mtag_ok mt a -> mtag_not_pinned mt a m -> mtag_index_ok mt a i ->
  (taggedData_mtag1 repaired_except_pinned mt i a m = Ok (off, cnt) <-> mtag_region (incl_of m) mt a i off cnt).
Proof. exact (mtag_exact_partial_c mt a m i off cnt). Qed.
Print Assumptions mtag_exact_partial.

Theorem mtag_exact_refuted :
  exists mt a m i off cnt, mtag_ok mt a /\ mtag_index_ok mt a i /\
    taggedData_mtag1 repaired_except_pinned mt i a m = Ok (off, cnt) /\
    ~ mtag_region (incl_of m) mt a i off cnt.
Proof. exact RetrievalProofs.mtag_exact_refuted. Qed.
Print Assumptions mtag_exact_refuted.

(** retrieval for a list of indices equals the list of the single retrievals *)
Theorem mtag_list_is_map mt a m idxs : mtag_ok mt a -> mtag_not_pinned mt a m ->
  idxs <> [] -> (forall i, In i idxs -> mtag_index_ok mt a i) ->
  taggedData_mtag repaired_except_pinned mt idxs a m =
  mapM (fun i => taggedData_mtag1 repaired_except_pinned mt i a m) idxs.
Proof. exact (mtag_list_is_map_c mt a m idxs). Qed.
Print Assumptions mtag_list_is_map.

Theorem mtag_list_is_map_full mt a m idxs : mtag_ok mt a ->
  idxs <> [] -> (forall i, In i idxs -> mtag_index_ok mt a i) ->
  taggedData_mtag repaired mt idxs a m = mapM (fun i => taggedData_mtag1 repaired mt i a m) idxs.
Proof. exact (mtag_list_is_map_full_c mt a m idxs). Qed.
Print Assumptions mtag_list_is_map_full.

(** the empty list stands for all positions (and is the empty list of views when there are none) *)
Theorem mtag_all_positions mt a m : mtag_ok mt a -> mtag_not_pinned mt a m ->
  (forall i, 0 <= i < mtag_npos mt -> mtag_index_ok mt a i) ->
  taggedData_mtag repaired_except_pinned mt [] a m =
  mapM (fun i => taggedData_mtag1 repaired_except_pinned mt i a m) (ziota (mtag_npos mt)).
Proof. exact (mtag_all_positions_c mt a m). Qed.
Print Assumptions mtag_all_positions.

(** an index beyond the number of positions raises an out-of-bounds error *)
Theorem mtag_index_oob mt a m i : mtag_ok mt a -> mtag_not_pinned mt a m ->
  0 <= i -> mtag_npos mt <= i -> taggedData_mtag1 repaired_except_pinned mt i a m = Err E_OutOfBounds.
Proof. exact (mtag_index_oob_c mt a m i). Qed.
Print Assumptions mtag_index_oob.

(** no undefined behaviour on an empty index list; the pinned code has it (witness) *)
Theorem mtag_empty_list_defined mt a m : dims_dom (a_dims a) (a_shape a) = true ->
  getOffsetAndCount_mtag repaired_except_pinned mt a [] m = Ok [].
Proof. exact (RetrievalProofs.mtag_empty_list_defined mt a m). Qed.
Print Assumptions mtag_empty_list_defined.

Theorem mtag_empty_list_today : exists mt a m, dims_dom (a_dims a) (a_shape a) = true /\
  is_ub (getOffsetAndCount_mtag code_today mt a [] m) = true.
Proof. exact RetrievalProofs.mtag_empty_list_today. Qed.
Print Assumptions mtag_empty_list_today.

(** indexed features return slice i along the first dimension *)
Theorem mtag_feature_indexed B mt f i m s0 rest :
  f_link f = LIndexed -> a_shape (f_data f) = s0 :: rest ->
  0 <= i < two64 - 1 -> 0 <= s0 < two64 -> (forall s, In s rest -> 1 <= s < two64) ->
  n_shape (m_pos mt) <> [] ->
  featureData_mtag_feat B mt [i] f m =
  if (i <? mtag_npos mt) && (i <? s0) then Ok [(i :: zrepeat 0 (zlen rest), 1 :: rest)] else Err E_OutOfBounds.
Proof. exact (RetrievalProofs.mtag_feature_indexed B mt f i m s0 rest). Qed.
Print Assumptions mtag_feature_indexed.

(** tagged features are cut like references, untagged features are returned whole (for every listed position) *)
Theorem mtag_feature_dispatch B mt idxs f m : idxs <> [] ->
  featureData_mtag_feat B mt idxs f m =
  match f_link f with
  | LTagged => taggedData_mtag B mt idxs (f_data f) m
  | LUntagged =>
      bind (nd_at (n_shape (m_pos mt)) 0) (fun n0 =>
      if zmax_list idxs >=? n0 then Err E_OutOfBounds else mapM (fun _ => whole (f_data f)) idxs)
  | LIndexed =>
      bind (nd_at (n_shape (m_pos mt)) 0) (fun n0 =>
      if zmax_list idxs >=? n0 then Err E_OutOfBounds else mapM (indexed_slice (f_data f)) idxs)
  end.
Proof. exact (RetrievalProofs.mtag_feature_dispatch B mt idxs f m). Qed.
Print Assumptions mtag_feature_dispatch.

(** the repaired model answers what the extracted oracle answers for position index i *)
Theorem mtag_meets_oracle mt a m i : mtag_not_pinned mt a m -> 0 <= i ->
  match spec_answer_mtag (incl_of m) mt a i with
  | Region oc => taggedData_mtag1 repaired_except_pinned mt i a m = Ok oc
  | Refuse => taggedData_mtag1 repaired_except_pinned mt i a m = Err E_OutOfBounds
  | Unconstrained => True
  end.
Proof. exact (mtag_meets_oracle_c mt a m i). Qed.
Print Assumptions mtag_meets_oracle.

Theorem mtag_meets_oracle_full mt a m i : 0 <= i ->
  match spec_answer_mtag (incl_of m) mt a i with
  | Region oc => taggedData_mtag1 repaired mt i a m = Ok oc
  | Refuse => taggedData_mtag1 repaired mt i a m = Err E_OutOfBounds
  | Unconstrained => True
  end.
Proof. exact (mtag_meets_oracle_full_c mt a m i). Qed.
Print Assumptions mtag_meets_oracle_full.

(** the list-level oracles: taggedData for an index list (empty list = all positions) answers what [spec_mtag_views]
    answers; both are silent outside the domain of the multi-tag / array pair - also for an empty list *)
Theorem mtag_views_meet_oracle mt a m idxs : mtag_not_pinned mt a m -> (forall i, In i idxs -> 0 <= i) ->
  match spec_mtag_views (incl_of m) mt a idxs with
  | Region vs => taggedData_mtag repaired_except_pinned mt idxs a m = Ok (map strip vs)
  | Refuse => taggedData_mtag repaired_except_pinned mt idxs a m = Err E_OutOfBounds
  | Unconstrained => True
  end.
Proof. exact (mtag_views_meet_oracle_c mt a m idxs). Qed.
Print Assumptions mtag_views_meet_oracle.

(** getOffsetAndCount on an empty index list: "no results" inside the domain, not judged outside it *)
Theorem mtag_offcnts_empty_oracle mt a m :
  match spec_mtag_offcnts (incl_of m) mt a [] with
  | Region vs => vs = [] /\ getOffsetAndCount_mtag repaired_except_pinned mt a [] m = Ok []
  | Refuse => False
  | Unconstrained => mtag_array_dom mt a = false
  end.
Proof. exact (RetrievalProofs.mtag_offcnts_empty_oracle mt a m). Qed.
Print Assumptions mtag_offcnts_empty_oracle.

(** non-vacuity: three positions with extents on a sampled x range array, retrieved as a list *)
Example mtag_list_nonvacuous :
  mtag_ok ex_mtag ex_array /\ mtag_not_pinned ex_mtag ex_array RangeMatch_Exclusive /\
  taggedData_mtag repaired_except_pinned ex_mtag [0; 1; 2] ex_array RangeMatch_Exclusive
  = Ok [([2; 1], [4; 1]); ([4; 0], [2; 2]); ([8; 2], [1; 1])] /\
  mtag_region (incl_of RangeMatch_Exclusive) ex_mtag ex_array 1 [4; 0] [2; 2].
Proof. exact RetrievalClosed.mtag_list_nonvacuous. Qed.
Print Assumptions mtag_list_nonvacuous.

(** The window test applied to every retrieved region is the code regenerated from src/util/dataAccess.cpp on this run *)
Theorem C06_window_test_is_generated : forall shape position count, (List.length shape < 200)%nat ->
  NixV.Gen.GenAccess.positionAndExtentInData position count shape
  = Ok (Retrieval.positionAndExtentInData shape position count).
Proof. exact NixV.Access.AccessBridgeModels.retrieval_extent_test_is_generated. Qed.
Print Assumptions C06_window_test_is_generated.

(** The start/end pair conversion of every dimension kind is the code regenerated from src/Dimensions.cpp on this run *)
Theorem C06_pair_conversion_is_generated : forall d m s e,
  Retrieval.indexOf_pair d m s e =
  match d with
  | Retrieval.DSampled dt off _ => NixV.Gen.GenPairs.sampled_pair s e dt (Retrieval.offset_or_zero off) m
  | Retrieval.DRange ticks _ => NixV.Axis.PairBridge.pair_rule (fun p r => NixV.Axis.RangeModel.getIndex p ticks r) true m s e
  | Retrieval.DSet n => NixV.Axis.PairBridge.pair_rule (fun p r => getSetIndex p (Retrieval.labels_of n) r) false m s e
  | Retrieval.DFrame n => NixV.Gen.GenPairs.df_pair s e n m
  end.
Proof. exact NixV.Axis.PairBridge.retrieval_pair_is_generated. Qed.
Print Assumptions C06_pair_conversion_is_generated.

(** scalePositions of the model is the code regenerated from src/util/dataAccess.cpp on this run *)
Theorem C06_scalePositions_is_generated : forall starts ends units dun out_s out_e,
  (Nat.min (List.length starts) (List.length ends) < 200)%nat ->
  NixV.Gen.GenScale.scalePositions_gen starts ends units dun out_s out_e Retrieval.getSIScaling
  = Retrieval.scalePositions starts ends units dun.
Proof. exact NixV.Access.ScaleBridge.scalePositions_generated. Qed.
Print Assumptions C06_scalePositions_is_generated.

(** OPEN OBLIGATION while the defects of DESIGN section 9 items 4, 19, 28, 31 are in the tree (see Properties_C05.v) *)
Theorem current_is_repaired : current_behaviour = repaired_except_pinned.
Proof. reflexivity. Qed.
