(** C11 — After close or flush the file on disk is complete and released.
    Statements only; each closed by [exact].  Part 1 ([Close.v]): the HDF5 identifier table of the open file,
    handle copies as reference counts, [FileHDF5::close] literally.  Part 2: durability over the sessions of
    [Modes.v] (flush, close, kill, reopen).  What is NOT proved but exercised by the kill harness: that the
    kernel and HDF5 really put the flushed bytes on disk. *)
From Coq Require Import ZArith Bool String List.
Require Import NixV.Base.Prelude NixV.Gen.GenVersion NixV.Gen.GenTables NixV.FileIO.Version
               NixV.FileIO.Modes NixV.FileIO.ModesProofs NixV.FileIO.Close NixV.FileIO.CloseProofs
               NixV.FileIO.Tree NixV.FileIO.Script.
Import ListNotations.
Local Open Scope string_scope.
Local Open Scope Z_scope.

(** the invariant [FileHDF5::close] relies on — attribute ids are open only inside a call, the file id has
    exactly one reference, ids are unique and positive — holds after EVERY history of handle operations
    (open an entity, copy / drop a handle, call through it, cached getters, close) *)
Theorem C11_reachable_invariant : forall ops, inv (hrun opened ops).
Proof. exact reachable_inv. Qed.
Print Assumptions C11_reachable_invariant.

(** close releases: for EVERY population of live handles (any number, any kind, copied any number of times,
    after any calls) no id of the file has a positive count once close() has returned *)
Theorem C11_close_releases : forall ops,
  tab (fclose (hrun opened ops)) = [] /\ open_ids (fclose (hrun opened ops)) = 0.
Proof. exact close_releases. Qed.
Print Assumptions C11_close_releases.

(** the object-closing loop removes exactly the group / dataset / datatype ids whatever their counts *)
Theorem C11_close_loop_spec : forall t, wf t -> close_objects t = nonobj t.
Proof. exact close_objects_spec. Qed.
Print Assumptions C11_close_loop_spec.

(** after close, every call through a handle obtained earlier fails with an exception and changes nothing —
    immediately or after any further handle operations; getters answered from the handle still answer *)
Theorem C11_handles_fail_after_close : forall ops later id,
  let st := hrun (fclose (hrun opened ops)) later in
  hstep st (HCall id) = (st, Err "nix::hdf5::H5Exception") /\
  hstep st (HCached id) = (st, Ok 0) /\
  tab st = [].
Proof. exact handles_fail_after_close. Qed.
Print Assumptions C11_handles_fail_after_close.

Theorem C11_stale_drop_harmless : forall ops id, tab (fst (hstep (fclose (hrun opened ops)) (HDrop id))) = [].
Proof. exact stale_drop_harmless. Qed.
Print Assumptions C11_stale_drop_harmless.

(** closing each listed id only once would leave a copied handle's id (and the file) open *)
Theorem C11_close_once_refuted :
  exists ops, tab (fclose_once (hrun opened ops)) <> [] /\ tab (fclose (hrun opened ops)) = [].
Proof. exact close_once_refuted. Qed.
Print Assumptions C11_close_once_refuted.

(** the invariant is needed: an attribute id open across calls would survive close() *)
Theorem C11_close_needs_invariant :
  exists st, wf (tab st) /\ valid (tab st) (fid (fo st)) = true /\ tab (fclose st) <> [].
Proof. exact close_needs_no_open_attribute. Qed.
Print Assumptions C11_close_needs_invariant.

Section C11.
  Variables content mut val : Type.
  Variable empty : content.
  Variable apply : mut -> content -> res (content * val).
  Variable cls : mut -> mclass.
  Variable unlink_checked : bool.
  Notation drun := (drun content mut val empty apply cls unlink_checked).
  Notation observe := (observe content).

  (** flush; any reads; kill; reopen (ReadOnly or ReadWrite, any flags) observes what was observed before *)
  Theorem C11_flush_then_kill : forall (st : dstate content) ss reads mode comp force,
    d_sess _ st = Some ss -> lib_produced content (s_img _ ss) = true ->
    (is_ro (s_mode _ ss) = true -> d_fs _ st (s_path _ ss) = Some (H5 (s_img _ ss))) ->
    Forall (is_read mut) reads -> mode <> Overwrite ->
    observe (drun st (DFlush :: reads ++ [DKill; DOpen (s_path _ ss) mode comp force])) = observe st.
  Proof. exact (flush_then_kill content mut val empty apply cls unlink_checked). Qed.

  Theorem C11_close_then_kill : forall (st : dstate content) ss mode comp force,
    d_sess _ st = Some ss -> lib_produced content (s_img _ ss) = true ->
    (is_ro (s_mode _ ss) = true -> d_fs _ st (s_path _ ss) = Some (H5 (s_img _ ss))) ->
    mode <> Overwrite ->
    observe (drun st [DClose; DKill; DOpen (s_path _ ss) mode comp force]) = observe st.
  Proof. exact (close_then_kill content mut val empty apply cls unlink_checked). Qed.

  (** ... and in Overwrite mode the reopen succeeds too (showing the empty tree) *)
  Theorem C11_reopen_overwrite_after : forall (st : dstate content) name comp force,
    d_sess _ st = None -> observe (drun st [DOpen name Overwrite comp force]) = Some empty.
  Proof. exact (reopen_overwrite_after content mut val empty apply cls unlink_checked). Qed.

  (** the provided-clause is necessary: a mutation after the last flush is seen by the writer and lost by
      the kill *)
  Theorem C11_kill_without_flush_may_lose : forall (st : dstate content) ss ss' m v mode comp force,
    d_sess _ st = Some ss -> lib_produced content (s_img _ ss) = true -> is_ro (s_mode _ ss) = false ->
    mutate content mut val apply cls unlink_checked ss m = Ok (ss', v) ->
    f_tree _ (s_img _ ss') <> f_tree _ (s_img _ ss) -> mode <> Overwrite ->
    let before_kill := drun st [DFlush; DMut m] in
    let after := drun before_kill [DKill; DOpen (s_path _ ss) mode comp force] in
    observe before_kill = Some (f_tree _ (s_img _ ss')) /\
    observe after = Some (f_tree _ (s_img _ ss)) /\
    observe after <> observe before_kill.
  Proof. exact (kill_without_flush_may_lose content mut val empty apply cls unlink_checked). Qed.
End C11.
Print Assumptions C11_flush_then_kill.
Print Assumptions C11_close_then_kill.
Print Assumptions C11_reopen_overwrite_after.
Print Assumptions C11_kill_without_flush_may_lose.

(** non-vacuity on the instance the scripts run: a real history with copied handles closes to the empty
    table; a stale call fails; a block created after the last flush is lost by a kill, one created before is
    kept. *)
Example C11_nonvacuous :
  let h := hrun opened [HOpen OGroup; HCopy 4; HCopy 4; HOpen ODataset; HCall 4; HDrop 4] in
  open_ids h = 6 /\ open_ids (fclose h) = 0 /\
  snd (hstep h (HCall 4)) = Ok 0 /\ snd (hstep (fclose h) (HCall 4)) = Err "nix::hdf5::H5Exception" /\
  let run := drun tree smut Z empty_tree s_apply s_cls true in
  let st0 := mkD tree (fun _ => None) None in
  let blocks ops := match observe tree (run st0 ops) with Some t => n_blocks t | None => -1 end in
  blocks [DOpen "f" ReadWrite CompNone false; DMut (MContent (TBlk "a")); DFlush; DKill; DOpen "f" ReadOnly CompNone false] = 1 /\
  blocks [DOpen "f" ReadWrite CompNone false; DMut (MContent (TBlk "a")); DFlush; DMut (MContent (TBlk "b"))] = 2 /\
  blocks [DOpen "f" ReadWrite CompNone false; DMut (MContent (TBlk "a")); DFlush; DMut (MContent (TBlk "b")); DKill;
          DOpen "f" ReadOnly CompNone false] = 1.
Proof. vm_compute. repeat split; reflexivity. Qed.
