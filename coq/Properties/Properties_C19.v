(** C19 — Validator accepts every rule-conforming file and flags every hard-rule breach.
    Statements only; each closed by [exact].

    [validate isSI isCompound isScalable vt vp] is the model of File::validate (Valid/Validator.v),
    with the three functions of util.cpp the validator calls as parameters and the two variants
    [vt] (tagUnitsMatchRefsUnits) and [vp] (Property unit rule): [AsPinned] mirrors the pinned
    tree, [Repaired] the tree after notes/proposed-fixes/C19-*.patch.  The model of the *current*
    working tree is [validate_current] = the variants [tagUnits_variant], [propUnit_variant].
    [conforms], [breach], [soft], [verdicts], [judge] are the specification (Valid/ValidSpec.v,
    written from docs/validation.rst and the text of C19); [unit_assumptions] is everything that
    is assumed about the unit predicates. *)
From Coq Require Import ZArith Bool String List.
Require Import NixV.Base.Prelude NixV.Gen.GenValidate NixV.Valid.Validator NixV.Valid.ValidSpec NixV.Valid.ValidProofs
  NixV.Valid.ValidRules NixV.Valid.ValidRulesProofs.
Import ListNotations.
Local Open Scope string_scope.
Local Open Scope Z_scope.

(** The rule tables of the model are the rule tables of src/valid/validate.cpp: [GenValidate.validate_rules] /
    [validate_bases] are regenerated from the source on every run (tools/translate/gen.py: per validate
    function the ordered rules with combinator, getter, check functor and its arguments, message, nested
    sub-rules, and the function whose result is concatenated after them); [model_rules] / [model_bases] are
    the hand model's description of its tables.  A must turned into a should, a dropped, added or reordered
    rule, a changed getter, functor, argument, message or nesting in validate.cpp breaks this theorem. *)
Theorem C19_rule_tables_are_generated :
  model_rules = GenValidate.validate_rules /\ model_bases = GenValidate.validate_bases.
Proof. exact (conj rules_are_generated bases_are_generated). Qed.
Print Assumptions C19_rule_tables_are_generated.

(** ... and the executable tables of the model are the interpretation of that description (combinator,
    order, nesting, message and base call come from the description; the environment of an entity kind maps
    a (getter, check, arguments) triple of the source to the observation and check function of the model) *)
Theorem C19_tables_are_interpretations : forall isSI isCompound isScalable vt,
  (forall a, validate_array isSI isCompound a =
             rconcat (table model_rules "DataArray" (e_id (n_ent (a_ent a))) (env_array isSI isCompound a))
                     (named_base (lookup "" "DataArray" model_bases) (a_ent a)))
  /\ (forall t, validate_tag isSI isCompound isScalable vt t =
             rconcat (table model_rules "Tag" (e_id (n_ent (t_ent t))) (env_tag isSI isCompound isScalable vt t))
                     (named_base (lookup "" "Tag" model_bases) (t_ent t)))
  /\ (forall m, validate_mtag isSI isCompound isScalable vt m =
             rconcat (table model_rules "MultiTag" (e_id (n_ent (m_ent m))) (env_mtag isSI isCompound isScalable vt m))
                     (named_base (lookup "" "MultiTag" model_bases) (m_ent m)))
  /\ (forall p, validate_property isSI isCompound propUnit_variant p =
             rconcat (table model_rules "Property" (e_id (p_ent p)) (env_property isSI isCompound p))
                     (ent_base (lookup "" "Property" model_bases) (p_ent p)))
  /\ (forall idx ticks unit, validate_range_dim isSI idx ticks unit =
             table model_rules "RangeDimension" unknown_id (env_range isSI idx ticks unit))
  /\ (forall idx interval offset unit, validate_sampled_dim isSI idx interval offset unit =
             table model_rules "SampledDimension" unknown_id (env_sampled isSI idx interval offset unit))
  /\ (forall idx, validate_set_dim idx = table model_rules "SetDimension" unknown_id (env_set idx))
  /\ (forall f, validate_feature f =
             rconcat (table model_rules "Feature" (e_id (f_ent f)) (env_feature f))
                     (ent_base (lookup "" "Feature" model_bases) (f_ent f)))
  /\ (forall n, validate_named_entity n =
             rconcat (table model_rules "validate_named_entity" (e_id (n_ent n)) (env_named n))
                     (named_base (lookup "" "validate_named_entity" model_bases) n))
  /\ (forall e, validate_entity e = table model_rules "validate_entity" (e_id e) (env_entity e))
  /\ (forall n, validate_entity_with_metadata n = named_base (lookup "" "validate_entity_with_metadata" model_bases) n
             /\ validate_entity_with_sources n = named_base (lookup "" "validate_entity_with_sources" model_bases) n
             /\ validate_block n = named_base (lookup "" "Block" model_bases) n
             /\ validate_section n = named_base (lookup "" "Section" model_bases) n
             /\ validate_source n = named_base (lookup "" "Source" model_bases) n).
Proof.
  exact (fun a b c vt =>
    conj (table_array a b propUnit_variant) (conj (table_tag a b c vt propUnit_variant)
   (conj (table_mtag a b c vt propUnit_variant) (conj (table_property a b propUnit_variant)
   (conj (table_range a propUnit_variant) (conj (table_sampled a propUnit_variant) (conj (table_set propUnit_variant)
   (conj (table_feature propUnit_variant) (conj (table_named propUnit_variant) (conj (table_entity propUnit_variant)
         table_delegations)))))))))).
Qed.
Print Assumptions C19_tables_are_interpretations.

(** the two validate functions of validate.cpp that File::validate never calls (the correspondence run calls
    them directly): their model tables are interpretations of the generated description too; on a descriptor
    reached through DataArray::dimensions() and on a file the library created they report nothing *)
Theorem C19_uncalled_tables :
  (forall idx, validate_dimension idx = table model_rules "Dimension" unknown_id (env_dimension idx))
  /\ (forall h, validate_file h = table model_rules "File" (h_id h) (env_file h))
  /\ (forall idx, 1 <= idx -> validate_dimension idx = rnil)
  /\ (forall h, h_open h = true -> (exists c, h_created h = Some c /\ c <> 0) -> h_version_n h <> 0 ->
                 h_format h <> "" -> h_location h <> "" -> validate_file h = rnil).
Proof.
  exact (conj (table_dimension propUnit_variant) (conj (table_file propUnit_variant)
        (conj validate_dimension_clean validate_file_clean))).
Qed.
Print Assumptions C19_uncalled_tables.

(** Result::ok / hasErrors / hasWarnings against Result::concat *)
Theorem C19_result_accessors : forall a b,
  has_errors (rconcat a b) = has_errors a || has_errors b
  /\ has_warnings (rconcat a b) = has_warnings a || has_warnings b
  /\ result_ok (rconcat a b) = result_ok a && result_ok b.
Proof. exact (fun a b => conj (has_errors_rconcat a b) (conj (has_warnings_rconcat a b) (result_ok_rconcat a b))). Qed.
Print Assumptions C19_result_accessors.

(** File::validate reports exactly what the rule tables of the visited entities report, entity
    by entity (blocks, arrays, range/set/sampled dimensions, multi-tags, tags, their features,
    all sources, all sections, their properties) — errors ([k = true]) and warnings alike. *)
Theorem C19_validate_is_entitywise : forall isSI isCompound isScalable vt vp k f,
  sel k (validate isSI isCompound isScalable vt vp f) =
  flat_map (fun e => sel k (validate_ent isSI isCompound isScalable vt vp e)) (entities f).
Proof. exact sel_validate. Qed.
Print Assumptions C19_validate_is_entitywise.

(** the model the correspondence run ties to the working tree *)
Theorem C19_current_model : forall isSI isCompound isScalable,
  validate_current isSI isCompound isScalable = validate isSI isCompound isScalable tagUnits_variant propUnit_variant.
Proof. exact (fun _ _ _ => eq_refl). Qed.
Print Assumptions C19_current_model.

(** SOUND — the statement about the current model: with the repaired Property rule "a file that
    satisfies every documented hard rule gets no error", with the pinned rule the same for files
    whose property units are all SI (see [sound_stmt]). *)
Theorem C19_sound_current : forall isSI isCompound isScalable atomicSI validSI convertible,
  unit_assumptions isSI isCompound isScalable atomicSI validSI convertible ->
  sound_stmt isSI isCompound isScalable atomicSI convertible tagUnits_variant propUnit_variant.
Proof. exact (fun a b c d e f UA => sound_for a b c d e f UA tagUnits_variant propUnit_variant). Qed.
Print Assumptions C19_sound_current.

(** SOUND, full statement (holds once the Property rule is a warning), any tree *)
Theorem C19_sound : forall isSI isCompound isScalable atomicSI validSI convertible,
  unit_assumptions isSI isCompound isScalable atomicSI validSI convertible ->
  forall vt f, conforms atomicSI convertible f = true ->
               errors (validate isSI isCompound isScalable vt Repaired f) = [].
Proof. exact (fun a b c d e f UA vt => sound_for a b c d e f UA vt Repaired). Qed.
Print Assumptions C19_sound.

(** ... under the hypothesis that excludes item 17, for the pinned rule ... *)
Theorem C19_sound_partial : forall isSI isCompound isScalable atomicSI validSI convertible,
  unit_assumptions isSI isCompound isScalable atomicSI validSI convertible ->
  forall vt f, prop_units_valid isSI isCompound f -> conforms atomicSI convertible f = true ->
               errors (validate isSI isCompound isScalable vt AsPinned f) = [].
Proof. exact (fun a b c d e f UA vt => sound_for a b c d e f UA vt AsPinned). Qed.
Print Assumptions C19_sound_partial.

(** ... and its refutation for the pinned rule (witness: a property with unit "spikes") *)
Theorem C19_sound_refuted :
  ~ (forall isSI isCompound isScalable atomicSI validSI convertible,
        unit_assumptions isSI isCompound isScalable atomicSI validSI convertible ->
        forall vt, sound_full atomicSI convertible (validate isSI isCompound isScalable vt AsPinned)).
Proof. exact sound_refuted. Qed.
Print Assumptions C19_sound_refuted.

(** SOUND, entity by entity (any combination of breaches elsewhere in the file): every error
    is about an entity of the file that breaches a documented hard rule *)
Theorem C19_sound_entitywise : forall isSI isCompound isScalable atomicSI validSI convertible,
  unit_assumptions isSI isCompound isScalable atomicSI validSI convertible ->
  forall vt f m, In m (errors (validate isSI isCompound isScalable vt Repaired f)) ->
  exists e, In e (entities f) /\ m_id m = ent_id e /\ conforms_ent atomicSI convertible e = false.
Proof. exact sound_entitywise_for. Qed.
Print Assumptions C19_sound_entitywise.

(** COMPLETE — the statement about the current model (full for the repaired loop, [complete_partial]
    for the pinned one) *)
Theorem C19_complete_current : forall isSI isCompound isScalable atomicSI validSI convertible,
  unit_assumptions isSI isCompound isScalable atomicSI validSI convertible ->
  complete_stmt isSI isCompound isScalable convertible tagUnits_variant propUnit_variant.
Proof. exact (fun a b c d e f UA => complete_for a b c d e f UA tagUnits_variant propUnit_variant). Qed.
Print Assumptions C19_complete_current.

(** COMPLETE, full statement: for every tree, every entity that breaches one of the nine listed
    hard rules gets at least one error, whatever else is breached (holds of the repaired loop) *)
Theorem C19_complete : forall isSI isCompound isScalable atomicSI validSI convertible,
  unit_assumptions isSI isCompound isScalable atomicSI validSI convertible ->
  forall vp f r e, In e (entities f) -> breach convertible r e = true ->
  exists m, In m (errors (validate isSI isCompound isScalable Repaired vp f)) /\ m_id m = ent_id e.
Proof. exact (fun a b c d e f UA vp => complete_for a b c d e f UA Repaired vp). Qed.
Print Assumptions C19_complete.

(** ... for the pinned loop: every rule but the tag-unit rule, and the tag-unit rule when the
    non-convertible unit is the last entry of the units vector ... *)
Theorem C19_complete_partial : forall isSI isCompound isScalable atomicSI validSI convertible,
  unit_assumptions isSI isCompound isScalable atomicSI validSI convertible ->
  forall vp, complete_partial convertible (validate isSI isCompound isScalable AsPinned vp).
Proof. exact (fun a b c d e f UA vp => complete_for a b c d e f UA AsPinned vp). Qed.
Print Assumptions C19_complete_partial.

(** ... and its refutation (section 9 item 16: units {"V","s"} against dimension units {"s","s"}) *)
Theorem C19_complete_refuted :
  ~ (forall isSI isCompound isScalable atomicSI validSI convertible,
        unit_assumptions isSI isCompound isScalable atomicSI validSI convertible ->
        forall vp, complete_full convertible (validate isSI isCompound isScalable AsPinned vp)).
Proof. exact complete_refuted. Qed.
Print Assumptions C19_complete_refuted.

(** dimensions carry no id: per rule text there are at least as many "unknown" errors as there
    are breaching dimensions in the file (both variants) *)
Theorem C19_complete_dimensions : forall isSI isCompound (isScalable convertible : string -> string -> bool) vt vp f,
  count_dims (breach convertible RUnsorted) (entities f)
    <= count_msgs (msg_eqb unknown_id unsorted_text) (errors (validate isSI isCompound isScalable vt vp f))
  /\ count_dims (breach convertible RInterval) (entities f)
    <= count_msgs (msg_eqb unknown_id interval_text) (errors (validate isSI isCompound isScalable vt vp f)).
Proof. exact complete_dims_for. Qed.
Print Assumptions C19_complete_dimensions.

(** ... and per owning array (the array's own table followed by its dimensions' tables) *)
Theorem C19_complete_dimensions_per_array : forall isSI isCompound (convertible : string -> string -> bool) a,
  count_dims (breach convertible RUnsorted) (array_entities a)
    <= count_msgs (msg_eqb unknown_id unsorted_text) (errors (walk_array isSI isCompound a))
  /\ count_dims (breach convertible RInterval) (array_entities a)
    <= count_msgs (msg_eqb unknown_id interval_text) (errors (walk_array isSI isCompound a)).
Proof. exact (fun a b c => complete_dims_per_array_for a b (fun _ _ => true) c). Qed.
Print Assumptions C19_complete_dimensions_per_array.

(** SOFT — an entity that breaches soft rules only gets no error; the soft breaches the
    documentation's list names are reported as warnings about it *)
Theorem C19_soft_is_warning : forall isSI isCompound isScalable atomicSI validSI convertible,
  unit_assumptions isSI isCompound isScalable atomicSI validSI convertible ->
  forall vt f r e, In e (entities f) -> soft validSI r e = true -> conforms_ent atomicSI convertible e = true ->
  errors (validate_ent isSI isCompound isScalable vt Repaired e) = []
  /\ (soft_warned validSI r e = true ->
      exists w, In w (warnings (validate isSI isCompound isScalable vt Repaired f))
                /\ m_id w = ent_id e /\ m_text w = soft_text r e).
Proof. exact soft_for. Qed.
Print Assumptions C19_soft_is_warning.

(** the oracle of the correspondence run: on every file with distinct ids the repaired model
    satisfies every clause the specification prints ([verdicts]); an implementation answer that
    fails a clause therefore differs from the repaired model *)
Theorem C19_oracle : forall isSI isCompound isScalable atomicSI validSI convertible,
  unit_assumptions isSI isCompound isScalable atomicSI validSI convertible ->
  forall f, ids_distinct f ->
  judge (verdicts atomicSI validSI convertible f) (validate isSI isCompound isScalable Repaired Repaired f) = true.
Proof. exact oracle_for. Qed.
Print Assumptions C19_oracle.

(** the boolean specification is the proposition; the dimension clause read pointwise *)
Theorem C19_conforms_is_Conforms : forall atomicSI convertible f,
  conforms atomicSI convertible f = true <-> Conforms atomicSI convertible f.
Proof. exact conforms_iff. Qed.
Print Assumptions C19_conforms_is_Conforms.

Theorem C19_dims_match_pointwise : forall slots extent,
  dims_match slots extent = true <->
  (List.length slots = List.length extent /\
   forall i n, nth_error extent i = Some n -> exists d, nth_error slots i = Some (Some d) /\ dim_len_ok d n = true).
Proof. exact dims_match_spec. Qed.
Print Assumptions C19_dims_match_pointwise.

(** non-vacuity: a conforming file exists and validates clean in both variants; the breach of
    item 16 is a breach; the file of item 17 conforms *)
Example C19_nonvacuous :
  (conforms toy_isSI toy_scalable (w_file_tag ["s"; "s"]%string) = true /\
   forall vt vp, validate toy_isSI toy_compound toy_scalable vt vp (w_file_tag ["s"; "s"]%string) = rnil)
  /\ breach toy_scalable RTagUnits (ETag (w_tag ["V"; "s"]%string)) = true
  /\ conforms toy_isSI toy_scalable (w_file_prop (Some "spikes"%string)) = true
  /\ unit_assumptions toy_isSI toy_compound toy_scalable toy_isSI toy_valid toy_scalable.
Proof.
  exact (conj witness_conforming
        (conj (proj1 (proj2 witness_tagunits)) (conj (proj1 witness_propunit) toy_assumptions))).
Qed.
