(** C18 — Unit scaling (the unit-algebra half).  Statements only; each closed by [exact].
    The tables PREFIXES, UNITS, POWER and PREFIX_FACTORS are regenerated from src/util/util.cpp on
    every run ([Gen/GenTables.v]); the model of the regular expressions, [splitUnit], [isSIUnit],
    [isScalable] and [getSIScaling] (as the exponent k of the factor 10^k) is [Units/UnitsModel.v].

    [print_unit p u w] = p ++ u ++ w;  [ALL_PREFIXES] = the empty prefix and the 20 of PREFIXES;
    [POWER_SUFFIXES] = "", ^1, ^2, ^3, ^-1, ^-2, ^-3  (powers -3..3). *)
From Coq Require Import ZArith Bool String List.
Require Import NixV.Base.Prelude NixV.Gen.GenTables NixV.Units.UnitsModel NixV.Units.UnitsRegexProofs
  NixV.Units.UnitsProofs NixV.Units.UnitsGrammarProofs NixV.Base.F64 NixV.Units.UnitsRoutes NixV.Units.UnitsRoutesProofs.
Import ListNotations.
Local Open Scope string_scope.
Local Open Scope Z_scope.

(** The prefix table of the source is the SI table (y = -24 ... Y = 24), PREFIXES lists exactly the
    SI prefixes, and every stored double is within 2^-53 (relative) of its power of ten. *)
Theorem C18_table_is_SI :
  (forall p e, In (p, e) SI_PREFIX_EXP -> factor_at p = Ok e) /\
  (forall p, In p PREFIXES <-> In p (map fst SI_PREFIX_EXP)) /\
  (forall e, In e PREFIX_FACTORS -> In (fst e) (map fst SI_PREFIX_EXP) /\ factor_entry_ok e = true).
Proof. exact table_is_SI. Qed.
Print Assumptions C18_table_is_SI.

Theorem C18_power_regex_pinned : POWER = POWER_expected.
Proof. exact POWER_pinned. Qed.
Print Assumptions C18_power_regex_pinned.

(** Every prefix x base unit x power -3..3: the printed unit parses back into its parts, and it is an
    (atomic, not compound) SI unit.  4557 strings, finite sweep over the generated tables. *)
Theorem C18_parse_print : forall p u w, In p ALL_PREFIXES -> In u UNITS -> In w POWER_SUFFIXES ->
  splitUnit (print_unit p u w) = Ok (p, u, power_text w) /\
  isAtomicSIUnit (print_unit p u w) = true /\ isSIUnit (print_unit p u w) = true /\
  isCompoundSIUnit (print_unit p u w) = false.
Proof. exact parse_print. Qed.
Print Assumptions C18_parse_print.

(** The same for ANY order of the alternatives, outside the region of the order defect: base units that no
    earlier alternative shadows (all of them once [shadowed_units] is empty), and all strings without a power. *)
Theorem C18_parse_print_partial : forall p u w, In p ALL_PREFIXES -> In u UNITS -> In w POWER_SUFFIXES ->
  ~ In u shadowed_units \/ w = "" ->
  splitUnit (print_unit p u w) = Ok (p, u, power_text w) /\ isSIUnit (print_unit p u w) = true.
Proof. exact parse_print_partial. Qed.
Print Assumptions C18_parse_print_partial.

Theorem C18_no_shadowed_units : shadowed_units = [].
Proof. exact no_shadowed_units. Qed.
Print Assumptions C18_no_shadowed_units.

(** A unit string has one reading (any power, not only -3..3). *)
Theorem C18_grammar_unambiguous : forall p1 u1 w1 p2 u2 w2,
  parts_ok p1 u1 w1 = true -> parts_ok p2 u2 w2 = true ->
  print_unit p1 u1 w1 = print_unit p2 u2 w2 -> p1 = p2 /\ u1 = u2 /\ w1 = w2.
Proof. exact grammar_unambiguous. Qed.
Print Assumptions C18_grammar_unambiguous.

(** The factor from a to b is 10^(power * (exp_a - exp_b)) - for all pairs of the grammar ... *)
Theorem C18_factor_formula : forall pa pb u w,
  In pa ALL_PREFIXES -> In pb ALL_PREFIXES -> In u UNITS -> In w POWER_SUFFIXES ->
  exists ea eb n, si_exp pa = Some ea /\ si_exp pb = Some eb /\ power_val w = Some n /\
    getSIScaling (print_unit pa u w) (print_unit pb u w) = Ok (n * (ea - eb)).
Proof. exact factor_formula. Qed.
Print Assumptions C18_factor_formula.

(** ... and symbolically for ANY two strings that the library accepts as SI units and splits into the
    same base and power (any power [stoi] can read). *)
Theorem C18_factor_formula_parsed : forall a b pa pb u w ea eb n,
  isSIUnit a = true -> isSIUnit b = true ->
  splitUnit a = Ok (pa, u, w) -> splitUnit b = Ok (pb, u, w) ->
  prefix_exp pa = Ok ea -> prefix_exp pb = Ok eb -> power_of w = Ok n ->
  getSIScaling a b = Ok (n * (ea - eb)).
Proof. exact factor_formula_parsed. Qed.
Print Assumptions C18_factor_formula_parsed.

(** a -> b and b -> a are reciprocal: for arbitrary strings whenever a -> b answers ... *)
Theorem C18_reciprocal : forall a b k, getSIScaling a b = Ok k -> getSIScaling b a = Ok (- k).
Proof. exact reciprocal. Qed.
Print Assumptions C18_reciprocal.

(** ... and on the grammar both directions do answer. *)
Theorem C18_reciprocal_grammar : forall pa pb u w,
  In pa ALL_PREFIXES -> In pb ALL_PREFIXES -> In u UNITS -> In w POWER_SUFFIXES ->
  exists k, getSIScaling (print_unit pa u w) (print_unit pb u w) = Ok k /\
            getSIScaling (print_unit pb u w) (print_unit pa u w) = Ok (- k).
Proof. exact reciprocal_grammar. Qed.
Print Assumptions C18_reciprocal_grammar.

(** a -> b -> c composes to a -> c: arbitrary strings ... *)
Theorem C18_compose : forall a b c k1 k2,
  getSIScaling a b = Ok k1 -> getSIScaling b c = Ok k2 -> getSIScaling a c = Ok (k1 + k2).
Proof. exact compose. Qed.
Print Assumptions C18_compose.

(** ... and every triple of the grammar. *)
Theorem C18_compose_grammar : forall pa pb pc u w,
  In pa ALL_PREFIXES -> In pb ALL_PREFIXES -> In pc ALL_PREFIXES -> In u UNITS -> In w POWER_SUFFIXES ->
  exists k1 k2, getSIScaling (print_unit pa u w) (print_unit pb u w) = Ok k1 /\
                getSIScaling (print_unit pb u w) (print_unit pc u w) = Ok k2 /\
                getSIScaling (print_unit pa u w) (print_unit pc u w) = Ok (k1 + k2).
Proof. exact compose_grammar. Qed.
Print Assumptions C18_compose_grammar.

(** Scalability is symmetric (arbitrary strings) ... *)
Theorem C18_scalable_sym : forall a b v, isScalable a b = Ok v -> isScalable b a = Ok v.
Proof. exact scalable_sym. Qed.
Print Assumptions C18_scalable_sym.

(** ... and on the grammar it holds exactly for the same base unit and the same power, in both directions. *)
Theorem C18_scalable_grammar : forall pa ua wa pb ub wb,
  In pa ALL_PREFIXES -> In ua UNITS -> In wa POWER_SUFFIXES ->
  In pb ALL_PREFIXES -> In ub UNITS -> In wb POWER_SUFFIXES ->
  isScalable (print_unit pa ua wa) (print_unit pb ub wb) = Ok ((ua =? ub)%string && (wa =? wb)%string) /\
  isScalable (print_unit pb ub wb) (print_unit pa ua wa) = Ok ((ua =? ub)%string && (wa =? wb)%string).
Proof. exact scalable_grammar. Qed.
Print Assumptions C18_scalable_grammar.

(** Units of different base unit or power are rejected (not scalable; getSIScaling throws nix::InvalidUnit). *)
Theorem C18_different_base_or_power_rejected : forall pa ua wa pb ub wb,
  In pa ALL_PREFIXES -> In ua UNITS -> In wa POWER_SUFFIXES ->
  In pb ALL_PREFIXES -> In ub UNITS -> In wb POWER_SUFFIXES ->
  ua <> ub \/ wa <> wb ->
  isScalable (print_unit pa ua wa) (print_unit pb ub wb) = Ok false /\
  getSIScaling (print_unit pa ua wa) (print_unit pb ub wb) = Err "nix::InvalidUnit".
Proof. exact different_base_or_power_rejected. Qed.
Print Assumptions C18_different_base_or_power_rejected.

Theorem C18_different_base_or_power_rejected_parsed : forall a b pa ua wa pb ub wb,
  splitUnit a = Ok (pa, ua, wa) -> splitUnit b = Ok (pb, ub, wb) -> ua <> ub \/ wa <> wb ->
  isScalable a b = Ok false /\ getSIScaling a b = Err "nix::InvalidUnit".
Proof. exact different_base_or_power_rejected_parsed. Qed.
Print Assumptions C18_different_base_or_power_rejected_parsed.

(** [isSIUnit] accepts exactly: one atomic SI unit (optional SI prefix, base unit of the table, optional
    power: a caret, an optional sign, a digit 1-9, further digits) or several of them joined by * or / - stated without regular expressions. *)
Theorem C18_isSIUnit_spec : forall s, isSIUnit s = true <-> SI_unit s.
Proof. exact isSIUnit_spec. Qed.
Print Assumptions C18_isSIUnit_spec.

(** Non-SI units are rejected, whatever the other unit is (arbitrary strings). *)
Theorem C18_non_si_rejected : forall a b, ~ SI_unit a \/ ~ SI_unit b ->
  isScalable a b = Ok false /\ getSIScaling a b = Err "nix::InvalidUnit".
Proof. exact non_si_rejected. Qed.
Print Assumptions C18_non_si_rejected.

(** The extracted oracle: its brute-force test for atomic units equals the model's [isAtomicSIUnit] on every
    string, its parser returns the parts of every printed unit, and on the whole grammar the model computes
    what the oracle's parts-based specification demands. *)
Theorem C18_oracle_atomic : forall s, isAtomicSIUnit s = spec_atomic s.
Proof. exact atomic_model_eq_spec. Qed.
Print Assumptions C18_oracle_atomic.

Theorem C18_oracle_issi : forall s, isSIUnit s = spec_issi s.
Proof. exact issi_model_eq_spec. Qed.
Print Assumptions C18_oracle_issi.

Theorem C18_oracle_parse : forall p u w, parts_ok p u w = true -> spec_parse (print_unit p u w) = Some (p, u, w).
Proof. exact spec_parse_complete. Qed.
Print Assumptions C18_oracle_parse.

Theorem C18_scaling_meets_spec : forall pa ua wa pb ub wb,
  In pa ALL_PREFIXES -> In ua UNITS -> In wa POWER_SUFFIXES ->
  In pb ALL_PREFIXES -> In ub UNITS -> In wb POWER_SUFFIXES ->
  match spec_scaling pa ua wa pb ub wb with
  | SVal k => getSIScaling (print_unit pa ua wa) (print_unit pb ub wb) = Ok k
  | SReject => getSIScaling (print_unit pa ua wa) (print_unit pb ub wb) = Err "nix::InvalidUnit"
  | SAny => True
  end.
Proof. exact scaling_meets_spec. Qed.
Print Assumptions C18_scaling_meets_spec.

Theorem C18_scalable_meets_spec : forall pa ua wa pb ub wb,
  In pa ALL_PREFIXES -> In ua UNITS -> In wa POWER_SUFFIXES ->
  In pb ALL_PREFIXES -> In ub UNITS -> In wb POWER_SUFFIXES ->
  match spec_scalable pa ua wa pb ub wb with
  | SVal v => isScalable (print_unit pa ua wa) (print_unit pb ub wb) = Ok v
  | _ => True
  end.
Proof. exact scalable_meets_spec. Qed.
Print Assumptions C18_scalable_meets_spec.

(** The matcher of the model enumerates exactly the language of an expression (any expression). *)
Theorem C18_regex_match_spec : forall r s, regex_match r s = true <-> matches r s.
Proof. exact regex_match_spec. Qed.
Print Assumptions C18_regex_match_spec.

(** ---- the other public routes of util.hpp that deal with units (model: Units/UnitsRoutes.v) ---- *)

(** isScalable(vector, vector): symmetric, and true exactly for vectors of the same length that are scalable
    element by element (with the string overload the theorems above are about). *)
Theorem C18_isScalableVec_sym : forall a b v, isScalableVec a b = Ok v -> isScalableVec b a = Ok v.
Proof. exact isScalableVec_sym. Qed.
Print Assumptions C18_isScalableVec_sym.

Theorem C18_isScalableVec_true : forall a b,
  isScalableVec a b = Ok true <->
  List.length a = List.length b /\ Forall2 (fun x y => isScalable x y = Ok true) a b.
Proof. exact isScalableVec_true. Qed.
Print Assumptions C18_isScalableVec_true.

Theorem C18_isSetAtSamePos_spec : forall a b, isSetAtSamePos a b = spec_set_same a b.
Proof. exact isSetAtSamePos_spec. Qed.
Print Assumptions C18_isSetAtSamePos_spec.

Theorem C18_isSetAtSamePos_sym : forall a b, isSetAtSamePos a b = isSetAtSamePos b a.
Proof. exact isSetAtSamePos_sym. Qed.
Print Assumptions C18_isSetAtSamePos_sym.

(** convertToSeconds<T> / convertToKelvin<T> (T = double, int) scale a second / kelvin that carries SI prefix p by
    10^(SI exponent of p): [CScaled v e] = v times the double getSIScaling returns for 10^e. *)
Theorem C18_convertToSeconds_prefixed : forall p e, In (p, e) SI_PREFIX_EXP ->
  (forall v, convertToSeconds_d (p ++ "s") v = Ok (CScaled v e)) /\
  (forall n, convertToSeconds_i (p ++ "s") n = Ok (CScaled n e)).
Proof. exact convertToSeconds_prefixed. Qed.
Print Assumptions C18_convertToSeconds_prefixed.

Theorem C18_convertToKelvin_prefixed : forall p e, In (p, e) SI_PREFIX_EXP ->
  (forall v, convertToKelvin_d (p ++ "K") v = Ok (CScaled v e)) /\
  (forall n, convertToKelvin_i (p ++ "K") n = Ok (CScaled n e)).
Proof. exact convertToKelvin_prefixed. Qed.
Print Assumptions C18_convertToKelvin_prefixed.

(** splitCompoundUnit: every atom of the grammar alone, and followed by * or / and a second atom (no power, positive
    power, negative power): the atoms come back, the one behind a slash with its power negated; the oracle agrees. *)
Theorem C18_splitCompoundUnit_grammar : forall p u w b b', In p ALL_PREFIXES -> In u UNITS -> In w POWER_SUFFIXES ->
  In (b, b') SECOND_ATOMS ->
  splitCompoundUnit (print_unit p u w) = Ok [print_unit p u w] /\
  splitCompoundUnit (print_unit p u w ++ "*" ++ b) = Ok [print_unit p u w; b] /\
  splitCompoundUnit (print_unit p u w ++ "/" ++ b) = Ok [print_unit p u w; b'] /\
  spec_split_compound (print_unit p u w) = Some [print_unit p u w] /\
  spec_split_compound (print_unit p u w ++ "*" ++ b) = Some [print_unit p u w; b] /\
  spec_split_compound (print_unit p u w ++ "/" ++ b) = Some [print_unit p u w; b'].
Proof. exact splitCompoundUnit_grammar. Qed.
Print Assumptions C18_splitCompoundUnit_grammar.

Theorem C18_nameSanitizer_ok : forall s, nameCheck (nameSanitizer s) = true /\ (nameCheck s = true -> nameSanitizer s = s).
Proof. exact nameSanitizer_ok. Qed.
Print Assumptions C18_nameSanitizer_ok.

Example C18_routes_nonvacuous :
  isScalableVec ["mV"; "s"] ["kV"; "ms"] = Ok true /\ isScalableVec ["mV"; "s"] ["kV"; "mA"] = Ok false /\
  isScalableVec ["mV"] ["kV"; "ms"] = Ok false /\ isSetAtSamePos ["mV"; ""] ["s"; ""] = true /\ isSetAtSamePos ["mV"; ""] [""; "s"] = false /\
  splitCompoundUnit "mV^2/s" = Ok ["mV^2"; "s^-1"] /\ splitCompoundUnit "J/K*mol" = Ok ["J"; "K^-1"; "mol"] /\
  splitCompoundUnit "mol^2/s^-2" = Ok ["mol^2"; "s^2"] /\
  In ("m", -3) SI_PREFIX_EXP /\ convertToSeconds_i "ms" 1500 = Ok (CScaled 1500 (-3)) /\ convertToSeconds_i "h" 2 = Ok (CExact 7200) /\
  convertToKelvin_i "C" 27 = Ok (CExact 300) /\ convertToKelvin_i "F" 212 = Ok (CExact 373) /\ convertToKelvin_i "kK" 2 = Ok (CScaled 2 3).
Proof. vm_compute. intuition. Qed.

(** ---- non-vacuity ---- *)
Example C18_table_nonvacuous :
  factor_at "m" = Ok (-3) /\ factor_at "da" = Ok 1 /\ factor_at "Y" = Ok 24 /\ factor_at "y" = Ok (-24) /\
  factor_at "x" = Err "std::out_of_range" /\ List.length PREFIX_FACTORS = 20%nat.
Proof. vm_compute. repeat split. Qed.

Example C18_parse_print_nonvacuous :
  In "m" ALL_PREFIXES /\ In "mol" UNITS /\ In "^2" POWER_SUFFIXES /\
  splitUnit "mmol^2" = Ok ("m", "mol", "2") /\ splitUnit "mol^2" = Ok ("", "mol", "2") /\
  splitUnit "dam^-3" = Ok ("da", "m", "-3") /\ splitUnit "mSv^-1" = Ok ("m", "Sv", "-1") /\
  splitUnit "kWb^3" = Ok ("k", "Wb", "3") /\ splitUnit "mV" = Ok ("m", "V", "") /\
  List.length ALL_PREFIXES = 21%nat /\ List.length UNITS = 31%nat /\ List.length POWER_SUFFIXES = 7%nat.
Proof. vm_compute. intuition. Qed.

Example C18_factor_formula_nonvacuous :
  getSIScaling "mV" "kV" = Ok (-6) /\ getSIScaling "mm^2" "m^2" = Ok (-6) /\
  getSIScaling "mmol^2" "mol^2" = Ok (-6) /\ getSIScaling "mm^-3" "km^-3" = Ok 18 /\
  getSIScaling "V" "V" = Ok 0 /\ getSIScaling "Ym^3" "ym^3" = Ok 144.
Proof. vm_compute. repeat split. Qed.

Example C18_reciprocal_compose_nonvacuous :
  getSIScaling "kV" "mV" = Ok 6 /\ getSIScaling "mV" "kV" = Ok (-6) /\
  getSIScaling "mSv^2" "Sv^2" = Ok (-6) /\ getSIScaling "Sv^2" "uSv^2" = Ok 12 /\ getSIScaling "mSv^2" "uSv^2" = Ok 6.
Proof. vm_compute. repeat split. Qed.

Example C18_scalable_nonvacuous :
  isScalable "mV" "kV" = Ok true /\ isScalable "kV" "mV" = Ok true /\ isScalable "mV" "ms" = Ok false /\
  isScalable "mm^2" "mm^3" = Ok false /\ isScalable "mm" "mm^1" = Ok false.
Proof. vm_compute. repeat split. Qed.

Example C18_rejected_nonvacuous :
  getSIScaling "mV" "ms" = Err "nix::InvalidUnit" /\ getSIScaling "mm^2" "mm^3" = Err "nix::InvalidUnit" /\
  getSIScaling "spikes" "mV" = Err "nix::InvalidUnit" /\ getSIScaling "mV" "" = Err "nix::InvalidUnit" /\
  isSIUnit "spikes" = false /\ isSIUnit "mm^0" = false /\ isSIUnit "" = false /\
  isSIUnit "mV/s" = true /\ isSIUnit "mV^2*Hz^-1" = true /\ ~ SI_unit "spikes".
Proof.
  repeat split; try (vm_compute; reflexivity).
  intros H. apply isSIUnit_spec in H. vm_compute in H. discriminate H.
Qed.
