(** C14 — Metadata property values round trip with type, order, unit and uncertainty.
    Statements only; each closed by [exact].  Model: Data/Prop.v, proofs: Data/PropProofs.v.
    [q] ranges over the defect switches: a theorem quantified over [q] holds for the code as pinned
    AND as repaired; [repaired] / [pinned] name one setting. *)
From Coq Require Import ZArith Bool String List.
From Flocq Require Import BinarySingleNaN.
Require Import NixV.Base.Prelude NixV.Base.F64 NixV.Data.Prop NixV.Data.PropProofs.
Import ListNotations.
Local Open Scope string_scope.

(** every vector of the property's type, of any length (also empty), is returned exactly; the count
    follows; type, unit, uncertainty and definition are untouched *)
Theorem C14_values_roundtrip : forall q s ps vs,
  f_prop s = Some ps -> f_ro s = false ->
  supported (ds_type (ps_ds ps)) = true ->
  homogeneous (ds_type (ps_ds ps)) vs = true ->
  exists ps',
    step q (SetVals vs) s = (with_prop s ps', Ok ADone) /\
    observe ps' = {| o_type := o_type (observe ps); o_count := zlen vs; o_vals := vs;
                     o_unit := o_unit (observe ps); o_unc := o_unc (observe ps); o_def := o_def (observe ps) |}.
Proof. exact values_roundtrip. Qed.
Print Assumptions C14_values_roundtrip.

Theorem C14_count_is_length : forall ps, supported (ds_type (ps_ds ps)) = true ->
  o_count (observe ps) = zlen (o_vals (observe ps)).
Proof. exact count_is_length. Qed.
Print Assumptions C14_count_is_length.

Theorem C14_replace_shorter_longer : forall q s ps vs1 vs2,
  f_prop s = Some ps -> f_ro s = false ->
  supported (ds_type (ps_ds ps)) = true ->
  homogeneous (ds_type (ps_ds ps)) vs1 = true -> homogeneous (ds_type (ps_ds ps)) vs2 = true ->
  exists ps2,
    f_prop (final q [SetVals vs1; SetVals vs2] s) = Some ps2 /\
    o_vals (observe ps2) = vs2 /\ o_count (observe ps2) = zlen vs2.
Proof. exact replace_shorter_longer. Qed.
Print Assumptions C14_replace_shorter_longer.

Theorem C14_clear : forall q s ps o,
  f_prop s = Some ps -> f_ro s = false -> o = Clear \/ o = ClearNone \/ o = SetVals [] ->
  exists ps',
    step q o s = (with_prop s ps', Ok ADone) /\
    ds_cells (ps_ds ps') = [] /\ prop_value_count ps' = 0%Z /\ prop_values ps' = [] /\
    ds_type (ps_ds ps') = ds_type (ps_ds ps) /\ ps_attrs ps' = ps_attrs ps.
Proof. exact clear_empties. Qed.
Print Assumptions C14_clear.

(** a value of another type at ANY position makes the call fail ... *)
Theorem C14_type_mismatch_rejected : forall q s ps vs,
  f_prop s = Some ps ->
  (exists v, In v vs /\ type_of v <> ds_type (ps_ds ps)) ->
  exists e, snd (step q (SetVals vs) s) = Err e.
Proof. exact type_mismatch_rejected. Qed.
Print Assumptions C14_type_mismatch_rejected.

(** ... without a trace, once every value's type is checked before the dataset is resized ... *)
Theorem C14_type_mismatch_no_trace_repaired : forall s ps vs,
  f_prop s = Some ps ->
  (exists v, In v vs /\ type_of v <> ds_type (ps_ds ps)) ->
  fst (step repaired (SetVals vs) s) = s.
Proof. exact type_mismatch_no_trace_repaired. Qed.
Print Assumptions C14_type_mismatch_no_trace_repaired.

(** ... but NOT on the pinned tree (resize, then check): the state and valueCount() change ... *)
Theorem C14_type_mismatch_no_trace_refuted :
  exists s vs ps, f_prop s = Some ps /\ (exists v, In v vs /\ type_of v <> ds_type (ps_ds ps)) /\
    fst (step pinned (SetVals vs) s) <> s /\
    (forall ps', f_prop (fst (step pinned (SetVals vs) s)) = Some ps' -> prop_value_count ps' <> prop_value_count ps).
Proof. exact type_mismatch_no_trace_refuted. Qed.
Print Assumptions C14_type_mismatch_no_trace_refuted.

(** ... except when the first value is already foreign or the length stays the same *)
Theorem C14_type_mismatch_no_trace_partial : forall q s ps vs,
  f_prop s = Some ps ->
  (exists v, In v vs /\ type_of v <> ds_type (ps_ds ps)) ->
  (type_of (hd VNone vs) <> ds_type (ps_ds ps) \/ List.length vs = List.length (ds_cells (ps_ds ps))) ->
  fst (step q (SetVals vs) s) = s.
Proof. exact type_mismatch_no_trace_partial. Qed.
Print Assumptions C14_type_mismatch_no_trace_partial.

Theorem C14_attrs_roundtrip : forall q s ps, f_prop s = Some ps -> f_ro s = false ->
  (forall u, exists ps', step q (SetUnit u) s = (with_prop s ps', Ok ADone) /\
     observe ps' = {| o_type := o_type (observe ps); o_count := o_count (observe ps); o_vals := o_vals (observe ps);
                      o_unit := if is_empty (deblank u) then None else Some (deblank u);
                      o_unc := o_unc (observe ps); o_def := o_def (observe ps) |}) /\
  (forall d, exists ps', step q (SetUnc d) s = (with_prop s ps', Ok ADone) /\
     observe ps' = {| o_type := o_type (observe ps); o_count := o_count (observe ps); o_vals := o_vals (observe ps);
                      o_unit := o_unit (observe ps); o_unc := Some d; o_def := o_def (observe ps) |}) /\
  (forall d, d <> "" -> exists ps', step q (SetDef d) s = (with_prop s ps', Ok ADone) /\
     observe ps' = {| o_type := o_type (observe ps); o_count := o_count (observe ps); o_vals := o_vals (observe ps);
                      o_unit := o_unit (observe ps); o_unc := o_unc (observe ps); o_def := Some d |}) /\
  (fst (step q (SetDef "") s) = s /\ snd (step q (SetDef "") s) = Err "nix::EmptyString") /\
  (exists ps', step q UnitNone s = (with_prop s ps', Ok ADone) /\ o_unit (observe ps') = None) /\
  (exists ps', step q UncNone s = (with_prop s ps', Ok ADone) /\ o_unc (observe ps') = None) /\
  (exists ps', step q DefNone s = (with_prop s ps', Ok ADone) /\ o_def (observe ps') = None).
Proof. exact attrs_roundtrip. Qed.
Print Assumptions C14_attrs_roundtrip.

(** a stored unit never contains a blank and storing it again changes nothing *)
Theorem C14_unit_deblanked : forall s,
  (forall c, In c (list_ascii_of_string (deblank s)) -> is_blank c = false) /\ deblank (deblank s) = deblank s.
Proof. exact (fun s => conj (deblank_no_blank s) (deblank_idem s)). Qed.
Print Assumptions C14_unit_deblanked.

Theorem C14_reopen_identity : forall q s ro, f_leak s = None ->
  f_prop (fst (step q (Reopen ro) s)) = f_prop s /\
  snd (step q Obs (fst (step q (Reopen ro) s))) = snd (step q Obs s) /\
  snd (step q Count (fst (step q (Reopen ro) s))) = snd (step q Count s).
Proof. exact reopen_identity. Qed.
Print Assumptions C14_reopen_identity.

Theorem C14_readonly_rejects : forall q s o,
  f_ro s = true ->
  match o with NewT _ | NewV _ | NewVs _ | Reopen _ | Obs | Count
             | VEq _ _ | VGet _ _ | VGetNoneT _ | VShow _ | VSup _ | VSwap _ _ | PShow => False
             | SetUnc _ => q_ro_unc_leak q = false | _ => True end ->
  fst (step q o s) = s /\ exists e, snd (step q o s) = Err e.
Proof. exact readonly_rejects. Qed.
Print Assumptions C14_readonly_rejects.

(** on the pinned tree a refused [uncertainty(d)] on a read-only file shows through the getter until the
    file is closed (HDF5 has overwritten its cached copy of the attribute before it fails) *)
Theorem C14_readonly_uncertainty_leak_refuted :
  exists ops d d', d <> d' /\
    nth 4 (run pinned ops fresh) (UB "") = Err H5ERR /\
    (exists o, nth 5 (run pinned ops fresh) (UB "") = Ok (AObs o) /\ o_unc o = Some d') /\
    (exists o, nth 7 (run pinned ops fresh) (UB "") = Ok (AObs o) /\ o_unc o = Some d).
Proof. exact readonly_uncertainty_leak_refuted. Qed.
Print Assumptions C14_readonly_uncertainty_leak_refuted.

(** EVERY history (creations through the three overloads, assign / replace / clear / unit /
    uncertainty / definition, reopen in either mode, rejected calls of every kind) of the repaired
    model answers each line as the "last assigned" specification [spec_run] (the extracted oracle
    of the correspondence run) demands *)
Theorem C14_history_refines : forall ops s, inv s ->
  Forall2 meets (run repaired ops s) (spec_run ops (abs s)).
Proof. exact history_refines. Qed.
Print Assumptions C14_history_refines.

(** the same for the code as pinned (any setting of the switches), for histories whose value vectors
    have one type, whose property types are among the seven, and that do not try to set the uncertainty
    while the file is read-only *)
Theorem C14_history_refines_partial : forall q ops s, inv s -> clean_hist (f_ro s) ops = true ->
  Forall2 meets (run q ops s) (spec_run ops (abs s)).
Proof. exact history_refines_partial. Qed.
Print Assumptions C14_history_refines_partial.

(** and not beyond: a mixed-type vector leaves a trace on the pinned tree *)
Theorem C14_history_refines_refuted :
  exists ops, ~ Forall2 meets (run pinned ops fresh) (spec_run ops (abs fresh)).
Proof. exact history_refines_refuted. Qed.
Print Assumptions C14_history_refines_refuted.

(** what the specification means: after an accepted assignment, whatever non-assigning operations
    follow, the values are exactly the assigned vector *)
Theorem C14_spec_last_assigned : forall vs ops a p,
  a_prop a = Some p -> a_ro a = false -> homogeneous (a_type p) vs = true ->
  forallb keeps_values ops = true ->
  option_map a_vals (a_prop (spec_final (SetVals vs :: ops) a)) = Some vs.
Proof. exact spec_last_assigned. Qed.
Print Assumptions C14_spec_last_assigned.

(** further public routes of the value class: == is equality of the carried value (doubles as in C++),
    get<T>() returns the value exactly when T is its type, compare() is antisymmetric and 0 only for equal names *)
Theorem C14_variant_eqb_type : forall a b, variant_eqb a b = true -> type_of a = type_of b.
Proof. exact variant_eqb_type. Qed.
Print Assumptions C14_variant_eqb_type.

Theorem C14_variant_eqb_eq : forall a b, (forall d, a <> VDouble d) -> (variant_eqb a b = true <-> a = b).
Proof. exact variant_eqb_eq. Qed.
Print Assumptions C14_variant_eqb_eq.

Theorem C14_variant_get_spec : forall t v,
  (type_of v = t -> variant_get t v = Ok v) /\ (type_of v <> t -> variant_get t v = Err INVARG).
Proof. exact variant_get_spec. Qed.
Print Assumptions C14_variant_get_spec.

Theorem C14_compare_antisym : forall a b, str_cmp a b = (- str_cmp b a)%Z.
Proof. exact str_cmp_antisym. Qed.
Print Assumptions C14_compare_antisym.

Theorem C14_compare_zero : forall a b, str_cmp a b = 0%Z <-> a = b.
Proof. exact str_cmp_zero. Qed.
Print Assumptions C14_compare_zero.

(** non-vacuity: a real round trip through unit, read-only reopen and a refused write *)
Example C14_nonvacuous :
  run pinned [NewT TInt64; SetVals [VInt64 (-9223372036854775808); VInt64 9223372036854775807]; SetUnit " m V "; Reopen true; Count; SetVals []; Count] fresh
  = [Ok ADone; Ok ADone; Ok ADone; Ok ADone; Ok (ACount 2); Err H5ERR; Ok (ACount 2)] /\
  inv fresh /\
  clean_hist false [NewT TInt64; SetVals [VInt64 1; VInt64 2]; SetUnc (B754_zero false); Reopen true; Obs; SetVals []; Reopen false; SetUnc (B754_zero true)] = true /\
  (exists ps, f_prop (final pinned [NewV (VString "x"); SetUnit " m V "] fresh) = Some ps /\ o_unit (observe ps) = Some "mV").
Proof. split; [exact roundtrip_example|]. split; [exact (conj eq_refl I)|]. split; [reflexivity|exact unit_example]. Qed.
