(** C16 — No API call sequence causes undefined behaviour; misuse throws.
    The provable part: the modelled index / buffer logic never reaches an undefined operation
    (double -> index cast out of range, dereference of an empty optional or of end(), read past an
    argument vector), for ALL arguments.  Statements only; the theorems live with the models of
    C07 / C01 (and are extended as C05 / C06 / C17 land).  Memory safety of the rest of the C++
    and of HDF5 is exercised under ASan + UBSan by the correspondence corpora, not proved. *)
From Coq Require Import ZArith Bool String List Reals.
From Flocq Require Import Core BinarySingleNaN.
Require Import NixV.Base.Prelude NixV.Base.F64 NixV.Base.F64Facts NixV.Gen.GenDimensions.
Require Import NixV.Axis.AxisSpec NixV.Axis.RangeModel NixV.Axis.RangeProofs NixV.Axis.Totality.
Require Import NixV.Data.NDArr NixV.Data.NDProofs.
Import ListNotations.
Local Open Scope Z_scope.

(** position -> index conversions (generated from src/Dimensions.cpp): total for EVERY double,
    including NaN, infinities and values beyond the index type *)
Theorem C16_sampled_conversion_total : forall p off dt m, exists r, getSampledIndex p off dt m = Ok r.
Proof. exact getSampledIndex_total. Qed.
Print Assumptions C16_sampled_conversion_total.

Theorem C16_set_conversion_total : forall p labels m, zlen labels < two64 -> exists r, getSetIndex p labels m = Ok r.
Proof. exact getSetIndex_total. Qed.
Print Assumptions C16_set_conversion_total.

Theorem C16_dataframe_conversion_total : forall p k m, 0 <= k < two64 -> exists r, getDataFrameIndex p k m = Ok r.
Proof. exact getDataFrameIndex_total. Qed.
Print Assumptions C16_dataframe_conversion_total.

(** range conversion (hand model): on strictly ascending finite ticks *lower is never end() *)
Theorem C16_range_conversion_no_end_deref : forall ticks p m, finite p ->
  (forall i, 0 <= i < zlen ticks -> finite (tick_at ticks i)) ->
  (forall i j, 0 <= i < j -> j < zlen ticks -> (B2R (tick_at ticks i) < B2R (tick_at ticks j))%R) ->
  exists r, getIndex p ticks m = Ok r.
Proof.
  intros ticks p m Fp Ft Hs. destruct (range_index_spec ticks p Fp Ft Hs m) as (r & H & _). exists r. exact H.
Qed.
Print Assumptions C16_range_conversion_no_end_deref.

(** hyperslab selection (DataSet::offsetCount2DataSpaces): for EVERY count / offset - shorter than the
    data rank, longer, empty - the selection yields a region or throws; HDF5 is never handed
    vectors with fewer than [rank] entries (shorter ones are refused with InvalidRank) *)
Theorem C16_slab_selection_ub_characterised : forall sh off cnt, is_ub (slab_sel sh off cnt) = false.
Proof. exact slab_never_ub. Qed.
Print Assumptions C16_slab_selection_ub_characterised.

Theorem C16_slab_short_vectors_refused : forall sh off cnt,
  off <> [] ->
  ((List.length off < List.length sh)%nat \/ (cnt <> [] /\ (List.length cnt < List.length sh)%nat)) ->
  slab_sel sh off cnt = Err "nix::InvalidRank"%string.
Proof. exact slab_short_is_invalid_rank. Qed.
Print Assumptions C16_slab_short_vectors_refused.

(** a calibrated read requested as String is refused before any double is written over the caller's
    std::string objects *)
Theorem C16_calibrated_string_read_refused : forall a off cnt,
  calibrated a = true -> io_read a TString off cnt = Err h5error.
Proof. exact calibrated_string_refused. Qed.
Print Assumptions C16_calibrated_string_read_refused.

Example C16_nonvacuous :
  getSetIndex f64_nan [] PositionMatch_Less = Ok None /\
  getSampledIndex f64_nan (ofZ 0) (ofZ 1) PositionMatch_GreaterOrEqual = Ok None /\
  getIndex (ofZ 7) [ofZ 1; ofZ 2] PositionMatch_GreaterOrEqual = Ok None.
Proof. vm_compute. repeat split. Qed.
