(** C13 — Dimension descriptors are gap-free, faithful, and aliases mirror their array.
    Statements only; each closed by [exact].  Model: Store/Dims.v, proofs: Store/DimsProofs.v, Store/DimsOrder.v.

    [dstep b] is the model of the code path with the behaviour switches [b]: [code_today] is the pinned
    tree, [code_head] the tree before the column-bound fix b527e42, [repaired] the tree with every fix: commit - /repo HEAD.  The theorems
    below are about [repaired] (or about every [b]); each [..._refuted] exhibits, by computation, that the
    statement fails for [code_today].  The LAST theorem, [current_is_repaired], is the open obligation: it
    checks only once the coordinator has set [Dims.current_behaviour := repaired] after the fix: commits. *)
From Coq Require Import ZArith Bool String List.
From Flocq Require Import BinarySingleNaN.
Require Import NixV.Base.Prelude NixV.Base.F64.
Require NixV.Data.NDArr.
Require Import NixV.Store.Dims NixV.Store.DimsProofs NixV.Store.DimsOrder.
Import ListNotations.
Local Open Scope string_scope.
Local Open Scope Z_scope.

(** the descriptor groups are NAMED 1..n in the order they were appended, after every history of
    append / modify / delete-all / reopen calls (accepted or rejected), on arrays of every element type and
    rank - for the code as pinned and as repaired *)
Theorem C13_dims_gap_free : forall b ops t rank len fs ffs,
  let s := dfinal b ops (dinit t rank len fs ffs) in keys (dims s) = zrange (count s).
Proof. exact dims_gap_free. Qed.
Print Assumptions C13_dims_gap_free.

(** dimensions() returns exactly those n descriptors with their kinds, getDimension(0) and
    getDimension(n+1) are none, dimensionCount() is n *)
Theorem C13_dims_answer : forall b ops t rank len fs ffs,
  let s := dfinal b ops (dinit t rank len fs ffs) in
  snd (dstep b Dims s) = Ok (ADims (map (fun p => (fst p, kind_of (snd p))) (dims s))) /\
  snd (dstep b (GetDim 0) s) = Ok (AKind None) /\
  snd (dstep b (GetDim (count s + 1)) s) = Ok (AKind None) /\
  snd (dstep b Count s) = Ok (ACount (zlen (dims s))).
Proof. exact dims_answer. Qed.
Print Assumptions C13_dims_answer.

(** dim_readback: over EVERY history the (repaired) code-path model answers each call - appends of all five
    kinds in all argument forms, the deprecated creators, every setter and getter, tickAt / ticks(start,count) /
    axis, data-frame column queries, array label / unit / data writes, deleteDimensions, reopen, and the full
    dump [Observe] - exactly as the plain-list specification [sp_step] demands: descriptor i is the i-th
    list element, an accepted write replaces that element's field, a refused call changes nothing *)
Theorem C13_dim_readback : forall ops t rank len fs ffs,
  abs (fst (drun repaired ops (dinit t rank len fs ffs))) = fst (sp_run ops (sinit t rank len fs ffs)) /\
  map forget (snd (drun repaired ops (dinit t rank len fs ffs))) = snd (sp_run ops (sinit t rank len fs ffs)).
Proof. exact history_refines. Qed.
Print Assumptions C13_dim_readback.

(** what the specification means: the last accepted write to descriptor i is what it holds, the others
    are untouched; an appended descriptor is found at n+1, the earlier ones stay *)
Theorem C13_spec_last_write : forall (l : list dimdesc) d,
  (forall i, 1 <= i <= zlen l -> s_get i (s_set i d l) = Some d) /\
  (forall i j, i <> j -> s_get j (s_set i d l) = s_get j l) /\
  s_get (zlen l + 1) (l ++ [d]) = Some d /\
  (forall j, j <= zlen l -> s_get j (l ++ [d]) = s_get j l).
Proof.
  exact (fun l d => conj (fun i H => spec_set_get_same i d l H)
                   (conj (fun i j H => spec_set_get_other i j d l H)
                   (conj (spec_append_get_new d l) (fun j H => spec_append_get_old j d l H)))).
Qed.
Print Assumptions C13_spec_last_write.

(** a sampled dimension is stored with the interval, unit, label AND offset it was given - negative
    offsets included; only the default 0.0 means "no offset" *)
Theorem C13_readback_sampled_append : forall s x l u off, gap_free (dims s) -> ro s = false ->
  fgt x fzero = true -> unit_bad u = false ->
  dstep repaired (AppendSampled x l u off) s =
    (add_dim s (dims s) (count s + 1) (DSampled x (if fne off fzero then Some off else None) (opt_ne u) (opt_ne l)),
     Ok (AIndex (count s + 1))) /\
  lookup (count s + 1) (dims (fst (dstep repaired (AppendSampled x l u off) s))) =
    Some (DSampled x (if fne off fzero then Some off else None) (opt_ne u) (opt_ne l)).
Proof. exact readback_sampled_append. Qed.
Print Assumptions C13_readback_sampled_append.

Theorem C13_readback_range_append : forall s t l u, gap_free (dims s) -> ro s = false ->
  lempty t = false -> ascending t = true -> unit_bad u = false ->
  dstep repaired (AppendRange t l u) s =
    (add_dim s (dims s) (count s + 1) (DRange t (opt_ne u) (opt_ne l)), Ok (AIndex (count s + 1))).
Proof. exact readback_range_append. Qed.
Print Assumptions C13_readback_range_append.

(** the offset setter keeps every value: negative, zero, NaN *)
Theorem C13_readback_offset_setter : forall s i x o u l v, lookup i (dims s) = Some (DSampled x o u l) -> ro s = false ->
  snd (dstep repaired (SOffset i (Some v)) s) = Ok ADone /\
  lookup i (dims (fst (dstep repaired (SOffset i (Some v)) s))) = Some (DSampled x (Some v) u l) /\
  (forall j, j <> i -> lookup j (dims (fst (dstep repaired (SOffset i (Some v)) s))) = lookup j (dims s)).
Proof. exact readback_offset_setter. Qed.
Print Assumptions C13_readback_offset_setter.

(** ticks_sorted_inv: whatever entry point set them (appendRangeDimension, createRangeDimension,
    RangeDimension::ticks), the ticks of a NON-alias range dimension are ascending after every history.
    (An alias has no ticks of its own: it shows the array's data, and writing unsorted DATA through the
    array is not a dimension entry point - excluded, as the property says.) *)
Theorem C13_ticks_sorted_inv : forall ops t rank len fs ffs i ticks u l,
  lookup i (dims (dfinal repaired ops (dinit t rank len fs ffs))) = Some (DRange ticks u l) -> ascending ticks = true.
Proof. exact ticks_sorted_inv. Qed.
Print Assumptions C13_ticks_sorted_inv.

(** [ascending] compares neighbours; on doubles that is the order between ANY two positions
    ([fle] is transitive; a NaN among two or more ticks fails it) *)
Theorem C13_ascending_means : forall l, ascending l = true ->
  forall i j a b, (i < j)%nat -> nth_error l i = Some a -> nth_error l j = Some b -> fle a b = true.
Proof. exact ascending_pairs. Qed.
Print Assumptions C13_ascending_means.

(** interval_positive_inv: whatever entry point set it, a sampling interval is > 0 (never 0, negative, NaN) *)
Theorem C13_interval_positive_inv : forall ops t rank len fs ffs i x off u l,
  lookup i (dims (dfinal repaired ops (dinit t rank len fs ffs))) = Some (DSampled x off u l) -> fgt x fzero = true.
Proof. exact interval_positive_inv. Qed.
Print Assumptions C13_interval_positive_inv.

(** the independent observation checker [dims_ok] (indices 1..n without gaps, nothing at 0 and n+1, every
    interval > 0, every non-alias tick vector ascending, every alias showing exactly the array's label, unit
    and data) accepts what the getters return after EVERY history - in particular under every
    interleaving of writes through the alias dimension and through the array *)
Theorem C13_alias_mirrors_and_invariants : forall ops t rank len fs ffs, (1 <= rank)%nat ->
  dims_ok (dobserve (dfinal repaired ops (dinit t rank len fs ffs))) = true.
Proof. exact observation_ok. Qed.
Print Assumptions C13_alias_mirrors_and_invariants.

(** alias, direction dimension -> array: label / unit / ticks written through the dimension land in the array *)
Theorem C13_alias_writes : forall b s i, lookup i (dims s) = Some DAlias -> ro s = false ->
  (forall v, sempty v = false -> dstep b (RLabel i (Some v)) s = (with_label s (Some v), Ok ADone)) /\
  (forall v, sempty v = false -> is_si v = true -> dstep b (RUnit i (Some v)) s = (with_unit s (Some v), Ok ADone)) /\
  (forall t vs, ticks_ok b t = true -> from_dbls (a_ty s) t = Ok vs -> dstep b (RTicks i t) s = (with_data s vs, Ok ADone)) /\
  (a_label (fst (dstep b (RLabel i None) s)) = None /\ snd (dstep b (RLabel i None) s) = Ok ADone) /\
  (a_unit (fst (dstep b (RUnit i None) s)) = None /\ snd (dstep b (RUnit i None) s) = Ok ADone).
Proof. exact alias_writes. Qed.
Print Assumptions C13_alias_writes.

(** alias, direction array -> dimension: the getters of the alias ARE the array's label, unit and data,
    and a write to the array keeps the alias in place *)
Theorem C13_alias_reads : forall s,
  dobs_of (a_label s) (a_unit s) (data_dbl s) (frames s) DAlias = ORange true (a_label s) (a_unit s) (data_dbl s).
Proof. exact alias_reads. Qed.
Print Assumptions C13_alias_reads.

Theorem C13_array_writes_seen : forall b s i, lookup i (dims s) = Some DAlias -> ro s = false ->
  (forall v, sempty v = false ->
     let s' := fst (dstep b (ALabel (Some v)) s) in lookup i (dims s') = Some DAlias /\ a_label s' = Some v) /\
  (forall v vs, Nat.eqb (a_rank s) 1 = true -> from_dbls (a_ty s) v = Ok vs ->
     let s' := fst (dstep b (AData v) s) in lookup i (dims s') = Some DAlias /\ a_data s' = vs).
Proof. exact array_writes_seen. Qed.
Print Assumptions C13_array_writes_seen.

(** deleteDimensions on a writable file leaves none, after every history *)
Theorem C13_delete_leaves_none : forall b ops t rank len fs ffs,
  let s := dfinal b ops (dinit t rank len fs ffs) in
  ro s = false ->
  snd (dstep b DeleteDims s) = Ok (ABool true) /\ dims (fst (dstep b DeleteDims s)) = [] /\
  o_count (dobserve (fst (dstep b DeleteDims s))) = 0 /\ o_dims (dobserve (fst (dstep b DeleteDims s))) = [].
Proof. exact delete_leaves_none_run. Qed.
Print Assumptions C13_delete_leaves_none.

(** closing and reopening (either mode) changes no observation *)
Theorem C13_reopen_identity : forall b r s,
  snd (dstep b (Reopen r) s) = Ok ADone /\
  dobserve (fst (dstep b (Reopen r) s)) = dobserve s /\
  dims (fst (dstep b (Reopen r) s)) = dims s /\
  abs (fst (dstep b (Reopen r) s)) = mkS (map snd (dims s)) (a_label s) (a_unit s) (a_data s) (a_ty s) (a_rank s) (frames s) r
    (map keep_persistent (foreign s)) (b2_alive s).
Proof. exact reopen_identity. Qed.
Print Assumptions C13_reopen_identity.

(** a rejected dimension call (every op but a write to the array's data) leaves the state as it was *)
Theorem C13_rejected_no_trace : forall ops t rank len fs ffs o e,
  let s := dfinal repaired ops (dinit t rank len fs ffs) in
  dimension_op o -> snd (dstep repaired o s) = Err e -> fst (dstep repaired o s) = s.
Proof. exact rejected_no_trace_run. Qed.
Print Assumptions C13_rejected_no_trace.

(** a frame handle that is not a frame of the array's block - a frame of ANOTHER block whatever its name (also the
    name of a local frame), the stale handle of a deleted-and-recreated frame, a frame whose block was deleted - is
    refused by all three appendDataFrameDimension overloads and leaves no trace *)
Theorem C13_foreign_frame_refused : forall s n c nm, gap_free (dims s) ->
  (fst (dstep repaired (AppendFrame (FForeign n)) s) = s /\ exists e, snd (dstep repaired (AppendFrame (FForeign n)) s) = Err e) /\
  (fst (dstep repaired (AppendFrameIdx (FForeign n) c) s) = s /\ exists e, snd (dstep repaired (AppendFrameIdx (FForeign n) c) s) = Err e) /\
  (fst (dstep repaired (AppendFrameName (FForeign n) nm) s) = s /\ exists e, snd (dstep repaired (AppendFrameName (FForeign n) nm) s) = Err e).
Proof. exact foreign_frame_refused. Qed.
Print Assumptions C13_foreign_frame_refused.

(** ---- the tree as it was pinned (behaviour [code_today]): computed witnesses ---- *)

Theorem C13_ticks_sorted_inv_refuted :
  is_ok_ans (snd (dstep code_today (AppendRange [ofZ 3; ofZ 2; ofZ 1] "" "") w_init)) = true /\
  dims_ok (dobserve (dfinal code_today [AppendRange [ofZ 3; ofZ 2; ofZ 1] "" ""] w_init)) = false /\
  is_ok_ans (snd (dstep repaired (AppendRange [ofZ 3; ofZ 2; ofZ 1] "" "") w_init)) = false.
Proof. exact unsorted_append_refuted. Qed.
Print Assumptions C13_ticks_sorted_inv_refuted.

Theorem C13_interval_positive_inv_refuted :
  is_ok_ans (snd (dstep code_today (AppendSampled (ofZ (-1)) "" "" fzero) w_init)) = true /\
  dims_ok (dobserve (dfinal code_today [AppendSampled (ofZ (-1)) "" "" fzero] w_init)) = false /\
  is_ok_ans (snd (dstep repaired (AppendSampled (ofZ (-1)) "" "" fzero) w_init)) = false.
Proof. exact interval_append_refuted. Qed.
Print Assumptions C13_interval_positive_inv_refuted.

Theorem C13_dim_readback_offset_refuted :
  is_ok_ans (snd (dstep code_today (AppendSampled (ofZ 1) "" "" d_m25) w_init)) = true /\
  offset_absent (dfinal code_today [AppendSampled (ofZ 1) "" "" d_m25] w_init) 1 = true /\
  offset_present (dfinal repaired [AppendSampled (ofZ 1) "" "" d_m25] w_init) 1 = true.
Proof. exact negative_offset_refuted. Qed.
Print Assumptions C13_dim_readback_offset_refuted.

Theorem C13_invalid_unit_trace_refuted :
  is_ok_ans (snd (dstep code_today (AppendRange [ofZ 1] "time" "spikes") w_init)) = false /\
  count (fst (dstep code_today (AppendRange [ofZ 1] "time" "spikes") w_init)) = 1 /\
  is_ok_ans (snd (dstep code_today (AppendSampled (ofZ 1) "time" "mV/" fzero) w_init)) = false /\
  count (fst (dstep code_today (AppendSampled (ofZ 1) "time" "mV/" fzero) w_init)) = 1 /\
  count (fst (dstep repaired (AppendRange [ofZ 1] "time" "spikes") w_init)) = 0.
Proof. exact invalid_unit_trace_refuted. Qed.
Print Assumptions C13_invalid_unit_trace_refuted.

Theorem C13_foreign_frame_trace_refuted :
  is_ok_ans (snd (dstep code_today (AppendFrame (FForeign 0)) w_init)) = false /\
  count (fst (dstep code_today (AppendFrame (FForeign 0)) w_init)) = 1 /\
  count (fst (dstep repaired (AppendFrame (FForeign 0)) w_init)) = 0.
Proof. exact foreign_frame_trace_refuted. Qed.
Print Assumptions C13_foreign_frame_trace_refuted.

Theorem C13_nan_accepted_refuted :
  is_ok_ans (snd (dstep code_today (SInterval 1 f64_nan) (dfinal code_today [AppendSampled (ofZ 1) "" "" fzero] w_init))) = true /\
  dims_ok (dobserve (dfinal code_today [AppendSampled (ofZ 1) "" "" fzero; SInterval 1 f64_nan] w_init)) = false /\
  is_ok_ans (snd (dstep code_today (RTicks 1 [ofZ 2; f64_nan; ofZ 1]) (dfinal code_today [AppendRange [ofZ 1] "" ""] w_init))) = true /\
  dims_ok (dobserve (dfinal code_today [AppendRange [ofZ 1] "" ""; RTicks 1 [ofZ 2; f64_nan; ofZ 1]] w_init)) = false /\
  is_ok_ans (snd (dstep repaired (SInterval 1 f64_nan) (dfinal repaired [AppendSampled (ofZ 1) "" "" fzero] w_init))) = false /\
  is_ok_ans (snd (dstep repaired (RTicks 1 [ofZ 2; f64_nan; ofZ 1]) (dfinal repaired [AppendRange [ofZ 1] "" ""] w_init))) = false.
Proof. exact nan_refuted. Qed.
Print Assumptions C13_nan_accepted_refuted.

Theorem C13_readonly_delete_refuted :
  is_ok_ans (snd (dstep code_today DeleteDims (dfinal code_today [AppendSet []; Reopen true] w_init))) = true /\
  count (dfinal code_today [AppendSet []; Reopen true; DeleteDims] w_init) = 1 /\
  is_ok_ans (snd (dstep repaired DeleteDims (dfinal repaired [AppendSet []; Reopen true] w_init))) = false.
Proof. exact readonly_delete_refuted. Qed.
Print Assumptions C13_readonly_delete_refuted.

Theorem C13_rejected_no_trace_refuted :
  exists o s e, gap_free (dims s) /\ dimension_op o /\ snd (dstep code_today o s) = Err e /\ fst (dstep code_today o s) <> s.
Proof. exact rejected_no_trace_refuted. Qed.
Print Assumptions C13_rejected_no_trace_refuted.

(** non-vacuity: a real history through every kind of descriptor, legal and illegal setters, a read-only
    session, delete-all, an alias with writes from both sides - accepted and refused calls as listed, six
    descriptors before the delete, one (the alias) at the end, the checker satisfied *)
Example C13_nonvacuous :
  map is_ok_ans (snd (drun repaired demo_ops w_init)) =
    [true; true; true; true; true; true; true; false; false; true; true; false; true; true; true; true; true; true; true; true] /\
  count (dfinal repaired (firstn 13 demo_ops) w_init) = 6 /\
  count (dfinal repaired demo_ops w_init) = 1 /\
  a_label (dfinal repaired demo_ops w_init) = Some "tl" /\
  dims_ok (dobserve (dfinal repaired demo_ops w_init)) = true /\
  offset_present (dfinal repaired (firstn 3 demo_ops) w_init) 3 = true.
Proof. exact demo_run. Qed.

(** ---- further public routes ---- *)

(** dimensions(filter) is dimensions() filtered (the walk is the same, the filter sees every descriptor) *)
Theorem C13_dims_filter_route : forall b s k, gap_free (dims s) ->
  snd (dstep b Dims s) = Ok (ADims (map (fun p => (fst p, kind_of (snd p))) (dims s))) /\
  snd (dstep b (DimsOfKind k) s) =
    Ok (ADims (filter (fun p => kind_eqb (snd p) k) (map (fun p => (fst p, kind_of (snd p))) (dims s)))).
Proof. exact dims_filter_route. Qed.
Print Assumptions C13_dims_filter_route.

(** SampledDimension::operator[] is index * interval + offset on the stored interval and offset
    (RangeDimension::operator[] is tickAt: the driver maps it to the same model call) *)
Theorem C13_sampled_at : forall b s i k x off u l, lookup i (dims s) = Some (DSampled x off u l) ->
  dstep b (SAt i k) s = (s, Ok (ATick (fadd (fmul (ofZ k) x) (match off with Some o => o | None => fzero end)))).
Proof. exact sampled_at. Qed.
Print Assumptions C13_sampled_at.

(** DataFrameDimension::ticks<T> as implemented (and as the check judges it): every row of the column from the
    offset, whatever [resize] and the size of the vector handed in *)
Theorem C13_frame_ticks_all_rows : forall fs fo ci col rs vs off l fr, frame_of fs fo = Ok fr ->
  frame_ticks false fs fo ci col rs vs off = Ok l -> zlen l = fr_rows fr - off.
Proof. exact frame_ticks_all_rows. Qed.
Print Assumptions C13_frame_ticks_all_rows.

(** REMARK - a documentation discrepancy, NOT part of what C13 demands: the header documents "resize: if false, the
    size of the vector is taken as the number of ticks to read"; the code always resizes.  With a vector of one
    element and resize = false the code returns both rows, the documented rule would return one. *)
Theorem C13_ticks_documented_rule_differs :
  cells_len (snd (dstep repaired (FTicks 1 None false 1 0) (dfinal repaired [AppendFrameIdx (FOrd 0) 1] w_init))) = 2 /\
  ticks_len (frame_ticks false [w_frame] (Some 0%nat) (Some 1) None false 1 0) = 2 /\
  ticks_len (frame_ticks true [w_frame] (Some 0%nat) (Some 1) None false 1 0) = 1.
Proof. exact ticks_documented_rule_differs. Qed.
Print Assumptions C13_ticks_documented_rule_differs.

(** before b527e42 ([code_head]): a column index EQUAL to the number of columns was accepted (and the descriptor's
    label() then throws) *)
Theorem C13_frame_column_refuted :
  is_ok_ans (snd (dstep code_head (AppendFrameIdx (FOrd 0) 2) w_init)) = true /\
  is_ok_ans (snd (dstep code_head (FQuery 1 QLabel None) (dfinal code_head [AppendFrameIdx (FOrd 0) 2] w_init))) = false /\
  is_ok_ans (snd (dstep repaired (AppendFrameIdx (FOrd 0) 2) w_init)) = false /\
  is_ok_ans (snd (dstep repaired (AppendFrameIdx (FOrd 0) 1) w_init)) = true.
Proof. exact frame_col_refuted. Qed.
Print Assumptions C13_frame_column_refuted.

(** KEEP LAST: the extracted driver runs the repaired behaviour, i.e. every defect above is fixed in /repo.
    Would fail if [Dims.current_behaviour] had to be set back to a behaviour with an open defect. *)
Theorem current_is_repaired : current_behaviour = repaired.
Proof. reflexivity. Qed.
Print Assumptions current_is_repaired.
