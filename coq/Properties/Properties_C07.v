(** C07 — Position-to-index conversion obeys the documented matching rules.
    Statements only.  [getSampledIndex], [getSetIndex], [getDataFrameIndex] (and the helpers
    [lastSampleBelow], [sampleBelow]) are regenerated from src/Dimensions.cpp on every run;
    [getIndex] (range) is the hand model tied by the correspondence run. *)
From Coq Require Import ZArith Bool String List Reals.
From Flocq Require Import Core BinarySingleNaN.
Require Import NixV.Base.Prelude NixV.Base.F64 NixV.Base.F64Facts NixV.Gen.GenDimensions.
Require NixV.Access.Retrieval NixV.Access.VecUnits NixV.Gen.GenPairs NixV.Axis.PairBridge NixV.Gen.GenRange NixV.Axis.RangeBridge NixV.Axis.Wrappers NixV.Gen.GenScale NixV.Access.ScaleBridge.
Require Import NixV.Axis.AxisSpec NixV.Axis.AxisSpecProofs NixV.Axis.SampledHand NixV.Axis.SearchProofs
               NixV.Axis.SampledProofs NixV.Axis.IntAxisProofs NixV.Axis.RangeModel NixV.Axis.RangeProofs
               NixV.Axis.RoundTrip NixV.Axis.Totality.
Local Open Scope Z_scope.

(** Sampled axis, coordinates x_i = fl(fl(i*dt)+offset) for i in [0, 2^53]: for every finite
    position, offset and positive interval (all coordinates finite) and every rule, the generated
    conversion terminates within its fuel, raises nothing, and returns exactly the index the rule
    defines. Only monotonicity of the coordinates is used; no strictness is assumed. *)
Theorem C07_sampled_index_spec : forall p off dt m,
  finite p -> finite off -> finite dt -> (0 < B2R dt)%R -> axis_finite dt off ->
  exists r, getSampledIndex p off dt m = Ok r /\ rule_spec (x_sampled dt off) (Some (MAXI + 1)) m p r.
Proof. exact sampled_index_spec. Qed.
Print Assumptions C07_sampled_index_spec.

(** the finiteness premise holds for every interval up to 2^900 and offset up to 2^1000 in magnitude *)
Theorem C07_axis_finite_explicit : forall dt off,
  finite dt -> finite off -> (Rabs (B2R dt) <= bpow radix2 900)%R -> (Rabs (B2R off) <= bpow radix2 1000)%R ->
  axis_finite dt off.
Proof. exact axis_finite_small. Qed.
Print Assumptions C07_axis_finite_explicit.

(** the computed sampled coordinates never decrease with the index *)
Theorem C07_positionAt_mono : forall dt off, finite dt -> finite off -> (0 <= B2R dt)%R -> axis_finite dt off ->
  forall i j, 0 <= i <= j -> j <= MAXI -> (B2R (x_sampled dt off i) <= B2R (x_sampled dt off j))%R.
Proof. exact x_sampled_mono. Qed.
Print Assumptions C07_positionAt_mono.

(** the search behind the sampled conversion: for ANY predicate that holds on an initial segment
    of [0, 2^53], any starting guess, it terminates within the fuel and returns the last index *)
Theorem C07_search_correct : forall below : Z -> bool,
  below 0 = true -> below MAXI = false -> forall guess, 0 <= guess <= MAXI ->
  exists r, search below guess = Ok (Some r) /\ is_last_below below r.
Proof. intros below B0 BM g Hg. exact (search_ok below B0 BM g Hg). Qed.
Print Assumptions C07_search_correct.

(** Set and data-frame axes (integer coordinates, bounded by the label / row count; not bounded
    when there are none): every finite position below 2^52, every count, every rule. *)
Theorem C07_set_index_spec : forall p labels m, finite p -> (B2R p < IZR P52)%R -> zlen labels <= AXIS_MAX ->
  exists r, getSetIndex p labels m = Ok r /\ rule_spec x_int (n_count (zlen labels)) m p r.
Proof. exact set_index_spec. Qed.
Print Assumptions C07_set_index_spec.

Theorem C07_df_index_spec : forall p k m, finite p -> (B2R p < IZR P52)%R -> 0 <= k <= AXIS_MAX ->
  exists r, getDataFrameIndex p k m = Ok r /\ rule_spec x_int (n_count k) m p r.
Proof. intros p k m Fp Hp Hk. exact (df_index_spec p Fp Hp k Hk m). Qed.
Print Assumptions C07_df_index_spec.

(** Range axis: every strictly ascending list of finite ticks (any length, also empty), every
    finite position, every rule; in particular the model never dereferences end(). *)
Theorem C07_range_index_spec : forall ticks p m, finite p ->
  (forall i, 0 <= i < zlen ticks -> finite (tick_at ticks i)) ->
  (forall i j, 0 <= i < j -> j < zlen ticks -> (B2R (tick_at ticks i) < B2R (tick_at ticks j))%R) ->
  exists r, getIndex p ticks m = Ok r /\ rule_spec (x_ticks ticks) (Some (zlen ticks)) m p r.
Proof. intros ticks p m Fp Ft Hs. exact (range_index_spec ticks p Fp Ft Hs m). Qed.
Print Assumptions C07_range_index_spec.

(** the coordinate of sample i converts back to i (i-1 for Less, i+1 for Greater) on any monotone
    axis that is strictly increasing around i *)
Theorem C07_coordinate_roundtrip : forall (x : Z -> F64) N,
  (forall i, 0 <= i < N -> finite (x i)) ->
  (forall i j, 0 <= i <= j -> j < N -> (B2R (x i) <= B2R (x j))%R) ->
  forall i0, 0 <= i0 < N ->
  (i0 + 1 < N -> (B2R (x i0) < B2R (x (i0 + 1)%Z))%R) -> (0 < i0 -> (B2R (x (i0 - 1)%Z) < B2R (x i0))%R) ->
  forall m r, rule_spec x (Some N) m (x i0) r ->
  r = match m with
      | PositionMatch_Less => if 0 <? i0 then Some (i0 - 1) else None
      | PositionMatch_Greater => if i0 + 1 <? N then Some (i0 + 1) else None
      | _ => Some i0
      end.
Proof. intros x N Fx Hm i0 Hi Hu Hd m r. exact (coordinate_roundtrip x N Fx Hm i0 Hi Hu Hd m r). Qed.
Print Assumptions C07_coordinate_roundtrip.

(** a start/end pair converts to (GreaterOrEqual(start), LessOrEqual|Less(end)) and is valid exactly
    when start <= end and the resulting pair is ordered *)
Theorem C07_pair_spec : forall (x : Z -> F64) (n : option Z) (inclusive : bool) (s e : F64) (si ei : option Z),
  rule_spec x n PositionMatch_GreaterOrEqual s si ->
  rule_spec x n (if inclusive then PositionMatch_LessOrEqual else PositionMatch_Less) e ei ->
  pair_spec x n inclusive s e si ei (pair_of (fgt s e) si ei).
Proof. intros x n inclusive s e si ei. exact (pair_of_spec x n inclusive s e si ei). Qed.
Print Assumptions C07_pair_spec.

(** the extracted judge used by the correspondence run is sound for the specification *)
Theorem C07_oracle_sound : forall (x : Z -> F64) N p, finite p ->
  (forall i, 0 <= i < N -> finite (x i)) ->
  (forall i j, 0 <= i <= j -> j < N -> (B2R (x i) <= B2R (x j))%R) ->
  (forall m r, m <> PositionMatch_Equal -> index_ok x (Some N) m p r = true -> rule_spec x (Some N) m p r) /\
  (forall le, rule_spec x (Some N) PositionMatch_LessOrEqual p le ->
              rule_spec x (Some N) PositionMatch_Equal p (spec_equal x p le)).
Proof. intros x N p Fp Fx Hm. split; [apply index_ok_sound; assumption|apply equal_of_le; assumption]. Qed.
Print Assumptions C07_oracle_sound.

(** totality: for EVERY double input (NaN, infinities, huge values) the generated conversions
    return a value: no undefined double->index cast, no empty-optional dereference, no exception,
    no exhausted fuel *)
Theorem C07_no_UB : 
  (forall p off dt m, exists r, getSampledIndex p off dt m = Ok r) /\
  (forall p labels m, zlen labels < two64 -> exists r, getSetIndex p labels m = Ok r) /\
  (forall p k m, 0 <= k < two64 -> exists r, getDataFrameIndex p k m = Ok r).
Proof. exact (conj getSampledIndex_total (conj getSetIndex_total getDataFrameIndex_total)). Qed.
Print Assumptions C07_no_UB.

(** non-vacuity: interval 0.1, no offset — sample 3 (the first one that did not convert back before
    the repair) converts back under every rule; evaluated inside Coq *)
Example C07_nonvacuous :
  let dt := ofME 3602879701896397 (-55) in    (* 0.1 *)
  let off := ofZ 0 in
  let x3 := x_sampled dt off 3 in
  getSampledIndex x3 off dt PositionMatch_LessOrEqual = Ok (Some 3) /\
  getSampledIndex x3 off dt PositionMatch_GreaterOrEqual = Ok (Some 3) /\
  getSampledIndex x3 off dt PositionMatch_Equal = Ok (Some 3) /\
  getSampledIndex x3 off dt PositionMatch_Less = Ok (Some 2) /\
  getSampledIndex x3 off dt PositionMatch_Greater = Ok (Some 4) /\
  getSetIndex (ofME 3 (-1)) [] PositionMatch_Greater = Ok (Some 2) /\
  getIndex (ofZ 2) [ofZ 1; ofZ 2; ofZ 5] PositionMatch_Less = Ok (Some 0).
Proof. vm_compute. repeat split. Qed.

(** * the overloads that take a vector of units (util::positionToIndex): the vector overload is the pair
    conversion applied entry by entry, every entry scaled by the factor of its own unit (all factors first:
    the first unit that cannot be scaled raises), and anything but three lists of one length is refused *)
Theorem C07_vector_with_units_is_pairwise : forall starts ends units m d du,
  (d = Retrieval.DSampled (match d with Retrieval.DSampled dt _ _ => dt | _ => Retrieval.fzero end)
                          (match d with Retrieval.DSampled _ o _ => o | _ => None end) du \/
   d = Retrieval.DRange (match d with Retrieval.DRange t _ => t | _ => [] end) du) ->
  List.length ends = List.length starts -> List.length units = List.length starts ->
  Retrieval.positionToIndex_vec starts ends units m d = VecUnits.vec_spec d du m starts ends units.
Proof. exact VecUnits.vec_overload_is_pairwise. Qed.
Print Assumptions C07_vector_with_units_is_pairwise.

Theorem C07_vector_with_units_sizes : forall starts ends units m d,
  (exists dt off du, d = Retrieval.DSampled dt off du) \/ (exists t du, d = Retrieval.DRange t du) ->
  List.length ends <> List.length starts \/ List.length units <> List.length starts ->
  Retrieval.positionToIndex_vec starts ends units m d = Err Retrieval.E_Runtime.
Proof. exact VecUnits.vec_overload_sizes. Qed.
Print Assumptions C07_vector_with_units_sizes.

(** the behaviour before the repair (a factor carried over to later entries without unit) breaks the statement *)
Theorem C07_vector_carry_refuted :
  VecUnits.positionToIndex_vec_carry VecUnits.ex_starts VecUnits.ex_ends VecUnits.ex_units RangeMatch_Inclusive VecUnits.ex_axis
  <> VecUnits.vec_spec VecUnits.ex_axis (Some "s"%string) RangeMatch_Inclusive VecUnits.ex_starts VecUnits.ex_ends VecUnits.ex_units.
Proof. exact VecUnits.vec_overload_carry_refuted. Qed.
Print Assumptions C07_vector_carry_refuted.

Example C07_vector_with_units_nonvacuous :
  Retrieval.positionToIndex_vec VecUnits.ex_starts VecUnits.ex_ends VecUnits.ex_units RangeMatch_Inclusive VecUnits.ex_axis
  = Ok [Some (2, 5); Some (2, 5)].
Proof. exact VecUnits.vec_overload_example. Qed.

(** * the start/end pair conversions regenerated from src/Dimensions.cpp on this run are the pair rule of
    [C07_pair_spec] applied to the two scalar conversions, for all four kinds of dimension *)
Theorem C07_pair_conversions_are_generated :
  (forall s e dt off m, GenPairs.sampled_pair s e dt off m
     = PairBridge.pair_rule (fun p r => getSampledIndex p off dt r) false m s e) /\
  (forall s e n m, GenPairs.df_pair s e n m
     = PairBridge.pair_rule (fun p r => getDataFrameIndex p n r) false m s e) /\
  (forall s e labels own m, GenPairs.set_pair s e labels m own
     = PairBridge.pair_rule (fun p r => getSetIndex p (if zlen labels =? 0 then own else labels) r) false m s e) /\
  (forall s e ticks own m, GenPairs.range_pair s e ticks m own
     = PairBridge.pair_rule (fun p r => getIndex p (if zlen ticks =? 0 then own else ticks) r) true m s e).
Proof.
  repeat split.
  - exact PairBridge.sampled_pair_generated.
  - exact PairBridge.df_pair_generated.
  - exact PairBridge.set_pair_generated.
  - exact PairBridge.range_pair_generated.
Qed.
Print Assumptions C07_pair_conversions_are_generated.

(** * the range conversion regenerated from src/Dimensions.cpp on this run (iterators as indices, [*it] as a checked
    access, std::lower_bound as [lower_bound]) IS the function the theorems above speak about *)
Theorem C07_range_conversion_is_generated : forall position ticks matching,
  GenRange.getIndex_gen position ticks matching = getIndex position ticks matching.
Proof. exact RangeBridge.getIndex_generated. Qed.
Print Assumptions C07_range_conversion_is_generated.

(** * the remaining public routes (deprecated overloads that throw where the others answer none, vector overloads) are the
    conversions above followed by "none -> OutOfBounds" (definitions in Axis/Wrappers.v, replayed against the library);
    the deprecated RangeDimension::indexOf(start, end) applies the pair rule (as repaired by 85e9d14) *)
Theorem C07_deprecated_range_pair : forall s e ticks si ei,
  getIndex s ticks PositionMatch_GreaterOrEqual = Ok si -> getIndex e ticks PositionMatch_LessOrEqual = Ok ei ->
  Wrappers.range_pair2 true s e ticks = Wrappers.or_oob (Ok (pair_of (fgt s e) si ei)).
Proof. exact Wrappers.range_pair2_repaired. Qed.
Print Assumptions C07_deprecated_range_pair.

Theorem C07_deprecated_range_pair_unchecked_refuted :
  let ticks := [ofZ 1; ofZ 2; ofZ 3] in
  Wrappers.range_pair2 false (ofME 5 (-1)) (ofME 3 (-1)) ticks = Ok (2, 0) /\
  GenPairs.range_pair (ofME 5 (-1)) (ofME 3 (-1)) ticks RangeMatch_Inclusive ticks = Ok None.
Proof. exact Wrappers.range_pair2_unchecked_refuted. Qed.
Print Assumptions C07_deprecated_range_pair_unchecked_refuted.

Theorem C07_current_routes_repaired : Wrappers.range_pair2_checks_order_now = true.
Proof. reflexivity. Qed.

(** * scalePositions regenerated from src/util/dataAccess.cpp on this run IS the function of the model the unit-carrying
    vector overloads are stated over (getSIScaling is its parameter: the unit algebra of C18) *)
Theorem C07_scalePositions_is_generated : forall starts ends units dun out_s out_e,
  (Nat.min (List.length starts) (List.length ends) < 200)%nat ->
  GenScale.scalePositions_gen starts ends units dun out_s out_e Retrieval.getSIScaling
  = Retrieval.scalePositions starts ends units dun.
Proof. exact ScaleBridge.scalePositions_generated. Qed.
Print Assumptions C07_scalePositions_is_generated.
