(** C01 - Array data round trip: what is written is what is read.  Statements only; each closed by
    [exact].  Model: Data/NDArr.v (row-major array, mirrors the C++ call path); specification:
    Data/NDSpec.v (pointwise, over the history).  Unbounded in rank, shape and history length. *)
From Coq Require Import ZArith Bool String List.
From Flocq Require Import Core BinarySingleNaN.
Require Import NixV.Base.Prelude NixV.Base.F64 NixV.Data.NDIndex NixV.Data.NDArr NixV.Data.NDSpec NixV.Data.NDProofs.
Import ListNotations.
Local Open Scope Z_scope.

(** row-major index <-> flat position is a bijection on a box, any rank *)
Theorem C01_ravel_unravel : forall sh k, shape_ok sh -> 0 <= k < prod sh -> ravel sh (unravel sh k) = k.
Proof. exact ravel_unravel. Qed.
Print Assumptions C01_ravel_unravel.

Theorem C01_unravel_ravel : forall sh i, in_box sh i = true -> unravel sh (ravel sh i) = i.
Proof. exact unravel_ravel. Qed.
Print Assumptions C01_unravel_ravel.

Theorem C01_unravel_in_box : forall sh k, shape_ok sh -> 0 <= k < prod sh -> in_box sh (unravel sh k) = true.
Proof. exact unravel_in_box. Qed.
Print Assumptions C01_unravel_in_box.

(** a slab read right after a slab write with the same (offset, count) returns the written values
    - all three argument forms of offsetCount2DataSpaces, surplus entries included *)
Theorem C01_read_write_same : forall a off cnt vals a',
  wf a -> write_slab false a off cnt vals = Ok a' -> read_slab a' off cnt = Ok vals.
Proof. exact read_write_same. Qed.
Print Assumptions C01_read_write_same.

(** the cell-wise effect of a write: inside the box the written value, outside the old one *)
Theorem C01_write_slab_get : forall a off cnt vals a',
  wf a -> write_slab false a off cnt vals = Ok a' ->
  a_shape a' = a_shape a /\ a_ty a' = a_ty a /\ wf a' /\
  exists foff fcnt, slab_sel (a_shape a) off cnt = Ok (foff, fcnt) /\
    forall i, in_box (a_shape a) i = true ->
      get a' i = if in_slab foff fcnt i then nth (Z.to_nat (ravel fcnt (vsub i foff))) vals (zero a) else get a i.
Proof. exact write_slab_get. Qed.
Print Assumptions C01_write_slab_get.

Theorem C01_read_write_other : forall a off cnt vals a' foff fcnt i,
  wf a -> write_slab false a off cnt vals = Ok a' ->
  slab_sel (a_shape a) off cnt = Ok (foff, fcnt) ->
  in_box (a_shape a) i = true -> in_slab foff fcnt i = false ->
  get a' i = get a i.
Proof. exact read_write_other. Qed.
Print Assumptions C01_read_write_other.

(** reading any region disjoint from the written box returns what it returned before *)
Theorem C01_read_write_disjoint : forall a off cnt vals a' foff fcnt off2 cnt2 foff2 fcnt2,
  wf a -> write_slab false a off cnt vals = Ok a' ->
  slab_sel (a_shape a) off cnt = Ok (foff, fcnt) ->
  slab_sel (a_shape a) off2 cnt2 = Ok (foff2, fcnt2) ->
  (forall r, in_box fcnt2 r = true -> in_slab foff fcnt (vadd foff2 r) = false) ->
  read_slab a' off2 cnt2 = read_slab a off2 cnt2.
Proof. exact read_write_disjoint. Qed.
Print Assumptions C01_read_write_disjoint.

(** extent change: surviving indices keep their value, exposed ones read zero / "" *)
Theorem C01_set_extent_keeps : forall a sh a' i,
  shape_ok sh -> set_extent false a sh = Ok a' ->
  in_box sh i = true -> in_box (a_shape a) i = true -> get a' i = get a i.
Proof. exact set_extent_keeps. Qed.
Print Assumptions C01_set_extent_keeps.

Theorem C01_set_extent_fills : forall a sh a' i,
  shape_ok sh -> set_extent false a sh = Ok a' ->
  in_box sh i = true -> in_box (a_shape a) i = false -> get a' i = zero_of (a_ty a).
Proof. exact set_extent_fills. Qed.
Print Assumptions C01_set_extent_fills.

(** append = grow along the axis + write at the old end; every old element unchanged *)
Theorem C01_append_spec : forall a axis cnt vals a',
  wf a -> 0 <= axis ->
  0 <= nth (Z.to_nat axis) cnt 0 ->
  nth (Z.to_nat axis) (a_shape a) 0 + nth (Z.to_nat axis) cnt 0 < two64 ->
  append false a axis cnt vals = Ok (a', Ok tt) ->
  a_shape a' = set_nth (a_shape a) (Z.to_nat axis) (nth (Z.to_nat axis) (a_shape a) 0 + nth (Z.to_nat axis) cnt 0) /\
  wf a' /\
  (forall i, in_box (a_shape a) i = true -> get a' i = get a i) /\
  read_slab a' (set_nth (repeat 0 (List.length (a_shape a))) (Z.to_nat axis) (nth (Z.to_nat axis) (a_shape a) 0)) cnt = Ok vals.
Proof. exact append_spec. Qed.
Print Assumptions C01_append_spec.

(** one call: the model's outcome is the specification's, and the abstraction is preserved *)
Theorem C01_step_refines : forall s h o, R s h -> op_dom s o ->
  to_opt (snd (step s o)) = snd (spec_step h o) /\ R (fst (step s o)) (fst (spec_step h o)).
Proof. exact step_refines. Qed.
Print Assumptions C01_step_refines.

(** EVERY history: all outcomes (hence all reads) are the pointwise specification's, by induction
    over the history; [R] relates the row-major cells to the specification's cell map *)
Theorem C01_history_refines : forall ops s h, R s h -> run_dom s ops ->
  map to_opt (snd (run s ops)) = snd (spec_run h ops) /\ R (fst (run s ops)) (fst (spec_run h ops)).
Proof. exact history_refines. Qed.
Print Assumptions C01_history_refines.

Theorem C01_history_refines_from_create : forall t c sh ops,
  shape_ok sh -> run_dom (start t c sh) ops ->
  map to_opt (snd (run (start t c sh) ops)) = snd (spec_run (spec_start t sh) ops).
Proof. exact history_refines_from_create. Qed.
Print Assumptions C01_history_refines_from_create.

(** calibrated read = conversion of the polynomial at (stored - origin), in binary64, terms in
    increasing degree ([spec_poly]); [apply_poly] is util::applyPolynomial's loop *)
Theorem C01_apply_poly_spec : forall cs o x, apply_poly cs o x = spec_poly cs o x.
Proof. exact apply_poly_spec. Qed.
Print Assumptions C01_apply_poly_spec.

Theorem C01_calibrated_read_spec : forall a dst off cnt stored,
  calibrated a = true -> conv_ok TDouble dst = true ->
  read_direct a TDouble off cnt = Ok stored ->
  io_read a dst off cnt =
  mapM (fun v => conv_val TDouble dst (VD (spec_poly (poly_coeffs a) (origin_or_zero a) (as_f64 v)))) stored.
Proof. exact calibrated_read_spec. Qed.
Print Assumptions C01_calibrated_read_spec.

Theorem C01_uncalibrated_read : forall a dst off cnt,
  calibrated a = false -> io_read a dst off cnt = read_direct a dst off cnt.
Proof. exact uncalibrated_read. Qed.
Print Assumptions C01_uncalibrated_read.

(** setting / unsetting polynomial or origin changes no cell, no extent and no raw read *)
Theorem C01_raw_unaffected : forall s o, is_cal_op o = true ->
  a_ty (disk (fst (step s o))) = a_ty (disk s) /\
  a_shape (disk (fst (step s o))) = a_shape (disk s) /\
  a_cells (disk (fst (step s o))) = a_cells (disk s) /\
  forall dst off cnt, read_direct (view (fst (step s o))) dst off cnt = read_direct (view s) dst off cnt.
Proof. exact raw_unaffected. Qed.
Print Assumptions C01_raw_unaffected.

(** close + reopen is the identity on the stored array; every reading call answers as before *)
Theorem C01_reopen_identity : forall s m,
  disk (fst (step (fst (step s OClose)) (OOpen m))) = disk s /\
  sess (fst (step (fst (step s OClose)) (OOpen m))) = Some m /\
  (sess s <> None ->
   forall o, is_read_op o = true ->
     snd (step (fst (step (fst (step s OClose)) (OOpen m))) o) = snd (step s o)).
Proof. exact reopen_identity. Qed.
Print Assumptions C01_reopen_identity.

(** the slab selection never has undefined behaviour: count / offset vectors shorter than the data
    rank are refused with InvalidRank, longer ones are legal (test-pinned) *)
Theorem C01_slab_never_ub : forall sh off cnt, is_ub (slab_sel sh off cnt) = false.
Proof. exact slab_never_ub. Qed.
Print Assumptions C01_slab_never_ub.

Theorem C01_slab_short_is_invalid_rank : forall sh off cnt,
  off <> [] ->
  ((List.length off < List.length sh)%nat \/ (cnt <> [] /\ (List.length cnt < List.length sh)%nat)) ->
  slab_sel sh off cnt = Err "nix::InvalidRank"%string.
Proof. exact slab_short_is_invalid_rank. Qed.
Print Assumptions C01_slab_short_is_invalid_rank.

(** a calibrated read requested as String is a plain refusal *)
Theorem C01_calibrated_string_refused : forall a off cnt,
  calibrated a = true -> io_read a TString off cnt = Err h5error.
Proof. exact calibrated_string_refused. Qed.
Print Assumptions C01_calibrated_string_refused.

(** typed container routes (Hydra / multi_array / NDArray): a route only builds the request; the shape
    of a non-scalar container is its extents for every element type, and a whole-array set through a
    route followed by a whole read returns the values with exactly the container's extent *)
Theorem C01_route_shape_exact : forall r ext, r <> RScalar -> route_shape r ext = ext.
Proof. exact route_shape_exact. Qed.
Print Assumptions C01_route_shape_exact.

Theorem C01_typed_whole_round_trip : forall r ext vals a a' o,
  r <> RScalar -> wf a -> shape_ok ext ->
  route_op r (a_shape a) (TSetAll ext vals) = Ok o ->
  o = OWriteAll ext vals /\
  (write_all false a ext vals = Ok (a', Ok tt) -> a_shape a' = ext /\ read_slab a' [] ext = Ok vals).
Proof. exact typed_whole_round_trip. Qed.
Print Assumptions C01_typed_whole_round_trip.

(** further public routes.  Create-and-fill (template Block::createDataArray(name, type, data, data_type,
    compression)): success refines the specification; failure means "no array" in the specification, and in
    the model as soon as the creation is rolled back ([create_fill_rolls_back], false on the pinned tree:
    the array stays behind - reported by the correspondence run) *)
Theorem C01_create_fill_refines : forall b elem stored c r ext vals,
  shape_ok (route_shape r ext) ->
  match create_fill b elem stored c r ext vals with
  | (Some a, Ok _) => exists h, spec_create_fill elem stored r ext vals = Some h /\ R (mkSt a (Some RW)) h
  | (oa, _) => spec_create_fill elem stored r ext vals = None /\ (b = true -> oa = None)
  end.
Proof. exact create_fill_refines. Qed.
Print Assumptions C01_create_fill_refines.

Theorem C01_create_fill_round_trip : forall b t c r ext vals a,
  shape_ok (route_shape r ext) ->
  create_fill b t t c r ext vals = (Some a, Ok tt) ->
  a_shape a = route_shape r ext /\ (Forall (fun v => conv_val t t v = Ok v) vals) /\
  read_slab a (repeat 0 (List.length (route_shape r ext))) (route_shape r ext) = Ok vals.
Proof. exact create_fill_round_trip. Qed.
Print Assumptions C01_create_fill_round_trip.

(** NDArray::get / set by NDSize index: the row-major position inside the box *)
Theorem C01_nd_index_in_box : forall sh i, in_box sh i = true -> nd_index sh i = Ok (ravel sh i).
Proof. exact nd_index_in_box. Qed.
Print Assumptions C01_nd_index_in_box.

(** string_to_data_type inverts data_type_to_string on every name the library prints *)
Theorem C01_dtype_names_round_trip :
  forallb (fun n => match string_to_dtype_name n with Ok m => String.eqb m n | _ => false end) dtype_names = true.
Proof. exact dtype_names_round_trip. Qed.
Print Assumptions C01_dtype_names_round_trip.

(** * Non-vacuity and witnesses (all by computation) *)

Definition ex_ops : list op :=
  [ OWrite [] [2; 3] [VI 1; VI 2; VI 3; VI 4; VI 5; VI 6];
    OExtent [3; 2];
    ORead false None [] [6];
    OAppend 0 [1; 2] [VI 7; VI 8];
    OWrite [1; 1; 9] [2; 1; 1] [VI (-5); VI (-6)];          (* longer than the rank: legal *)
    OClose; OOpen RO;
    ORead false None [0; 0] [4; 2];
    ORead false (Some TUInt8) [1; 1] [];                    (* offset only: one element, clamped *)
    OWrite [0; 0] [1; 1] [VI 9];                            (* refused: read-only *)
    ORead true None [3; 0] [1; 2] ].

(** a history of the model, its outcomes, and the same outcomes from the pointwise specification *)
Example C01_history_nonvacuous :
  snd (run (start TInt32 CNone [2; 3]) ex_ops) =
    [ Ok ObsUnit; Ok ObsUnit; Ok (ObsVals [VI 1; VI 2; VI 4; VI 5; VI 0; VI 0]); Ok ObsUnit; Ok ObsUnit;
      Ok ObsUnit; Ok ObsUnit;
      Ok (ObsVals [VI 1; VI 2; VI 4; VI (-5); VI 0; VI (-6); VI 7; VI 8]);
      Ok (ObsVals [VI 0]);
      Err h5error;
      Ok (ObsVals [VI 7; VI 8]) ] /\
  snd (spec_run (spec_start TInt32 [2; 3]) ex_ops) = map to_opt (snd (run (start TInt32 CNone [2; 3]) ex_ops)) /\
  shape_ok [2; 3] /\ run_dom (start TInt32 CNone [2; 3]) ex_ops.
Proof.
  split; [vm_compute; reflexivity|]. split; [vm_compute; reflexivity|].
  split; [repeat constructor; discriminate|].
  cbv [ex_ops run_dom op_dom]. repeat split; try (repeat constructor; discriminate); try (vm_compute; (reflexivity || discriminate)).
Qed.

(** calibrated read: Int32 cells 5, -7, 100 with polynomial 1 + 2x and origin 1 *)
Example C01_calibrated_nonvacuous :
  snd (run (start TInt32 CNone [3])
         [ OWrite [] [3] [VI 5; VI (-7); VI 100]; OPoly (Some [ofZ 1; ofZ 2]); OOrigin (Some (ofZ 1));
           ORead false None [] [3]; ORead false (Some TUInt8) [] [3]; ORead true None [] [3] ]) =
    [ Ok ObsUnit; Ok ObsUnit; Ok ObsUnit;
      Ok (ObsVals [VI 9; VI (-15); VI 199]); Ok (ObsVals [VI 9; VI 0; VI 199]); Ok (ObsVals [VI 5; VI (-7); VI 100]) ].
Proof. vm_compute. reflexivity. Qed.

(** a String array that was never written reads as empty strings (the implementation crashes here
    on the pinned tree: StringWriter::finish builds std::string from a null char pointer) *)
Example C01_unwritten_string_is_empty :
  snd (run (start TString CNone [2]) [ORead false None [] [2]; OExtent [3]; ORead false None [2] []]) =
    [Ok (ObsVals [VS ""; VS ""]); Ok ObsUnit; Ok (ObsVals [VS ""])] /\
  snd (spec_run (spec_start TString [2]) [ORead false None [] [2]; OExtent [3]; ORead false None [2] []]) =
    [Some (ObsVals [VS ""; VS ""]); Some ObsUnit; Some (ObsVals [VS ""])].
Proof. split; vm_compute; reflexivity. Qed.

(** count / offset shorter than the rank are refused; longer ones are legal (test-pinned) *)
Example C01_short_vectors_are_refused :
  slab_sel [2; 3] [1] [1] = Err "nix::InvalidRank"%string /\ slab_sel [2; 3] [1] [] = Err "nix::InvalidRank"%string /\
  slab_sel [2; 3] [1; 1] [1] = Err "nix::InvalidRank"%string /\
  slab_sel [5] [0] [1; 1] = Ok ([0], [1]) /\ slab_sel [2; 3] [] [6] = Ok ([0; 0], [2; 3]).
Proof. vm_compute. repeat split. Qed.

(** outside [op_dom], exhibited: appendData adds extent and count in 64 bits without a check - an
    overflowing append *shrinks* the array *)
Example C01_append_wrap_shrinks :
  a_shape (disk (fst (step (start TInt32 CNone [2; 0]) (OAppend 0 [two64 - 2; 0] [])))) = [0; 0] /\
  snd (step (start TInt32 CNone [2; 0]) (OAppend 0 [two64 - 2; 0] [])) = Ok ObsUnit /\
  spec_step (spec_start TInt32 [2; 0]) (OAppend 0 [two64 - 2; 0] []) = (spec_start TInt32 [2; 0], None).
Proof. vm_compute. repeat split. Qed.

(** a read-only session refuses to overwrite an existing origin and nothing changes *)
Example C01_ro_origin_refused :
  let s := fst (run (start TInt32 CNone [1]) [OOrigin (Some (ofZ 2)); OClose; OOpen RO]) in
  let origin_parts a := match a_origin a with Some o => f64_parts o | None => None end in
  snd (step s (OOrigin (Some (ofZ 1)))) = Err h5error /\
  origin_parts (view (fst (step s (OOrigin (Some (ofZ 1)))))) = f64_parts (ofZ 2) /\
  f64_parts (ofZ 1) <> f64_parts (ofZ 2).
Proof. vm_compute. repeat split. discriminate. Qed.

(** a 1-D multi_array of 300 Int8 elements sets an extent of 300 (the pinned traits store 300 mod 256) *)
Example C01_multi_array_extent_not_truncated :
  route_op (RMulti 1) [3] (TSetAll [300] (repeat (VI 1) 300)) = Ok (OWriteAll [300] (repeat (VI 1) 300)) /\
  a_shape (disk (fst (step (start TInt8 CNone [3]) (OWriteAll [300] (repeat (VI 1) 300))))) = [300].
Proof. split; vm_compute; reflexivity. Qed.

(** create-and-fill with a type the elements cannot be converted to (std::vector<double> stored as String):
    the specification has no array; on the pinned tree the array is left behind, after the repair it is not *)
Example C01_create_fill_trace :
  spec_create_fill TDouble TString RVector [2] [VI 0; VI 0] = None /\
  (match create_fill false TDouble TString CNone RVector [2] [VI 0; VI 0] with (Some a, Err _) => a_shape a = [2] | _ => False end) /\
  fst (create_fill true TDouble TString CNone RVector [2] [VI 0; VI 0]) = None /\
  (match create_fill create_fill_rolls_back TInt32 TInt8 CNone (RMulti 1) [3] [VI 1; VI 300; VI (-300)] with
   | (Some a, Ok _) => a_cells a = [VI 1; VI 127; VI (-128)] | _ => False end).
Proof. vm_compute. repeat split. Qed.
