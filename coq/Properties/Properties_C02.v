(** C02 — Close and reopen preserves the complete entity tree.

    The session model is coq/Store/DbSession.v: a session is the file ([db]) plus the open mode (plus the deleted-but-open
    objects that only today's isValidEntity() can see).  nix keeps no write-back state — every setter goes through to
    HDF5, every getter reads the file — and the model says so: [SClose], [SOpen m] and [SFlush] do not touch the file.
    The theorems hold for every behaviour [B] (today's code and the repaired one alike).  They are structurally easy;
    the weight of C02 is on the correspondence run (tools/props/C02.py): the implementation's raw dump of everything the
    property lists, before the close and after the reopen, in this process and in another one. *)
From Coq Require Import List ZArith Bool String Ascii Arith.
Require Import NixV.Base.Prelude NixV.Store.Db NixV.Store.DbOps NixV.Store.DbObserve NixV.Store.DbInv NixV.Store.DbShape
        NixV.Store.DbNoTrace NixV.Store.DbLookup NixV.Store.DbWitness NixV.Store.DbSession NixV.Store.DbReopen.
Import ListNotations.

Section C02.
Variable ids : nat -> string.
Variable sanitize : string -> string.
Variable unit_ok : string -> bool.
Variable B : behaviour.
Notation sstep := (sstep ids sanitize unit_ok B).
Notation srun := (srun ids sanitize unit_ok B).
Notation strace := (strace ids sanitize unit_ok B).

(** the observation reads the file and nothing else *)
Theorem C02_observe_file_only : forall st st', s_db st = s_db st' -> sobserve st = sobserve st'.
Proof. intros; eapply observe_file_only; eauto. Qed.

(** after ANY history, close followed by open — read-only or read-write, this process or another one — exposes exactly
    the tree that was observable before the close *)
Theorem C02_close_reopen_observe : forall st l m, sobserve (srun (srun st l) [SClose; SOpen m]) = sobserve (srun st l).
Proof. intros; eapply close_reopen_observe; eauto. Qed.

Theorem C02_close_reopen_file : forall st l m,
  s_db (srun st (l ++ [SClose; SOpen m])) = s_db (srun st l) /\ s_mode (srun st (l ++ [SClose; SOpen m])) = Some m.
Proof. intros; eapply close_reopen_file; eauto. Qed.

(** a close + reopen read-write anywhere inside a history changes neither the final file nor any later answer *)
Theorem C02_intermediate_reopen : forall st l1 l2, s_mode (srun st l1) = Some MRW ->
  s_db (srun st (l1 ++ SClose :: SOpen MRW :: l2)) = s_db (srun st (l1 ++ l2)) /\
  strace (srun st (l1 ++ [SClose; SOpen MRW])) l2 = strace (srun st l1) l2.
Proof. intros; eapply intermediate_reopen; eauto. Qed.

Theorem C02_intermediate_reopen_observe : forall st l1 l2, s_mode (srun st l1) = Some MRW ->
  sobserve (srun st (l1 ++ SClose :: SOpen MRW :: l2)) = sobserve (srun st (l1 ++ l2)).
Proof. intros; eapply intermediate_reopen_observe; eauto. Qed.

(** flush changes nothing *)
Theorem C02_flush_identity : forall st, fst (sstep st SFlush) = st.
Proof. intros; eapply flush_identity; eauto. Qed.

(** a read-only session observes the same tree from its first to its last call *)
Theorem C02_ro_session_observes_same : forall st l, s_mode st = Some MRO -> forallb plain l = true ->
  s_db (srun st l) = s_db st /\ sobserve (srun st l) = sobserve st.
Proof. intros; eapply ro_session_observes_same; eauto. Qed.

(** no query writes; a read-only session answers every query as a read-write session on the same file does *)
Theorem C02_query_pure : forall s o, mutates o = false -> fst (step ids sanitize unit_ok B s o) = s.
Proof. intros; eapply query_pure; eauto. Qed.

Theorem C02_ro_query_answers : forall d g g' o, mutates o = false ->
  snd (sstep (mkSess d (Some MRO) g) (SOp o)) = snd (sstep (mkSess d (Some MRW) g') (SOp o)) /\
  s_db (fst (sstep (mkSess d (Some MRW) g') (SOp o))) = d.
Proof. intros; eapply ro_query_answers; eauto. Qed.

(** after a reopen exactly the entities of the file have valid handles (with the repaired validity rule; an entity
    of the file has a valid handle under either rule) *)
Theorem C02_reopen_valid : forall st m a, b_valid_reachable B = true ->
  svalid B (srun st [SClose; SOpen m]) a = match a with HNone => false | HEnt o => alive (s_db st) o end.
Proof. intros; eapply reopen_valid; eauto. Qed.

Theorem C02_reopen_live_valid : forall st m o, alive (s_db st) o = true -> svalid B (srun st [SClose; SOpen m]) (HEnt o) = true.
Proof. intros; eapply reopen_live_valid; eauto. Qed.

End C02.

Print Assumptions C02_observe_file_only.
Print Assumptions C02_close_reopen_observe.
Print Assumptions C02_close_reopen_file.
Print Assumptions C02_intermediate_reopen.
Print Assumptions C02_intermediate_reopen_observe.
Print Assumptions C02_flush_identity.
Print Assumptions C02_ro_session_observes_same.
Print Assumptions C02_query_pure.
Print Assumptions C02_ro_query_answers.
Print Assumptions C02_reopen_valid.
Print Assumptions C02_reopen_live_valid.

(** handles are object identities; after the reopen they are obtained again by id or by name — that finds the same objects *)
Theorem C02_handles_rebound_by_id : forall ids, (forall a b, ids a = ids b -> a = b) -> forall N, (forall a, a < N -> looksLikeUUID (ids a) = true) ->
  forall sanitize unit_ok s p k pk e, Inv ids N s -> container s p k pk -> In e (children s p k) ->
  step ids sanitize unit_ok repaired s (OGet p k (eid ids e)) = (s, Ok (VEnt (Some (e_oid e)))).
Proof. intros; eapply reopen_rebinds_by_id; eauto. Qed.
Print Assumptions C02_handles_rebound_by_id.

Theorem C02_handles_rebound_by_name : forall ids, (forall a b, ids a = ids b -> a = b) -> forall N, (forall a, a < N -> looksLikeUUID (ids a) = true) ->
  forall sanitize unit_ok s p k pk e, Inv ids N s -> container s p k pk -> In e (children s p k) -> k <> KFeature ->
  step ids sanitize unit_ok repaired s (OGet p k (e_name e)) = (s, Ok (VEnt (Some (e_oid e)))).
Proof. intros; eapply reopen_rebinds_by_name; eauto. Qed.
Print Assumptions C02_handles_rebound_by_name.

(** the step function's own reopen op (used by the C03 / C08 histories) is the identity *)
Theorem C02_step_reopen_identity : forall ids sanitize unit_ok B s, step ids sanitize unit_ok B s OReopen = (s, Ok VUnit).
Proof. reflexivity. Qed.
Print Assumptions C02_step_reopen_identity.

(** non-vacuity: the populated file of DbWitness.v, closed and reopened read-only, shows the same tree, and a
    mutator is refused there while the file stays as it is *)
Example C02_nonvacuous :
  let st := mkSess (base repaired) (Some MRW) [] in
  let st' := srun wid wsan wunit repaired st [SClose; SOpen MRO] in
  sobserve st' = sobserve st /\ List.length (ents (s_db st')) = 15 /\
  snd (sstep wid wsan wunit repaired st' (SOp (OSetType 0 "x"))) = Err EH5 /\
  snd (sstep wid wsan wunit repaired st' (SOp (OCount (Some 0) KArray))) = Ok (VNat 3).
Proof. repeat split; vm_compute; reflexivity. Qed.
Print Assumptions C02_nonvacuous.

(** the hand copy of [util::looksLikeUUID] in the model is the definition the translator regenerates from
    src/util/util.cpp on every run *)
Require NixV.Store.GenBridge NixV.Gen.GenUtil.
Theorem C02_looksLikeUUID_is_generated : forall s, NixV.Store.Db.looksLikeUUID s = NixV.Gen.GenUtil.looksLikeUUID s.
Proof. exact NixV.Store.GenBridge.db_looksLikeUUID_is_generated. Qed.
Print Assumptions C02_looksLikeUUID_is_generated.
