(** C03 — Names are unique per parent; name / id / index lookups, has-queries, counts and order agree.

    The statements are about the REPAIRED step function of coq/Store/DbOps.v (every behaviour switch on).
    The id supply [ids] is a parameter: injective; its first [N] ids uuid-shaped ([N] arbitrary — the theorems
    speak about files with fewer than N creations; no injective map from nat into the 36-byte uuid-shaped
    strings exists); [fresh s]: the supply is not exhausted and its next id is not a name in use.
    Where today's code violates a statement the file carries a [..._refuted] witness; the LAST theorem,
    [C03_current_is_repaired], fails until the corresponding fixes have landed in /repo. *)
From Coq Require Import List ZArith Bool String Ascii Arith Sorting.Sorted.
Require Import NixV.Base.Prelude NixV.Store.Db NixV.Store.DbOps NixV.Store.DbObserve NixV.Store.DbInv NixV.Store.DbShape
        NixV.Store.DbNoTrace NixV.Store.DbLookup NixV.Store.DbWitness NixV.Store.DbRoutes.
Import ListNotations.

Section C03.
Variable ids : nat -> string.
Hypothesis ids_inj : forall a b, ids a = ids b -> a = b.
Variable N : nat.
Hypothesis ids_uuid : forall a, a < N -> looksLikeUUID (ids a) = true.
Variable sanitize : string -> string.
Variable unit_ok : string -> bool.
Notation stepR := (step ids sanitize unit_ok repaired).
Notation Inv := (Inv ids N).
Notation fresh := (fresh ids N).

(** the invariant holds initially, is preserved by every op, hence holds in every reachable state *)
Theorem C03_inv_init : Inv empty_db.
Proof. intros; eapply inv_init; eauto. Qed.

Theorem C03_inv_step : forall s o, Inv s -> fresh s -> Inv (fst (stepR s o)).
Proof. intros; eapply inv_step; eauto. Qed.

Theorem C03_inv_reachable : forall s, reachable ids N sanitize unit_ok s -> Inv s.
Proof. intros; eapply inv_reachable; eauto. Qed.

Theorem C03_inv_history : forall s l, Inv s -> fresh_along ids N sanitize unit_ok s l -> Inv (run ids sanitize unit_ok repaired s l).
Proof. intros; eapply inv_run; eauto. Qed.

(** no two entities of one container share a name; no two entities of the file share an id *)
Theorem C03_names_unique : forall s p k, Inv s -> k <> KFeature -> NoDup (map e_name (children s p k)).
Proof. intros; eapply names_unique; eauto. Qed.

Theorem C03_ids_unique : forall s, Inv s -> NoDup (map (eid ids) (ents s)).
Proof. intros; eapply ids_unique; eauto. Qed.

(** lookup by index = by name = by id = the member; has by name / id / handle is true for members *)
Theorem C03_lookup_agree : forall s p k pk i e, Inv s -> container s p k pk -> nth_error (children s p k) i = Some e ->
  stepR s (OGetIdx p k i) = (s, Ok (VEnt (Some (e_oid e)))) /\
  stepR s (OGet p k (eid ids e)) = (s, Ok (VEnt (Some (e_oid e)))) /\
  stepR s (OHas p k (eid ids e)) = (s, Ok (VBool true)) /\
  stepR s (OHasH p k (HEnt (e_oid e))) = (s, Ok (VBool true)) /\
  (k <> KFeature -> stepR s (OGet p k (e_name e)) = (s, Ok (VEnt (Some (e_oid e)))) /\
                    stepR s (OHas p k (e_name e)) = (s, Ok (VBool true))).
Proof. intros; eapply lookup_agree; eauto. Qed.

(** has => present *)
Theorem C03_has_sound : forall s p k pk key, Inv s -> container s p k pk -> k <> KFeature ->
  stepR s (OHas p k key) = (s, Ok (VBool true)) -> exists e, In e (children s p k) /\ (e_name e = key \/ eid ids e = key).
Proof. intros; eapply has_sound; eauto. Qed.

Theorem C03_has_handle_sound : forall s p k pk e, Inv s -> container s p k pk -> k <> KFeature ->
  In e (ents s) -> e_kind e = k ->
  (pk = Some KBlock \/ forall x, In x (children s p k) -> e_name x <> eid ids e) ->
  stepR s (OHasH p k (HEnt (e_oid e))) = (s, Ok (VBool true)) -> In e (children s p k).
Proof. intros; eapply has_handle_sound; eauto. Qed.

(** count = number of members; the enumeration is the list of members (= what get by index returns, in order);
    an index past the end is refused *)
Theorem C03_count_is_length : forall s p k pk, container s p k pk ->
  stepR s (OCount p k) = (s, Ok (VNat (List.length (children s p k)))).
Proof. intros; eapply count_is_length; eauto. Qed.

Theorem C03_enumeration_is_map_get : forall s p k pk, Inv s -> container s p k pk ->
  stepR s (OList p k) = (s, Ok (VEnts (map e_oid (children s p k)))).
Proof. intros; eapply enumeration_is_container; eauto. Qed.

Theorem C03_index_out_of_range : forall s p k pk i, container s p k pk -> nth_error (children s p k) i = None ->
  stepR s (OGetIdx p k i) = (s, Err EOob).
Proof. intros; eapply index_out_of_range; eauto. Qed.

(** index order is creation order: the members are sorted by creation ordinal, and a create appends *)
Theorem C03_order_is_creation_order : forall s p k, Inv s -> StronglySorted lt (map e_oid (children s p k)).
Proof. intros; eapply order_is_creation_order; eauto. Qed.

Theorem C03_create_appends : forall s pk p k name type x s' v,
  do_create ids repaired s pk p k name type x = (s', Ok v) ->
  v = VEnt (Some (next s)) /\
  map e_oid (children s' p k) = map e_oid (children s p k) ++ [next s] /\
  forall p' k', (p', k') <> (p, k) -> children s' p' k' = children s p' k'.
Proof. intros; eapply create_appends; eauto. Qed.

(** deleting others and reopening keep the relative order of the survivors *)
Theorem C03_delete_preserves_relative_order : forall s x p k,
  map e_oid (children (remove_subtree s x) p k) = filter (fun o => negb (memn o (subtree s x))) (map e_oid (children s p k)).
Proof. intros; eapply delete_preserves_relative_order; eauto. Qed.

Theorem C03_reopen_preserves_order : forall s, stepR s OReopen = (s, Ok VUnit).
Proof. intros; eapply reopen_preserves_order; eauto. Qed.

(** link containers (references, entity sources, group members): count, enumeration and index agree with the
    stored list of targets; adding appends, removing filters *)
Theorem C03_link_count : forall s h sl he b, Inv s -> lcontainer s h sl he b ->
  stepR s (OLCount h sl) = (s, Ok (VNat (List.length (get_l sl (e_links he))))).
Proof. intros; eapply lcount_is_length; eauto. Qed.

Theorem C03_link_enumeration : forall s h sl he b, Inv s -> lcontainer s h sl he b ->
  stepR s (OLList h sl) = (s, Ok (VEnts (get_l sl (e_links he)))).
Proof. intros; eapply lenumeration_is_container; eauto. Qed.

Theorem C03_link_index : forall s h sl he b i t, Inv s -> lcontainer s h sl he b ->
  nth_error (get_l sl (e_links he)) i = Some t -> stepR s (OLGetIdx h sl i) = (s, Ok (VEnt (Some t))).
Proof. intros; eapply lget_by_index; eauto. Qed.

(** entity sources and group members are found by the target's id and by handle *)
Theorem C03_link_by_id : forall s h sl he b t, Inv s -> lcontainer s h sl he b -> sl <> LRefs -> In t (members s he sl) ->
  stepR s (OLGet h sl (eid ids t)) = (s, Ok (VEnt (Some (e_oid t)))) /\
  stepR s (OLHasS h sl (eid ids t)) = (s, Ok (VBool true)) /\
  stepR s (OLHas h sl (HEnt (e_oid t))) = (s, Ok (VBool true)).
Proof. intros; eapply lget_by_id; eauto. Qed.

(** references are found by id, by name and by handle (for a referenced array of the tag's block) *)
Theorem C03_references_agree : forall s h he b t, Inv s -> lcontainer s h LRefs he b ->
  In t (members s he LRefs) -> In t (children s (Some b) KArray) ->
  stepR s (OLGet h LRefs (eid ids t)) = (s, Ok (VEnt (Some (e_oid t)))) /\
  stepR s (OLGet h LRefs (e_name t)) = (s, Ok (VEnt (Some (e_oid t)))) /\
  stepR s (OLHasS h LRefs (eid ids t)) = (s, Ok (VBool true)) /\
  stepR s (OLHasS h LRefs (e_name t)) = (s, Ok (VBool true)) /\
  stepR s (OLHas h LRefs (HEnt (e_oid t))) = (s, Ok (VBool true)).
Proof. intros; eapply lget_reference; eauto. Qed.

(** enumerations with a non-default filter (X::ys(filter), ImplContainer::getEntities): the filtered enumeration is the
    enumeration filtered, in the same order; a filter by id / by name yields exactly the member the lookup by id / by
    name finds; whatever a filter returns is a member that its id finds *)
Theorem C03_filtered_is_filter_of_enumeration : forall s p k pk f, Inv s -> container s p k pk ->
  exists l, stepR s (OList p k) = (s, Ok (VEnts l)) /\
            list_filtered ids s p k f = filter (fun o => match find_ent s o with Some e => ematch ids f e | None => false end) l.
Proof. intros; eapply filtered_is_filter_of_enumeration; eauto. Qed.

Theorem C03_filtered_by_id : forall s p k pk e, Inv s -> container s p k pk -> In e (children s p k) ->
  list_filtered ids s p k (FId (eid ids e)) = [e_oid e] /\ stepR s (OGet p k (eid ids e)) = (s, Ok (VEnt (Some (e_oid e)))).
Proof. intros; eapply filtered_by_id; eauto. Qed.

Theorem C03_filtered_by_name : forall s p k pk e, Inv s -> container s p k pk -> In e (children s p k) -> k <> KFeature ->
  list_filtered ids s p k (FName (e_name e)) = [e_oid e] /\ stepR s (OGet p k (e_name e)) = (s, Ok (VEnt (Some (e_oid e)))).
Proof. intros; eapply filtered_by_name; eauto. Qed.

Theorem C03_filtered_members : forall s p k pk f o, Inv s -> container s p k pk -> In o (list_filtered ids s p k f) ->
  exists e, In e (children s p k) /\ e_oid e = o /\ ematch ids f e = true /\ stepR s (OGet p k (eid ids e)) = (s, Ok (VEnt (Some o))).
Proof. intros; eapply filtered_members; eauto. Qed.

End C03.

Print Assumptions C03_inv_init.
Print Assumptions C03_inv_step.
Print Assumptions C03_inv_reachable.
Print Assumptions C03_inv_history.
Print Assumptions C03_names_unique.
Print Assumptions C03_ids_unique.
Print Assumptions C03_lookup_agree.
Print Assumptions C03_has_sound.
Print Assumptions C03_has_handle_sound.
Print Assumptions C03_count_is_length.
Print Assumptions C03_enumeration_is_map_get.
Print Assumptions C03_index_out_of_range.
Print Assumptions C03_order_is_creation_order.
Print Assumptions C03_create_appends.
Print Assumptions C03_delete_preserves_relative_order.
Print Assumptions C03_reopen_preserves_order.
Print Assumptions C03_link_count.
Print Assumptions C03_link_enumeration.
Print Assumptions C03_link_index.
Print Assumptions C03_link_by_id.
Print Assumptions C03_references_agree.
Print Assumptions C03_filtered_is_filter_of_enumeration.
Print Assumptions C03_filtered_by_id.
Print Assumptions C03_filtered_by_name.
Print Assumptions C03_filtered_members.

(** non-vacuity: a concrete id supply meets the hypotheses, and a populated file is a reachable state *)
Example C03_nonvacuous :
  (forall a b, wid a = wid b -> a = b) /\ (forall a, a < 256 -> looksLikeUUID (wid a) = true) /\
  Inv wid 256 (base repaired).
Proof. exact (conj wid_inj (conj wid_uuid base_inv)). Qed.
Print Assumptions C03_nonvacuous.

(** what today's code does instead (witnesses computed on the model with every switch off) *)
Theorem C03_duplicate_frame_reidentifies_refuted :
  exists e, find_ent (fst (stepW code_today (base code_today) (OCreate (Some 0) KFrame "f" "t2" (XFrame [col "c" DInt32])))) 2 = Some e /\
            e_idx e <> e_oid e.
Proof. exact refuted_df_reidentified. Qed.
Print Assumptions C03_duplicate_frame_reidentifies_refuted.

Theorem C03_entity_source_has_by_name_refuted :
  snd (stepW code_today (base code_today) (OLHasS 1 LSrcs "kid")) = Ok (VBool false) /\
  snd (stepW code_today (base code_today) (OLGet 1 LSrcs "kid")) = Ok (VEnt (Some 7)) /\
  snd (stepW repaired (base repaired) (OLHasS 1 LSrcs "kid")) = Ok (VBool true).
Proof. exact refuted_esrc_has. Qed.
Print Assumptions C03_entity_source_has_by_name_refuted.

Theorem C03_entity_source_get_by_name_refuted :
  snd (stepW code_today (runW code_today empty_db ops25) (OLGet 12 LSrcs "kid")) = Ok (VEnt None) /\
  snd (stepW repaired (runW repaired empty_db ops25) (OLGet 12 LSrcs "kid")) = Ok (VEnt (Some 15)).
Proof. exact refuted_esrc_get. Qed.
Print Assumptions C03_entity_source_get_by_name_refuted.

Theorem C03_uuid_shaped_name_links_refuted :
  snd (stepW code_today (base code_today) (OLHasS 3 LRefs "12345678-1234-1234-1234-123456789abc")) = Ok (VBool false) /\
  snd (stepW code_today (base code_today) (OLHas 3 LRefs (HEnt 13))) = Ok (VBool false) /\
  snd (stepW code_today (base code_today) (OLHasS 5 LGArr "12345678-1234-1234-1234-123456789abc")) = Ok (VBool false) /\
  snd (stepW repaired (base repaired) (OLHasS 3 LRefs "12345678-1234-1234-1234-123456789abc")) = Ok (VBool true) /\
  snd (stepW repaired (base repaired) (OLHas 3 LRefs (HEnt 13))) = Ok (VBool true) /\
  snd (stepW repaired (base repaired) (OLHasS 5 LGArr "12345678-1234-1234-1234-123456789abc")) = Ok (VBool true).
Proof. exact refuted_uuid_name_links. Qed.
Print Assumptions C03_uuid_shaped_name_links_refuted.

Theorem C03_feature_lookup_null_data_refuted :
  is_ub (snd (stepW code_today (fst (stepW code_today (base code_today) (ODelete (Some 0) KArray "e"))) (OHas (Some 3) KFeature "a"))) = true /\
  snd (stepW repaired (fst (stepW repaired (base repaired) (ODelete (Some 0) KArray "e"))) (OHas (Some 3) KFeature "a")) = Ok (VBool false).
Proof. exact refuted_feature_null. Qed.
Print Assumptions C03_feature_lookup_null_data_refuted.

(** LAST: the tree the check runs against behaves like the repaired model in everything C03 depends on.
    Fails (broken obligation) while one of the defects above is still in /repo. *)
Definition c03_switches (b : behaviour) : bool * bool * bool * bool :=
  (b_df_checks b, b_esrc_by_name b, b_uuid_name_links b, b_feature_null_guard b).

(** the hand copy of [util::looksLikeUUID] in the model is the definition the translator regenerates from
    src/util/util.cpp on every run *)
Require NixV.Store.GenBridge NixV.Gen.GenUtil.
Theorem C03_looksLikeUUID_is_generated : forall s, NixV.Store.Db.looksLikeUUID s = NixV.Gen.GenUtil.looksLikeUUID s.
Proof. exact NixV.Store.GenBridge.db_looksLikeUUID_is_generated. Qed.
Print Assumptions C03_looksLikeUUID_is_generated.


(** the model's entity-name check is the generated [util::checkEntityName] (empty => EmptyString, '/' => InvalidName) *)
Require NixV.Store.DbOps.
Theorem C03_check_name_is_generated : forall name,
  NixV.Store.DbOps.check_name name =
  match NixV.Gen.GenUtil.checkEntityName name with Ok _ => None | Err e => Some e | UB _ => None end.
Proof. exact NixV.Store.GenBridge.db_check_name_is_generated. Qed.
Print Assumptions C03_check_name_is_generated.

Theorem C03_current_is_repaired : c03_switches current_behaviour = c03_switches repaired.
Proof. reflexivity. Qed.
Print Assumptions C03_current_is_repaired.
