(** C15 — DataFrame cells round trip through row, cell and column access.
    Statements only; each closed by [exact].  Model and specification: Data/Frame.v, proofs: Data/FrameProofs.v.
    The model keeps the frame as its list of rows (the layout of the compound dataset) and replays
    the library's calls on it; the specification keeps the log of accepted changes and answers every
    read cell by cell ([lookup]: the last assignment since the row last (re)appeared, else zero / ""). *)
From Coq Require Import ZArith Bool String List.
From Flocq Require Import BinarySingleNaN.
Require Import NixV.Base.Prelude NixV.Base.F64 NixV.Data.Prop NixV.Data.Frame NixV.Data.FrameProofs.
Import ListNotations.
Local Open Scope string_scope.

(** EVERY history -- rows(n) up, down, to zero; writeRow, writeCell(s) by name and by index,
    writeColumn with offset and count; readRow, readCell(s), readColumn with and without resize, with
    offset and explicit count; rows and columns out of range, unknown names, cells of foreign types,
    reopen in either mode -- is answered by the row-list model exactly as the pointwise specification
    (the extracted oracle of the correspondence run) demands *)
Theorem C15_history_refines : forall ops s a, srel s a -> Forall2 fmeets (frun ops s) (srun ops a).
Proof. exact history_refines. Qed.
Print Assumptions C15_history_refines.

Theorem C15_history_refines_from_scratch : forall ops, Forall2 fmeets (frun ops dfresh) (srun ops sfresh).
Proof. exact (fun ops => history_refines ops dfresh sfresh srel_fresh). Qed.
Print Assumptions C15_history_refines_from_scratch.

(** what the specification says, in its own words: the last write wins, other cells keep their value,
    cells not written since their row (re)appeared are zero / "", rows(n) keeps the surviving rows *)
Theorem C15_spec_last_write_wins : forall l puts r c v d,
  find_put puts r c = Some v -> lookup (EPut puts :: l) r c d = v.
Proof. exact spec_last_write_wins. Qed.
Print Assumptions C15_spec_last_write_wins.

Theorem C15_spec_other_cells_kept : forall l puts r c d,
  find_put puts r c = None -> lookup (EPut puts :: l) r c d = lookup l r c d.
Proof. exact spec_other_cells_kept. Qed.
Print Assumptions C15_spec_other_cells_kept.

Theorem C15_unwritten_zero : forall l r c d, unwritten l r c -> lookup l r c d = d.
Proof. exact unwritten_zero. Qed.
Print Assumptions C15_unwritten_zero.

Theorem C15_spec_resize : forall l n r c d, log_wf l ->
  lookup (ERows n :: l) r c d = if Nat.ltb r n then (if Nat.ltb r (log_rows l) then lookup l r c d else d) else d.
Proof. exact spec_resize. Qed.
Print Assumptions C15_spec_resize.

(** cell_last_write_wins on the model, path by path.  The three WRITE paths assign exactly their cells
    (values of the column's type are stored unchanged, every other cell keeps its value) ... *)
Theorem C15_write_cell_effect : forall s f r c v byname, d_frame s = Some f -> d_ro s = false -> wf_frame f ->
  names_unique (fr_cols f) -> r < nrows f -> c < ncols f -> type_of v = col_type (fr_cols f) c ->
  let name := c_name (nth c (fr_cols f) {| c_name := ""; c_unit := ""; c_type := TBool |}) in
  name <> "" ->
  let o := FWCells (Z.of_nat r) [(if byname : bool then ByName name else ByIdx (Z.of_nat c), v)] in
  exists f', d_frame (fst (fstep o s)) = Some f' /\ snd (fstep o s) = Ok FDone /\
    fr_cols f' = fr_cols f /\ nrows f' = nrows f /\
    forall r' c', r' < nrows f -> c' < ncols f ->
      cell (fr_rows f') r' c' = if Nat.eqb r r' && Nat.eqb c c' then v else cell (fr_rows f) r' c'.
Proof. exact write_cell_effect. Qed.
Print Assumptions C15_write_cell_effect.

Theorem C15_write_column_effect : forall s f c off vs, d_frame s = Some f -> d_ro s = false -> wf_frame f ->
  names_unique (fr_cols f) -> c < ncols f -> vs <> [] -> off + List.length vs <= nrows f ->
  (forall v, In v vs -> type_of v = col_type (fr_cols f) c) ->
  let o := FWCol (ByIdx (Z.of_nat c)) (col_type (fr_cols f) c) (Z.of_nat off) 0 vs in
  exists f', d_frame (fst (fstep o s)) = Some f' /\ snd (fstep o s) = Ok FDone /\
    fr_cols f' = fr_cols f /\ nrows f' = nrows f /\
    forall r' c', r' < nrows f -> c' < ncols f ->
      cell (fr_rows f') r' c' =
      if Nat.eqb c c' && Nat.leb off r' && Nat.ltb r' (off + List.length vs) then nth (r' - off) vs VNone
      else cell (fr_rows f) r' c'.
Proof. exact write_column_effect. Qed.
Print Assumptions C15_write_column_effect.

(** every accepted write of any of the three kinds ([writeRow] included): the planned batch, last
    assignment first, everything else untouched *)
Theorem C15_write_effect : forall s f (k : frame -> res (list put)) puts,
  d_frame s = Some f -> wf_frame f -> k f = Ok puts ->
  let m := on_frame s (fun f0 => bind (k f0) (fun puts => Ok (apply_puts puts (fr_rows f0)))) in
  exists f', d_frame (fst m) = Some f' /\ snd m = Ok FDone /\ fr_cols f' = fr_cols f /\ nrows f' = nrows f /\
    forall r c, r < nrows f -> c < ncols f ->
      cell (fr_rows f') r c = match find_put puts r c with Some v => v | None => cell (fr_rows f) r c end.
Proof. exact write_effect. Qed.
Print Assumptions C15_write_effect.

(** ... and the three READ paths return exactly the cells *)
Theorem C15_read_row_cells : forall s f r, d_frame s = Some f -> wf_frame f -> r < nrows f ->
  exists vs, snd (fstep (FRRow (Z.of_nat r)) s) = Ok (FVals vs) /\ List.length vs = ncols f /\
             forall c, c < ncols f -> nth c vs VNone = cell (fr_rows f) r c.
Proof. exact read_row_cells. Qed.
Print Assumptions C15_read_row_cells.

Theorem C15_read_cell_value : forall s f r c, d_frame s = Some f -> wf_frame f -> names_unique (fr_cols f) ->
  r < nrows f -> c < ncols f ->
  let name := c_name (nth c (fr_cols f) {| c_name := ""; c_unit := ""; c_type := TBool |}) in
  snd (fstep (FRCell (Z.of_nat r) (ByIdx (Z.of_nat c))) s) = Ok (FCell (0%Z, name, cell (fr_rows f) r c)) /\
  snd (fstep (FRCell (Z.of_nat r) (ByName name)) s) = Ok (FCell (0%Z, name, cell (fr_rows f) r c)) /\
  snd (fstep (FRCells (Z.of_nat r) [name]) s) = Ok (FCells [(0%Z, name, cell (fr_rows f) r c)]).
Proof. exact read_cell_value. Qed.
Print Assumptions C15_read_cell_value.

Theorem C15_read_column_cells : forall s f c off, d_frame s = Some f -> wf_frame f -> names_unique (fr_cols f) ->
  c < ncols f -> off <= nrows f ->
  forall pre,
  snd (fstep (FRCol (ByIdx (Z.of_nat c)) (col_type (fr_cols f) c) None true (Z.of_nat off) pre) s) =
  Ok (FVals (map (fun i => cell (fr_rows f) (off + i) c) (seq 0 (nrows f - off)))).
Proof. exact read_column_cells. Qed.
Print Assumptions C15_read_column_cells.

(** the frames every history reaches are well formed: rows as wide as the schema, every cell of its
    column's type, column types among the seven *)
Theorem C15_history_wf : forall ops f, d_frame (ffinal ops dfresh) = Some f -> wf_frame f.
Proof. exact history_wf. Qed.
Print Assumptions C15_history_wf.

Theorem C15_resize_keeps_surviving_rows : forall s f n, d_frame s = Some f -> d_ro s = false -> wf_frame f ->
  exists f', fstep (FRows (Z.of_nat n)) s = (with_frame s f', Ok FDone) /\
    fr_cols f' = fr_cols f /\ nrows f' = n /\
    (forall r c, r < n -> r < nrows f -> cell (fr_rows f') r c = cell (fr_rows f) r c) /\
    (forall r c, r < n -> nrows f <= r -> c < ncols f -> cell (fr_rows f') r c = default_of (col_type (fr_cols f) c)).
Proof. exact resize_keeps_surviving_rows. Qed.
Print Assumptions C15_resize_keeps_surviving_rows.

Theorem C15_schema_constant : forall ops s f,
  d_frame s = Some f -> forallb (fun o => match o with FNew _ => false | _ => true end) ops = true ->
  exists f', d_frame (ffinal ops s) = Some f' /\ fr_cols f' = fr_cols f.
Proof. exact schema_constant. Qed.
Print Assumptions C15_schema_constant.

Theorem C15_row_oob_rejected : forall s f row, d_frame s = Some f -> (Z.of_nat (nrows f) <= row)%Z ->
  (forall vs, fst (fstep (FWRow row vs) s) = s /\ exists e, snd (fstep (FWRow row vs) s) = Err e) /\
  (forall cells, fst (fstep (FWCells row cells) s) = s /\ exists e, snd (fstep (FWCells row cells) s) = Err e) /\
  (exists e, snd (fstep (FRRow row) s) = Err e) /\
  (forall names, exists e, snd (fstep (FRCells row names) s) = Err e) /\
  (forall c, exists e, snd (fstep (FRCell row c) s) = Err e).
Proof. exact row_oob_rejected. Qed.
Print Assumptions C15_row_oob_rejected.

Theorem C15_column_oob_rejected : forall s f c t off cnt vs, d_frame s = Some f ->
  (0 < cnt)%Z -> (Z.of_nat (nrows f) < off + cnt)%Z ->
  fst (fstep (FWCol c t off cnt vs) s) = s /\ exists e, snd (fstep (FWCol c t off cnt vs) s) = Err e.
Proof. exact column_oob_rejected. Qed.
Print Assumptions C15_column_oob_rejected.

(** conversion between member types: a value of the member's own type is stored as it is, and whatever
    is stored has the member's type *)
Theorem C15_conv_same_type : forall v, conv (type_of v) v = Ok v.
Proof. exact conv_same. Qed.
Print Assumptions C15_conv_same_type.

Theorem C15_conv_result_type : forall d v v', supported d = true -> conv d v = Ok v' -> type_of v' = d.
Proof. exact conv_type. Qed.
Print Assumptions C15_conv_result_type.

(** further public routes.  The vector overloads of colIndex / colName are the scalar ones element by element ... *)
Theorem C15_col_indices_spec : forall cols names,
  (forall l, col_indices cols names = Ok l -> Forall2 (fun n i => find_col n cols = Some (Z.to_nat i) /\ (0 <= i)%Z) names l) /\
  ((exists n, In n names /\ find_col n cols = None) -> col_indices cols names = Err H5EXC).
Proof. exact col_indices_spec. Qed.
Print Assumptions C15_col_indices_spec.

Theorem C15_col_names_spec : forall cols idxs l,
  col_names cols idxs = Ok l -> Forall2 (fun i n => col_name cols i = Ok n) idxs l.
Proof. exact col_names_spec. Qed.
Print Assumptions C15_col_names_spec.

(** ... and the column templates with a narrow element type (int8/int16/uint8/uint16): writing is writing
    the 32-bit integer of the same signedness; reading clamps into T's range and returns a value that fits unchanged;
    for the seven member types the element conversion IS the member conversion *)
Theorem C15_write_narrow_is_carrier : forall cols nr ro c t off cnt vs lohi,
  small_range t = Some lohi ->
  plan_column cols nr ro c t off cnt vs = plan_column cols nr ro c (elt_carrier t) off cnt vs.
Proof. exact write_narrow_is_carrier. Qed.
Print Assumptions C15_write_narrow_is_carrier.

Theorem C15_conv_elt_narrow_range : forall t lo hi v v',
  small_range t = Some (lo, hi) -> (lo <= hi)%Z -> conv_elt t v = Ok v' ->
  exists z, v' = mk_int (elt_carrier t) z /\ (lo <= z <= hi)%Z.
Proof. exact conv_elt_narrow_range. Qed.
Print Assumptions C15_conv_elt_narrow_range.

Theorem C15_conv_elt_narrow_id : forall t lo hi z,
  small_range t = Some (lo, hi) -> (lo <= z <= hi)%Z ->
  conv_elt t (mk_int (elt_carrier t) z) = Ok (mk_int (elt_carrier t) z).
Proof. exact conv_elt_narrow_id. Qed.
Print Assumptions C15_conv_elt_narrow_id.

Theorem C15_conv_elt_supported : forall t v, supported t = true -> conv_elt t v = conv t v.
Proof. exact conv_elt_supported. Qed.
Print Assumptions C15_conv_elt_supported.

(** non-vacuity: a history through all three paths with a shrink and a regrow, on model and specification *)
Example C15_nonvacuous :
  frun [FNew ex_cols; FRows 3; FWRow 1 [VInt32 7; VString "x"]; FWCol (ByIdx 0) TInt32 1 0 [VInt32 8; VInt32 9];
        FRRow 1; FRRow 0; FRows 2; FRows 3; FRRow 2; FRRow 3;
        FRCol (ByName "a") TInt64 None true 1 []] dfresh
  = [Ok FDone; Ok FDone; Ok FDone; Ok FDone;
     Ok (FVals [VInt32 8; VString "x"]); Ok (FVals [VInt32 0; VString ""]); Ok FDone; Ok FDone;
     Ok (FVals [VInt32 0; VString ""]); Err H5ERR;
     Ok (FVals [VInt64 8; VInt64 0])] /\
  srun [FNew ex_cols; FRows 3; FWRow 1 [VInt32 7; VString "x"]; FRows 1; FRows 3; FRRow 1; FRRow 5] sfresh
  = [Must FDone; Must FDone; Must FDone; Must FDone; Must FDone; Must (FVals [VInt32 0; VString ""]); Reject].
Proof. exact (conj frame_example spec_example). Qed.
