(** placeholder while the proofs are being written *)
Require Import NixV.Access.Retrieval NixV.Access.RetrievalSpec.
Example placeholder : code_today <> repaired. Proof. discriminate. Qed.
Print Assumptions placeholder.
