(** C05 — Tag retrieval returns exactly the tagged region.
    Model: Access/Retrieval.v (src/util/dataAccess.cpp statement for statement, over the generated index conversions).
    Specification: Access/RetrievalSpec.v ([region_is]: per-dimension index sets on the axis coordinates; [spec_answer]:
    the extracted brute-force oracle).  Proofs: Access/Retrieval{Facts,Axis,Domain,Assemble,Tag,Oracle,Proofs,Closed}.v.

    [repaired] is the behaviour the property demands (all defects repaired, index-range padding);
    [repaired_except_pinned] is the tree after notes/proposed-fixes/C05-*.patch, C06-*.patch: the pinned test
    testFlexibleTagging keeps the Exclusive-mode loss of the last element of an unspecified dimension, so the
    statements for it carry [not_pinned] and the excluded case is refuted by a witness (open finding).
    [tag_ok] is the domain of the statement (decidable, the same check the extracted oracle performs). *)
From Coq Require Import ZArith Bool String List.
Require NixV.Gen.GenAccess NixV.Access.AccessBridgeModels NixV.Gen.GenPairs NixV.Axis.PairBridge NixV.Axis.RangeModel NixV.Gen.GenScale NixV.Access.ScaleBridge.
Require Import NixV.Base.Prelude NixV.Base.F64 NixV.Gen.GenDimensions.
Require Import NixV.Access.Retrieval NixV.Access.RetrievalSpec NixV.Access.RetrievalAxis NixV.Access.RetrievalDomain
               NixV.Access.RetrievalAssemble NixV.Access.RetrievalTag NixV.Access.RetrievalOracle
               NixV.Access.RetrievalProofs NixV.Access.RetrievalClosed NixV.Access.RetrievalIds.
Import ListNotations.
Local Open Scope Z_scope.

(** taggedData = Ok (off, cnt) <=> every per-dimension set is non-empty and lies in the data, and then
    [off, off + cnt) IS the region *)
Theorem tagged_exact t a m off cnt : tag_ok t a ->
  (taggedData_tag repaired t a m = Ok (off, cnt) <->
   region_is (tag_incl t m) (a_dims a) (a_shape a) (tag_wants t a) off cnt).
Proof. exact (tagged_exact_c t a m off cnt). Qed.
Print Assumptions tagged_exact.

Theorem tagged_exact_partial t a m off cnt : tag_ok t a -> not_pinned t a m ->
  (taggedData_tag repaired_except_pinned t a m = Ok (off, cnt) <->
   region_is (tag_incl t m) (a_dims a) (a_shape a) (tag_wants t a) off cnt).
Proof. exact (tagged_exact_partial_c t a m off cnt). Qed.
Print Assumptions tagged_exact_partial.

Theorem tagged_exact_refuted :
  exists t a m off cnt, tag_ok t a /\
    taggedData_tag repaired_except_pinned t a m = Ok (off, cnt) /\
    ~ region_is (tag_incl t m) (a_dims a) (a_shape a) (tag_wants t a) off cnt.
Proof. exact RetrievalProofs.tagged_exact_refuted. Qed.
Print Assumptions tagged_exact_refuted.

(** no region (a set is empty or reaches outside the stored data): nix::OutOfBounds, never data *)
Theorem tagged_oob t a m : tag_ok t a ->
  (forall off cnt, ~ region_is (tag_incl t m) (a_dims a) (a_shape a) (tag_wants t a) off cnt) ->
  taggedData_tag repaired t a m = Err E_OutOfBounds.
Proof. exact (tagged_oob_c t a m). Qed.
Print Assumptions tagged_oob.

Theorem tagged_oob_partial t a m : tag_ok t a -> not_pinned t a m ->
  (forall off cnt, ~ region_is (tag_incl t m) (a_dims a) (a_shape a) (tag_wants t a) off cnt) ->
  taggedData_tag repaired_except_pinned t a m = Err E_OutOfBounds.
Proof. exact (tagged_oob_partial_c t a m). Qed.
Print Assumptions tagged_oob_partial.

(** the outcome is data or nix::OutOfBounds: no other exception, no undefined behaviour *)
Theorem tagged_total B t a m : tag_ok t a -> B = repaired \/ B = repaired_except_pinned -> pinned_free B t a m ->
  (exists oc, taggedData_tag B t a m = Ok oc) \/ taggedData_tag B t a m = Err E_OutOfBounds.
Proof. exact (tagged_total_c B t a m). Qed.
Print Assumptions tagged_total.

(** more position entries than dimensions: the extra ones are ignored (every behaviour, no side condition) *)
Theorem extra_positions_ignored B t a m xs ys :
  zlen (t_pos t) = zlen (a_dims a) ->
  (t_ext t = [] /\ ys = []) \/ (t_ext t <> [] /\ zlen (t_ext t) = zlen (t_pos t) /\ zlen ys = zlen xs) ->
  taggedData_tag B (mkTag (t_pos t ++ xs) (t_ext t ++ ys) (t_units t) (t_refs t) (t_feats t)) a m =
  taggedData_tag B t a m.
Proof. exact (RetrievalProofs.extra_positions_ignored B t a m xs ys). Qed.
Print Assumptions extra_positions_ignored.

(** fewer position entries than dimensions: the unspecified dimensions come back in full *)
Theorem missing_positions_full_dim t a m off cnt k sh : tag_ok t a ->
  taggedData_tag repaired t a m = Ok (off, cnt) ->
  (List.length (t_pos t) <= k < List.length (a_dims a))%nat -> nth_error (a_shape a) k = Some sh ->
  nth_error off k = Some 0 /\ nth_error cnt k = Some sh.
Proof. exact (missing_positions_full_dim_c t a m off cnt k sh). Qed.
Print Assumptions missing_positions_full_dim.

Theorem missing_positions_full_dim_inclusive t a m off cnt k sh : tag_ok t a -> tag_incl t m = true ->
  taggedData_tag repaired_except_pinned t a m = Ok (off, cnt) ->
  (List.length (t_pos t) <= k < List.length (a_dims a))%nat -> nth_error (a_shape a) k = Some sh ->
  nth_error off k = Some 0 /\ nth_error cnt k = Some sh.
Proof. exact (missing_positions_full_dim_inclusive_c t a m off cnt k sh). Qed.
Print Assumptions missing_positions_full_dim_inclusive.

Theorem missing_positions_exclusive_refuted :
  exists t a off cnt, tag_ok t a /\
    taggedData_tag repaired_except_pinned t a RangeMatch_Exclusive = Ok (off, cnt) /\
    (List.length (t_pos t) <= 1 < List.length (a_dims a))%nat /\
    nth_error (a_shape a) 1 = Some 3 /\ nth_error cnt 1 = Some 2.
Proof. exact RetrievalProofs.missing_positions_exclusive_refuted. Qed.
Print Assumptions missing_positions_exclusive_refuted.

(** feature data follows the link type *)
Theorem feature_dispatch B t f m :
  featureData_tag_feat B t f m =
  match f_link f with
  | LTagged => taggedData_tag B t (f_data f) m
  | LUntagged | LIndexed => whole (f_data f)
  end.
Proof. exact (RetrievalProofs.feature_dispatch B t f m). Qed.
Print Assumptions feature_dispatch.

Theorem feature_untagged_whole B t f m : f_link f <> LTagged ->
  (forall s, In s (a_shape (f_data f)) -> 0 <= s < two64) ->
  featureData_tag_feat B t f m = Ok (zrepeat 0 (zlen (a_shape (f_data f))), a_shape (f_data f)).
Proof. exact (RetrievalProofs.feature_untagged_whole B t f m). Qed.
Print Assumptions feature_untagged_whole.

(** the extracted brute-force oracle is the Prop-level specification ... *)
Theorem oracle_region incl a ws off cnt :
  spec_answer incl a ws = Region (off, cnt) -> region_is incl (a_dims a) (a_shape a) ws off cnt.
Proof. exact (RetrievalOracle.oracle_region incl a ws off cnt). Qed.
Print Assumptions oracle_region.

Theorem oracle_refuse incl a ws :
  spec_answer incl a ws = Refuse -> forall off cnt, ~ region_is incl (a_dims a) (a_shape a) ws off cnt.
Proof. exact (RetrievalOracle.oracle_refuse incl a ws). Qed.
Print Assumptions oracle_refuse.

(** the element ids the oracle prints (selected pointwise on the coordinates among ALL elements) are the
    elements of the region's box in row-major order - what a DataView (offset, count) delivers *)
Theorem spec_ids_region incl a ws off cnt : dims_dom (a_dims a) (a_shape a) = true ->
  region_is incl (a_dims a) (a_shape a) ws off cnt ->
  spec_ids incl a ws = view_ids (a_shape a) off cnt.
Proof. exact (RetrievalIds.spec_ids_region incl a ws off cnt). Qed.
Print Assumptions spec_ids_region.

(** ... and the repaired model answers what the oracle answers, on the oracle's whole domain *)
Theorem tag_meets_oracle t a m :
  match spec_answer (tag_incl t m) a (tag_wants t a) with
  | Region oc => taggedData_tag repaired t a m = Ok oc
  | Refuse => taggedData_tag repaired t a m = Err E_OutOfBounds
  | Unconstrained => True
  end.
Proof. exact (tag_meets_oracle_c t a m). Qed.
Print Assumptions tag_meets_oracle.

Theorem tag_meets_oracle_partial t a m : not_pinned t a m ->
  match spec_answer (tag_incl t m) a (tag_wants t a) with
  | Region oc => taggedData_tag repaired_except_pinned t a m = Ok oc
  | Refuse => taggedData_tag repaired_except_pinned t a m = Err E_OutOfBounds
  | Unconstrained => True
  end.
Proof. exact (tag_meets_oracle_partial_c t a m). Qed.
Print Assumptions tag_meets_oracle_partial.

(** non-vacuity: a sampled x range array, a tag with units, data returned / request refused *)
Example tagged_exact_nonvacuous :
  tag_ok ex_tag ex_array /\ not_pinned ex_tag ex_array RangeMatch_Exclusive /\
  taggedData_tag repaired_except_pinned ex_tag ex_array RangeMatch_Exclusive = Ok ([2; 1], [4; 1]) /\
  region_is (tag_incl ex_tag RangeMatch_Exclusive) (a_dims ex_array) (a_shape ex_array) (tag_wants ex_tag ex_array) [2; 1] [4; 1].
Proof. exact RetrievalClosed.tagged_exact_nonvacuous. Qed.
Print Assumptions tagged_exact_nonvacuous.

Example tagged_oob_nonvacuous :
  tag_ok ex_tag_far ex_array /\
  taggedData_tag repaired_except_pinned ex_tag_far ex_array RangeMatch_Inclusive = Err E_OutOfBounds /\
  forall off cnt, ~ region_is (tag_incl ex_tag_far RangeMatch_Inclusive) (a_dims ex_array) (a_shape ex_array)
                                (tag_wants ex_tag_far ex_array) off cnt.
Proof. exact RetrievalClosed.tagged_oob_nonvacuous. Qed.
Print Assumptions tagged_oob_nonvacuous.

(** The window test applied to every retrieved region is the code regenerated from src/util/dataAccess.cpp on this run *)
Theorem C05_window_test_is_generated : forall shape position count, (List.length shape < 200)%nat ->
  NixV.Gen.GenAccess.positionAndExtentInData position count shape
  = Ok (Retrieval.positionAndExtentInData shape position count).
Proof. exact NixV.Access.AccessBridgeModels.retrieval_extent_test_is_generated. Qed.
Print Assumptions C05_window_test_is_generated.

(** The start/end pair conversion of every dimension kind is the code regenerated from src/Dimensions.cpp on this run *)
Theorem C05_pair_conversion_is_generated : forall d m s e,
  Retrieval.indexOf_pair d m s e =
  match d with
  | Retrieval.DSampled dt off _ => NixV.Gen.GenPairs.sampled_pair s e dt (Retrieval.offset_or_zero off) m
  | Retrieval.DRange ticks _ => NixV.Axis.PairBridge.pair_rule (fun p r => NixV.Axis.RangeModel.getIndex p ticks r) true m s e
  | Retrieval.DSet n => NixV.Axis.PairBridge.pair_rule (fun p r => getSetIndex p (Retrieval.labels_of n) r) false m s e
  | Retrieval.DFrame n => NixV.Gen.GenPairs.df_pair s e n m
  end.
Proof. exact NixV.Axis.PairBridge.retrieval_pair_is_generated. Qed.
Print Assumptions C05_pair_conversion_is_generated.

(** scalePositions of the model is the code regenerated from src/util/dataAccess.cpp on this run *)
Theorem C05_scalePositions_is_generated : forall starts ends units dun out_s out_e,
  (Nat.min (List.length starts) (List.length ends) < 200)%nat ->
  NixV.Gen.GenScale.scalePositions_gen starts ends units dun out_s out_e Retrieval.getSIScaling
  = Retrieval.scalePositions starts ends units dun.
Proof. exact NixV.Access.ScaleBridge.scalePositions_generated. Qed.
Print Assumptions C05_scalePositions_is_generated.

(** OPEN OBLIGATION while the defects of DESIGN section 9 items 4, 19, 28, 31 are in the tree: the behaviour the
    extracted driver replays against the library is the repaired one.  Holds once the fix: commits have landed and
    [current_behaviour] in Access/Retrieval.v has been set to [repaired_except_pinned]. *)
Theorem current_is_repaired : current_behaviour = repaired_except_pinned.
Proof. reflexivity. Qed.
