(** placeholder while the proofs are being written *)
Require Import NixV.Access.SliceSpec.
Example C17_placeholder : True. Proof. exact I. Qed.
Print Assumptions C17_placeholder.
