(** C17 - Position-based slices and DataView windows address exactly their region; and the second half of
    C18: retrieval is invariant under exact rescaling of the request.  Statements only; each closed by [exact].

    Model: Access/Slice.v (util::dataSlice and what it calls) and Access/View.v (nix::DataView) on top of the
    generated C07 index functions and the C01 array model, with one switch per defect (Access/SliceSwitches.v).
    Specification: Access/SliceSpec.v.  [slices_repaired B] = the four repairable switches are off; the theorems hold
    for every such B, in particular for [repaired_except_pinned] (what the code can become) and for [repaired].
    Unbounded in rank, shape, descriptor contents and 64-bit offsets / counts.

    The position -> index layer is C07's: the theorems sampled_index_spec, set_index_spec, df_index_spec and
    range_index_spec are used through [C17_idx_spec_of_wf].  The slice theorems are stated for WELL-FORMED descriptors
    ([dim_wf]: the premises of the C07 theorems - sampled: finite offset, finite interval > 0, finite coordinates;
    range: at most 2^53+1 finite STRICTLY ascending ticks; set / data frame: at most 2^53 labels / rows) and ADMISSIBLE
    positions ([pos_ok] inside [slice_wf]: the positions converted into the dimension's unit are finite, and below 2^52 on
    set / data-frame dimensions).  No hypothesis about the conversion functions is left.  The more general forms under
    an abstract [idx_spec] hypothesis are kept as ..._under_idx_spec. *)
From Coq Require Import ZArith Bool String List Reals.
From Flocq Require Import Core BinarySingleNaN.
Require NixV.Gen.GenAccess NixV.Access.AccessBridgeModels NixV.Gen.GenView NixV.Gen.GenNDSize NixV.Access.ViewBridge NixV.Gen.GenPairs NixV.Axis.PairBridge NixV.Access.SlicePairBridge.
Require Import NixV.Base.Prelude NixV.Base.F64 NixV.Base.F64Facts NixV.Gen.GenDimensions NixV.Axis.AxisSpec
               NixV.Axis.RangeModel NixV.Axis.SampledProofs NixV.Data.NDIndex NixV.Data.NDArr
               NixV.Access.SliceSwitches NixV.Access.View NixV.Access.Slice NixV.Access.SliceSpec
               NixV.Axis.IntAxisProofs NixV.Access.SliceFacts NixV.Access.ViewProofs NixV.Access.SliceProofs NixV.Access.SliceClosed.
Import ListNotations.
Local Open Scope Z_scope.

(** * Slices *)

(** the C07 theorems for all four descriptor kinds, in the form the slice theorems use *)
Theorem C17_idx_spec_of_wf : forall d p, dim_wf d -> pos_ok d p -> idx_spec d p.
Proof. exact idx_spec_of_wf. Qed.
Print Assumptions C17_idx_spec_of_wf.

Theorem C17_axis_ok_of_wf : forall d, dim_wf d -> axis_ok d.
Proof. exact axis_ok_of_wf. Qed.
Print Assumptions C17_axis_ok_of_wf.

(** model = specification: dataSlice returns the box whose per-dimension index lists are what the brute-force
    evaluator computes, and an error exactly when the evaluator reports one *)
Theorem C17_slice_meets_spec : forall B dims shape start end_ units rm,
  slices_repaired B -> slice_wf dims shape start end_ units rm ->
  (pads_with_positions B = false \/ List.length start = List.length dims) ->
  match data_slice B dims shape start end_ units rm with
  | Ok v => spec_slice dims shape start end_ units rm = Ok (box_lists (v_offset v) (v_count v)) /\
            fits shape (v_offset v) (v_count v) = true
  | Err _ => exists e, spec_slice dims shape start end_ units rm = Err e
  | UB _ => False
  end.
Proof. exact data_slice_meets_spec_closed. Qed.
Print Assumptions C17_slice_meets_spec.

(** slice_exact: a returned slice lies in the data; in every specified dimension its extent is exactly the region
    of the request; every unspecified dimension is included in full *)
Theorem slice_exact : forall B dims shape start end_ units rm v,
  slices_repaired B -> slice_wf dims shape start end_ units rm ->
  (pads_with_positions B = false \/ List.length start = List.length dims) ->
  data_slice B dims shape start end_ units rm = Ok v ->
  fits shape (v_offset v) (v_count v) = true /\
  (forall j d n s e, nth_error dims j = Some d -> nth_error shape j = Some n ->
     nth_error start j = Some s -> nth_error end_ j = Some e ->
     exists r o c, spec_req d s e (nth j units None) rm = Ok r /\
       nth_error (v_offset v) j = Some o /\ nth_error (v_count v) j = Some c /\ 1 <= c /\
       (forall i, o <= i < o + c <-> region d n r i)) /\
  (forall j n, (List.length start <= j)%nat -> nth_error shape j = Some n ->
     nth_error (v_offset v) j = Some 0 /\ nth_error (v_count v) j = Some n).
Proof. exact slice_exact_closed. Qed.
Print Assumptions slice_exact.

(** an empty region and a region that leaves the data are refused *)
Theorem slice_oob_rejected : forall B dims shape start end_ units rm j d n s e r,
  slices_repaired B -> slice_wf dims shape start end_ units rm ->
  (pads_with_positions B = false \/ List.length start = List.length dims) ->
  nth_error dims j = Some d -> nth_error shape j = Some n -> nth_error start j = Some s -> nth_error end_ j = Some e ->
  spec_req d s e (nth j units None) rm = Ok r ->
  ((forall i, ~ region d n r i) \/ (exists i, region d n r i /\ ~ (0 <= i < n))) ->
  exists err, data_slice B dims shape start end_ units rm = Err err.
Proof. exact slice_oob_rejected_closed. Qed.
Print Assumptions slice_oob_rejected.

(** with the padding the code has and keeps, an unspecified dimension is returned in full in Inclusive mode: for a
    well-formed descriptor that covers the data (n <= number of coordinates), n <= 2^52, and - the property's own premise
    x_(n-1) < x_n, needed only for sampled axes, see C17_end_strict_unsampled - a larger coordinate after the last element *)
Theorem slice_unspecified_full_inclusive : forall B dims shape start end_ units v j d n,
  slice_reads_argument_vectors B = false -> slice_point_snaps B = false -> pads_with_positions B = true ->
  (List.length start <= List.length dims)%nat -> (List.length end_ <= List.length dims)%nat ->
  (List.length units <= List.length dims)%nat ->
  data_slice B dims shape start end_ units RangeMatch_Inclusive = Ok v ->
  (List.length start <= j)%nat -> (List.length end_ <= j)%nat -> (List.length units <= j)%nat ->
  nth_error dims j = Some d -> nth_error shape j = Some n ->
  dim_wf d -> 1 <= n <= dim_N d -> n <= P52 -> end_strict d n ->
  nth_error (v_offset v) j = Some 0 /\ nth_error (v_count v) j = Some n.
Proof. exact unspecified_full_inclusive_closed. Qed.
Print Assumptions slice_unspecified_full_inclusive.

Theorem C17_end_strict_unsampled : forall d n, dim_wf d -> 1 <= n ->
  match d with DSampled _ _ _ => True | _ => end_strict d n end.
Proof. exact end_strict_unsampled. Qed.
Print Assumptions C17_end_strict_unsampled.

(** ** the same statements under an abstract hypothesis about the conversion functions *)

(** model = specification: dataSlice returns the box whose per-dimension index lists are what the brute-force
    evaluator computes, and an error exactly when the evaluator reports one *)
Theorem C17_slice_meets_spec_under_idx_spec : forall B dims shape start end_ units rm,
  slices_repaired B -> slice_hyps dims shape start end_ units rm ->
  (pads_with_positions B = false \/ List.length start = List.length dims) ->
  match data_slice B dims shape start end_ units rm with
  | Ok v => spec_slice dims shape start end_ units rm = Ok (box_lists (v_offset v) (v_count v)) /\
            fits shape (v_offset v) (v_count v) = true
  | Err _ => exists e, spec_slice dims shape start end_ units rm = Err e
  | UB _ => False
  end.
Proof. exact data_slice_meets_spec. Qed.
Print Assumptions C17_slice_meets_spec_under_idx_spec.

(** the evaluator's answer read as the property states it: the indices whose coordinates lie in [start, end]
    (inclusive) or [start, end) (exclusive), provided there is one and all lie in the data; an error otherwise *)
Theorem C17_spec_dim_exact : forall d n s e incl,
  axis_ok d -> finite s -> finite e -> 0 <= n ->
  match spec_dim d n (RInt s e incl) with
  | Ok l => (forall i, In i l <-> region d n (RInt s e incl) i) /\ l <> [] /\
            (forall i, region d n (RInt s e incl) i -> 0 <= i < n)
  | Err _ => (forall i, ~ region d n (RInt s e incl) i) \/ (exists i, region d n (RInt s e incl) i /\ ~ (0 <= i < n))
  | UB _ => False
  end.
Proof. exact spec_dim_exact. Qed.
Print Assumptions C17_spec_dim_exact.

(** slice_exact: a returned slice lies in the data; in every specified dimension its extent is exactly the region
    of the request; every unspecified dimension is included in full *)
Theorem slice_exact_under_idx_spec : forall B dims shape start end_ units rm v,
  slices_repaired B -> slice_hyps dims shape start end_ units rm ->
  (pads_with_positions B = false \/ List.length start = List.length dims) ->
  data_slice B dims shape start end_ units rm = Ok v ->
  fits shape (v_offset v) (v_count v) = true /\
  (forall j d n s e, nth_error dims j = Some d -> nth_error shape j = Some n ->
     nth_error start j = Some s -> nth_error end_ j = Some e ->
     exists r o c, spec_req d s e (nth j units None) rm = Ok r /\
       nth_error (v_offset v) j = Some o /\ nth_error (v_count v) j = Some c /\ 1 <= c /\
       (forall i, o <= i < o + c <-> region d n r i)) /\
  (forall j n, (List.length start <= j)%nat -> nth_error shape j = Some n ->
     nth_error (v_offset v) j = Some 0 /\ nth_error (v_count v) j = Some n).
Proof. exact slice_exact_thm. Qed.
Print Assumptions slice_exact_under_idx_spec.

(** with the padding the code has and keeps, an unspecified dimension is returned in full in Inclusive mode *)
Theorem slice_unspecified_full_inclusive_under_idx_spec : forall B dims shape start end_ units v j d n,
  slice_reads_argument_vectors B = false -> slice_point_snaps B = false -> pads_with_positions B = true ->
  (List.length start <= List.length dims)%nat -> (List.length end_ <= List.length dims)%nat ->
  (List.length units <= List.length dims)%nat ->
  data_slice B dims shape start end_ units RangeMatch_Inclusive = Ok v ->
  (List.length start <= j)%nat -> (List.length end_ <= j)%nat -> (List.length units <= j)%nat ->
  nth_error dims j = Some d -> nth_error shape j = Some n -> axis_ok d ->
  (forall s e, pad_start true d = Ok s -> pad_end true d shape j = Ok e -> pad_ok d n s e) ->
  nth_error (v_offset v) j = Some 0 /\ nth_error (v_count v) j = Some n.
Proof. exact unspecified_full_inclusive. Qed.
Print Assumptions slice_unspecified_full_inclusive_under_idx_spec.

(** ... and in Exclusive mode it loses its last element: the pinned open finding (DESIGN.md appendix B.3,
    testFlexibleTagging).  4 x 5 array, first dimension given: the code returns 4 of the 5 elements of the second. *)
Theorem slice_unspecified_full_exclusive_refuted :
  data_slice repaired_except_pinned [d_time; d_set] [4; 5] [ofZ 0] [ofZ 1] [] RangeMatch_Exclusive = Ok (mkView [0; 0] [2; 4]) /\
  spec_slice [d_time; d_set] [4; 5] [ofZ 0] [ofZ 1] [] RangeMatch_Exclusive = Ok [[0; 1]; [0; 1; 2; 3; 4]] /\
  data_slice repaired [d_time; d_set] [4; 5] [ofZ 0] [ofZ 1] [] RangeMatch_Exclusive = Ok (mkView [0; 0] [2; 5]).
Proof. exact slice_unspecified_full_exclusive_refuted. Qed.
Print Assumptions slice_unspecified_full_exclusive_refuted.

(** start > end is refused, by every behaviour *)
Theorem slice_start_gt_end_rejected : forall B dims shape start end_ units rm v j s e,
  (List.length start <= List.length dims)%nat -> (List.length end_ <= List.length dims)%nat ->
  (List.length units <= List.length dims)%nat ->
  data_slice B dims shape start end_ units rm = Ok v ->
  nth_error start j = Some s -> nth_error end_ j = Some e -> fgt s e = false.
Proof. exact start_gt_end_rejected. Qed.
Print Assumptions slice_start_gt_end_rejected.

(** an empty region and a region that leaves the data are refused *)
Theorem slice_oob_rejected_under_idx_spec : forall B dims shape start end_ units rm j d n s e r,
  slices_repaired B -> slice_hyps dims shape start end_ units rm ->
  (pads_with_positions B = false \/ List.length start = List.length dims) ->
  nth_error dims j = Some d -> nth_error shape j = Some n -> nth_error start j = Some s -> nth_error end_ j = Some e ->
  spec_req d s e (nth j units None) rm = Ok r ->
  ((forall i, ~ region d n r i) \/ (exists i, region d n r i /\ ~ (0 <= i < n))) ->
  exists err, data_slice B dims shape start end_ units rm = Err err.
Proof. exact slice_oob_rejected_thm. Qed.
Print Assumptions slice_oob_rejected_under_idx_spec.

(** the complete path of the drivers - dataSlice, then DataView::getData of the whole view, on the array that holds
    its own flat indices - delivers the specification's element ids in the specification's (row-major) order *)
Theorem C17_slice_read_ids : forall B dims shape start end_ units rm v,
  view_check_wraps B = false ->
  shape_ok shape -> all_u64 shape -> Forall (fun s => s < u64max) shape -> (List.length shape <= 32)%nat ->
  data_slice B dims shape start end_ units rm = Ok v ->
  fits shape (v_offset v) (v_count v) = true ->
  slice_read B dims (id_array shape) start end_ units rm =
  Ok (v_count v, map VI (spec_ids shape (box_lists (v_offset v) (v_count v)))).
Proof. exact slice_read_ids. Qed.
Print Assumptions C17_slice_read_ids.

(** the hypotheses are met: sampled dimensions satisfy [idx_spec] and [axis_ok] by the C07 theorem; the padding
    values of every dimension kind start at the first and end at the last coordinate; getSIScaling is the quotient
    of the prefix factors for every prefix of the generated table *)
Theorem C17_sampled_idx_spec : forall dt off u p,
  finite p -> finite (off_or0 off) -> finite dt -> (0 < B2R dt)%R -> axis_finite dt (off_or0 off) ->
  idx_spec (DSampled dt off u) p.
Proof. exact sampled_idx_spec. Qed.
Print Assumptions C17_sampled_idx_spec.

Theorem C17_sampled_axis_ok : forall dt off u,
  finite (off_or0 off) -> finite dt -> (0 < B2R dt)%R -> axis_finite dt (off_or0 off) -> axis_ok (DSampled dt off u).
Proof. exact sampled_axis_ok. Qed.
Print Assumptions C17_sampled_axis_ok.

Theorem C17_int_axis_ok : forall d,
  (exists l, d = DSet l /\ zlen l <= AXIS_MAX + 1) \/ (exists r, d = DFrame r /\ 0 <= r <= AXIS_MAX + 1) -> axis_ok d.
Proof. exact int_axis_ok. Qed.
Print Assumptions C17_int_axis_ok.

Theorem C17_range_axis_ok : forall ticks u,
  zlen ticks <= AXIS_MAX + 1 ->
  (forall i, 0 <= i < zlen ticks -> finite (RangeModel.tick_at ticks i)) ->
  (forall i j, 0 <= i <= j -> j < zlen ticks -> (B2R (RangeModel.tick_at ticks i) <= B2R (RangeModel.tick_at ticks j))%R) ->
  axis_ok (DRange ticks u).
Proof. exact range_axis_ok. Qed.
Print Assumptions C17_range_axis_ok.

Theorem C17_unit_ok_known : forall u d,
  (forall a, u = Some a -> In (fst a) known_prefixes) ->
  (forall b, dim_unit d = Some b -> In (fst b) known_prefixes) -> unit_ok u d.
Proof. exact unit_ok_known. Qed.
Print Assumptions C17_unit_ok_known.

Theorem C17_pad_values_sampled : forall dt off u shape j n s e,
  finite dt -> finite (off_or0 off) -> axis_finite dt (off_or0 off) ->
  nth_error shape j = Some n -> 1 <= n < two64 ->
  pad_start true (DSampled dt off u) = Ok s -> pad_end true (DSampled dt off u) shape j = Ok e ->
  (B2R s <= B2R (dim_x (DSampled dt off u) 0))%R /\ e = dim_x (DSampled dt off u) (n - 1).
Proof. exact pad_values_sampled. Qed.
Print Assumptions C17_pad_values_sampled.

Theorem C17_pad_values_range : forall ticks u shape j n s e,
  nth_error shape j = Some n -> 1 <= n < two64 ->
  pad_start true (DRange ticks u) = Ok s -> pad_end true (DRange ticks u) shape j = Ok e ->
  s = dim_x (DRange ticks u) 0 /\ e = dim_x (DRange ticks u) (n - 1) /\ n <= dim_N (DRange ticks u).
Proof. exact pad_values_range. Qed.
Print Assumptions C17_pad_values_range.

Theorem C17_pad_values_int : forall d shape j n s e, (exists l, d = DSet l) \/ (exists r, d = DFrame r) ->
  nth_error shape j = Some n -> 1 <= n <= AXIS_MAX ->
  pad_start true d = Ok s -> pad_end true d shape j = Ok e ->
  B2R s = B2R (dim_x d 0) /\ e = dim_x d (n - 1).
Proof. exact pad_values_int. Qed.
Print Assumptions C17_pad_values_int.

(** positionAndExtentInData, for all unsigned 64-bit positions and counts *)
Theorem C17_in_data_spec : forall B extent pos cnt, extent_check_wraps B = false ->
  List.length pos = List.length extent -> List.length cnt = List.length extent ->
  all_u64 extent -> all_u64 pos -> all_u64 cnt ->
  position_and_extent_in_data B extent pos cnt = Ok (spec_in_data extent pos cnt).
Proof. exact in_data_spec. Qed.
Print Assumptions C17_in_data_spec.

(** * C18, second half *)

(** rescale_invariant, one dimension, parametric in the factor f: (s', e', unit') with fmul s' f = s and
    fmul e' f = e selects what (s, e, dimension unit) selects *)
Theorem rescale_invariant : forall B rm d sa ea sa' ea' s e s' e' u' f,
  slice_reads_argument_vectors B = false -> slice_point_snaps B = false -> has_unit d ->
  pair_factor u' (dim_unit d) = Ok f ->
  fmul s' f = s -> fmul e' f = e ->
  fgt s' e' = fgt s e -> feq s' e' = feq s e ->
  slice_dim B rm d sa' ea' s' e' u' = slice_dim B rm d sa ea s e (dim_unit d).
Proof. exact rescale_invariant_dim. Qed.
Print Assumptions rescale_invariant.

(** the order conditions follow from exactness: scaling by a positive factor without rounding *)
Theorem C18_exact_scaling_order : forall s' e' f,
  finite s' -> finite e' -> finite (fmul s' f) -> finite (fmul e' f) -> (0 < B2R f)%R ->
  B2R (fmul s' f) = (B2R s' * B2R f)%R -> B2R (fmul e' f) = (B2R e' * B2R f)%R ->
  fgt s' e' = fgt (fmul s' f) (fmul e' f) /\ feq s' e' = feq (fmul s' f) (fmul e' f).
Proof. exact exact_scaling_order. Qed.
Print Assumptions C18_exact_scaling_order.

(** the whole slice *)
Theorem rescale_invariant_slice : forall B dims shape start end_ units start' end' units' rm,
  slice_reads_argument_vectors B = false -> slice_point_snaps B = false ->
  List.length start = List.length dims -> List.length end_ = List.length dims -> List.length units = List.length dims ->
  List.length start' = List.length dims -> List.length end' = List.length dims -> List.length units' = List.length dims ->
  (forall j d s' e' u' s e u, nth_error dims j = Some d ->
     nth_error start' j = Some s' -> nth_error end' j = Some e' -> nth_error units' j = Some u' ->
     nth_error start j = Some s -> nth_error end_ j = Some e -> nth_error units j = Some u ->
     rescaled_dim d s' e' u' s e u) ->
  data_slice B dims shape start' end' units' rm = data_slice B dims shape start end_ units rm.
Proof. exact rescale_invariant_thm. Qed.
Print Assumptions rescale_invariant_slice.

(** ... and for any number k <= rank of given positions *)
Theorem rescale_invariant_slice_partial : forall B dims shape start end_ units start' end' units' rm,
  slice_reads_argument_vectors B = false -> slice_point_snaps B = false ->
  List.length start' = List.length start -> List.length end' = List.length end_ -> List.length units' = List.length units ->
  List.length end_ = List.length start -> List.length units = List.length start ->
  (forall j d s' e' u' s e u, nth_error dims j = Some d ->
     nth_error start' j = Some s' -> nth_error end' j = Some e' -> nth_error units' j = Some u' ->
     nth_error start j = Some s -> nth_error end_ j = Some e -> nth_error units j = Some u ->
     rescaled_dim d s' e' u' s e u) ->
  data_slice B dims shape start' end' units' rm = data_slice B dims shape start end_ units rm.
Proof. exact rescale_invariant_partial. Qed.
Print Assumptions rescale_invariant_slice_partial.

(** getSIScaling = quotient of the prefix factors, for all 21 x 21 prefix pairs of the generated table *)
Theorem C18_si_scaling_fdiv : forall pa pb b, In pa known_prefixes -> In pb known_prefixes ->
  si_scaling (pa, b) (pb, b) = Ok (fdiv (factor pa) (factor pb)).
Proof. exact si_scaling_fdiv. Qed.
Print Assumptions C18_si_scaling_fdiv.

(** * Views *)

(** the constructor accepts exactly the windows that lie in the array *)
Theorem C17_mk_view_spec : forall B extent cnt off,
  view_check_wraps B = false -> all_u64 extent -> all_u64 cnt -> all_u64 off ->
  (fits extent off cnt = true -> mk_view B extent cnt off = Ok (mkView off cnt)) /\
  (fits extent off cnt = false -> exists e, mk_view B extent cnt off = Err e).
Proof. exact mk_view_spec. Qed.
Print Assumptions C17_mk_view_spec.

(** a read through the view with offset_d + count_d <= window_d (over the integers) is the array read at
    (origin + offset, count), cell by cell *)
Theorem view_read_is_array_read_at_origin_plus_offset : forall B a v cnt off,
  view_check_wraps B = false -> view_ok a v -> all_u64 cnt -> all_u64 off ->
  inside_window v cnt off = true ->
  view_read B v a cnt off = read_slab a (vadd (v_offset v) (real_offset v off)) (real_count v cnt) /\
  view_read B v a cnt off = Ok (tab (real_count v cnt) (fun r => get a (vadd (vadd (v_offset v) (real_offset v off)) r))).
Proof. exact view_read_inside. Qed.
Print Assumptions view_read_is_array_read_at_origin_plus_offset.

(** a write changes exactly the addressed cells, all inside the window; the view stays valid *)
Theorem C17_view_write_cells : forall B a v cnt off gen a',
  view_check_wraps B = false -> view_ok a v -> all_u64 cnt -> all_u64 off ->
  view_write B v a cnt off gen = Ok a' ->
  inside_window v cnt off = true /\
  a_shape a' = a_shape a /\ view_ok a' v /\
  (forall i, in_box (a_shape a) i = true ->
     get a' i = if in_slab (vadd (v_offset v) (real_offset v off)) (real_count v cnt) i
                then gen (Z.to_nat (ravel (real_count v cnt) (vsub i (vadd (v_offset v) (real_offset v off)))))
                else get a i) /\
  (forall i, in_slab (vadd (v_offset v) (real_offset v off)) (real_count v cnt) i = true ->
     in_slab (v_offset v) (v_count v) i = true).
Proof. exact view_write_cells. Qed.
Print Assumptions C17_view_write_cells.

(** the frame condition: no element outside the window changes *)
Theorem view_write_frame : forall B a v cnt off gen a',
  view_check_wraps B = false -> view_ok a v -> all_u64 cnt -> all_u64 off ->
  view_write B v a cnt off gen = Ok a' ->
  forall i, in_box (a_shape a) i = true -> in_slab (v_offset v) (v_count v) i = false -> get a' i = get a i.
Proof. exact view_write_frame_thm. Qed.
Print Assumptions view_write_frame.

(** a request extending past the window - for ANY u64 offset and count, including sums that wrap - is refused with
    OutOfBounds and transfers nothing (no values, no new array) *)
Theorem view_oob_rejected : forall B a v cnt off gen,
  view_check_wraps B = false -> view_ok a v -> all_u64 cnt -> all_u64 off -> same_rank v cnt off ->
  inside_window v cnt off = false ->
  view_read B v a cnt off = Err oob /\ view_write B v a cnt off gen = Err oob.
Proof. exact view_oob_rejected_thm. Qed.
Print Assumptions view_oob_rejected.

(** model = specification for every request of the right rank *)
Theorem C17_view_read_meets_spec : forall B a v cnt off,
  view_check_wraps B = false -> view_ok a v -> all_u64 cnt -> all_u64 off -> same_rank v cnt off ->
  view_read B v a cnt off = spec_view_read v a cnt off.
Proof. exact view_read_meets_spec. Qed.
Print Assumptions C17_view_read_meets_spec.

Theorem C17_view_write_meets_spec : forall B a v cnt off gen,
  view_check_wraps B = false -> view_ok a v -> all_u64 cnt -> all_u64 off -> same_rank v cnt off ->
  view_write B v a cnt off gen = spec_view_write v a cnt off gen.
Proof. exact view_write_meets_spec. Qed.
Print Assumptions C17_view_write_meets_spec.

(** * The pinned code: computed counterexamples (each is a replayable case of the check) *)

(** DESIGN.md section 9 item 20: window [5,15) of 20 elements, offset 2^64-1, count 2 *)
Theorem view_oob_rejected_refuted :
  inside_window w5_15 [2] [two64 - 1] = false /\ view_read code_today w5_15 a20 [2] [two64 - 1] = Ok [VI 4; VI 5].
Proof. exact view_oob_rejected_refuted. Qed.
Print Assumptions view_oob_rejected_refuted.

Theorem view_write_frame_refuted :
  exists a', view_write code_today w5_15 a20 [2] [two64 - 1] (gen_from 500) = Ok a' /\
             in_slab (v_offset w5_15) (v_count w5_15) [4] = false /\ get a' [4] = VI 500 /\ get a20 [4] = VI 4.
Proof. exact view_write_frame_refuted. Qed.
Print Assumptions view_write_frame_refuted.

Theorem C17_mk_view_refuted :
  fits [20] [3] [two64 - 1] = false /\ mk_view code_today [20] [two64 - 1] [3] = Ok (mkView [3] [two64 - 1]).
Proof. exact mk_view_refuted. Qed.
Print Assumptions C17_mk_view_refuted.

Theorem C17_in_data_refuted :
  spec_in_data [20] [two64 - 1] [2] = false /\ position_and_extent_in_data code_today [20] [two64 - 1] [2] = Ok true.
Proof. exact in_data_refuted. Qed.
Print Assumptions C17_in_data_refuted.

(** item 5: fewer entries than dimensions are read past the argument vectors *)
Theorem slice_reads_past_arguments_refuted :
  is_ub (data_slice code_today [d_time; d_set] [4; 5] [ofZ 0] [ofZ 1] [] RangeMatch_Inclusive) = true /\
  spec_slice [d_time; d_set] [4; 5] [ofZ 0] [ofZ 1] [] RangeMatch_Inclusive = Ok [[0; 1; 2]; [0; 1; 2; 3; 4]] /\
  data_slice repaired_except_pinned [d_time; d_set] [4; 5] [ofZ 0] [ofZ 1] [] RangeMatch_Inclusive = Ok (mkView [0; 0] [3; 5]).
Proof. exact slice_reads_past_arguments_refuted. Qed.
Print Assumptions slice_reads_past_arguments_refuted.

(** a point request between two coordinates is answered with the next element *)
Theorem slice_exact_refuted :
  let d := DSampled (ofZ 1) None None in
  let p := ofME 5 (-1) in
  data_slice code_today [d] [20] [p] [p] [] RangeMatch_Inclusive = Ok (mkView [3] [1]) /\
  (exists e, spec_slice [d] [20] [p] [p] [] RangeMatch_Inclusive = Err e) /\
  data_slice repaired_except_pinned [d] [20] [p] [p] [] RangeMatch_Inclusive = Err oob /\
  data_slice repaired_except_pinned [d] [20] [ofZ 2] [ofZ 2] [] RangeMatch_Exclusive = Ok (mkView [2] [1]).
Proof. exact slice_point_snaps_refuted. Qed.
Print Assumptions slice_exact_refuted.

(** * Non-vacuity: concrete arrays on which model and specification return data *)
Example C17_slice_example :
  let dims := [d_time; d_set; d_ticks] in
  let shape := [4; 5; 4] in
  let start := [ofZ 500; ofZ 1; ofZ 2] in
  let end_ := [ofZ 1500; ofZ 3; ofZ 8] in
  let units := [ms_unit; None] in
  data_slice repaired_except_pinned dims shape start end_ units RangeMatch_Inclusive = Ok (mkView [1; 1; 1] [3; 3; 3]) /\
  spec_slice dims shape start end_ units RangeMatch_Inclusive = Ok [[1; 2; 3]; [1; 2; 3]; [1; 2; 3]] /\
  data_slice repaired_except_pinned dims shape start end_ units RangeMatch_Exclusive = Ok (mkView [1; 1; 1] [2; 2; 2]) /\
  spec_slice dims shape start end_ units RangeMatch_Exclusive = Ok [[1; 2]; [1; 2]; [1; 2]] /\
  data_slice code_today dims shape start end_ units RangeMatch_Exclusive = Ok (mkView [1; 1; 1] [2; 2; 2]).
Proof. exact slice_example. Qed.
Print Assumptions C17_slice_example.

Example C17_slice_rejections :
  data_slice repaired_except_pinned [d_time] [4] [ofZ 1] [ofZ 0] [] RangeMatch_Inclusive = Err "std::invalid_argument"%string /\
  data_slice repaired_except_pinned [d_time] [4] [ofZ 1] [ofZ 5] [] RangeMatch_Inclusive = Err oob /\
  data_slice repaired_except_pinned [d_time] [4] [ofZ 1] [ofZ 1] [Some ("m"%string, "V"%string)] RangeMatch_Inclusive = Err incompatible.
Proof. exact slice_rejections. Qed.
Print Assumptions C17_slice_rejections.

Example C17_rescale_example :
  data_slice repaired_except_pinned [d_time] [4] [ofZ 500] [ofZ 1500] [ms_unit] RangeMatch_Inclusive =
  data_slice repaired_except_pinned [d_time] [4] [half] [ofME 3 (-1)] [dim_unit d_time] RangeMatch_Inclusive /\
  data_slice repaired_except_pinned [d_time] [4] [ofZ 500] [ofZ 1500] [ms_unit] RangeMatch_Inclusive = Ok (mkView [1] [3]).
Proof. exact rescale_example. Qed.
Print Assumptions C17_rescale_example.

Example C17_view_examples :
  view_read repaired w5_15 a20 [2] [two64 - 1] = Err oob /\
  view_write repaired w5_15 a20 [2] [two64 - 1] (gen_from 500) = Err oob /\
  mk_view repaired [20] [two64 - 1] [3] = Err oob /\
  view_read repaired w5_15 a20 [2] [8] = Ok [VI 13; VI 14] /\
  view_read repaired w5_15 a20 [2] [9] = Err oob.
Proof. exact view_repaired_examples. Qed.
Print Assumptions C17_view_examples.

(** * Value transfers through a view: the templates DataSet::getData(value, offset) / setData(value, offset)
    (C16: no call sequence causes undefined behaviour).  With the templates repaired the transfer is the (count, offset)
    request of one element (scalar value) resp. n elements (vector value): the elements, or an exception - never an
    access outside the value; for every u64 offset. *)
Theorem C17_view_get_value_spec : forall B a v vshape buf off,
  scalar_template_empty_count B = false -> view_check_wraps B = false -> view_ok a v ->
  all_u64 vshape -> all_u64 off ->
  (vshape = [] \/ List.length vshape = List.length (v_count v)) -> (off = [] \/ List.length off = List.length (v_count v)) ->
  buf = prod vshape ->
  view_get_value B v a vshape buf off = spec_get_value v a vshape off.
Proof. exact view_get_value_spec. Qed.
Print Assumptions C17_view_get_value_spec.

Theorem C17_view_set_value_spec : forall B a v vshape buf off gen,
  scalar_template_empty_count B = false -> view_check_wraps B = false -> view_ok a v ->
  all_u64 vshape -> all_u64 off ->
  (vshape = [] \/ List.length vshape = List.length (v_count v)) -> (off = [] \/ List.length off = List.length (v_count v)) ->
  buf = prod vshape ->
  view_set_value B v a vshape buf off gen = spec_set_value v a vshape off gen.
Proof. exact view_set_value_spec. Qed.
Print Assumptions C17_view_set_value_spec.

(** a scalar read moves exactly one element - the window origin for an empty offset - or throws *)
Theorem C17_scalar_read_one_element : forall B a v off,
  scalar_template_empty_count B = false -> view_check_wraps B = false -> view_ok a v -> all_u64 off ->
  (off = [] \/ List.length off = List.length (v_count v)) ->
  view_get_value B v a [] 1 off = Err oob \/
  view_get_value B v a [] 1 off = Ok [get a (vadd (v_offset v) (real_offset v off))].
Proof. exact scalar_read_one_element. Qed.
Print Assumptions C17_scalar_read_one_element.

(** the unrepaired templates: window [2,8) of 20 elements, scalar value: six elements are written to / read from the
    address of one (also setData with offset {0}); on the array itself HDF5 refuses the call *)
Theorem C17_scalar_template_refuted :
  let w := mkView [2] [6] in
  view_get_value repo_e3eed7c w a20 [] 1 [] = UB value_overrun_read /\
  view_set_value repo_e3eed7c w a20 [] 1 [] (gen_from 100) = UB value_overrun_write /\
  view_set_value repo_e3eed7c w a20 [] 1 [0] (gen_from 100) = UB value_overrun_write /\
  arr_get_value repo_e3eed7c a20 [] 1 [] = Err h5error /\
  view_get_value repaired_except_pinned w a20 [] 1 [] = Ok [VI 2] /\
  view_get_value repaired_except_pinned w a20 [] 1 [5] = Ok [VI 7] /\
  view_get_value repaired_except_pinned w a20 [] 1 [6] = Err oob /\
  spec_get_value w a20 [] [] = Ok [VI 2].
Proof. exact scalar_template_refuted. Qed.
Print Assumptions C17_scalar_template_refuted.

(** * Every template route of DataSet.hpp through a view, for every typed container kind (Hydra data_traits: the routes of
    Data/NDArr.v).  getData(value, count, offset): the value is resized to [count] and receives the (count, offset) request -
    an empty count being ONE element - and never more elements than it holds; getData(value): the value is resized to the
    window and receives it; setData(value) reaches DataView::dataExtent(const NDSize &), which always throws: refused. *)
Theorem C17_view_tget3_spec : forall B a v r cnt off,
  tget3_empty_count B = false -> view_check_wraps B = false -> view_ok a v ->
  all_u64 cnt -> all_u64 off ->
  (cnt = [] \/ List.length cnt = List.length (v_count v)) -> (off = [] \/ List.length off = List.length (v_count v)) ->
  view_tget3 B v a r cnt off = spec_tget3 v a r cnt off.
Proof. exact view_tget3_spec. Qed.
Print Assumptions C17_view_tget3_spec.

Theorem C17_view_tgetall_spec : forall B a v r,
  view_check_wraps B = false -> view_ok a v ->
  (forall ext, route_resize r (v_count v) = Ok ext -> route_shape r ext = [] \/ List.length (route_shape r ext) = List.length (v_count v)) ->
  view_tgetall B v a r = spec_tgetall v a r.
Proof. exact view_tgetall_spec. Qed.
Print Assumptions C17_view_tgetall_spec.

(** a value resized to non-empty dims holds at least prod dims elements, for every container kind *)
Theorem C17_resize_holds : forall r dims ext, all_u64 dims -> dims <> [] -> route_resize r dims = Ok ext -> prod dims <= route_buf r ext.
Proof. exact resize_holds. Qed.
Print Assumptions C17_resize_holds.

(** the unrepaired three-argument template: a value of rank 0 receives the whole window *)
Theorem C17_tget3_refuted :
  let w := mkView [2] [6] in
  view_tget3 repo_dc7d826 w a20 RScalar [] [] = UB value_overrun_read /\
  view_tget3 repo_dc7d826 w a20 RNDArray [] [0] = UB value_overrun_read /\
  view_tget3 repaired_except_pinned w a20 RScalar [] [] = Ok ([], [VI 2]) /\
  view_tget3 repaired_except_pinned w a20 RNDArray [] [3] = Ok ([], [VI 5]) /\
  view_tget3 repo_dc7d826 w a20 RNDArray [] [3] = Err oob /\
  view_tget3 repaired_except_pinned w a20 RVector [3] [1] = Ok ([3], [VI 3; VI 4; VI 5]) /\
  view_tgetall repaired_except_pinned w a20 RVector = Ok ([6], [VI 2; VI 3; VI 4; VI 5; VI 6; VI 7]) /\
  view_tgetall repaired_except_pinned w a20 RScalar = Err "nix::InvalidRank"%string /\
  view_tsetall repaired_except_pinned w a20 RVector [6] (gen_from 0) = Err not_allowed.
Proof. exact tget3_refuted. Qed.
Print Assumptions C17_tget3_refuted.

(** * Further routes of util/dataAccess *)
Theorem C17_position_in_data_spec : forall extent pos, all_u64 pos ->
  position_in_data extent pos = spec_pos_in_data extent pos.
Proof. exact position_in_data_spec. Qed.
Print Assumptions C17_position_in_data_spec.

Theorem C17_position_to_index_pairs_one : forall d s e u rm,
  position_to_index_pairs d [s] [e] [u] rm = bind (position_to_index_pair d s e u rm) (fun r => Ok [r]).
Proof. exact position_to_index_pairs_one. Qed.
Print Assumptions C17_position_to_index_pairs_one.

Theorem C17_data_slice3_is_default : forall B dims shape start end_,
  data_slice3 B dims shape start end_ = data_slice B dims shape start end_ [] RangeMatch_Exclusive.
Proof. exact data_slice3_is_default. Qed.
Print Assumptions C17_data_slice3_is_default.

(** * The window test is the code regenerated from src/util/dataAccess.cpp on this run *)
Theorem C17_window_test_is_generated : forall B extent pos cnt,
  SliceSwitches.extent_check_wraps B = false -> (List.length extent < 200)%nat ->
  Slice.position_and_extent_in_data B extent pos cnt = NixV.Gen.GenAccess.positionAndExtentInData pos cnt extent.
Proof. exact NixV.Access.AccessBridgeModels.slice_extent_test_is_generated. Qed.
Print Assumptions C17_window_test_is_generated.

(** * The DataView window tests and the NDSize comparison they use are the code regenerated on this run from
    include/nix/DataView.hpp, src/DataView.cpp and include/nix/NDSize.hpp *)
Theorem C17_view_constructor_is_generated : forall B extent cnt off,
  SliceSwitches.view_check_wraps B = false -> (List.length extent < 200)%nat ->
  NixV.Gen.GenView.DataView_ctor cnt off extent = bind (View.mk_view B extent cnt off) (fun _ => Ok tt).
Proof. exact NixV.Access.ViewBridge.mk_view_generated. Qed.
Print Assumptions C17_view_constructor_is_generated.

Theorem C17_transform_coordinates_is_generated : forall B v cnt off,
  SliceSwitches.view_check_wraps B = false -> (List.length (View.v_count v) < 200)%nat -> (List.length cnt < 200)%nat ->
  NixV.Gen.GenView.transform_coordinates cnt off (View.v_count v) (View.v_offset v) = View.transform_coordinates B v cnt off.
Proof. exact NixV.Access.ViewBridge.transform_coordinates_generated. Qed.
Print Assumptions C17_transform_coordinates_is_generated.

Theorem C17_ndsize_gt_is_generated : forall a b, (List.length a < 200)%nat -> NixV.Gen.GenNDSize.nd_gt a b = View.nd_gt a b.
Proof. exact NixV.Access.ViewBridge.nd_gt_generated. Qed.
Print Assumptions C17_ndsize_gt_is_generated.

(** * The start/end pair conversion of every descriptor kind is the code regenerated from src/Dimensions.cpp on this run *)
Theorem C17_pair_conversion_is_generated : forall d s e rm,
  Slice.dim_pair d s e rm =
  match d with
  | Slice.DSampled dt off _ => NixV.Gen.GenPairs.sampled_pair s e dt (Slice.off_or0 off) rm
  | Slice.DRange ticks _ => NixV.Axis.PairBridge.pair_rule (fun p r => NixV.Axis.RangeModel.getIndex p ticks r) true rm s e
  | Slice.DSet labels => NixV.Axis.PairBridge.pair_rule (fun p r => getSetIndex p labels r) false rm s e
  | Slice.DFrame rows => NixV.Gen.GenPairs.df_pair s e rows rm
  end.
Proof. exact NixV.Access.SlicePairBridge.slice_pair_is_generated. Qed.
Print Assumptions C17_pair_conversion_is_generated.

(** * The open obligation: the library under test has the repaired behaviour.  Everything up to d3b5c46 has landed; the
    three-argument read template of DataSet.hpp is not repaired yet (notes/proposed-fixes/C16-dataview-template-empty-count.patch):
    this fails until [current_behaviour] in Access/SliceSwitches.v is set back to [repaired_except_pinned]. *)
Theorem current_is_repaired : current_behaviour = repaired_except_pinned.
Proof. reflexivity. Qed.
