(** C04 — Deleting an entity leaves no dangling reference and harms nothing else.

    Entity level (coq/Store/Db*.v): the statements are about [remove_subtree] — what every delete call of the repaired
    step function performs ([C04_delete_by_name / _by_id / _by_handle], [C04_delete_step_sound]) — in every state that
    satisfies the invariant of C03, hence in every reachable state.  Link kinds: metadata, section link, multi-tag
    positions / extents, feature data, tag / multi-tag references, entity sources, the four group member lists, the frame
    of a data-frame dimension ([targets]).
    HDF5 level (coq/Store/H5Links.v): the loop of H5Group::removeAllLinks over an abstract hard-link graph.
    Where today's code violates a statement the file carries a [..._refuted] witness (model of the pinned behaviour); the
    LAST theorem, [C04_current_is_repaired], fails until the fix has landed in /repo. *)
From Coq Require Import List ZArith Bool String Ascii Arith.
Require Import NixV.Base.Prelude NixV.Store.Db NixV.Store.DbOps NixV.Store.DbObserve NixV.Store.DbInv NixV.Store.DbShape
        NixV.Store.DbNoTrace NixV.Store.DbLookup NixV.Store.DbWitness NixV.Store.DbSession NixV.Store.DbDelete
        NixV.Store.DbDeleteWitness NixV.Store.H5Links.
Import ListNotations.

Section C04.
Variable ids : nat -> string.
Hypothesis ids_inj : forall a b, ids a = ids b -> a = b.
Variable N : nat.
Hypothesis ids_uuid : forall a, a < N -> looksLikeUUID (ids a) = true.
Variable sanitize : string -> string.
Variable unit_ok : string -> bool.
Notation stepR := (step ids sanitize unit_ok repaired).
Notation Inv := (Inv ids N).
Notation reachable := (DbNoTrace.reachable ids N sanitize unit_ok).

(** no entity exposes a deleted entity any more: after the deletion no link of any kind points into the removed subtree,
    and every link that is left points to an entity of the file *)
Theorem C04_delete_no_dangling : forall s x, Inv s -> forall e t, In e (ents (remove_subtree s x)) -> In t (targets (e_links e)) ->
  ~ In t (subtree s x) /\ alive (remove_subtree s x) t = true.
Proof. intros; eapply delete_no_dangling; eauto. Qed.

Theorem C04_no_dangling_reachable : forall s, reachable s -> no_dangling s.
Proof. intros; eapply reachable_no_dangling; eauto. Qed.

Theorem C04_delete_no_dangling_reachable : forall s x, reachable s -> forall e t, In e (ents (remove_subtree s x)) -> In t (targets (e_links e)) ->
  ~ In t (subtree s x) /\ alive (remove_subtree s x) t = true.
Proof. intros; eapply reachable_delete_no_dangling; eauto. Qed.

(** [targets] really is every link kind *)
Theorem C04_targets_all_kinds : forall t l,
  In t (targets l) <-> (exists sl, get_o sl l = Some t) \/ (exists sl, In t (get_l sl l)) \/ In (DimFrame (Some t)) (l_dims l).
Proof. intros; eapply in_targets; eauto. Qed.

(** handles to the removed entities report themselves invalid; handles to the others stay valid *)
Theorem C04_delete_handle_invalid : forall s x gh o, In o (subtree s x) -> handle_valid repaired (remove_subtree s x) gh (HEnt o) = false.
Proof. intros; eapply delete_handle_invalid; eauto. Qed.

Theorem C04_survivor_handle_valid : forall B s x gh o, alive s o = true -> ~ In o (subtree s x) -> handle_valid B (remove_subtree s x) gh (HEnt o) = true.
Proof. intros; eapply survivor_handle_valid; eauto. Qed.

(** what is removed is exactly the entity and everything below it (a source or a section with its entire subtree) *)
Theorem C04_subtree_is_descendants : forall s x o, Inv s -> (In o (subtree s x) <-> desc s x o).
Proof. intros; eapply subtree_desc; eauto. Qed.

Theorem C04_delete_subtree : forall s x o, Inv s -> desc s x o -> alive (remove_subtree s x) o = false.
Proof. intros; eapply delete_subtree; eauto. Qed.

Theorem C04_delete_subtree_reachable : forall s x o, reachable s -> desc s x o -> alive (remove_subtree s x) o = false.
Proof. intros; eapply reachable_delete_subtree; eauto. Qed.

Theorem C04_delete_keeps_others : forall s x o, Inv s -> alive s o = true -> ~ desc s x o -> alive (remove_subtree s x) o = true.
Proof. intros; eapply delete_keeps_others; eauto. Qed.

(** every entity that was not deleted is left exactly as it was: the observation afterwards is the observation before
    without the removed entities' lines and without their ordinals in any list or reference *)
Theorem C04_delete_frame : forall s x, observe (remove_subtree s x) = scrub_obs (subtree s x) (observe s).
Proof. intros; eapply delete_frame; eauto. Qed.

Theorem C04_delete_untouched : forall s x e, In e (ents s) -> ~ In (e_oid e) (subtree s x) ->
  (forall t, In t (targets (e_links e)) -> ~ In t (subtree s x)) -> In e (ents (remove_subtree s x)).
Proof. intros; eapply delete_untouched; eauto. Qed.

Theorem C04_delete_survivor : forall s x e, In e (ents s) -> ~ In (e_oid e) (subtree s x) ->
  In (with_links (scrub_links (subtree s x)) e) (ents (remove_subtree s x)).
Proof. intros; eapply delete_survivor; eauto. Qed.

(** the invariant survives the deletion; it contains the tree closure: the parent of every entity is in the file *)
Theorem C04_inv_remove : forall s x, Inv s -> Inv (remove_subtree s x).
Proof. intros; eapply inv_remove; eauto. Qed.

Theorem C04_tree_closed : forall s e p, reachable s -> In e (ents s) -> e_parent e = Some p -> alive s p = true.
Proof. intros; eapply reachable_tree_closed; eauto. Qed.

(** every choice of entity, by name, by id or by handle: the call removes exactly that member *)
Theorem C04_delete_by_name : forall s p k pk e, Inv s -> container s p k pk -> In e (children s p k) -> k <> KFeature ->
  stepR s (ODelete p k (e_name e)) = (remove_subtree s (e_oid e), Ok (VBool true)).
Proof. intros; eapply delete_by_name; eauto. Qed.

Theorem C04_delete_by_id : forall s p k pk e, Inv s -> container s p k pk -> In e (children s p k) ->
  stepR s (ODelete p k (eid ids e)) = (remove_subtree s (e_oid e), Ok (VBool true)).
Proof. intros; eapply delete_by_id; eauto. Qed.

Theorem C04_delete_by_handle : forall s p k pk e, Inv s -> container s p k pk -> In e (children s p k) ->
  stepR s (ODeleteH p k (HEnt (e_oid e))) = (remove_subtree s (e_oid e), Ok (VBool true)).
Proof. intros; eapply delete_by_handle; eauto. Qed.

(** ... and a delete call never removes anything but a member of the container it addresses *)
Theorem C04_delete_step_sound : forall s p k key s' v, stepR s (ODelete p k key) = (s', Ok v) ->
  (s' = s /\ v = VBool false) \/ exists e, In e (children s p k) /\ s' = remove_subtree s (e_oid e) /\ v = VBool true.
Proof. intros; eapply delete_step_sound; eauto. Qed.

Theorem C04_delete_handle_step_sound : forall s p k a s' v, stepR s (ODeleteH p k a) = (s', Ok v) ->
  (s' = s /\ v = VBool false) \/ exists e, In e (children s p k) /\ s' = remove_subtree s (e_oid e) /\ v = VBool true.
Proof. intros; eapply delete_handle_step_sound; eauto. Qed.

End C04.

Print Assumptions C04_delete_no_dangling.
Print Assumptions C04_no_dangling_reachable.
Print Assumptions C04_delete_no_dangling_reachable.
Print Assumptions C04_targets_all_kinds.
Print Assumptions C04_delete_handle_invalid.
Print Assumptions C04_survivor_handle_valid.
Print Assumptions C04_subtree_is_descendants.
Print Assumptions C04_delete_subtree.
Print Assumptions C04_delete_subtree_reachable.
Print Assumptions C04_delete_keeps_others.
Print Assumptions C04_delete_frame.
Print Assumptions C04_delete_untouched.
Print Assumptions C04_delete_survivor.
Print Assumptions C04_inv_remove.
Print Assumptions C04_tree_closed.
Print Assumptions C04_delete_by_name.
Print Assumptions C04_delete_by_id.
Print Assumptions C04_delete_by_handle.
Print Assumptions C04_delete_step_sound.
Print Assumptions C04_delete_handle_step_sound.

(** ** HDF5 level: H5Group::removeAllLinks = while name(o) <> "" do deleteLink(name(o)) over a graph of hard links *)
(** the loop terminates: fuel = the number of links into o suffices (every iteration removes one) *)
Theorem C04_removeAllLinks_terminates : forall root pick,
  (forall g o l, pick g o = Some l -> pickable root g o l) ->
  forall fuel g o, indeg g o <= fuel -> snd (rm_loop pick fuel g o) = true.
Proof. exact removeAllLinks_terminates. Qed.
Print Assumptions C04_removeAllLinks_terminates.

(** afterwards o cannot be reached from the root, and no link to o is left whose holder can be reached *)
Theorem C04_removeAllLinks_complete : forall root o g g', o <> root -> rm_run root o g g' -> ~ H5Links.reachable root g' o.
Proof. exact removeAllLinks_complete. Qed.
Print Assumptions C04_removeAllLinks_complete.

Theorem C04_removeAllLinks_no_reachable_link : forall root o g g', o <> root -> rm_run root o g g' ->
  forall l, In l g' -> dst l = o -> ~ reach_avoid root g' o (src l) /\ ~ H5Links.reachable root g' (src l).
Proof. exact removeAllLinks_no_reachable_link. Qed.
Print Assumptions C04_removeAllLinks_no_reachable_link.

(** it removes links to o only, and nothing that did not depend on o becomes unreachable *)
Theorem C04_removeAllLinks_only_links_to_o : forall root o g g', rm_run root o g g' ->
  (forall l, In l g' -> In l g) /\ (forall l, In l g -> ~ In l g' -> dst l = o) /\ (forall l, In l g -> dst l <> o -> In l g').
Proof. exact removeAllLinks_only_links_to_o. Qed.
Print Assumptions C04_removeAllLinks_only_links_to_o.

Theorem C04_removeAllLinks_other_reachability_preserved : forall root o g g' q,
  rm_run root o g g' -> reach_avoid root g o q -> reach_avoid root g' o q /\ H5Links.reachable root g' q.
Proof. exact removeAllLinks_other_reachability_preserved. Qed.
Print Assumptions C04_removeAllLinks_other_reachability_preserved.

(** the link count of o drops to zero IF every holder of o can be reached without passing through o ... *)
Theorem C04_removeAllLinks_rc_zero : forall root o g g',
  (forall l, In l g -> dst l = o -> reach_avoid root g o (src l)) -> rm_run root o g g' -> indeg g' o = 0.
Proof. exact removeAllLinks_rc_zero. Qed.
Print Assumptions C04_removeAllLinks_rc_zero.

(** ... which fails for the alias range dimension (array -> dimensions -> 1 -> array): the self link survives every run,
    the link count stays 1, "link count > 0" keeps answering valid ... *)
Theorem C04_removeAllLinks_rc_zero_refuted :
  (exists g', rm_run 0 2 alias_graph g') /\
  (forall g', rm_run 0 2 alias_graph g' -> indeg g' 2 = 1 /\ In (L 4 2) g' /\ ~ H5Links.reachable 0 g' 2) /\
  ~ (forall o g g', o <> 0 -> rm_run 0 o g g' -> indeg g' o = 0).
Proof. exact removeAllLinks_rc_zero_refuted. Qed.
Print Assumptions C04_removeAllLinks_rc_zero_refuted.

(** ... and for a holder that is no longer reachable itself (deleted earlier, still open) *)
Theorem C04_removeAllLinks_unreachable_holder_refuted :
  ~ H5Links.reachable 0 holder_graph 5 /\ (exists g', rm_run 0 2 holder_graph g') /\
  (forall g', rm_run 0 2 holder_graph g' -> indeg g' 2 = 1 /\ In (L 5 2) g' /\ ~ H5Links.reachable 0 g' 2).
Proof. exact removeAllLinks_unreachable_holder_refuted. Qed.
Print Assumptions C04_removeAllLinks_unreachable_holder_refuted.

(** non-vacuity: a concrete id supply meets the hypotheses; in the populated file of DbWitness.v a hub array and a
    section with a property are deleted and nothing dangles *)
Example C04_nonvacuous :
  Inv wid 256 (base repaired) /\
  all_targets_alive (fst (stepW repaired (base repaired) (ODelete (Some 0) KArray "a"))) = true /\
  all_targets_alive (fst (stepW repaired (base repaired) (ODelete None KSection "s"))) = true /\
  alive (fst (stepW repaired (base repaired) (ODelete None KSection "s"))) 9 = false.
Proof. exact (conj base_inv base_delete_no_dangling). Qed.
Print Assumptions C04_nonvacuous.

(** the data-frame dimension: the frame's link inside the descriptor goes with the frame; the descriptor stays *)
Theorem C04_frame_dimension_scrubbed :
  (exists e, find_ent (s_db (srunW repaired (firstn 5 framedim_ops))) 2 = Some e /\ l_dims (e_links e) = [DimFrame (Some 1); DimSet]) /\
  (exists e, find_ent (s_db (srunW repaired framedim_ops)) 2 = Some e /\ l_dims (e_links e) = [DimFrame None; DimSet]) /\
  svalid rc_valid (srunW rc_valid framedim_ops) (HEnt 1) = false.
Proof. exact frame_dimension_scrubbed. Qed.
Print Assumptions C04_frame_dimension_scrubbed.

(** what today's code does instead (isValidEntity() = link count > 0; the application keeps its handles) *)
Theorem C04_alias_self_link_refuted : zombie alias_ops 1.
Proof. exact alias_self_link_refuted. Qed.
Print Assumptions C04_alias_self_link_refuted.
Theorem C04_deleted_holder_refuted : zombie holder_ops 1.
Proof. exact deleted_holder_refuted. Qed.
Print Assumptions C04_deleted_holder_refuted.
Theorem C04_section_self_link_refuted : zombie selflink_ops 0.
Proof. exact section_self_link_refuted. Qed.
Print Assumptions C04_section_self_link_refuted.
Theorem C04_section_child_link_refuted : zombie childlink_ops 0.
Proof. exact section_child_link_refuted. Qed.
Print Assumptions C04_section_child_link_refuted.
Theorem C04_orphan_array_refuted : zombie orphan_ops 1.
Proof. exact orphan_array_refuted. Qed.
Print Assumptions C04_orphan_array_refuted.
Theorem C04_orphan_property_refuted : zombie orphan_prop_ops 1.
Proof. exact orphan_property_refuted. Qed.
Print Assumptions C04_orphan_property_refuted.
(** the alias cycle is never freed: the array stays in the file, and what it links to stays "valid" even after a reopen *)
Theorem C04_leaked_alias_array_refuted :
  map gh_oid (s_ghosts (srun wid wsan wunit rc_valid (srunW rc_valid leak_ops) [SClose; SOpen MRW])) = [2] /\
  alive (s_db (after_leak rc_valid)) 0 = false /\ svalid rc_valid (after_leak rc_valid) (HEnt 0) = true /\
  svalid repaired (after_leak repaired) (HEnt 0) = false.
Proof. exact leaked_alias_array_refuted. Qed.
Print Assumptions C04_leaked_alias_array_refuted.
(** repaired in /repo since (bec435c): Block::deleteSource(handle) deleted the root source of the same NAME *)
Theorem C04_delete_source_by_name_refuted :
  map e_oid (ents (fst (stepW code_today (runW code_today empty_db ops_ds) (ODeleteH (Some 0) KSource (HEnt 2))))) = [0; 1; 2] /\
  map e_oid (ents (fst (stepW repaired (runW repaired empty_db ops_ds) (ODeleteH (Some 0) KSource (HEnt 2))))) = [0; 1; 2; 3].
Proof. exact refuted_delsource_by_name. Qed.
Print Assumptions C04_delete_source_by_name_refuted.

(** LAST: the tree the check runs against behaves like the repaired model in everything C04 depends on.  Fails (broken
    obligation) while isValidEntity() is still the link count; the coordinator switches [b_valid_reachable] of
    [current_behaviour] (DbOps.v) on when notes/proposed-fixes/C04-1-isValidEntity-root-reachable.patch has landed. *)
Definition c04_switches (b : behaviour) : bool * bool * bool := (b_delsource_by_id b, b_feature_null_guard b, b_valid_reachable b).

(** the hand copy of [util::looksLikeUUID] in the model is the definition the translator regenerates from
    src/util/util.cpp on every run *)
Require NixV.Store.GenBridge NixV.Gen.GenUtil.
Theorem C04_looksLikeUUID_is_generated : forall s, NixV.Store.Db.looksLikeUUID s = NixV.Gen.GenUtil.looksLikeUUID s.
Proof. exact NixV.Store.GenBridge.db_looksLikeUUID_is_generated. Qed.
Print Assumptions C04_looksLikeUUID_is_generated.

Theorem C04_current_is_repaired : c04_switches current_behaviour = c04_switches repaired.
Proof. reflexivity. Qed.
Print Assumptions C04_current_is_repaired.
