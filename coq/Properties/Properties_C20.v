(** C20 — Tree searches and back-reference queries equal a brute-force traversal.
    Statements only; each closed by [exact].  Model and specification: Store/Search.v; proofs: Store/SearchProofs.v.
    All theorems hold for every tree (no bound on depth or branching), every filter (an arbitrary [tree -> bool]:
    the C++ filter sees the entity handle) and every depth limit a [size_t] can hold. *)
From Coq Require Import ZArith Bool String List Permutation.
Require Import NixV.Base.Prelude NixV.Store.Search NixV.Store.SearchProofs.
Import ListNotations.
Local Open Scope Z_scope.
Local Open Scope string_scope.

(** Section::findSections: the std::list work list yields the matches of the first [max_depth] levels below the
    section (children = level 1, the section itself excluded), in level (breadth-first) order. *)
Theorem C20_findSections_bfs : forall f maxd t, 0 <= maxd < two64 ->
  Section_findSections f maxd t = Ok (filter f (levels_from (Z.to_nat maxd) (kids t))).
Proof. exact findSections_bfs. Qed.
Print Assumptions C20_findSections_bfs.

(** the fuel (number of nodes + 1) always suffices: the modelled loop never runs out *)
Theorem C20_fuel_suffices : forall f maxd t, 0 <= maxd < two64 -> is_ok (Section_findSections f maxd t) = true.
Proof. exact findSections_fuel_suffices. Qed.
Print Assumptions C20_fuel_suffices.

(** Source::findSources: the same with the source itself as level 0 (included) *)
Theorem C20_findSources_bfs : forall f maxd t, 0 <= maxd < two64 ->
  Source_findSources f maxd t = Ok (filter f (levels_from (S (Z.to_nat maxd)) [t])).
Proof. exact findSources_bfs. Qed.
Print Assumptions C20_findSources_bfs.

(** [levels_from k] is the concatenation of levels 0..k-1, level i+1 being the children of level i in order *)
Theorem C20_levels_from_is_level_order : forall k ts,
  levels_from k ts = List.concat (map (fun i => level i ts) (seq 0 k)) /\
  (forall i, level (S i) ts = flat_map kids (level i ts)) /\ level 0 ts = ts.
Proof. exact (fun k ts => conj (levels_from_concat k ts) (conj (fun i => level_snoc i ts) eq_refl)). Qed.
Print Assumptions C20_levels_from_is_level_order.

(** ... and exactly (as a multiset) what the brute-force depth-first traversal finds within that depth *)
Theorem C20_section_search_is_bruteforce : forall f maxd t, 0 <= maxd < two64 ->
  exists r, Section_findSections f maxd t = Ok r /\ Permutation r (filter f (flat_map (dfs_within maxd) (kids t))).
Proof. exact section_bruteforce. Qed.
Print Assumptions C20_section_search_is_bruteforce.

Theorem C20_source_search_is_bruteforce : forall f maxd t, 0 <= maxd < two64 ->
  exists r, Source_findSources f maxd t = Ok r /\ Permutation r (filter f (dfs_within (maxd + 1) t)).
Proof. exact source_bruteforce. Qed.
Print Assumptions C20_source_search_is_bruteforce.

(** each entity once: unique ids in the tree give unique ids in the result *)
Theorem C20_each_once : forall f maxd t r, 0 <= maxd < two64 -> NoDup (map tid (all_nodes t)) ->
  (Section_findSections f maxd t = Ok r -> NoDup (map tid r)) /\
  (Source_findSources f maxd t = Ok r -> NoDup (map tid r)).
Proof. exact (fun f maxd t r Hm Hn => conj (section_each_once f maxd t r Hm Hn) (source_each_once f maxd t r Hm Hn)). Qed.
Print Assumptions C20_each_once.

Theorem C20_each_once_forest : forall f maxd roots r, 0 <= maxd < two64 -> NoDup (map tid (flat_map all_nodes roots)) ->
  (File_findSections f maxd roots = Ok r -> NoDup (map tid r)) /\
  (Block_findSources f maxd roots = Ok r -> NoDup (map tid r)).
Proof. exact (fun f maxd roots r Hm Hn => conj (file_each_once f maxd roots r Hm Hn) (block_each_once f maxd roots r Hm Hn)). Qed.
Print Assumptions C20_each_once_forest.

(** unlimited depth (any limit not below the height, in particular the default SIZE_MAX) returns every descendant *)
Theorem C20_unlimited_is_all_descendants : forall f maxd t, 0 <= maxd < two64 ->
  (Z.of_nat (fheight (kids t)) <= maxd ->
   exists r, Section_findSections f maxd t = Ok r /\ Permutation r (filter f (descendants t))) /\
  (Z.of_nat (theight t) <= maxd + 1 ->
   exists r, Source_findSources f maxd t = Ok r /\ Permutation r (filter f (all_nodes t))).
Proof. exact (fun f maxd t Hm => conj (section_unlimited f maxd t Hm) (source_unlimited f maxd t Hm)). Qed.
Print Assumptions C20_unlimited_is_all_descendants.

(** File::findSections: root sections are depth 1 (depth 0 returns nothing); the result is the per-root level
    order, which as a set is the level order / brute-force traversal of the whole forest *)
Theorem C20_file_level_is_union : forall f maxd roots, 0 <= maxd < two64 ->
  exists r, File_findSections f maxd roots = Ok r /\
            r = flat_map (fun root => filter f (levels_from (Z.to_nat maxd) [root])) roots /\
            Permutation r (filter f (levels_from (Z.to_nat maxd) roots)) /\
            Permutation r (filter f (flat_map (dfs_within maxd) roots)).
Proof. exact file_level_is_union. Qed.
Print Assumptions C20_file_level_is_union.

(** Block::findSources: root sources are depth 0 *)
Theorem C20_block_level_is_union : forall f maxd roots, 0 <= maxd < two64 ->
  exists r, Block_findSources f maxd roots = Ok r /\
            r = flat_map (fun root => filter f (levels_from (S (Z.to_nat maxd)) [root])) roots /\
            Permutation r (filter f (flat_map (dfs_within (maxd + 1)) roots)).
Proof. exact block_level_is_union. Qed.
Print Assumptions C20_block_level_is_union.

(** the extracted oracles of the correspondence run are these specifications *)
Theorem C20_oracles : forall f d, 0 <= d < two64 ->
  (forall t, Section_findSections f d t = Ok (spec_section_find f d t)) /\
  (forall t, Source_findSources f d t = Ok (spec_source_find f d t)) /\
  (forall roots, exists r, File_findSections f d roots = Ok r /\ Permutation r (spec_file_find f d roots)) /\
  (forall roots, exists r, Block_findSources f d roots = Ok r /\ Permutation r (spec_block_find f d roots)).
Proof.
  exact (fun f d Hd => conj (fun t => section_oracle f d t Hd) (conj (fun t => source_oracle f d t Hd)
        (conj (fun roots => file_oracle f d roots Hd) (fun roots => block_oracle f d roots Hd)))).
Qed.
Print Assumptions C20_oracles.

Theorem C20_oracles_unlimited : forall f t,
  (height_ok (kids t) -> exists r, Section_findSections f size_max t = Ok r /\ Permutation r (spec_section_all f t)) /\
  (height_ok [t] -> exists r, Source_findSources f size_max t = Ok r /\ Permutation r (spec_source_all f t)).
Proof. exact (fun f t => conj (section_all_oracle f t) (source_all_oracle f t)). Qed.
Print Assumptions C20_oracles_unlimited.

(** back references by metadata: exactly the entities whose metadata link is the section's id *)
Theorem C20_referring_exact : forall f sec_id, height_ok (f_sections f) ->
  In sec_id (map tid (flat_map all_nodes (f_sections f))) ->
  Section_referringDataArrays f sec_id = spec_ref_ents b_arrays f sec_id /\
  Section_referringTags f sec_id = spec_ref_ents b_tags f sec_id /\
  Section_referringMultiTags f sec_id = spec_ref_ents b_mtags f sec_id /\
  Section_referringBlocks f sec_id = spec_ref_blocks f sec_id.
Proof. exact referring_arrays_exact. Qed.
Print Assumptions C20_referring_exact.

Theorem C20_referring_sources_exact : forall f sec_id, height_ok (f_sections f) ->
  (forall b, In b (f_blocks f) -> height_ok (b_sources b)) ->
  In sec_id (map tid (flat_map all_nodes (f_sections f))) ->
  exists r, Section_referringSources f sec_id = Ok r /\ Permutation r (spec_ref_sources f sec_id).
Proof. exact referring_sources_exact. Qed.
Print Assumptions C20_referring_sources_exact.

Theorem C20_spec_ref_pointwise : forall sel f sec_id e,
  In e (spec_ref_ents sel f sec_id) <-> exists b, In b (f_blocks f) /\ In e (sel b) /\ e_meta e = Some sec_id.
Proof. exact spec_ref_ents_in. Qed.
Print Assumptions C20_spec_ref_pointwise.

(** back references by source: exactly the entities of the block that carry a link named by the source's id *)
Theorem C20_source_referring_exact : forall b src_id,
  (Source_referringDataArrays b src_id = spec_src_ents b_arrays b src_id /\
   Source_referringTags b src_id = spec_src_ents b_tags b src_id /\
   Source_referringMultiTags b src_id = spec_src_ents b_mtags b src_id) /\
  (forall sel e, In e (spec_src_ents sel b src_id) <-> In e (sel b) /\ In src_id (e_srcs e)).
Proof. exact (fun b src_id => conj (source_referring_exact b src_id) (fun sel e => spec_src_ents_in sel b src_id e)). Qed.
Print Assumptions C20_source_referring_exact.

(** parentSource: the node one of whose children carries the id; none if there is no such node *)
Theorem C20_parent_exact : forall b id, height_ok (b_sources b) ->
  NoDup (map tid (flat_map all_nodes (b_sources b))) -> looksLikeUUID id = true ->
  (forall s, In s (flat_map all_nodes (b_sources b)) -> n_name (label s) <> id) ->
  Source_parentSource b id = Ok (spec_parent (b_sources b) id).
Proof. exact parent_exact. Qed.
Print Assumptions C20_parent_exact.

Theorem C20_spec_parent_pointwise : forall roots id,
  (forall p, spec_parent roots id = Some p -> In p (flat_map all_nodes roots) /\ exists c, In c (kids p) /\ tid c = id) /\
  (spec_parent roots id = None -> forall p c, In p (flat_map all_nodes roots) -> In c (kids p) -> tid c <> id).
Proof. exact (fun roots id => conj (spec_parent_sound roots id) (spec_parent_complete roots id)). Qed.
Print Assumptions C20_spec_parent_pointwise.

(** inherited properties: own ++ the linked section's properties not shadowed by name *)
Theorem C20_inherited_spec : forall roots self, height_ok roots -> NoDup (map tid (flat_map all_nodes roots)) ->
  (forall s, In s (flat_map all_nodes roots) -> NoDup (map snd (n_props (label s)))) ->
  Section_inheritedProperties roots self = Ok (spec_inherited roots self).
Proof. exact inherited_spec. Qed.
Print Assumptions C20_inherited_spec.

Theorem C20_spec_inherited_pointwise : forall roots self p, In p (spec_inherited roots self) <->
  In p (n_props (label self)) \/
  (exists x lk, n_link (label self) = Some x /\ find_section roots x = Some lk /\ In p (n_props (label lk)) /\
                forall q, In q (n_props (label self)) -> snd q <> snd p).
Proof. exact spec_inherited_in. Qed.
Print Assumptions C20_spec_inherited_pointwise.

(** findRelated by phases: nearest downstream level with matches; else the nearest matching ancestor; else the
    matching children (caller removed) of the nearest ancestor that has any *)
Theorem C20_findRelated_spec : forall f anc t,
  Z.of_nat (fheight (kids t)) < two64 ->
  (forall s, In s (descendants t) -> tid s <> tid t) ->
  (forall a, In a anc -> tid a <> tid t) ->
  Section_findRelated f anc t = Ok (related_spec f anc t).
Proof. exact findRelated_spec. Qed.
Print Assumptions C20_findRelated_spec.

(** ** further public routes (route audit): a route only changes how the request is made *)

(** a depth-1 search equals the filtered enumeration sections(filter) / sources(filter) *)
Theorem C20_depth1_search_is_filtered_enumeration : forall f,
  (forall t, Section_findSections f 1 t = Ok (Section_sections f t)) /\
  (forall roots, File_findSections f 1 roots = Ok (File_sections f roots)) /\
  (forall t, Source_findSources f 1 t = Ok ((filter f [t] ++ Source_sources f t)%list)) /\
  (forall b, Block_findSources f 0 (b_sources b) = Ok (Block_sources f b)).
Proof.
  exact (fun f => conj (sections_is_depth1 f) (conj (file_sections_is_depth1 f) (conj (sources_is_depth1 f) (block_sources_is_depth0 f)))).
Qed.
Print Assumptions C20_depth1_search_is_filtered_enumeration.

(** the whole-file back references are the concatenation of the block-restricted overloads, which are exact;
    a none Block yields nothing *)
Theorem C20_referring_per_block : forall f sec_id,
  Section_referringDataArrays f sec_id = flat_map (fun b => Section_referringDataArrays_in f sec_id (Some b)) (f_blocks f) /\
  Section_referringTags f sec_id = flat_map (fun b => Section_referringTags_in f sec_id (Some b)) (f_blocks f) /\
  Section_referringMultiTags f sec_id = flat_map (fun b => Section_referringMultiTags_in f sec_id (Some b)) (f_blocks f).
Proof. exact referring_whole_file_is_per_block. Qed.
Print Assumptions C20_referring_per_block.

Theorem C20_referring_in_block_exact : forall f sec_id ob, height_ok (f_sections f) ->
  In sec_id (map tid (flat_map all_nodes (f_sections f))) ->
  Section_referringDataArrays_in f sec_id ob = spec_ref_ents_block b_arrays sec_id ob /\
  Section_referringTags_in f sec_id ob = spec_ref_ents_block b_tags sec_id ob /\
  Section_referringMultiTags_in f sec_id ob = spec_ref_ents_block b_mtags sec_id ob.
Proof. exact referring_in_exact. Qed.
Print Assumptions C20_referring_in_block_exact.

Theorem C20_referring_sources_in_block_exact : forall f sec_id ob, height_ok (f_sections f) ->
  (forall b, ob = Some b -> height_ok (b_sources b)) ->
  In sec_id (map tid (flat_map all_nodes (f_sections f))) ->
  exists r, Section_referringSources_opt f sec_id ob = Ok r /\ Permutation r (spec_ref_sources_block sec_id ob).
Proof. exact referring_sources_in_exact. Qed.
Print Assumptions C20_referring_sources_in_block_exact.

(** MetadataFilter / SourceFilter handed to a search or an enumeration by the user are the pointwise link tests *)
Theorem C20_user_link_filters_exact :
  (forall roots sec_id s, height_ok roots -> In sec_id (map tid (flat_map all_nodes roots)) ->
     SourceMetadataFilter roots sec_id s = spec_meta_filter sec_id s) /\
  (forall s id, looksLikeUUID id = true -> (forall c, In c (kids s) -> n_name (label c) <> id) ->
     SourceSourceFilter id s = has_kid id s) /\
  (forall b src_id, Source_referringDataArrays b src_id = Block_dataArrays (SourceFilter src_id) b /\
                    Source_referringTags b src_id = Block_tags (SourceFilter src_id) b /\
                    Source_referringMultiTags b src_id = Block_multiTags (SourceFilter src_id) b).
Proof. exact (conj SourceMetadataFilter_exact (conj Source_hasSource_exact source_referring_is_enumeration)). Qed.
Print Assumptions C20_user_link_filters_exact.

Theorem C20_exact_type_match_is_loose_match : forall ty e, TypeFilter ty e = true -> TypeFilterLoose ty e = true.
Proof. exact TypeFilter_implies_loose. Qed.
Print Assumptions C20_exact_type_match_is_loose_match.

(** ** non-vacuity: a concrete tree on which the searches return different, non-empty answers *)
Definition nv_leaf (i n ty : string) : tree := Node (mkNode i n ty [] None None) [].
Definition nv_tree : tree :=
  Node (mkNode "r" "root" "t" [("p1", "a"); ("p2", "b")] (Some "x") None)
       [ Node (mkNode "a" "A" "u" [] None None) [nv_leaf "c" "C" "u"; nv_leaf "d" "D" "t"];
         Node (mkNode "b" "B" "t" [] None None) [nv_leaf "e" "C" "u"] ].
Definition nv_other : tree := Node (mkNode "x" "X" "t" [("p3", "b"); ("p4", "c")] None None) [].

Example C20_nonvacuous :
  (* breadth-first, not depth-first: a b c d e *)
  match Section_findSections AcceptAll size_max nv_tree with Ok r => map tid r | _ => [] end = ["a"; "b"; "c"; "d"; "e"]%string /\
  match Section_findSections AcceptAll 1 nv_tree with Ok r => map tid r | _ => [] end = ["a"; "b"]%string /\
  match Section_findSections AcceptAll 0 nv_tree with Ok r => map tid r | _ => ["?"%string] end = [] /\
  match Source_findSources (NameFilter "C") 2 nv_tree with Ok r => map tid r | _ => [] end = ["c"; "e"]%string /\
  match Source_findSources AcceptAll 0 nv_tree with Ok r => map tid r | _ => [] end = ["r"]%string /\
  match File_findSections (TypeFilter "t") 2 [nv_tree; nv_other] with Ok r => map tid r | _ => [] end = ["r"; "b"; "x"]%string /\
  match File_findSections AcceptAll 0 [nv_tree] with Ok r => map tid r | _ => ["?"%string] end = [] /\
  map tid (descendants nv_tree) = ["a"; "c"; "d"; "b"; "e"]%string /\
  match Section_inheritedProperties [nv_tree; nv_other] nv_tree with Ok r => map fst r | _ => [] end = ["p1"; "p2"; "p4"]%string /\
  match Section_findRelated (NameFilter "C") [] nv_tree with Ok r => map tid r | _ => [] end = ["c"; "e"]%string /\
  map tid (Section_sections (TypeFilterLoose "T") nv_tree) = ["b"]%string /\
  map tid (Section_sections (TypeFilterLoose "U") nv_tree) = ["a"]%string /\
  match Section_findRelated (NameFilter "B") [Node (mkNode "a" "A" "u" [] None None) [nv_leaf "c" "C" "u"; nv_leaf "d" "D" "t"]; nv_tree]
                            (nv_leaf "c" "C" "u") with Ok r => map tid r | _ => [] end = ["b"]%string.
Proof. vm_compute. repeat split. Qed.

(** the hand copy of [util::looksLikeUUID] in the model is the definition the translator regenerates from
    src/util/util.cpp on every run *)
Require NixV.Store.GenBridge NixV.Gen.GenUtil.
Theorem C20_looksLikeUUID_is_generated : forall s, NixV.Store.Search.looksLikeUUID s = NixV.Gen.GenUtil.looksLikeUUID s.
Proof. exact NixV.Store.GenBridge.search_looksLikeUUID_is_generated. Qed.
Print Assumptions C20_looksLikeUUID_is_generated.
