(** C10 — Format-version gate.  Statements only; each closed by [exact]. The functions
    [FormatVersion_*] are regenerated from include/nix/Version.hpp on every run. *)
From Coq Require Import ZArith Bool String List.
Require Import NixV.Base.Prelude NixV.Gen.GenVersion NixV.Gen.GenTables NixV.FileIO.Version NixV.FileIO.VersionProofs.
Import ListNotations.
Local Open Scope Z_scope.

(** operator< never throws and is exactly the lexicographic order on (x,y,z). *)
Theorem C10_lt_is_lexicographic : forall a b, FormatVersion_op_lt a b = Ok (lexltb a b) /\ (lexltb a b = true <-> lexlt a b).
Proof. intros a b. split. exact (op_lt_spec a b). exact (lexltb_spec a b). Qed.
Print Assumptions C10_lt_is_lexicographic.

Theorem C10_lt_strict_total_order :
  (forall a, ~ lexlt a a) /\ (forall a b c, lexlt a b -> lexlt b c -> lexlt a c) /\
  (forall a b, lexlt a b \/ a = b \/ lexlt b a).
Proof. exact (conj lt_irrefl (conj lt_trans lt_total)). Qed.
Print Assumptions C10_lt_strict_total_order.

Theorem C10_eq_consistent : forall a b, FormatVersion_op_eq a b = true <-> a = b.
Proof. exact op_eq_spec. Qed.
Print Assumptions C10_eq_consistent.

Theorem C10_derived_operators : forall a b,
  FormatVersion_op_gt a b = Ok (lexltb b a) /\
  FormatVersion_op_le a b = Ok (negb (lexltb b a)) /\
  FormatVersion_op_ge a b = Ok (negb (lexltb a b)) /\
  FormatVersion_op_ne a b = negb (FormatVersion_op_eq a b).
Proof. exact derived_ops. Qed.
Print Assumptions C10_derived_operators.

Theorem C10_canRead_spec : forall lib f,
  FormatVersion_canRead lib f = true <->
  FormatVersion_vx f = FormatVersion_vx lib /\ FormatVersion_vy f <= FormatVersion_vy lib.
Proof. exact canRead_spec. Qed.
Print Assumptions C10_canRead_spec.

Theorem C10_canWrite_spec : forall lib f, FormatVersion_canWrite lib f = true <-> f = lib.
Proof. exact canWrite_spec. Qed.
Print Assumptions C10_canWrite_spec.

(** read-write open succeeds exactly when all three components are identical *)
Theorem C10_gate_rw : forall x y z,
  open_existing (good_header x y z) ReadWrite false = Ok tt <-> MkFormatVersion x y z = my_version.
Proof. exact gate_rw. Qed.
Print Assumptions C10_gate_rw.

(** read-only open succeeds exactly when the major matches and the minor is not newer *)
Theorem C10_gate_ro : forall x y z,
  open_existing (good_header x y z) ReadOnly false = Ok tt <->
  x = FormatVersion_vx my_version /\ y <= FormatVersion_vy my_version.
Proof. exact gate_ro. Qed.
Print Assumptions C10_gate_ro.

Theorem C10_force_bypasses : forall h mode,
  (forall vv, h_version h = Some vv -> List.length vv = 3%nat) -> open_existing h mode true = Ok tt.
Proof. exact force_bypasses. Qed.
Print Assumptions C10_force_bypasses.

(** the extracted boolean oracle used by the correspondence run is exactly the gate *)
Theorem C10_oracle_is_gate : forall x y z mode force,
  (exists n, open_file (H5file (good_header x y z) true n) mode force = Ok n) <-> gate_specb x y z mode force = true.
Proof. exact gate_specb_correct. Qed.
Print Assumptions C10_oracle_is_gate.


(** the header check used by the model and all gate theorems is the function regenerated from
    backend/hdf5/FileHDF5.cpp on every run *)
Require NixV.FileIO.HeaderBridge NixV.Gen.GenFile.
Theorem C10_checkHeader_is_generated : forall h m throw_error,
  NixV.FileIO.Version.checkHeader h m throw_error =
  NixV.Gen.GenFile.checkHeader (NixV.FileIO.HeaderBridge.mode_of m) throw_error (NixV.FileIO.HeaderBridge.attrs_of h)
    NixV.FileIO.Version.my_version NixV.FileIO.Version.my_version.
Proof. exact NixV.FileIO.HeaderBridge.checkHeader_is_generated. Qed.
Print Assumptions C10_checkHeader_is_generated.

(** non-vacuity: the gate really opens and really refuses *)
Example C10_gate_nonvacuous :
  open_existing (good_header 1 2 0) ReadWrite false = Ok tt /\
  open_existing (good_header 1 1 7) ReadOnly false = Ok tt /\
  open_existing (good_header 1 1 7) ReadWrite false = Err "nix::InvalidFile"%string /\
  open_existing (good_header 2 0 0) ReadOnly false = Err "nix::InvalidFile"%string /\
  open_existing (good_header 2 0 0) ReadOnly true = Ok tt.
Proof. vm_compute. repeat split. Qed.
