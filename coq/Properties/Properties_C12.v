(** C12 — Ids are well-formed UUIDs, never change and never collide.  Statements only; each closed by [exact].
    Model: FileIO/Ids.v (hand-written from boost/uuid/{uuid_io,random_generator}.hpp, src/util/util.cpp
    [createId] / [looksLikeUUID] and the create paths of backend/hdf5); proofs: FileIO/IdsProofs.v.
    The engine [gen] is universally quantified in every theorem (any deterministic generator).

    Proved: well-formedness (every 128-bit value), stability (all histories), uniqueness GIVEN distinct seeds and
    an engine that does not repeat itself on the calls made.  ASSUMED, not proved (named in the evidence): that
    the entropy source gives different processes different values, and that distinct seeds give distinct 122-bit
    random ids (a probabilistic fact about mt19937 / uniform_int, outside any proof here). *)
From Coq Require Import ZArith Bool String List.
Require Import NixV.Base.Prelude NixV.FileIO.Ids NixV.FileIO.IdsProofs.
Import ListNotations.
Local Open Scope Z_scope.

(* ---------- well-formed ---------- *)

(** boost::uuids::to_string of EVERY 16-byte value (no condition on the bytes: all 2^128 of them and beyond) is
    36 characters, dashes at 8, 13, 18, 23, lower-case hex digits elsewhere.  Bound: the proof unfolds exactly 16
    positions; the two digits of a position are discharged by a finite sweep ([vm_compute] over the 16 nibble
    values / the 256 byte values, lifted by [forallb_forall]). *)
Theorem C12_uuid_wellformed : forall bs, List.length bs = 16%nat ->
  uuid_shape (uuid_to_string bs) /\ looksLikeUUID (uuid_to_string bs) = true.
Proof. intros bs H. exact (conj (uuid_wellformed bs H) (looksLikeUUID_uuid_to_string bs H)). Qed.
Print Assumptions C12_uuid_wellformed.

(** the per-byte sweep itself: for each of the 256 byte values both digits are lower-case hex, none is a dash, the
    pair reads back as the byte, and the version / variant masks yield a byte whose high digit is 4 resp. 8..b *)
Theorem C12_byte_sweep : forall b, 0 <= b < 256 -> byte_check b = true.
Proof. exact byte_ok_all. Qed.
Print Assumptions C12_byte_sweep.

(** the text loses nothing: different 16-byte values print differently *)
Theorem C12_uuid_text_injective : forall a b,
  Forall (fun x => 0 <= x < 256) a -> Forall (fun x => 0 <= x < 256) b -> uuid_to_string a = uuid_to_string b -> a = b.
Proof. exact uuid_to_string_injective. Qed.
Print Assumptions C12_uuid_text_injective.

(** what one createId call returns — two random words cut into bytes, version / variant bits set, printed — is a
    well-formed version-4 uuid text and is recognised by looksLikeUUID, whatever the two words are *)
Theorem C12_createId_wellformed : forall w0 w1,
  uuid_wellformedb (uuid_of_words w0 w1) = true /\ looksLikeUUID (uuid_of_words w0 w1) = true.
Proof. intros w0 w1. exact (conj (uuid_of_words_wellformed w0 w1) (uuid_of_words_looks w0 w1)). Qed.
Print Assumptions C12_createId_wellformed.

(** the extracted shape test (the oracle the model driver prints) is the Prop-level shape *)
Theorem C12_shape_oracle : forall s, uuid_shapeb s = true <-> uuid_shape s.
Proof. exact uuid_shapeb_spec. Qed.
Print Assumptions C12_shape_oracle.

(** every id in every reachable state (any engine, either behaviour, any history, any processes) is well-formed *)
Theorem C12_all_ids_wellformed : forall gen beh t e h, wf_state (run gen beh t e h).
Proof. exact all_ids_wellformed. Qed.
Print Assumptions C12_all_ids_wellformed.

(* ---------- never changes ---------- *)

(** Once no operation rewrites an entity_id (the repaired createDataFrame): whatever happens after an entity was
    created — any operations by any processes in any number of sessions — the entity, alive or deleted, still
    carries the id it had; and that id is the one it was created with. *)
Theorem C12_id_never_changes : forall gen beh, dup_frame_reidentifies beh = false ->
  (forall t e h1 h2 x, In x (st_ents (run gen beh t e h1)) ->
     exists x', In x' (st_ents (run gen beh t e (h1 ++ h2))) /\ e_ord x' = e_ord x /\ e_id x' = e_id x) /\
  (forall t e h, ids_as_created (run gen beh t e h)).
Proof. intros gen beh NR. exact (conj (id_never_changes gen beh NR) (ids_stay_as_created gen beh NR)). Qed.
Print Assumptions C12_id_never_changes.

(** forceId is the only operation that changes the file's id (either behaviour) *)
Theorem C12_file_id_only_forceId : forall gen beh st o, o <> OForceId -> st_file (fst (step gen beh st o)) = st_file st.
Proof. exact file_id_changes_only_by_forceId. Qed.
Print Assumptions C12_file_id_only_forceId.

(** the pinned tree: createDataFrame under an existing name gives the existing frame a new id (witness by
    computation); the same history on the repaired behaviour meets the specification *)
Theorem C12_id_never_changes_refuted :
  id_of (run toy_gen code_today 100 1 dup_frame_history) 1 <> id_of (run toy_gen code_today 100 1 (firstn 2 dup_frame_history)) 1 /\
  observe (run toy_gen code_today 100 1 dup_frame_history) <> spec_observe (run toy_gen code_today 100 1 dup_frame_history) /\
  observe (run toy_gen repaired 100 1 dup_frame_history) = spec_observe (run toy_gen repaired 100 1 dup_frame_history).
Proof. exact id_never_changes_refuted. Qed.
Print Assumptions C12_id_never_changes_refuted.

(* ---------- never collide ---------- *)

(** a fork that does not hand the engine state down + processes with pairwise different seeds + an engine that gives different ids to the createId calls the history
    makes  ==>  all ids ever stored in the file are pairwise distinct, and the ids held now (file, every entity,
    deleted ones included) are pairwise distinct — in every reachable state, across sessions and processes *)
Theorem C12_ids_unique_given_supply : forall gen beh t e h,
  fork_copies_engine beh = false ->
  NoDup (seeds_of beh (procs_of t e h)) ->
  (forall d d', In d (st_draws (run gen beh t e h)) -> In d' (st_draws (run gen beh t e h)) ->
                supd gen d = supd gen d' -> d = d') ->
  let st := run gen beh t e h in
  NoDup (st_seen st) /\ NoDup (st_file st :: map e_id (st_ents st)) /\
  incl (st_file st :: map e_id (st_ents st)) (st_seen st).
Proof. exact ids_unique_given_supply. Qed.
Print Assumptions C12_ids_unique_given_supply.

(** equal seeds, equal id sequences; the pinned seed is the second (mod 2^32) and nothing else *)
Theorem C12_same_seed_same_ids : forall gen,
  (forall s1 s2, s1 = s2 -> forall k, supply gen s1 k = supply gen s2 k) /\
  (forall t e1 e2, seed_of code_today t e1 = seed_of code_today t e2) /\
  (forall t e, seed_of code_today (t + 4294967296) e = seed_of code_today t e) /\
  (forall t e1 e2 k, supply gen (seed_of code_today t e1) k = supply gen (seed_of code_today t e2) k).
Proof.
  intros gen. exact (conj (same_seed_same_ids gen) (conj seed_today_is_the_second_only
                    (conj seed_today_wraps (same_second_same_ids_today gen)))).
Qed.
Print Assumptions C12_same_seed_same_ids.

(** the pinned tree, EVERY engine: a second process started within the same second creates a block in the file —
    the block gets the file's id; and k >= 2 processes started in one second share their ids *)
Theorem C12_cross_process_collision_refuted : forall gen,
  (forall t e1 e2 name, nodupb (st_seen (run gen code_today t e1 [OCreateOther t e2 KBlock [name]])) = false) /\
  (forall t e1 e2 es n, procs_common gen code_today t (e1 :: e2 :: es) (S n) = true).
Proof. intros gen. exact (conj (cross_process_collision_refuted gen) (procs_common_today gen)). Qed.
Print Assumptions C12_cross_process_collision_refuted.

(** repaired: distinct entropy ==> distinct seeds, whatever the clocks; and, conditionally on the engine not
    repeating itself on the calls made, unique ids for arbitrary relative start times *)
Theorem C12_unique_across_processes_repaired : forall gen,
  (forall t1 t2 e1 e2, e1 <> e2 -> seed_of repaired t1 e1 <> seed_of repaired t2 e2) /\
  (forall beh t e h, seed_uses_entropy beh = true -> fork_copies_engine beh = false -> NoDup (map snd (procs_of t e h)) ->
     (forall d d', In d (st_draws (run gen beh t e h)) -> In d' (st_draws (run gen beh t e h)) ->
                   supd gen d = supd gen d' -> d = d') ->
     let st := run gen beh t e h in NoDup (st_seen st) /\ NoDup (st_file st :: map e_id (st_ents st))) /\
  (forall t es n, NoDup es ->
     NoDup (map (supd gen) (flat_map (fun e => map (fun k => (seed_of repaired t e, k)) (seq 0 n)) es)) ->
     procs_common gen repaired t es n = false).
Proof.
  intros gen. exact (conj distinct_entropy_distinct_seeds (conj (unique_across_processes_repaired gen) (procs_common_repaired gen))).
Qed.
Print Assumptions C12_unique_across_processes_repaired.

(** FORK.  While a forked child inherits the function-local static engine (the tree today), for EVERY engine and
    whatever clocks and entropy source say: two children forked by the process that created the file give their
    first entities the same id, a child's first entity gets the id of the parent's next entity, and in the
    separate-files experiment two children share their first id. *)
Theorem C12_fork_collision_refuted : forall gen beh, fork_copies_engine beh = true ->
  ((forall t e t1 e1 t2 e2 n1 n2,
      nodupb (st_seen (run gen beh t e [OFork t1 e1 KBlock [n1]; OFork t2 e2 KSection [n2]])) = false) /\
   (forall t e t1 e1 n1 n2,
      nodupb (st_seen (run gen beh t e [OFork t1 e1 KBlock [n1]; OCreate KSection None n2 None])) = false)) /\
  (forall t e pre c1 c2 cs kc kp, fork_common gen beh t e pre (c1 :: c2 :: cs) (S kc) kp = true).
Proof. intros gen beh FC. exact (conj (fork_collision_refuted gen beh FC) (fork_common_today gen beh FC)). Qed.
Print Assumptions C12_fork_collision_refuted.

(** Once the library re-seeds in a forked child, a forked child is just another process (so the uniqueness
    theorems above cover it under the same entropy / engine assumptions), and the fork experiment finds nothing. *)
Theorem C12_fork_repaired : forall gen beh, fork_copies_engine beh = false ->
  (forall st t e k names, step gen beh st (OFork t e k names) = step gen beh st (OCreateOther t e k names)) /\
  (forall t e pre cs kc kp,
     NoDup (map (supd gen) (map (fun k => (seed_of beh t e, k)) (seq 0 (pre + kp)) ++
                            flat_map (fun c => map (fun k => (seed_of beh (fst c) (snd c), k)) (seq 0 kc)) cs)) ->
     fork_common gen beh t e pre cs kc kp = false).
Proof. intros gen beh NF. exact (conj (fork_step_repaired gen beh NF) (fork_common_repaired gen beh NF)). Qed.
Print Assumptions C12_fork_repaired.

(* ---------- the oracle of the correspondence run ---------- *)

(** [observe st = spec_observe st] (what the model driver prints after "##") is the property's statement about st *)
Theorem C12_oracle_is_statement : forall st,
  observe st = spec_observe st <->
  (uuid_wellformedb (st_file st) = true /\
   (forall e, In e (st_ents st) -> e_live e = true -> uuid_wellformedb (e_id e) = true /\ e_id e = e_id0 e) /\
   NoDup (st_seen st)).
Proof. exact observe_meets_spec. Qed.
Print Assumptions C12_oracle_is_statement.

Theorem C12_model_meets_spec_when_repaired : forall gen beh t e h,
  dup_frame_reidentifies beh = false -> fork_copies_engine beh = false ->
  NoDup (seeds_of beh (procs_of t e h)) ->
  (forall d d', In d (st_draws (run gen beh t e h)) -> In d' (st_draws (run gen beh t e h)) ->
                supd gen d = supd gen d' -> d = d') ->
  observe (run gen beh t e h) = spec_observe (run gen beh t e h).
Proof. exact model_meets_spec_when_repaired. Qed.
Print Assumptions C12_model_meets_spec_when_repaired.

(* ---------- non-vacuity ---------- *)

(** [nv_history] (IdsProofs.v): every entity kind, a delete, a re-creation, rejected duplicates, forceId, a
    read-only session, two other processes started in the SAME second as the creator (entropy differs), a take-over,
    two forked children.
    On the repaired behaviour the hypotheses of the uniqueness theorem hold for the concrete engine [toy_gen] (so
    they are satisfiable) and the state is non-trivial; on the pinned behaviour the same history collides. *)
Example C12_nonvacuous_unique : let st := run toy_gen repaired 100 1 nv_history in
  NoDup (st_seen st) /\ NoDup (st_file st :: map e_id (st_ents st)) /\
  incl (st_file st :: map e_id (st_ents st)) (st_seen st).
Proof. exact nv_unique. Qed.

Example C12_nonvacuous :
  let st := run toy_gen repaired 100 1 nv_history in
  nodupzb (seeds_of repaired (procs_of 100 1 nv_history)) = true /\
  nodupb (map (supd toy_gen) (st_draws st)) = true /\
  List.length (st_ents st) = 21%nat /\ List.length (filter e_live (st_ents st)) = 20%nat /\
  List.length (st_seen st) = 23%nat /\ List.length (st_draws st) = 25%nat /\
  observe st = spec_observe st /\
  (* the same history on the pinned behaviour: the other processes repeat the creator's ids, the frame is re-identified *)
  let st' := run toy_gen code_today 100 1 nv_history in
  nodupb (st_seen st') = false /\ observe st' <> spec_observe st' /\
  (* ... and on the tree as it is today (frames and seeds repaired, fork not): the forked children repeat ids *)
  let st'' := run toy_gen (mkBehaviour false true true) 100 1 nv_history in
  nodupb (st_seen st'') = false /\ observe st'' <> spec_observe st''.
Proof. vm_compute. repeat split; discriminate. Qed.

Example C12_text_examples :
  uuid_to_string [179; 165; 81; 167; 87; 18; 77; 52; 135; 24; 113; 29; 192; 14; 66; 156] = "b3a551a7-5712-4d34-8718-711dc00e429c"%string /\
  uuid_of_words 18446744073709551615 18446744073709551615 = "ffffffff-ffff-4fff-bfff-ffffffffffff"%string /\
  uuid_of_words 0 0 = "00000000-0000-4000-8000-000000000000"%string /\
  looksLikeUUID "B3A551A7-5712-4D34-8718-711DC00E429C" = true /\ uuid_shapeb "B3A551A7-5712-4D34-8718-711DC00E429C" = false /\
  uuid_wellformedb "b3a551a7-5712-1d34-8718-711dc00e429c" = false /\ uuid_wellformedb "b3a551a7-5712-4d34-c718-711dc00e429c" = false /\
  looksLikeUUID "b3a551a7-5712-4d34-8718-711dc00e429" = false.
Proof. vm_compute. repeat split. Qed.

(* ---------- the switch ---------- *)

(** The model driver replays [current_behaviour] against the library.  While /repo has the two defects this is
    [code_today] and the statement below does NOT hold: the check reports this obligation as broken, next to the
    replayable failing inputs the runs find.  The commit that lands the repairs sets Ids.current_behaviour := repaired. *)

(** the hand copy of [util::looksLikeUUID] in the model is the definition the translator regenerates from
    src/util/util.cpp on every run *)
Require NixV.Store.GenBridge NixV.Gen.GenUtil.
Theorem C12_looksLikeUUID_is_generated : forall s, NixV.FileIO.Ids.looksLikeUUID s = NixV.Gen.GenUtil.looksLikeUUID s.
Proof. exact NixV.Store.GenBridge.ids_looksLikeUUID_is_generated. Qed.
Print Assumptions C12_looksLikeUUID_is_generated.

Theorem C12_current_is_repaired : current_behaviour = repaired.
Proof. reflexivity. Qed.
Print Assumptions C12_current_is_repaired.
