(** C08 — A rejected operation leaves no trace.

    [step] mirrors the order of validation and mutation of front-end and backend, call by call; the statements are
    about the REPAIRED step function (every behaviour switch on), for every op constructor, every state satisfying
    the invariant of C03 and hence every reachable state.  [observe] is the canonical full tree.  Where today's code
    leaves a trace the file carries a [..._refuted] witness (computed on the model with the switch off); the LAST
    theorem, [C08_current_is_repaired], fails until all fixes have landed in /repo. *)
From Coq Require Import List ZArith Bool String Ascii Arith.
Require Import NixV.Base.Prelude NixV.Store.Db NixV.Store.DbOps NixV.Store.DbObserve NixV.Store.DbInv NixV.Store.DbShape
        NixV.Store.DbNoTrace NixV.Store.DbWitness.
Import ListNotations.

Section C08.
Variable ids : nat -> string.
Hypothesis ids_inj : forall a b, ids a = ids b -> a = b.
Variable N : nat.
Hypothesis ids_uuid : forall a, a < N -> looksLikeUUID (ids a) = true.
Variable sanitize : string -> string.
Variable unit_ok : string -> bool.
Notation stepR := (step ids sanitize unit_ok repaired).
Notation Inv := (Inv ids N).
Notation fresh := (fresh ids N).

(** a call that is rejected with an exception leaves the observable state exactly as it was *)
Theorem C08_rejected_no_trace : forall s o s' e, Inv s -> fresh s -> stepR s o = (s', Err e) -> observe s' = observe s.
Proof. intros; eapply rejected_no_trace; eauto. Qed.

(** ... in every reachable state *)
Theorem C08_rejected_no_trace_reachable : forall s o s' e,
  reachable ids N sanitize unit_ok s -> fresh s -> stepR s o = (s', Err e) -> observe s' = observe s.
Proof. intros; eapply rejected_no_trace_reachable; eauto. Qed.

(** stronger: the state itself is unchanged, except that an id of the supply may have been consumed *)
Theorem C08_rejected_state : forall s o s' e, Inv s -> fresh s -> stepR s o = (s', Err e) -> s' = s \/ s' = bump s.
Proof. intros; eapply rejected_state; eauto. Qed.

(** every step is an [Ok] with an admissible transition or an [Err] without trace; never undefined behaviour *)
Theorem C08_step_shape : forall s o, Inv s -> fresh s -> shape ids N s (stepR s o).
Proof. intros; eapply step_shape; eauto. Qed.

Theorem C08_step_never_ub : forall s o w, Inv s -> fresh s -> snd (stepR s o) <> UB w.
Proof. intros; eapply step_never_ub; eauto. Qed.

(** the invariant the statement rests on holds in every reachable state (C03) *)
Theorem C08_inv_reachable : forall s, reachable ids N sanitize unit_ok s -> Inv s.
Proof. intros; eapply inv_reachable; eauto. Qed.

End C08.

Print Assumptions C08_rejected_no_trace.
Print Assumptions C08_rejected_no_trace_reachable.
Print Assumptions C08_rejected_state.
Print Assumptions C08_step_shape.
Print Assumptions C08_step_never_ub.
Print Assumptions C08_inv_reachable.

(** non-vacuity: a concrete id supply meets the hypotheses; the populated file [base repaired] is reachable, and a
    duplicate create is rejected there *)
Example C08_nonvacuous :
  Inv wid 256 (base repaired) /\
  exists s' e, stepW repaired (base repaired) (OCreate (Some 0) KFrame "f" "t2" (XFrame [col "c" DInt32])) = (s', Err e) /\
               observe s' = observe (base repaired).
Proof.
  exact (conj base_inv (ex_intro _ (base repaired) (ex_intro _ EDup (conj eq_refl eq_refl)))).
Qed.
Print Assumptions C08_nonvacuous.

(** what today's code does instead: the rejected call leaves a trace *)
Theorem C08_duplicate_createDataFrame_refuted : leaves_trace code_today (OCreate (Some 0) KFrame "f" "t2" (XFrame [col "c" DInt32])).
Proof. exact refuted_df_checks. Qed.
Print Assumptions C08_duplicate_createDataFrame_refuted.
Theorem C08_createDataFrame_without_columns_refuted : leaves_trace code_today (OCreate (Some 0) KFrame "f2" "t" (XFrame [])).
Proof. exact refuted_df_cols. Qed.
Print Assumptions C08_createDataFrame_without_columns_refuted.
Theorem C08_createDataFrame_column_Nothing_refuted : leaves_trace code_today (OCreate (Some 0) KFrame "f2" "t" (XFrame [col "c" DNothing])).
Proof. exact refuted_df_cols_nothing. Qed.
Print Assumptions C08_createDataFrame_column_Nothing_refuted.
Theorem C08_createMultiTag_foreign_positions_refuted : leaves_trace code_today (OCreate (Some 0) KMTag "m2" "t" (XMTag (HEnt 11))).
Proof. exact refuted_mtag_pos. Qed.
Print Assumptions C08_createMultiTag_foreign_positions_refuted.
Theorem C08_createDataArray_unsupported_type_refuted : leaves_trace code_today (OCreate (Some 0) KArray "a2" "t" (XArray DNothing [3%Z])).
Proof. exact refuted_array_dtype. Qed.
Print Assumptions C08_createDataArray_unsupported_type_refuted.
Theorem C08_createDataArray_rank0_refuted : leaves_trace code_today (OCreate (Some 0) KArray "a2" "t" (XArray DDouble [])).
Proof. exact refuted_array_rank0. Qed.
Print Assumptions C08_createDataArray_rank0_refuted.
Theorem C08_metadata_unknown_id_refuted : leaves_trace code_today (OSetMetaS 1 "nosuchid").
Proof. exact refuted_meta. Qed.
Print Assumptions C08_metadata_unknown_id_refuted.
Theorem C08_section_link_unknown_id_refuted : leaves_trace code_today (OSetLinkS 8 "nosuchid").
Proof. exact refuted_link. Qed.
Print Assumptions C08_section_link_unknown_id_refuted.
Theorem C08_extents_shape_mismatch_refuted : leaves_trace code_today (OSetExt 4 (HEnt 12)).
Proof. exact refuted_extents. Qed.
Print Assumptions C08_extents_shape_mismatch_refuted.
Theorem C08_replace_all_refuted : leaves_trace code_today (OLSet 3 LRefs [HEnt 1; HNone]).
Proof. exact refuted_replace_all. Qed.
Print Assumptions C08_replace_all_refuted.
Theorem C08_setData_element_type_refuted : leaves_trace before_c08b (OSetDataT 1 DString [5%Z]).
Proof. exact refuted_setdata_type. Qed.
Print Assumptions C08_setData_element_type_refuted.
Theorem C08_appendData_element_type_refuted : leaves_trace before_c08b (OAppendData 1 DString [2%Z] 0).
Proof. exact refuted_append_type. Qed.
Print Assumptions C08_appendData_element_type_refuted.
Theorem C08_createDataFrame_empty_column_name_refuted :
  leaves_trace before_c08b (OCreate (Some 0) KFrame "f2" "t" (XFrame [col "c" DInt32; col "" DDouble])).
Proof. exact refuted_df_colname. Qed.
Print Assumptions C08_createDataFrame_empty_column_name_refuted.
Theorem C08_createDataArray_rank33_refuted : leaves_trace before_c08b (OCreate (Some 0) KArray "a2" "t" (XArray DDouble (repeat 1%Z 33))).
Proof. exact refuted_array_rank33. Qed.
Print Assumptions C08_createDataArray_rank33_refuted.
Theorem C08_createDataArray_from_data_refuted : leaves_trace before_c08b (OCreate (Some 0) KArray "a2" "t" (XArrayT DDouble 3%Z DString)).
Proof. exact refuted_create_typed. Qed.
Print Assumptions C08_createDataArray_from_data_refuted.
(** repaired in /repo since (491c620, 2f44815); shown on the model of the old code *)
Theorem C08_values_mixed_types_refuted : leaves_trace old_props (OSetValues 9 [DInt64; DInt64; DString]).
Proof. exact refuted_values. Qed.
Print Assumptions C08_values_mixed_types_refuted.
Theorem C08_createProperty_mixed_values_refuted : leaves_trace old_props (OCreate (Some 8) KProperty "q" "" (XPropV [DInt64; DString])).
Proof. exact refuted_prop_values. Qed.
Print Assumptions C08_createProperty_mixed_values_refuted.
Theorem C08_createProperty_unholdable_type_refuted :
  snd (stepW old_props (base old_props) (OCreate (Some 8) KProperty "q" "" (XPropT DInt8))) = Ok (VEnt (Some 15)) /\
  snd (stepW repaired (base repaired) (OCreate (Some 8) KProperty "q" "" (XPropT DInt8))) = Err EInvArg.
Proof. exact refuted_prop_type. Qed.
Print Assumptions C08_createProperty_unholdable_type_refuted.

(** LAST: the tree the check runs against behaves like the repaired model in everything a rejection depends on
    (the switches of the lookup defects of C03 / C04 are not among them).  Fails (broken obligation) while one of the
    defects above is still in /repo; the coordinator switches the fields of [current_behaviour] (DbOps.v) on as the
    fixes land. *)
Definition c08_switches (b : behaviour) : list bool :=
  [b_df_checks b; b_df_cols_check b; b_mtag_pos_first b; b_array_checks_first b; b_meta_lookup_first b;
   b_link_lookup_first b; b_ext_check_first b; b_values_check_first b; b_prop_type_check b; b_prop_values_uniform b;
   b_replace_all_atomic b; b_setdata_type_first b; b_append_type_first b; b_df_colname_check b; b_array_rank_max b; b_create_typed_first b].

(** the hand copy of [util::looksLikeUUID] in the model is the definition the translator regenerates from
    src/util/util.cpp on every run *)
Require NixV.Store.GenBridge NixV.Gen.GenUtil.
Theorem C08_looksLikeUUID_is_generated : forall s, NixV.Store.Db.looksLikeUUID s = NixV.Gen.GenUtil.looksLikeUUID s.
Proof. exact NixV.Store.GenBridge.db_looksLikeUUID_is_generated. Qed.
Print Assumptions C08_looksLikeUUID_is_generated.


(** the model's entity-name check is the generated [util::checkEntityName] (empty => EmptyString, '/' => InvalidName) *)
Require NixV.Store.DbOps.
Theorem C08_check_name_is_generated : forall name,
  NixV.Store.DbOps.check_name name =
  match NixV.Gen.GenUtil.checkEntityName name with Ok _ => None | Err e => Some e | UB _ => None end.
Proof. exact NixV.Store.GenBridge.db_check_name_is_generated. Qed.
Print Assumptions C08_check_name_is_generated.

Theorem C08_current_is_repaired : c08_switches current_behaviour = c08_switches repaired.
Proof. reflexivity. Qed.
Print Assumptions C08_current_is_repaired.
