(** C01 model of DataArray data access (definitions only; proofs in NDProofs.v).

    A typed n-d store [{ty; shape; cells}] with [cells] in row-major order, and the
    operations of the code path
      DataSet::setData/getData (include/nix/DataSet.hpp, Hydra.hpp)
        -> DataArray::ioWrite/ioRead/appendData (src/DataArray.cpp)
        -> DataArrayHDF5::write/read/dataExtent (backend/hdf5/DataArrayHDF5.cpp)
        -> DataSet::offsetCount2DataSpaces / setExtent (backend/hdf5/h5x/H5DataSet.cpp), DataSpace.cpp
        -> H5Dread / H5Dwrite / H5Dset_extent / H5Tconvert   (HDF5: modelled, assumed, compared)
    with util::applyPolynomial (src/util/util.cpp) in its exact operation order.

    HDF5 behaviour that is *assumed* here and re-checked by every correspondence run:
    - a dataset is a total map from in-extent indices to values, fill value zero / empty string;
      H5Dset_extent keeps cells by index and fills exposed cells; hyperslab transfer is row-major;
    - H5Dread/H5Dwrite fail (H5Error) when the numbers of selected elements in memory and file
      space differ or a non-empty selection leaves the extent; a hyperslab with a zero count
      selects nothing (then neither bounds nor offsets matter);
    - H5Sselect_hyperslab uses the first [rank] entries of the start/count arrays: longer NDSize
      vectors are tolerated (shorter ones are rejected by the code's own rank guard);
    - H5Screate_simple fails for more than 32 dimensions and for a dimension 2^64-1 (H5S_UNLIMITED);
    - hard conversions of this build (x86-64, gcc 12): integer->integer clamps; integer->float
      rounds to nearest even; float->integer truncates and clamps, except that a value equal to
      the destination's maximum *rounded up into the source format* (2^31 for float->Int32,
      2^63 for ->Int64, 2^32 / 2^64 for the unsigned types) passes HDF5's range test and takes the
      hardware cast (minimum for signed, 0 for unsigned destinations); double->float gives an
      infinity for every magnitude above FLT_MAX, otherwise rounds to nearest even;
      NaN->integer is the C cast of a NaN (undefined in C, hardware dependent): [UB], excluded
      from the compared domain;  Bool is an 8-bit enum: it converts to every numeric type,
      nothing converts to it; String converts to and from nothing else;
    - a file opened read-only rejects every mutating call (H5Error; creating an object: H5Exception);
    - compression (none / deflate / inherited from the file) has no effect on values.
    The slab selection has no undefined behaviour ([slab_never_ub]); the only [UB] outcomes left in
    the model are preconditions of the raw-pointer API (caller's buffer smaller than count.nelms()),
    the C cast of NaN inside H5Tconvert, and the domain marker for the extent value 2^64-1.
    Not modelled: extents or offsets >= 2^63 in HDF5's own bound arithmetic (the generator stays
    far below), NDSize::nelms wrap-around, the extent value 2^64-1 (= H5S_UNLIMITED; observed to
    leave the dataset unusable: [UB "domain"] here). *)
From Coq Require Import List ZArith Bool String Lia.
From Flocq Require Import Core BinarySingleNaN.
Require Import NixV.Base.Prelude NixV.Base.F64 NixV.Data.NDIndex.
Import ListNotations.
Local Open Scope Z_scope.

(** * Element types and values *)

Inductive dtype := TBool | TInt8 | TInt16 | TInt32 | TInt64 | TUInt8 | TUInt16 | TUInt32 | TUInt64
                 | TFloat | TDouble | TString.

Definition dtype_eqb (a b : dtype) : bool :=
  match a, b with
  | TBool, TBool | TInt8, TInt8 | TInt16, TInt16 | TInt32, TInt32 | TInt64, TInt64
  | TUInt8, TUInt8 | TUInt16, TUInt16 | TUInt32, TUInt32 | TUInt64, TUInt64
  | TFloat, TFloat | TDouble, TDouble | TString, TString => true
  | _, _ => false
  end.

(** IEEE-754 binary32 (the C++ [float]) *)
Definition prec32 : Z := 24.
Definition emax32 : Z := 128.
Lemma Hprec32 : Prec_gt_0 prec32. Proof. reflexivity. Qed.
Lemma Hmax32 : Prec_lt_emax prec32 emax32. Proof. reflexivity. Qed.
Definition F32 := binary_float prec32 emax32.

(** Bool and the eight integer types are bounded [Z]; Double / Float are Flocq floats *)
Inductive V :=
| VI (z : Z)
| VD (d : F64)
| VF (f : F32)
| VS (s : string).

Definition f64_zero : F64 := B754_zero false.
Definition f64_one : F64 := ofZ 1.
Definition f32_zero : F32 := B754_zero false.

(** the HDF5 fill value: zero, FALSE, the empty string *)
Definition zero_of (t : dtype) : V :=
  match t with
  | TFloat => VF f32_zero
  | TDouble => VD f64_zero
  | TString => VS ""%string
  | _ => VI 0
  end.

Inductive tclass := CBool | CInt | CFlt | CStr.
Definition class_of (t : dtype) : tclass :=
  match t with
  | TBool => CBool
  | TFloat | TDouble => CFlt
  | TString => CStr
  | _ => CInt
  end.

(** destination maximum is 2^bits - 1 *)
Definition int_bits (t : dtype) : Z :=
  match t with
  | TInt8 => 7 | TUInt8 => 8 | TInt16 => 15 | TUInt16 => 16
  | TInt32 => 31 | TUInt32 => 32 | TInt64 => 63 | TUInt64 => 64
  | _ => 1
  end.
Definition is_signed (t : dtype) : bool :=
  match t with TInt8 | TInt16 | TInt32 | TInt64 => true | _ => false end.
Definition int_hi (t : dtype) : Z := 2 ^ int_bits t - 1.
Definition int_lo (t : dtype) : Z := if is_signed t then - 2 ^ int_bits t else 0.

Definition clamp (t : dtype) (z : Z) : Z :=
  if z <? int_lo t then int_lo t else if int_hi t <? z then int_hi t else z.

(** a value of the given type (what a typed C++ buffer can hold) *)
Definition val_ok (t : dtype) (v : V) : bool :=
  match t, v with
  | TBool, VI z => (0 <=? z) && (z <=? 1)
  | TFloat, VF _ => true
  | TDouble, VD _ => true
  | TString, VS _ => true
  | (TBool | TFloat | TDouble | TString), _ => false
  | _, VI z => (int_lo t <=? z) && (z <=? int_hi t)
  | _, _ => false
  end.

(** * Conversions (H5Tconvert hard conversions of this build) *)

Definition f32_ofZ (z : Z) : F32 := binary_normalize prec32 emax32 Hprec32 Hmax32 mode_NE z 0 false.

Definition f32_of_f64_rne (x : F64) : F32 :=
  match x with
  | B754_zero s => B754_zero s
  | B754_infinity s => B754_infinity s
  | B754_nan => B754_nan
  | B754_finite s m e _ => binary_normalize prec32 emax32 Hprec32 Hmax32 mode_NE (cond_Zopp s (Zpos m)) e s
  end.

(** exact *)
Definition f64_of_f32 (x : F32) : F64 :=
  match x with
  | B754_zero s => B754_zero s
  | B754_infinity s => B754_infinity s
  | B754_nan => B754_nan
  | B754_finite s m e _ => binary_normalize prec emax Hprec Hmax mode_NE (cond_Zopp s (Zpos m)) e s
  end.

(** FLT_MAX as a double *)
Definition flt_max64 : F64 := ofME (2 ^ 24 - 1) 104.

(** H5T_CONV_Ff: anything above FLT_MAX overflows to infinity (even what IEEE rounding would
    still round down to FLT_MAX), the rest is the C cast *)
Definition d2f (x : F64) : F32 :=
  if flt flt_max64 x then B754_infinity false
  else if flt x (fneg flt_max64) then B754_infinity true
  else f32_of_f64_rne x.

(** H5T_CONV_Fx on the truncated value [tr] of a finite source of precision [sprec] *)
Definition f2i_core (sprec : Z) (t : dtype) (tr : Z) : Z :=
  let hi := int_hi t in
  let lo := int_lo t in
  let m := if sprec <? int_bits t then hi + 1 else hi in      (* (source type)(D_MAX) *)
  if m <? tr then hi
  else if tr <? lo then lo
  else if hi <? tr then (if is_signed t then lo else 0)          (* tr = hi+1: the hardware cast *)
  else tr.

Definition nan_cast_why : string := "C cast of NaN to an integer type inside H5Tconvert"%string.

Definition d2i (t : dtype) (x : F64) : res Z :=
  match x with
  | B754_nan => UB nan_cast_why
  | B754_infinity s => Ok (if s then int_lo t else int_hi t)
  | _ => Ok (f2i_core prec t (Btrunc x))
  end.

Definition f2i (t : dtype) (x : F32) : res Z :=
  match x with
  | B754_nan => UB nan_cast_why
  | B754_infinity s => Ok (if s then int_lo t else int_hi t)
  | _ => Ok (f2i_core prec32 t (Btrunc x))
  end.

Definition h5error : string := "nix::hdf5::H5Error"%string.
Definition h5exception : string := "nix::hdf5::H5Exception"%string.

(** is there a conversion path (H5T_path_find)?  Checked even for zero elements. *)
Definition conv_ok (src dst : dtype) : bool :=
  dtype_eqb src dst ||
  match class_of src, class_of dst with
  | CStr, _ | _, CStr | _, CBool => false
  | _, _ => true
  end.

(** one element; [src = dst] is the no-op path *)
Definition conv_val (src dst : dtype) (v : V) : res V :=
  if dtype_eqb src dst then Ok v else
  match class_of dst with
  | CStr | CBool => Err h5error
  | CInt =>
      match v with
      | VI z => Ok (VI (clamp dst z))
      | VD d => bind (d2i dst d) (fun z => Ok (VI z))
      | VF f => bind (f2i dst f) (fun z => Ok (VI z))
      | VS _ => Err h5error
      end
  | CFlt =>
      match v, dst with
      | VI z, TFloat => Ok (VF (f32_ofZ z))
      | VI z, _ => Ok (VD (ofZ z))
      | VD d, TFloat => Ok (VF (d2f d))
      | VD d, _ => Ok (VD d)
      | VF f, TFloat => Ok (VF f)
      | VF f, _ => Ok (VD (f64_of_f32 f))
      | VS _, _ => Err h5error
      end
  end.

Fixpoint mapM {A B} (f : A -> res B) (l : list A) : res (list B) :=
  match l with
  | [] => Ok []
  | x :: r => bind (f x) (fun y => bind (mapM f r) (fun ys => Ok (y :: ys)))
  end.

(** * util::applyPolynomial, one element, in the operation order of src/util/util.cpp:
      no coefficients:  output = input - origin
      otherwise:        x = input - origin; value = 0.0; term = 1.0;
                        for each c: value += c * term; term *= x            *)
Definition poly_step (x : F64) (acc : F64 * F64) (c : F64) : F64 * F64 :=
  (fadd (fst acc) (fmul c (snd acc)), fmul (snd acc) x).

Definition apply_poly (cs : list F64) (origin input : F64) : F64 :=
  match cs with
  | [] => fsub input origin
  | _ => fst (fold_left (poly_step (fsub input origin)) cs (f64_zero, f64_one))
  end.

(** * The array *)

Inductive compression := CNone | CDeflate | CFileAuto.

Record arr := mkArr {
  a_ty : dtype;
  a_compr : compression;            (* carried, never read: no effect on values *)
  a_shape : list Z;
  a_cells : list V;                 (* row-major, length = prod a_shape *)
  a_poly : option (list F64);       (* dataset "polynom_coefficients" present? *)
  a_origin : option F64             (* attribute "expansion_origin" present? *)
}.

Definition with_data (a : arr) (sh : list Z) (cells : list V) : arr :=
  mkArr (a_ty a) (a_compr a) sh cells (a_poly a) (a_origin a).

Definition wf (a : arr) : Prop :=
  shape_ok (a_shape a) /\ List.length (a_cells a) = Z.to_nat (prod (a_shape a)).

Definition zero (a : arr) : V := zero_of (a_ty a).

(** the cell at index [i] *)
Definition get (a : arr) (i : list Z) : V :=
  nth (Z.to_nat (ravel (a_shape a) i)) (a_cells a) (zero a).

(** Block::createDataArray(name, type, dtype, shape, compression): every cell is the fill value *)
Definition create (t : dtype) (c : compression) (sh : list Z) : arr :=
  mkArr t c sh (tab sh (fun _ => zero_of t)) None None.

Definition u64max : Z := two64 - 1.

(** DataSet::setExtent: rank check, then H5Dset_extent (keeps cells by index, fills the rest) *)
Definition set_extent (ro : bool) (a : arr) (sh : list Z) : res arr :=
  if negb (Nat.eqb (List.length sh) (List.length (a_shape a))) then Err "nix::InvalidRank"%string
  else if ro then Err h5error
  else if existsb (fun s => u64max <=? s) sh then UB "domain: extent 2^64-1 is H5S_UNLIMITED"%string
  else Ok (with_data a sh (tab sh (fun i => if in_box (a_shape a) i then get a i else zero a))).

(** DataSet::offsetCount2DataSpaces: first the rank guard (a non-empty offset, or a count given
    together with one, with fewer entries than the data has dimensions: InvalidRank - H5Sselect_hyperslab
    would read [rank] entries from both arrays); then the memory space is [count] (scalar if empty);
    the file selection is  offset && count -> hyperslab(count, offset);  offset && !count ->
    hyperslab of ones;  otherwise the whole extent.  Longer vectors are tolerated (first [rank]
    entries).  Result: file offset and file count, both of the rank. *)
Definition slab_sel (sh off cnt : list Z) : res (list Z * list Z) :=
  let rank := List.length sh in
  if negb (Nat.eqb (List.length off) 0) &&
     ((List.length off <? rank)%nat || (negb (Nat.eqb (List.length cnt) 0) && (List.length cnt <? rank)%nat))
  then Err "nix::InvalidRank"%string
  else if (32 <? List.length cnt)%nat || existsb (fun c => u64max <=? c) cnt
  then Err h5exception                                        (* DataSpace::create(count) fails *)
  else match off, cnt with
       | [], _ => Ok (repeat 0 rank, sh)
       | _ :: _, [] => Ok (firstn rank off, repeat 1 rank)
       | _ :: _, _ :: _ => Ok (firstn rank off, firstn rank cnt)
       end.

(** H5Dread / H5Dwrite accept the transfer: as many elements in memory as selected in the file,
    and the selection is empty or inside the extent *)
Definition xfer_ok (sh foff fcnt cnt : list Z) : bool :=
  (prod cnt =? prod fcnt) && ((prod fcnt =? 0) || fits sh foff fcnt).

(** DataArrayHDF5::write with the array's own element type *)
Definition write_slab (ro : bool) (a : arr) (off cnt : list Z) (vals : list V) : res arr :=
  if negb (zlen vals =? prod cnt) then UB "caller's buffer does not hold count.nelms() elements"%string
  else bind (slab_sel (a_shape a) off cnt) (fun sel =>
    let foff := fst sel in
    let fcnt := snd sel in
    if ro then Err h5error
    else if negb (xfer_ok (a_shape a) foff fcnt cnt) then Err h5error
    else Ok (with_data a (a_shape a)
               (tab (a_shape a) (fun i => if in_slab foff fcnt i
                                          then nth (Z.to_nat (ravel fcnt (vsub i foff))) vals (zero a)
                                          else get a i)))).

(** DataArrayHDF5::read with the array's own element type (no conversion) *)
Definition read_slab (a : arr) (off cnt : list Z) : res (list V) :=
  bind (slab_sel (a_shape a) off cnt) (fun sel =>
    let foff := fst sel in
    let fcnt := snd sel in
    if negb (xfer_ok (a_shape a) foff fcnt cnt) then Err h5error
    else Ok (tab fcnt (fun r => get a (vadd foff r)))).

(** DataArray::getDataDirect(dtype, ...): H5Dread converts to the requested memory type *)
Definition read_direct (a : arr) (dst : dtype) (off cnt : list Z) : res (list V) :=
  bind (slab_sel (a_shape a) off cnt) (fun _ =>
    if negb (conv_ok (a_ty a) dst) then Err h5error
    else bind (read_slab a off cnt) (mapM (conv_val (a_ty a) dst))).

Definition poly_coeffs (a : arr) : list F64 := match a_poly a with Some c => c | None => [] end.
Definition origin_or_zero (a : arr) : F64 := match a_origin a with Some o => o | None => f64_zero end.
Definition calibrated (a : arr) : bool :=
  negb (Nat.eqb (List.length (poly_coeffs a)) 0) || opt_is_some (a_origin a).

Definition as_f64 (v : V) : F64 := match v with VD d => d | _ => f64_zero end.

(** DataArray::ioRead = DataSet::getData(dtype, ...): with a polynomial or an origin the data is
    read as double, transformed, then converted in place to the requested type *)
Definition io_read (a : arr) (dst : dtype) (off cnt : list Z) : res (list V) :=
  if calibrated a then
    (* the caller's buffer would hold std::string objects: refused before anything is read *)
    if dtype_eqb dst TString then Err h5error
    else
    bind (read_direct a TDouble off cnt) (fun ds =>
      if negb (conv_ok TDouble dst) then Err h5error
      else mapM (fun v => conv_val TDouble dst (VD (apply_poly (poly_coeffs a) (origin_or_zero a) (as_f64 v)))) ds)
  else read_direct a dst off cnt.

(** DataArray::appendData, checks in code order *)
Definition append (ro : bool) (a : arr) (axis : Z) (cnt : list Z) (vals : list V) : res (arr * res unit) :=
  let ext := a_shape a in
  let ax := Z.to_nat axis in
  if zlen ext <=? axis then Err "nix::InvalidRank"%string
  else if negb (Nat.eqb (List.length ext) (List.length cnt)) then Err "nix::IncompatibleDimensions"%string
  else if negb (eq_except ext cnt ax) then Err "nix::IncompatibleDimensions"%string
  else
    let off := set_nth (repeat 0 (List.length ext)) ax (nth ax ext 0) in
    let ext' := set_nth ext ax (u64_add (nth ax ext 0) (nth ax cnt 0)) in
    bind (set_extent ro a ext') (fun a1 =>
      (* the array has been resized; a failing write leaves it resized *)
      match write_slab ro a1 off cnt vals with
      | Ok a2 => Ok (a2, Ok tt)
      | Err e => Ok (a1, Err e)
      | UB w => Ok (a1, UB w)
      end).

(** template DataSet::setData(const T &value): dataExtent(shape(value)); setData(dtype, ptr, shape, {}) *)
Definition write_all (ro : bool) (a : arr) (sh : list Z) (vals : list V) : res (arr * res unit) :=
  bind (set_extent ro a sh) (fun a1 =>
    match write_slab ro a1 [] sh vals with
    | Ok a2 => Ok (a2, Ok tt)
    | Err e => Ok (a1, Err e)
    | UB w => Ok (a1, UB w)
    end).

(** Hydra's resize rule for std::vector (data_traits<std::vector<T>>::resize): at most one
    dimension may exceed 1; the vector gets that dimension's size (dimension 0 if there is none) *)
Fixpoint last_nonsingleton (dims : list Z) (i : nat) (acc : nat * nat) : nat * nat :=
  match dims with
  | [] => acc
  | d :: r => last_nonsingleton r (S i) (if 1 <? d then (S (fst acc), i) else acc)
  end.

Definition vector_size (dims : list Z) : res Z :=
  let c := last_nonsingleton dims 0%nat (0%nat, 0%nat) in
  if (1 <? fst c)%nat then Err "nix::InvalidRank"%string else Ok (nth (snd c) dims 0).

(** template DataSet::getData(std::vector<T> &value): resize, then getData(dtype, ptr, {n}, {}) *)
Definition read_vector (a : arr) : res (list V) :=
  bind (vector_size (a_shape a)) (fun n => io_read a (a_ty a) [] [n]).

(** * Sessions: the array lives in the file; a session is an open File in some mode *)

Inductive mode := RW | RO.
Definition is_ro (m : mode) : bool := match m with RO => true | RW => false end.

Record st := mkSt { disk : arr; sess : option mode }.

Inductive op :=
| OWrite (off cnt : list Z) (vals : list V)
| OWriteAll (sh : list Z) (vals : list V)
| OAppend (axis : Z) (cnt : list Z) (vals : list V)
| OExtent (sh : list Z)
| OShape
| ORead (direct : bool) (dst : option dtype) (off cnt : list Z)   (* getDataDirect / getData *)
| OReadVec
| OPoly (cs : option (list F64))
| OOrigin (o : option F64)
| OCal
| OClose
| OOpen (m : mode).

Inductive obs :=
| ObsUnit
| ObsVals (vs : list V)
| ObsShape (sh : list Z)
| ObsCal (cs : list F64) (o : option F64).

Definition with_poly (a : arr) (p : option (list F64)) : arr :=
  mkArr (a_ty a) (a_compr a) (a_shape a) (a_cells a) p (a_origin a).
Definition with_origin (a : arr) (o : option F64) : arr :=
  mkArr (a_ty a) (a_compr a) (a_shape a) (a_cells a) (a_poly a) o.

Definition closed_err : string := "nix::UninitializedEntity"%string.

Definition unit_res (r : res unit) : res obs := bind r (fun _ => Ok ObsUnit).

(** what the session sees is what is stored *)
Definition view (s : st) : arr := disk s.

Definition on_disk (s : st) (a : arr) : st := mkSt a (sess s).

(** one API call: new state and the call's outcome *)
Definition step (s : st) (o : op) : st * res obs :=
  match o, sess s with
  | OClose, _ => (mkSt (disk s) None, Ok ObsUnit)
  | OOpen m, _ => (mkSt (disk s) (Some m), Ok ObsUnit)
  | _, None => (s, Err closed_err)
  | OWrite off cnt vals, Some m =>
      match write_slab (is_ro m) (disk s) off cnt vals with
      | Ok a => (on_disk s a, Ok ObsUnit)
      | Err e => (s, Err e)
      | UB w => (s, UB w)
      end
  | OWriteAll sh vals, Some m =>
      match write_all (is_ro m) (disk s) sh vals with
      | Ok (a, r) => (on_disk s a, unit_res r)
      | Err e => (s, Err e)
      | UB w => (s, UB w)
      end
  | OAppend axis cnt vals, Some m =>
      match append (is_ro m) (disk s) axis cnt vals with
      | Ok (a, r) => (on_disk s a, unit_res r)
      | Err e => (s, Err e)
      | UB w => (s, UB w)
      end
  | OExtent sh, Some m =>
      match set_extent (is_ro m) (disk s) sh with
      | Ok a => (on_disk s a, Ok ObsUnit)
      | Err e => (s, Err e)
      | UB w => (s, UB w)
      end
  | OShape, Some _ => (s, Ok (ObsShape (a_shape (view s))))
  | ORead direct dst off cnt, Some _ =>
      let t := match dst with Some t => t | None => a_ty (view s) end in
      (s, bind (if direct then read_direct (view s) t off cnt else io_read (view s) t off cnt)
               (fun vs => Ok (ObsVals vs)))
  | OReadVec, Some _ => (s, bind (read_vector (view s)) (fun vs => Ok (ObsVals vs)))
  | OPoly (Some cs), Some m =>
      (* read-only: opening the existing dataset works and resizing it fails (H5Error);
         creating it fails (H5Exception) *)
      if is_ro m then (s, Err (if opt_is_some (a_poly (disk s)) then h5error else h5exception))
      else (on_disk s (with_poly (disk s) (Some cs)), Ok ObsUnit)
  | OPoly None, Some m =>
      if is_ro m then (s, Err h5error)          (* forceUpdatedAt fails even if there is nothing to remove *)
      else (on_disk s (with_poly (disk s) None), Ok ObsUnit)
  | OOrigin (Some x), Some m =>
      (* read-only: an existing attribute is refused by LocID::checkWritable (H5Error), creating one
         fails (H5Exception) *)
      if is_ro m then (s, Err (if opt_is_some (a_origin (disk s)) then h5error else h5exception))
      else (on_disk s (with_origin (disk s) (Some x)), Ok ObsUnit)
  | OOrigin None, Some m =>
      if is_ro m then (s, Err h5error)
      else (on_disk s (with_origin (disk s) None), Ok ObsUnit)
  | OCal, Some _ => (s, Ok (ObsCal (poly_coeffs (view s)) (a_origin (view s))))
  end.

Fixpoint run (s : st) (ops : list op) : st * list (res obs) :=
  match ops with
  | [] => (s, [])
  | o :: r => let (s1, x) := step s o in let (s2, xs) := run s1 r in (s2, x :: xs)
  end.

Definition start (t : dtype) (c : compression) (sh : list Z) : st := mkSt (create t c sh) (Some RW).

(** * Typed container routes (include/nix/Hydra.hpp, include/nix/hydra/multiArray.hpp, NDArray.hpp)

    The templates DataSet::setData(value) / setData(value, offset) / getData(value) /
    getData(value, count, offset) / getData(value, offset) build a (dtype, pointer, count, offset)
    request from a container through [data_traits<C>]: its [shape] and its [resize] rule.  A route
    only changes how the request is built; the request itself is one of the operations above.
    The shape a container reports is its extents - whatever the element type. *)

Inductive route :=
| RScalar                      (* data_traits<T>: shape {}, "resize" accepts rank 0 or one element *)
| RCArr1 (n : Z)               (* T[N] *)
| RCArr2 (m n : Z)             (* T[M][N] *)
| RVector                      (* std::vector<T> *)
| RValarray                    (* std::valarray<T> *)
| RMulti (k : nat)             (* boost::multi_array<T, k> *)
| RNDArray.                    (* nix::NDArray *)

(** Hydra<C>::shape() of a container with extents [ext] *)
Definition route_shape (r : route) (ext : list Z) : list Z :=
  match r with
  | RScalar => []
  | _ => ext
  end.

Fixpoint list_Z_eqb (a b : list Z) : bool :=
  match a, b with
  | [], [] => true
  | x :: a', y :: b' => (x =? y) && list_Z_eqb a' b'
  | _, _ => false
  end.

(** data_traits<C>::resize(value, dims): the container's extents afterwards *)
Definition route_resize (r : route) (dims : list Z) : res (list Z) :=
  match r with
  | RScalar => if Nat.eqb (List.length dims) 0 || (prod dims =? 1) then Ok [] else Err "nix::InvalidRank"%string
  | RCArr1 n => if list_Z_eqb dims [n] then Ok [n] else Err "nix::InvalidRank"%string
  | RCArr2 m n => if list_Z_eqb dims [m; n] then Ok [m; n] else Err "nix::InvalidRank"%string
  | RVector =>
      match dims with
      | [] => Err "std::out_of_range"%string          (* dims[0] of an empty NDSize *)
      | _ => bind (vector_size dims) (fun n => Ok [n])
      end
  | RValarray => match dims with [n] => Ok [n] | _ => Err "nix::InvalidRank"%string end
  | RMulti k => if Nat.eqb (List.length dims) k then Ok dims else Err "nix::InvalidRank"%string
  | RNDArray => Ok dims
  end.

Inductive treq :=
| TSetAll (ext : list Z) (vals : list V)               (* setData(value) *)
| TSet (ext off : list Z) (vals : list V)              (* setData(value, offset) *)
| TGetAll                                              (* getData(value) *)
| TGet (off cnt : list Z)                              (* getData(value, count, offset) *)
| TGetAt (ext off : list Z).                           (* getData(value, offset) *)

(** a scalar is one element per dimension of the offset (of the data for an empty offset) *)
Definition scalar_count (cur off : list Z) : list Z :=
  repeat 1 (match off with [] => List.length cur | _ => List.length off end).

(** the request a typed call makes, given the array's current extent [cur] *)
Definition route_op (r : route) (cur : list Z) (q : treq) : res op :=
  match q with
  | TSetAll ext vals => Ok (OWriteAll (route_shape r ext) vals)
  | TSet ext off vals =>
      Ok (OWrite off (match route_shape r ext with [] => scalar_count cur off | sh => sh end) vals)
  | TGetAll => bind (route_resize r cur) (fun ext => Ok (ORead false None [] (route_shape r ext)))
  | TGet off cnt => bind (route_resize r cnt) (fun _ => Ok (ORead false None off cnt))
  | TGetAt ext off =>
      Ok (ORead false None off (match route_shape r ext with [] => scalar_count cur off | sh => sh end))
  end.

(** * Further public routes *)

(** H5Dwrite from a memory type that differs from the array's: the elements are converted first *)
Definition write_slab_as (ro : bool) (a : arr) (mem : dtype) (off cnt : list Z) (vals : list V) : res arr :=
  if negb (conv_ok mem (a_ty a)) then
    bind (slab_sel (a_shape a) off cnt) (fun _ => Err h5error)
  else bind (mapM (conv_val mem (a_ty a)) vals) (fun vs => write_slab ro a off cnt vs).

(** THE line to flip once the create-and-fill template removes the array again when the write fails
    (notes/proposed-fixes/C01-create-fill-rollback.patch) *)
Definition create_fill_rolls_back : bool := true.

(** template Block::createDataArray(name, type, const T &data, DataType data_type, compression):
    element type [elem] of the container, stored type [stored] (data_type, or the element type for
    DataType::Nothing), shape = Hydra shape of the container; create, then
    da.setData(data, offset 0..0).  Result: the array that exists afterwards (if any) and the outcome. *)
Definition create_fill (rollback : bool) (elem stored : dtype) (c : compression) (r : route) (ext : list Z) (vals : list V)
  : option arr * res unit :=
  let sh := route_shape r ext in
  if Nat.eqb (List.length sh) 0 || (32 <? List.length sh)%nat then (None, Err "nix::InvalidRank"%string)
  else
    let a0 := create stored c sh in
    match write_slab_as false a0 elem (repeat 0 (List.length sh)) sh vals with
    | Ok a1 => (Some a1, Ok tt)
    | Err e => (if rollback then None else Some a0, Err e)
    | UB w => (if rollback then None else Some a0, UB w)
    end.

(** nix::NDArray::sub2index + the bound check of get / set: the position is the dot product with the
    row-major strides; only the LINEAR position is checked *)
Definition nd_index (sh sub : list Z) : res Z :=
  if negb (Nat.eqb (List.length sub) (List.length sh)) then Err "std::out_of_range"%string
  else if (0 <=? ravel sh sub) && (ravel sh sub <? prod sh) then Ok (ravel sh sub)
  else Err "nix::OutOfBounds"%string.

(** nix::string_to_data_type: case-insensitive table lookup; the answer is printed with
    data_type_to_string *)
Definition lower_ascii (c : Ascii.ascii) : Ascii.ascii :=
  let n := Ascii.nat_of_ascii c in
  if (65 <=? n)%nat && (n <=? 90)%nat then Ascii.ascii_of_nat (n + 32) else c.

Fixpoint lower (s : string) : string :=
  match s with
  | EmptyString => EmptyString
  | String c r => String (lower_ascii c) (lower r)
  end.

Definition dtype_table : list (string * string) :=
  [ ("bool", "Bool"); ("char", "Char"); ("float", "Float"); ("single", "Float"); ("double", "Double");
    ("int8", "Int8"); ("int16", "Int16"); ("int32", "Int32"); ("int64", "Int64");
    ("uint8", "UInt8"); ("uint16", "UInt16"); ("uint32", "UInt32"); ("uint64", "UInt64");
    ("string", "String"); ("opaque", "Opaque"); ("nothing", "Nothing") ]%string.

Fixpoint assoc_str (k : string) (l : list (string * string)) : option string :=
  match l with
  | [] => None
  | (a, b) :: r => if String.eqb a k then Some b else assoc_str k r
  end.

Definition string_to_dtype_name (s : string) : res string :=
  match assoc_str (lower s) dtype_table with
  | Some n => Ok n
  | None => Err "std::invalid_argument"%string
  end.

(** the names data_type_to_string prints *)
Definition dtype_names : list string :=
  [ "Bool"; "Char"; "Float"; "Double"; "Int8"; "Int16"; "Int32"; "Int64"; "UInt8"; "UInt16"; "UInt32"; "UInt64";
    "String"; "Nothing"; "Opaque" ]%string.
