(** C14 — metadata Property: typed values, unit, uncertainty, definition.

    MODEL (definitions only; proofs are in PropProofs.v).  Written after
      src/Property.cpp, include/nix/Property.hpp, src/Variant.cpp, src/Section.cpp (createProperty),
      backend/hdf5/PropertyHDF5.cpp, backend/hdf5/SectionHDF5.cpp (createProperty overloads),
      backend/hdf5/h5x/H5DataType.cpp (which types can be stored).
    A property is a 1-D typed HDF5 dataset (its cells are the values) plus attributes on that
    dataset.  The model has two layers:
      - the storage layer ([dataset], [attrs]; set_extent / write-all / read-all / set/remove attribute),
        on which the library's calls are replayed statement by statement ([step]);
      - the specification ([spec_step]): "the property holds the sequence last assigned to it".
    Doubles are opaque payloads ([F64], one NaN); integers are [Z] (the C++ types bound them, see [value_wf]);
    strings are byte strings without NUL (the C API cannot carry NUL; domain of the check). *)
From Coq Require Import ZArith Bool String Ascii List DecimalString.
From Flocq Require Import BinarySingleNaN.
Require Import NixV.Base.Prelude NixV.Base.F64.
Import ListNotations.
Local Open Scope string_scope.

(** * Value types and values *)

(** [nix::DataType].  The seven types a [Variant] can hold; [TOther]: types HDF5 can store but a Variant
    cannot hold (Int8 Int16 UInt8 UInt16 Float Opaque); [TBad]: types [data_type_to_h5_filetype]
    refuses (Char, Nothing). *)
Inductive vtype :=
| TBool | TInt32 | TUInt32 | TInt64 | TUInt64 | TDouble | TString
| TOther (name : string)
| TBad (name : string).

(** [nix::Variant].  [VNone] is the empty Variant (type Nothing). *)
Inductive value :=
| VBool (b : bool)
| VInt32 (z : Z) | VUInt32 (z : Z) | VInt64 (z : Z) | VUInt64 (z : Z)
| VDouble (d : F64)
| VString (s : string)
| VNone.

Definition type_of (v : value) : vtype :=
  match v with
  | VBool _ => TBool | VInt32 _ => TInt32 | VUInt32 _ => TUInt32 | VInt64 _ => TInt64
  | VUInt64 _ => TUInt64 | VDouble _ => TDouble | VString _ => TString | VNone => TBad "Nothing"
  end.

Definition vtype_eqb (a b : vtype) : bool :=
  match a, b with
  | TBool, TBool | TInt32, TInt32 | TUInt32, TUInt32 | TInt64, TInt64 | TUInt64, TUInt64
  | TDouble, TDouble | TString, TString => true
  | TOther x, TOther y => String.eqb x y
  | TBad x, TBad y => String.eqb x y
  | _, _ => false
  end.

(** the types the property text lists (= what a Variant can hold, apart from Nothing) *)
Definition supported (t : vtype) : bool :=
  match t with TOther _ | TBad _ => false | _ => true end.

(** [data_type_to_h5_filetype] succeeds *)
Definition storable (t : vtype) : bool :=
  match t with TBad _ => false | _ => true end.

(** the C++ types bound the integers (domain of the correspondence; the model does not need it) *)
Definition value_wf (v : value) : Prop :=
  match v with
  | VInt32 z => (-2147483648 <= z <= 2147483647)%Z
  | VUInt32 z => (0 <= z <= 4294967295)%Z
  | VInt64 z => (-9223372036854775808 <= z <= 9223372036854775807)%Z
  | VUInt64 z => (0 <= z <= 18446744073709551615)%Z
  | _ => True
  end.

(** what a never-written dataset element reads as: HDF5's fill value zero.  For a variable-length
    string that is a null [char*]; the property text wants "of any length including empty", the
    model says the empty string (the pinned code crashes on it under UBSan, see PropProofs.v). *)
Definition default_of (t : vtype) : value :=
  match t with
  | TBool => VBool false
  | TInt32 => VInt32 0 | TUInt32 => VUInt32 0 | TInt64 => VInt64 0 | TUInt64 => VUInt64 0
  | TDouble => VDouble (B754_zero false)
  | TString => VString ""
  | _ => VNone
  end.

(** backend/hdf5/SectionHDF5.hpp: #define DEFAULT_PROPERTY_SIZE 8 (the correspondence run checks it) *)
Definition DEFAULT_PROPERTY_SIZE : nat := 8.

(** * Storage layer *)

Record dataset := { ds_type : vtype; ds_cells : list value }.

Inductive attr := AStr (s : string) | ADbl (d : F64).

Definition attrs := list (string * attr).

Fixpoint attr_get (k : string) (a : attrs) : option attr :=
  match a with
  | [] => None
  | (k', v) :: r => if String.eqb k k' then Some v else attr_get k r
  end.

Fixpoint attr_remove (k : string) (a : attrs) : attrs :=
  match a with
  | [] => []
  | (k', v) :: r => if String.eqb k k' then attr_remove k r else (k', v) :: attr_remove k r
  end.

(** [setAttr]: overwrite in place when present, else create *)
Fixpoint attr_set (k : string) (v : attr) (a : attrs) : attrs :=
  match a with
  | [] => [(k, v)]
  | (k', v') :: r => if String.eqb k k' then (k, v) :: r else (k', v') :: attr_set k v r
  end.

Definition attr_has (k : string) (a : attrs) : bool := opt_is_some (attr_get k a).

(** the stored property: dataset + its attributes (entity_id / name / created_at / updated_at are
    not observed by this property and are left out) *)
Record pstore := { ps_ds : dataset; ps_attrs : attrs }.

(** the file as far as this property is concerned, plus the mode it is open in *)
Record fstate := { f_prop : option pstore; f_ro : bool;
                   f_leak : option F64 (* session-only copy of the uncertainty, see [q_ro_unc_leak] *) }.

Definition H5ERR : string := "nix::hdf5::H5Error".
Definition INVARG : string := "std::invalid_argument".

(** [H5Dset_extent] on a 1-D dataset: keep the prefix, fill the rest with the fill value *)
Definition resize {A} (n : nat) (d : A) (l : list A) : list A :=
  firstn n l ++ repeat d (n - List.length l).

Definition ds_set_extent (ro : bool) (n : nat) (ds : dataset) : res dataset :=
  if ro then Err H5ERR
  else Ok {| ds_type := ds_type ds; ds_cells := resize n (default_of (ds_type ds)) (ds_cells ds) |}.

(** positional overwrite of the whole extent ([H5S_ALL] on both sides) *)
Fixpoint overwrite (cells vs : list value) : list value :=
  match cells, vs with
  | _ :: c, v :: r => v :: overwrite c r
  | _, _ => []
  end.

Definition ds_write_all (ro : bool) (ds : dataset) (vs : list value) : res dataset :=
  if ro then Err H5ERR
  else if Nat.eqb (List.length vs) (List.length (ds_cells ds))
       then Ok {| ds_type := ds_type ds; ds_cells := overwrite (ds_cells ds) vs |}
       else Err H5ERR.

(** * The library calls *)

(** switches for the places where the pinned tree deviates from the property text and merely
    behaves differently (no crash); [pinned] is what the correspondence run uses, the theorems are
    stated for both settings (PropProofs.v: [..._refuted] / [..._partial] for [pinned],
    the full statements for [repaired]).
      - [q_resize_first]: [PropertyHDF5::values] resizes the dataset before the per-element
        [Variant::get<T>] type check throws (DESIGN.md section 9 item 11);
      - [q_create_late_check]: [Section::createProperty(name, vector)] creates the dataset before
        [values] finds the mixed types, the property stays behind (item 11, front-end half);
      - [q_accept_unholdable]: [createProperty(name, DataType)] accepts every type HDF5 can store,
        also those no Variant can hold (item 27);
      - [q_ro_unc_leak]: on a ReadOnly file [uncertainty(d)] throws, but when the attribute already
        exists HDF5 (1.10.8) has overwritten its cached copy before it notices: until the file is
        closed [uncertainty()] returns the rejected value (found by the C14 correspondence run). *)
Record quirks := { q_resize_first : bool; q_create_late_check : bool; q_accept_unholdable : bool; q_ro_unc_leak : bool }.
Definition pinned : quirks :=
  {| q_resize_first := true; q_create_late_check := true; q_accept_unholdable := true; q_ro_unc_leak := true |}.
Definition repaired : quirks :=
  {| q_resize_first := false; q_create_late_check := false; q_accept_unholdable := false; q_ro_unc_leak := false |}.

Definition homogeneous (t : vtype) (vs : list value) : bool :=
  forallb (fun v => vtype_eqb (type_of v) t) vs.

Definition with_ds (ps : pstore) (ds : dataset) : pstore := {| ps_ds := ds; ps_attrs := ps_attrs ps |}.
Definition with_attrs (ps : pstore) (a : attrs) : pstore := {| ps_ds := ps_ds ps; ps_attrs := a |}.

(** [PropertyHDF5::deleteValues]: setExtent({0}) *)
Definition prop_delete_values (ro : bool) (ps : pstore) : pstore * res unit :=
  match ds_set_extent ro 0 (ps_ds ps) with
  | Ok ds => (with_ds ps ds, Ok tt)
  | Err e => (ps, Err e)
  | UB w => (ps, UB w)
  end.

(** [PropertyHDF5::values(const std::vector<Variant>&)], statement by statement; the store is
    returned also when the call throws (that is where a trace shows). *)
Definition prop_set_values (q : quirks) (ro : bool) (ps : pstore) (vs : list value) : pstore * res unit :=
  match vs with
  | [] => prop_delete_values ro ps
  | v0 :: _ =>
    let t := ds_type (ps_ds ps) in
    if negb (vtype_eqb (type_of v0) t) then (ps, Err INVARG)            (* "Inconsistent DataTypes!" *)
    else if negb (q_resize_first q) && negb (homogeneous t vs) then (ps, Err INVARG)   (* repaired order *)
    else
      match ds_set_extent ro (List.length vs) (ps_ds ps) with
      | Ok ds1 =>
        (* do_write_value<T>: std::transform with val.get<T>() throws at the first foreign element *)
        if negb (homogeneous t vs) then (with_ds ps ds1, Err INVARG)    (* "Incompatible DataType" *)
        else match ds_write_all ro ds1 vs with
             | Ok ds2 => (with_ds ps ds2, Ok tt)
             | Err e => (with_ds ps ds1, Err e)
             | UB w => (with_ds ps ds1, UB w)
             end
      | Err e => (ps, Err e)
      | UB w => (ps, UB w)
      end
  end.

(** [PropertyHDF5::values()]: dispatch on the dataset type; a type outside the seven falls through
    the switch (assert; an empty vector when assertions are compiled out) *)
Definition prop_values (ps : pstore) : list value :=
  if supported (ds_type (ps_ds ps)) then ds_cells (ps_ds ps) else [].

Definition prop_value_count (ps : pstore) : Z := zlen (ds_cells (ps_ds ps)).

Definition is_blank (c : ascii) : bool := Ascii.eqb c " "%char || Ascii.eqb c "009"%char.

(** [util::deblankString]: removes every space and tab (isblank in the C locale; bytes >= 0x80 are kept) *)
Fixpoint deblank (s : string) : string :=
  match s with
  | EmptyString => EmptyString
  | String c r => if is_blank c then deblank r else String c (deblank r)
  end.

Definition is_empty (s : string) : bool := match s with EmptyString => true | _ => false end.

(** every setter ends in forceUpdatedAt(), i.e. a setAttr: on a read-only file each of them throws *)
Definition attr_write (ro : bool) (ps : pstore) (f : attrs -> attrs) : pstore * res unit :=
  if ro then (ps, Err H5ERR) else (with_attrs ps (f (ps_attrs ps)), Ok tt).

(** [Property::unit(string)]: deblank; empty => unit(none); else setAttr("unit", deblanked) *)
Definition prop_set_unit (ro : bool) (ps : pstore) (s : string) : pstore * res unit :=
  let u := deblank s in
  if is_empty u then attr_write ro ps (attr_remove "unit")
  else attr_write ro ps (attr_set "unit" (AStr u)).

(** [Property::definition(string)]: empty => EmptyString (front-end), else setAttr *)
Definition prop_set_definition (ro : bool) (ps : pstore) (s : string) : pstore * res unit :=
  if is_empty s then (ps, Err "nix::EmptyString")
  else attr_write ro ps (attr_set "definition" (AStr s)).

Definition get_str (k : string) (ps : pstore) : option string :=
  match attr_get k (ps_attrs ps) with Some (AStr s) => Some s | _ => None end.
Definition get_dbl (k : string) (ps : pstore) : option F64 :=
  match attr_get k (ps_attrs ps) with Some (ADbl d) => Some d | _ => None end.

(** [SectionHDF5::createProperty(name, dtype, shape)]: the dataset with [n] never-written elements *)
Definition create_dataset (t : vtype) (n : nat) : res pstore :=
  if storable t then Ok {| ps_ds := {| ds_type := t; ds_cells := repeat (default_of t) n |}; ps_attrs := [] |}
  else Err INVARG.                                                       (* data_type_to_h5_filetype *)

(** * Histories *)

(** one line of a case file *)
Inductive op :=
| NewT (t : vtype)            (* fresh file, section; createProperty(name, DataType) *)
| NewV (v : value)            (* ... createProperty(name, Variant) *)
| NewVs (vs : list value)     (* ... createProperty(name, vector<Variant>) *)
| SetVals (vs : list value)   (* values(vector) *)
| Clear                       (* deleteValues() *)
| ClearNone                   (* values(none) *)
| SetUnit (s : string) | UnitNone
| SetUnc (d : F64) | UncNone
| SetDef (s : string) | DefNone
| Reopen (ro : bool)          (* close; open ReadOnly / ReadWrite; look the property up again *)
| Obs                         (* dataType, valueCount, values, unit, uncertainty, definition *)
| Count                       (* valueCount *)
(* further public routes: the Variant value class itself (no file involved) and Property::compare / operator<< *)
| VEq (a b : value)           (* operator== / != on Variant (and on the legacy nix::Value wrapper) *)
| VGet (t : vtype) (v : value)   (* get(T&) / get<T>() with the requested type; [TBad "Nothing"] is get(none_t&) *)
| VGetNoneT (v : value)       (* the specialisation get<none_t>(): no type check *)
| VShow (v : value)           (* operator<< *)
| VSup (t : vtype)            (* Variant::supports_type *)
| VSwap (a b : value)         (* a.swap(b), then nix::swap(a, b) *)
| Cmp (other : string)        (* compare() with a property of that name (same section; its own name: another section) *)
| PShow.                      (* operator<<(Property) *)

Record observation := {
  o_type : vtype; o_count : Z; o_vals : list value;
  o_unit : option string; o_unc : option F64; o_def : option string }.

Inductive answer :=
| ADone
| ANoProp                     (* reopen found no property *)
| AAbsent                     (* obs/count: the section has no property *)
| ACount (n : Z)
| AObs (o : observation)
| ABits (bs : list bool)
| AVals (vs : list value)
| AText (s : string)
| ASigns (a b c : Z).

Definition observe (ps : pstore) : observation :=
  {| o_type := ds_type (ps_ds ps); o_count := prop_value_count ps; o_vals := prop_values ps;
     o_unit := get_str "unit" ps; o_unc := get_dbl "uncertainty" ps; o_def := get_str "definition" ps |}.

(** ** The Variant value class *)

(** [operator==(Variant, Variant)]: same type and same payload; doubles by the C++ == (NaN differs from itself, -0.0 equals 0.0) *)
Definition variant_eqb (a b : value) : bool :=
  match a, b with
  | VBool x, VBool y => Bool.eqb x y
  | VInt32 x, VInt32 y | VUInt32 x, VUInt32 y | VInt64 x, VInt64 y | VUInt64 x, VUInt64 y => Z.eqb x y
  | VDouble x, VDouble y => feq x y
  | VString x, VString y => String.eqb x y
  | VNone, VNone => true
  | _, _ => false
  end.

(** [get(T&)] / [get<T>()]: [check_argument_type] *)
Definition variant_get (t : vtype) (v : value) : res value :=
  if vtype_eqb (type_of v) t then Ok v else Err INVARG.

Definition type_name (t : vtype) : string :=
  match t with
  | TBool => "Bool" | TInt32 => "Int32" | TUInt32 => "UInt32" | TInt64 => "Int64" | TUInt64 => "UInt64"
  | TDouble => "Double" | TString => "String" | TOther n => n | TBad n => n
  end.

Definition dec_of_Z (z : Z) : string := NilZero.string_of_int (Z.to_int z).

(** [operator<<(ostream, Variant)]; the decimal rendering of a double is left out ("?") *)
Definition variant_show (prefix : string) (v : value) : string :=
  prefix ++ "{[" ++ type_name (type_of v) ++ "] " ++
  match v with
  | VBool b => if b then "1" else "0"
  | VInt32 z | VUInt32 z | VInt64 z | VUInt64 z => dec_of_Z z
  | VDouble _ => "?"
  | VString s => s
  | VNone => ""
  end ++ "}".

(** [Variant::supports_type]: the seven and Nothing *)
Definition variant_supports (t : vtype) : bool := supported t || vtype_eqb t (TBad "Nothing").

(** [std::string::compare] reduced to its sign: bytes as unsigned, a proper prefix is smaller *)
Fixpoint str_cmp (a b : string) : Z :=
  match a, b with
  | EmptyString, EmptyString => 0
  | EmptyString, _ => -1
  | _, EmptyString => 1
  | String x a', String y b' =>
    match N.compare (N_of_ascii x) (N_of_ascii y) with
    | Lt => -1 | Gt => 1 | Eq => str_cmp a' b'
    end
  end%Z.

Definition PROP_NAME : string := "p".

(** the answers of the routes that do not touch the file (shared by model and specification: they are functions of the arguments) *)
Definition pure_answer (o : op) : option answer :=
  match o with
  | VEq a b => Some (ABits [variant_eqb a b; negb (variant_eqb a b)])
  | VGetNoneT _ => Some (AVals [VNone])
  | VShow v => Some (AText (variant_show "Variant" v))
  | VSup t => Some (ABits [variant_supports t])
  | VSwap a b => Some (AVals [b; a; a; b])
  | _ => None
  end.

(** [Property::compare]: the names decide; equal names (a property called the same in another section) fall
    through to the ids, of which only "different, and antisymmetric" is known: answered as the signs (1, -1, 0)
    by convention of the drivers *)
Definition compare_signs (other : string) : answer :=
  if String.eqb other PROP_NAME then AText "ids"
  else ASigns (str_cmp PROP_NAME other) (str_cmp other PROP_NAME) 0.

Definition fresh : fstate := {| f_prop := None; f_ro := false; f_leak := None |}.
Definition with_prop (s : fstate) (ps : pstore) : fstate := {| f_prop := Some ps; f_ro := f_ro s; f_leak := f_leak s |}.

(** what the getters answer in this session *)
Definition observe_in (s : fstate) (ps : pstore) : observation :=
  let o := observe ps in
  match f_leak s with
  | Some d => {| o_type := o_type o; o_count := o_count o; o_vals := o_vals o;
                 o_unit := o_unit o; o_unc := Some d; o_def := o_def o |}
  | None => o
  end.

Definition lift (s : fstate) (r : pstore * res unit) : fstate * res answer :=
  (with_prop s (fst r), bind (snd r) (fun _ => Ok ADone)).

(** the three createProperty overloads on a fresh file (name "p": front-end name checks pass,
    no duplicate) *)
Definition create_t (q : quirks) (t : vtype) : fstate * res answer :=
  if negb (q_accept_unholdable q) && negb (supported t) then (fresh, Err INVARG)
  else match create_dataset t DEFAULT_PROPERTY_SIZE with
       | Ok ps => (with_prop fresh ps, Ok ADone)
       | Err e => (fresh, Err e)
       | UB w => (fresh, UB w)
       end.

Definition create_v (q : quirks) (v : value) : fstate * res answer :=
  match create_dataset (type_of v) DEFAULT_PROPERTY_SIZE with
  | Ok ps => lift fresh (prop_set_values q false ps [v])
  | Err e => (fresh, Err e)
  | UB w => (fresh, UB w)
  end.

Definition create_vs (q : quirks) (vs : list value) : fstate * res answer :=
  match vs with
  | [] => (fresh, Err "std::runtime_error")          (* "Trying to create a property without a value!" *)
  | v0 :: _ =>
    if negb (q_create_late_check q) && negb (homogeneous (type_of v0) vs) then (fresh, Err INVARG)
    else match create_dataset (type_of v0) (List.length vs) with
         | Ok ps => lift fresh (prop_set_values q false ps vs)
         | Err e => (fresh, Err e)
         | UB w => (fresh, UB w)
         end
  end.

Definition on_prop (s : fstate) (f : pstore -> pstore * res unit) : fstate * res answer :=
  match f_prop s with
  | Some ps => lift s (f ps)
  | None => (s, Err "nix::UninitializedEntity")
  end.

Definition step (q : quirks) (o : op) (s : fstate) : fstate * res answer :=
  match o with
  | NewT t => create_t q t
  | NewV v => create_v q v
  | NewVs vs => create_vs q vs
  | SetVals vs => on_prop s (fun ps => prop_set_values q (f_ro s) ps vs)
  | Clear | ClearNone => on_prop s (prop_delete_values (f_ro s))
  | SetUnit u => on_prop s (fun ps => prop_set_unit (f_ro s) ps u)
  | UnitNone => on_prop s (fun ps => attr_write (f_ro s) ps (attr_remove "unit"))
  | SetUnc d =>
    match f_prop s with
    | Some ps =>
      if f_ro s && q_ro_unc_leak q && attr_has "uncertainty" (ps_attrs ps)
      then ({| f_prop := f_prop s; f_ro := f_ro s; f_leak := Some d |}, Err H5ERR)
      else on_prop s (fun ps => attr_write (f_ro s) ps (attr_set "uncertainty" (ADbl d)))
    | None => on_prop s (fun ps => attr_write (f_ro s) ps (attr_set "uncertainty" (ADbl d)))
    end
  | UncNone => on_prop s (fun ps => attr_write (f_ro s) ps (attr_remove "uncertainty"))
  | SetDef d => on_prop s (fun ps => prop_set_definition (f_ro s) ps d)
  | DefNone => on_prop s (fun ps => attr_write (f_ro s) ps (attr_remove "definition"))
  | Reopen ro => ({| f_prop := f_prop s; f_ro := ro; f_leak := None |},
                  Ok (match f_prop s with Some _ => ADone | None => ANoProp end))
  | Obs => (s, Ok (match f_prop s with Some ps => AObs (observe_in s ps) | None => AAbsent end))
  | Count => (s, Ok (match f_prop s with Some ps => ACount (prop_value_count ps) | None => AAbsent end))
  | VGet t v => (s, bind (variant_get t v) (fun x => Ok (AVals [x])))
  | VEq _ _ | VGetNoneT _ | VShow _ | VSup _ | VSwap _ _ =>
    (s, match pure_answer o with Some a => Ok a | None => Err "unreachable" end)
  | Cmp other =>
    (s, match f_prop s with
        | None => Err "nix::UninitializedEntity"
        | Some _ => if f_ro s then Err H5ERR          (* the second property cannot be created on a read-only file *)
                    else Ok (compare_signs other)
        end)
  | PShow => (s, match f_prop s with
                 | None => Err "nix::UninitializedEntity"
                 | Some _ => Ok (AText ("Property: {name = " ++ PROP_NAME ++ "}"))
                 end)
  end.

(** a rejected create on the pinned tree can leave a property the section lists although the caller
    never got a handle: the driver then looks it up, so the model state already has it ([f_prop]). *)

Fixpoint run (q : quirks) (ops : list op) (s : fstate) : list (res answer) :=
  match ops with
  | [] => []
  | o :: r => let '(s', a) := step q o s in a :: run q r s'
  end.

Fixpoint final (q : quirks) (ops : list op) (s : fstate) : fstate :=
  match ops with
  | [] => s
  | o :: r => final q r (fst (step q o s))
  end.

(** * Specification: the property holds what was last assigned to it *)

Record aprop := {
  a_type : vtype; a_vals : list value;
  a_unit : option string; a_unc : option F64; a_def : option string }.

Record astate := { a_prop : option aprop; a_ro : bool }.

Definition afresh : astate := {| a_prop := None; a_ro := false |}.

Definition anew (t : vtype) (vs : list value) : astate :=
  {| a_prop := Some {| a_type := t; a_vals := vs; a_unit := None; a_unc := None; a_def := None |}; a_ro := false |}.

Definition aobserve (p : aprop) : observation :=
  {| o_type := a_type p; o_count := zlen (a_vals p); o_vals := a_vals p;
     o_unit := a_unit p; o_unc := a_unc p; o_def := a_def p |}.

(** [None] = the call must be rejected (any exception) and, by the first component, leave no trace *)
Definition aupdate (a : astate) (f : aprop -> option aprop) : astate * option answer :=
  match a_prop a with
  | None => (a, None)
  | Some p =>
    if a_ro a then (a, None)
    else match f p with
         | Some p' => ({| a_prop := Some p'; a_ro := a_ro a |}, Some ADone)
         | None => (a, None)
         end
  end.

Definition set_vals (p : aprop) (vs : list value) : aprop :=
  {| a_type := a_type p; a_vals := vs; a_unit := a_unit p; a_unc := a_unc p; a_def := a_def p |}.
Definition set_unit (p : aprop) (u : option string) : aprop :=
  {| a_type := a_type p; a_vals := a_vals p; a_unit := u; a_unc := a_unc p; a_def := a_def p |}.
Definition set_unc (p : aprop) (u : option F64) : aprop :=
  {| a_type := a_type p; a_vals := a_vals p; a_unit := a_unit p; a_unc := u; a_def := a_def p |}.
Definition set_def (p : aprop) (u : option string) : aprop :=
  {| a_type := a_type p; a_vals := a_vals p; a_unit := a_unit p; a_unc := a_unc p; a_def := u |}.

Definition spec_step (o : op) (a : astate) : astate * option answer :=
  match o with
  | NewT t => if supported t then (anew t (repeat (default_of t) DEFAULT_PROPERTY_SIZE), Some ADone) else (afresh, None)
  | NewV v => if supported (type_of v) then (anew (type_of v) [v], Some ADone) else (afresh, None)
  | NewVs vs =>
    match vs with
    | [] => (afresh, None)
    | v0 :: _ => if supported (type_of v0) && homogeneous (type_of v0) vs
                 then (anew (type_of v0) vs, Some ADone) else (afresh, None)
    end
  | SetVals vs => aupdate a (fun p => if homogeneous (a_type p) vs then Some (set_vals p vs) else None)
  | Clear | ClearNone => aupdate a (fun p => Some (set_vals p []))
  | SetUnit u => aupdate a (fun p => Some (set_unit p (if is_empty (deblank u) then None else Some (deblank u))))
  | UnitNone => aupdate a (fun p => Some (set_unit p None))
  | SetUnc d => aupdate a (fun p => Some (set_unc p (Some d)))
  | UncNone => aupdate a (fun p => Some (set_unc p None))
  | SetDef d => aupdate a (fun p => if is_empty d then None else Some (set_def p (Some d)))
  | DefNone => aupdate a (fun p => Some (set_def p None))
  | Reopen ro => ({| a_prop := a_prop a; a_ro := ro |}, Some (match a_prop a with Some _ => ADone | None => ANoProp end))
  | Obs => (a, Some (match a_prop a with Some p => AObs (aobserve p) | None => AAbsent end))
  | Count => (a, Some (match a_prop a with Some p => ACount (zlen (a_vals p)) | None => AAbsent end))
  | VGet t v => (a, match variant_get t v with Ok x => Some (AVals [x]) | _ => None end)
  | VEq _ _ | VGetNoneT _ | VShow _ | VSup _ | VSwap _ _ => (a, pure_answer o)
  | Cmp other => (a, match a_prop a with
                     | None => None
                     | Some _ => if a_ro a then None else Some (compare_signs other)
                     end)
  | PShow => (a, match a_prop a with
                 | None => None
                 | Some _ => Some (AText ("Property: {name = " ++ PROP_NAME ++ "}"))
                 end)
  end.

Fixpoint spec_run (ops : list op) (a : astate) : list (option answer) :=
  match ops with
  | [] => []
  | o :: r => let '(a', x) := spec_step o a in x :: spec_run r a'
  end.

(** does a model outcome satisfy a specification answer? *)
Definition meets (m : res answer) (s : option answer) : Prop :=
  match s, m with
  | None, Err _ => True
  | Some x, Ok y => x = y
  | _, _ => False
  end.
